import PdfVerif.Driver.C01
import PdfVerif.Driver.CNT
/-!
`pdfdriver`: reads one operation per line `<property> <op> <args…>` from stdin and prints one
result line per input line.  Core Lean only (no Mathlib) so that it links as an executable.
-/
open PdfVerif

def dispatch (line : String) : String :=
  match (line.splitOn " ").filter (· ≠ "") with
  | "C01" :: rest => Driver.C01.handle rest
  | "CNT" :: rest => Driver.CNT.handle rest
  | _ => "bad-property"

partial def loop (h : IO.FS.Stream) (out : IO.FS.Stream) : IO Unit := do
  let line ← h.getLine
  if line.isEmpty then return ()
  let l := (line.dropRightWhile fun c => c == '\n' || c == '\r')
  out.putStrLn (dispatch l)
  loop h out

def main : IO Unit := do
  let out ← IO.getStdout
  loop (← IO.getStdin) out
  out.flush

import PdfVerif.Basic
import PdfVerif.Generated.Facts
import PdfVerif.Props.C01

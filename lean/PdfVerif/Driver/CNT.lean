import PdfVerif.Model.CNTScan
import PdfVerif.Model.CNTWrite
import PdfVerif.Model.CNTState
import PdfVerif.Model.CNTBuilder
/-! Line-protocol handler for C15 (content streams), key `CNT`. -/
namespace PdfVerif.Driver.CNT
open PdfVerif PdfVerif.CNT

mutual
/-- canonical output form: dictionaries sorted by key bytes, nil entries dropped, nilArr ↦ null -/
def norm : Obj → Obj
  | .arr xs => .arr (normList xs)
  | .dict kv => .dict (sortKV (normKV kv))
  | .nilArr => .null
  | o => o
def normList : List Obj → List Obj
  | [] => []
  | x :: xs => norm x :: normList xs
def normKV : List (Bytes × Obj) → List (Bytes × Obj)
  | [] => []
  | (k, v) :: rest =>
    match norm v with
    | .null => normKV rest
    | v' => (k, v') :: normKV rest
end

/-- an operator on the wire: the array `[name args…]` with the name as an operator object -/
def opWire (op : Bytes × List Obj) : String := (Obj.arr (.op op.1 :: normList op.2)).wire

def opsWire (ops : List (Bytes × List Obj)) : String :=
  if ops.isEmpty then "-" else String.join (ops.map opWire)

def opsOfWire (s : String) : Option (List (Bytes × List Obj)) :=
  match objsOfWire s with
  | none => none
  | some os => os.mapM fun o =>
      match o with
      | .arr (.op n :: args) => some (n, args)
      | _ => none

def showOne (r : Res (Bytes × List Obj)) : String :=
  match r with
  | .ok op rest => s!"ok {opWire op} {rest.length}"
  | .eof => "eof"
  | .perr rest => s!"perr {rest.length}"
  | .fuel => "fuel"

/-- all tokens up to the first error -/
def tokens : Nat → Bytes → List Obj → String
  | 0, _, _ => "fuel"
  | f+1, inp, acc =>
    match scanToken inp with
    | .ok t rest => tokens f rest (acc ++ [t])
    | .eof => s!"{(Obj.arr (normList acc)).wire} eof"
    | .perr rest => s!"{(Obj.arr (normList acc)).wire} perr {rest.length}"
    | .fuel => "fuel"

def names (ns : List Bytes) : String :=
  if ns.isEmpty then "-" else String.intercalate "," (ns.map hexOfBytes)

def showSt (s : St) : String :=
  s!"obj={s.obj} nest={String.intercalate "" (s.nesting.reverse.map toString)} depth={s.stack.length} closing={names (closingOperators s)}"

/-- apply operators one by one; report the index of the first rejected one -/
def applyAll (s : St) (idx : Nat) : List (Bytes × List Obj) → St × Option (Nat × StErr)
  | [] => (s, none)
  | (n, a) :: rest =>
    match applyOperator s n a with
    | .error e => (s, some (idx, e))
    | .ok s' => applyAll s' (idx + 1) rest

mutual
/-- `hasNonFinite` of `Builder.emit`: a real which is `NaN`, `+Inf` or `-Inf` (as the wire spells them) -/
def nonFinite : Obj → Bool
  | .real t => t == [78, 97, 78] || t == [43, 73, 110, 102] || t == [45, 73, 110, 102]
  | .arr xs => nonFiniteList xs
  | .dict kv => nonFiniteKV kv
  | _ => false
def nonFiniteList : List Obj → Bool
  | [] => false
  | x :: xs => nonFinite x || nonFiniteList xs
def nonFiniteKV : List (Bytes × Obj) → Bool
  | [] => false
  | (_, v) :: rest => nonFinite v || nonFiniteKV rest
end

/-- the Builder model call by call.  A call is `x` (the method refused its arguments without
    emitting) or the operators it appended to the stream (`-`: none), which go through
    `Bld.emit` (pre-check: finite operands; the version table is not modelled, the harness
    sends calls which it does not gate).  Output: `Err != nil` after every call — `emit` and
    `fail` never clear it. -/
def bldFlags (b : Bld) : List String → Option String
  | [] => some ""
  | c :: rest =>
    let b' : Option Bld :=
      if c == "x" then some (b.act (fun _ _ => true) .fail)
      else (opsOfWire c).map fun os =>
        os.foldl (fun b op => b.emit (fun _ a => !nonFiniteList a) op.1 op.2) b
    match b' with
    | some b' => (bldFlags b' rest).map fun s => (if b'.err then "1" else "0") ++ s
    | none => none

def handle (args : List String) : String :=
  match args with
  | ["tok", hex] =>
    match bytesOfHex hex with
    | none => "bad-hex"
    | some bs => tokens (bs.length + 2) bs []
  | ["one", hex] =>
    match bytesOfHex hex with
    | none => "bad-hex"
    | some bs => showOne (scanOne bs)
  | ["scan", hex] =>
    match bytesOfHex hex with
    | none => "bad-hex"
    | some bs =>
      match scan bs with
      | some ops => "ok " ++ opsWire ops
      | none => "fuel"
  | ["fmt", ops] =>
    match opsOfWire ops with
    | none => "bad-wire"
    | some os =>
      match fmtOps os with
      | some bs => "ok " ++ hexWire bs
      | none => "err"
  | ["apply", ct, strict, ops] =>
    match opsOfWire ops, ct.toNat? with
    | some os, some c =>
      -- version class: "0" Version = 0, "1" 0 < Version < 2.0, "2" Version ≥ 2.0
      let (s, rej) := applyAll (initSt c (strict == "1") (strict != "0")) 0 os
      match rej with
      | some (i, _) => s!"rej {i} {showSt s}"
      | none =>
        -- accepted: also apply the closing operators
        let cl := closingOperators s
        let (s', rej') := applyAll s 0 (cl.map fun n => (n, []))
        let after := match rej' with
          | some (i, _) => s!"closing-rej {i}"
          | none => s!"closed nest={s'.nesting.length} can={canClose s'}"
        s!"ok {showSt s} {after}"
    | _, _ => "bad-wire"
  | ["bld", ct, ver, calls] =>
    match ct.toNat? with
    | some c =>
      match bldFlags (Bld.new c (ver == "1") (ver != "0")) (calls.splitOn "|") with
      | some flags => flags
      | none => "bad-wire"
    | none => "bad-wire"
  | _ => "bad-op"

end PdfVerif.Driver.CNT

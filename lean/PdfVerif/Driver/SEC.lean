import PdfVerif.Model.SECPrim
import PdfVerif.Model.SECSecurity
import PdfVerif.Model.Format
import PdfVerif.Spec.SECStdSec
/-!
Line-protocol handler for the security work package (properties C09, C10): key `SEC`.

`SEC <op> <args…>` — bytes are lower-case hex, `-` is the empty string, `!` is "absent"
(a password that cannot be encoded/prepared, a key that is not set).
Three groups of operations:
* known-answer lines for the executable primitives (`md5`, `sha256`, …, `aesenc`, `aesdec`);
* the model of `crypto.go` (`Model/SECSecurity.lean`) instantiated with these primitives;
* `spec.*`: the independent transcription `Spec/SECStdSec.lean` (property C10).
-/
namespace PdfVerif.Driver.SEC
open PdfVerif

def execPrims : SEC.Prims where
  md5 := SECPrim.md5
  sha256 := SECPrim.sha256
  sha384 := SECPrim.sha384
  sha512 := SECPrim.sha512
  rc4ks := SECPrim.rc4ks
  aesEnc := SECPrim.aesEnc
  aesDec := SECPrim.aesDec

def execCrypto : SpecSec.Crypto where
  md5 := SECPrim.md5
  sha256 := SECPrim.sha256
  sha384 := SECPrim.sha384
  sha512 := SECPrim.sha512
  rc4 := fun k x => SpecSec.xor x (SECPrim.rc4ks k x.length)
  aesBlockEnc := SECPrim.aesEnc
  aesBlockDec := SECPrim.aesDec

/-! ### argument parsing -/

def optBytes (s : String) : Option (Option Bytes) :=
  if s == "!" then some none else (bytesOfHex s).map some

def showOpt : Option Bytes → String
  | none => "!"
  | some b => hexWire b

/-- `.` = empty list, otherwise comma separated hex strings -/
def bytesList (s : String) : Option (List Bytes) :=
  if s == "." then some [] else (s.splitOn ",").mapM bytesOfHex

def natList (s : String) : Option (List Nat) :=
  if s == "." then some [] else (s.splitOn ",").mapM String.toNat?

def showList (l : List Bytes) : String :=
  if l.isEmpty then "." else ",".intercalate (l.map hexWire)

def flag (s : String) : Bool := s == "1"

def showRes (r : Except Err Bytes) : String :=
  match r with
  | .ok b => "ok " ++ hexWire b
  | .error e => s!"err {e}"

def cipherOf (s : String) : Option (Option SEC.Cipher) :=
  if s == "rc4" then some (some .rc4) else if s == "aes" then some (some .aes)
  else if s == "none" then some none else none

mutual
def sortObj : Obj → Obj
  | .arr xs => .arr (sortList xs)
  | .dict kv => .dict (sortKV (sortKVs kv))
  | o => o
def sortList : List Obj → List Obj
  | [] => []
  | x :: xs => sortObj x :: sortList xs
def sortKVs : List (Bytes × Obj) → List (Bytes × Obj)
  | [] => []
  | (k, v) :: rest => (k, sortObj v) :: sortKVs rest
end

/-- a handler with only the fields the per-object operations look at -/
def secFor (R keyBytes : Nat) (key : Option Bytes) : SEC.Sec :=
  { R := R, keyBytes := keyBytes, key := key, ID := [], O := [], U := [], P := 0 }

def encFor (c : Option SEC.Cipher) (R keyBytes : Nat) (key : Option Bytes) : SEC.EncInfo :=
  let cf := c.map fun c => ({ cipher := c, length := keyBytes * 8 } : SEC.CryptFilter)
  { sec := secFor R keyBytes key, strF := cf, stmF := cf }

def showCF : Option SEC.CryptFilter → String
  | none => "identity"
  | some cf => (match cf.cipher with | .rc4 => "rc4" | .aes => "aes") ++ "-" ++ toString cf.length

def showSec (s : SEC.Sec) : String :=
  s!"R={s.R} P={s.P} kb={s.keyBytes} um={if s.unencMeta then 1 else 0} O={hexWire s.O} U={hexWire s.U} OE={hexWire s.OE} UE={hexWire s.UE} Perms={hexWire s.Perms} key={showOpt s.key}"

/-! ### the Spec side: Encrypt dictionary (wire object) → `SpecSec.Params` -/

def dget (kv : List (Bytes × Obj)) (k : String) : Option Obj :=
  (kv.find? fun e => e.1 == bytesOfString k).map (·.2)

def dInt (kv : List (Bytes × Obj)) (k : String) : Option Int :=
  match dget kv k with | some (.int i) => some i | _ => none
def dStr (kv : List (Bytes × Obj)) (k : String) : Option Bytes :=
  match dget kv k with | some (.str s) => some s | _ => none
def dName (kv : List (Bytes × Obj)) (k : String) : Option Bytes :=
  match dget kv k with | some (.name s) => some s | _ => none

/-- Tables 20/21/25: method and key length from /V, /Length, /CF, /StmF -/
def specMethod (kv : List (Bytes × Obj)) : Option (SpecSec.Method × Nat) := do
  let V ← dInt kv "V"
  if V == 1 then pure (.v2, 5)
  else if V == 2 then
    let bits := (dInt kv "Length").getD 40
    pure (.v2, bits.toNat / 8)
  else if V == 4 || V == 5 then
    let stmF ← dName kv "StmF"
    match dget kv "CF" with
    | some (.dict cf) =>
      match ((cf.find? fun e => e.1 == stmF).map (·.2) : Option Obj) with
      | some (Obj.dict f) =>
        let cfm ← dName f "CFM"
        if cfm == bytesOfString "V2" then pure (.v2cf, 16)
        else if cfm == bytesOfString "AESV2" then pure (.aesv2, 16)
        else if cfm == bytesOfString "AESV3" then pure (.aesv3, 32)
        else none
      | _ => none
    | _ => none
  else none

def specParams (kv : List (Bytes × Obj)) (id0 : Bytes) : Option (SpecSec.Method × SpecSec.Params) := do
  let (m, n) ← specMethod kv
  let R ← dInt kv "R"
  let O ← dStr kv "O"
  let U ← dStr kv "U"
  let P ← dInt kv "P"
  let emd := match dget kv "EncryptMetadata" with | some (.bool b) => b | _ => true
  pure (m, { R := R.toNat, n := n, O := O, U := U, P := SpecSec.pOfInteger P, id0 := id0,
             encryptMetadata := emd, OE := (dStr kv "OE").getD [], UE := (dStr kv "UE").getD [],
             Perms := (dStr kv "Perms").getD [] })

def methodOf (s : String) : Option SpecSec.Method :=
  if s == "v2" then some .v2 else if s == "v2cf" then some .v2cf else if s == "aesv2" then some .aesv2 else if s == "aesv3" then some .aesv3 else none

def methodName : SpecSec.Method → String
  | .v2 => "v2" | .v2cf => "v2cf" | .aesv2 => "aesv2" | .aesv3 => "aesv3"

mutual
def valToObj : SpecSec.Val → Obj
  | .int i => .int i
  | .name s => .name (bytesOfString s)
  | .str b => .str b
  | .bool b => .bool b
  | .dict kv => .dict (valsToKV kv)
def valsToKV : List (String × SpecSec.Val) → List (Bytes × Obj)
  | [] => []
  | (k, v) :: rest => (bytesOfString k, valToObj v) :: valsToKV rest
end

def kindOf (s : String) : Option SpecSec.DataKind :=
  if s == "s" then some .string else if s == "t" then some .stream else if s == "e" then some .embeddedFile else none

/-- `num:gen:iv:plain:kind`, kind = s (string), t (stream), e (embedded file stream) -/
def parseItem (s : String) : Option (Nat × Nat × Bytes × Bytes × SpecSec.DataKind) :=
  match s.splitOn ":" with
  | [a, b, c, d, k] => do
    let n ← a.toNat?
    let g ← b.toNat?
    let iv ← bytesOfHex c
    let p ← bytesOfHex d
    let kind ← kindOf k
    pure (n, g, iv, p, kind)
  | _ => none

/-- three letters S (StdCF) / I (Identity) for /StmF, /StrF, /EFF -/
def selOf (s : String) : Option SpecSec.Selection :=
  match s.toList with
  | [a, b, c] =>
    if [a, b, c].all (fun x => x == 'S' || x == 'I') then
      some { streams := a == 'S', strings := b == 'S', embeddedFiles := c == 'S' }
    else none
  | _ => none

/-! ### dispatch -/

def handle (args : List String) : String :=
  let P := execPrims
  match args with
  -- known-answer lines
  | ["md5", x] => match bytesOfHex x with | some b => hexWire (P.md5 b) | none => "bad-hex"
  | ["sha256", x] => match bytesOfHex x with | some b => hexWire (P.sha256 b) | none => "bad-hex"
  | ["sha384", x] => match bytesOfHex x with | some b => hexWire (P.sha384 b) | none => "bad-hex"
  | ["sha512", x] => match bytesOfHex x with | some b => hexWire (P.sha512 b) | none => "bad-hex"
  | ["rc4", k, x] =>
    match bytesOfHex k, bytesOfHex x with
    | some k, some x => hexWire (SEC.rc4 P k x)
    | _, _ => "bad-hex"
  | ["aesenc", k, x] =>
    match bytesOfHex k, bytesOfHex x with
    | some k, some x => hexWire (P.aesEnc k x)
    | _, _ => "bad-hex"
  | ["aesdec", k, x] =>
    match bytesOfHex k, bytesOfHex x with
    | some k, some x => hexWire (P.aesDec k x)
    | _, _ => "bad-hex"
  | ["cbcenc", k, iv, x] =>
    match bytesOfHex k, bytesOfHex iv, bytesOfHex x with
    | some k, some iv, some x => hexWire (SEC.cbcEncrypt P k iv x)
    | _, _, _ => "bad-hex"
  | ["cbcdec", k, iv, x] =>
    match bytesOfHex k, bytesOfHex iv, bytesOfHex x with
    | some k, some iv, some x => hexWire (SEC.cbcDecrypt P k iv x)
    | _, _, _ => "bad-hex"
  -- model of crypto.go
  | ["pad", x] => match optBytes x with | some b => showRes (SEC.padPasswd b) | none => "bad-hex"
  | ["utf8", x] => match optBytes x with | some b => showRes (SEC.utf8Passwd b) | none => "bad-hex"
  | ["unpad", x] => match bytesOfHex x with | some b => showRes (SEC.unpadPKCS7 b) | none => "bad-hex"
  | ["permtop", p] => match p.toNat? with | some p => toString (SEC.stdSecPermToP p) | none => "bad-arg"
  | ["ptoperm", r, p] =>
    match r.toNat?, p.toNat? with
    | some r, some p => toString (SEC.stdSecPToPerm r p)
    | _, _ => "bad-arg"
  | ["canr2", p] => match p.toNat? with | some p => (if SEC.canR2 p then "t" else "f") | none => "bad-arg"
  | ["slowhash", pw, salt, u] =>
    match bytesOfHex pw, bytesOfHex salt, bytesOfHex u with
    | some pw, some salt, some u => hexWire (SEC.slowHash P pw salt u)
    | _, _, _ => "bad-hex"
  | ["trycrop", s, l] =>
    match bytesOfHex s, l.toNat? with
    | some s, some l => hexWire (SEC.tryCrop s l)
    | _, _ => "bad-arg"
  | ["create", V, length, perm, um, id, uPD, uSA, oPD, oSA, oEmpty, rng] =>
    match V.toNat?, length.toNat?, perm.toNat?, bytesOfHex id, optBytes uPD, optBytes uSA, optBytes oPD,
          optBytes oSA, bytesOfHex rng with
    | some V, some length, some perm, some id, some uPD, some uSA, some oPD, some oSA, some rng =>
      match SEC.createStdSec P id ⟨uPD, uSA⟩ ⟨oPD, oSA⟩ (flag oEmpty) perm length V (flag um) rng with
      | .ok (sec, rest) => s!"ok {showSec sec} used={rng.length - rest.length}"
      | .error e => s!"err {e}"
    | _, _, _, _, _, _, _, _, _ => "bad-arg"
  | ["writer", ver, uNE, oNE, uPD, uSA, oPD, oSA, perm, ids, plain, rng] =>
    match ver.toNat?, optBytes uPD, optBytes uSA, optBytes oPD, optBytes oSA, perm.toNat?,
          (if ids == "nil" then some none else (bytesList ids).map some), bytesOfHex rng with
    | some ver, some uPD, some uSA, some oPD, some oSA, some perm, some ids, some rng =>
      let o : SEC.WriterOpt :=
        { version := ver, user := ⟨uPD, uSA⟩, owner := ⟨oPD, oSA⟩,
          userNonEmpty := flag uNE, ownerNonEmpty := flag oNE, perm := perm, ids := ids,
          plaintextMeta := flag plain }
      match SEC.newWriterSec P o rng with
      | .error e => s!"err {e}"
      | .ok w =>
        let d := match w.dict with | none => "-" | some kv => (sortObj (.dict kv)).wire
        let k := match w.enc with | none => "!" | some e => showOpt e.sec.key
        s!"ok ids={showList w.ids} dict={d} key={k} used={rng.length - w.rng.length}"
    | _, _, _, _, _, _, _, _ => "bad-arg"
  | ["open", dict, idLen, id0, ePD, eSA, pwNE, pPD, pSA] =>
    match Obj.ofWire dict, idLen.toNat?, bytesOfHex id0, optBytes ePD, optBytes eSA, optBytes pPD, optBytes pSA with
    | some (.dict kv), some idLen, some id0, some ePD, some eSA, some pPD, some pSA =>
      match SEC.parseEncryptDict kv idLen id0 with
      | .error e => s!"err {e}"
      | .ok enc =>
        match SEC.eagerAuth P enc.sec ⟨ePD, eSA⟩ (flag pwNE) ⟨pPD, pSA⟩ with
        | (.ok perm, sec) => s!"ok perm={perm} key={showOpt sec.key} str={showCF enc.strF} stm={showCF enc.stmF} um={if sec.unencMeta then 1 else 0}"
        | (.error e, _) => s!"err {e}"
    | _, _, _, _, _, _, _ => "bad-arg"
  | ["keyforref", r, kb, aes, key, num, gen] =>
    match r.toNat?, kb.toNat?, optBytes key, num.toNat?, gen.toNat? with
    | some r, some kb, some key, some num, some gen =>
      showRes (SEC.keyForRef P (secFor r kb key) { cipher := if flag aes then .aes else .rc4, length := kb * 8 } num gen)
    | _, _, _, _, _ => "bad-arg"
  | ["encbytes", c, r, kb, key, num, gen, rng, plain] =>
    match cipherOf c, r.toNat?, kb.toNat?, optBytes key, num.toNat?, gen.toNat?, bytesOfHex rng, bytesOfHex plain with
    | some c, some r, some kb, some key, some num, some gen, some rng, some plain =>
      match SEC.encryptBytes P (encFor c r kb key) num gen plain rng with
      | .ok (out, rest) => s!"ok {hexWire out} used={rng.length - rest.length}"
      | .error e => s!"err {e}"
    | _, _, _, _, _, _, _, _ => "bad-arg"
  | ["encobj", c, r, kb, key, num, gen, rng, obj] =>
    match cipherOf c, r.toNat?, kb.toNat?, optBytes key, num.toNat?, gen.toNat?, bytesOfHex rng, Obj.ofWire obj with
    | some c, some r, some kb, some key, some num, some gen, some rng, some obj =>
      match SEC.encObj P (encFor c r kb key) num gen obj.canon rng with
      | .ok (o, rest) => s!"ok {(sortObj o).wire} used={rng.length - rest.length}"
      | .error e => s!"err {e}"
    | _, _, _, _, _, _, _, _ => "bad-arg"
  | ["ivseq", rng, n] =>
    match bytesOfHex rng, n.toNat? with
    | some rng, some n => showList ((List.range n).map fun k => (rng.drop (16 * k)).take 16)
    | _, _ => "bad-arg"
  | ["closeid", secID, ids] =>
    match bytesOfHex secID, (if ids == "nil" then some [] else bytesList ids) with
    | some secID, some ids =>
      match SEC.closeCheckID (some (encFor (some .rc4) 3 16 none |> fun e => { e with sec := { e.sec with ID := secID } })) ids with
      | .ok _ => "ok"
      | .error e => s!"err {e}"
    | _, _ => "bad-arg"
  | ["chain", d, a, encd] =>
    let kinds (s : String) : Option (List SEC.FilterKind) :=
      if s == "-" then some [] else s.toList.mapM fun c =>
        if c == 'I' then some SEC.FilterKind.cryptIdentity else if c == 'S' then some .cryptOther
        else if c == 'F' then some .other else none
    let showK (l : List SEC.FilterKind) : String :=
      if l.isEmpty then "-" else String.ofList (l.map fun k => match k with | .cryptIdentity => 'I' | .cryptOther => 'S' | .other => 'F')
    match kinds d, kinds a with
    | some d, some a =>
      match SEC.openStreamChain d a (if encd == "1" then some true else if encd == "0" then some false else none) with
      | .ok (ch, skip) => s!"ok {showK ch} skip={if skip then 1 else 0}"
      | .error e => s!"err {e}"
    | _, _ => "bad-arg"
  | ["decbytes", c, r, kb, key, num, gen, data] =>
    match cipherOf c, r.toNat?, kb.toNat?, optBytes key, num.toNat?, gen.toNat?, bytesOfHex data with
    | some c, some r, some kb, some key, some num, some gen, some data =>
      showRes (SEC.decryptBytes P (encFor c r kb key) num gen data)
    | _, _, _, _, _, _, _ => "bad-arg"
  | ["encstream", c, r, kb, key, num, gen, rng, chunks] =>
    match cipherOf c, r.toNat?, kb.toNat?, optBytes key, num.toNat?, gen.toNat?, bytesOfHex rng, bytesList chunks with
    | some c, some r, some kb, some key, some num, some gen, some rng, some chunks =>
      match SEC.encryptStream P (encFor c r kb key) num gen chunks rng with
      | .ok (out, rest) => s!"ok {hexWire out} used={rng.length - rest.length}"
      | .error e => s!"err {e}"
    | _, _, _, _, _, _, _, _ => "bad-arg"
  | ["decstream", c, r, kb, key, num, gen, data, sizes, eofWith, wants] =>
    match cipherOf c, r.toNat?, kb.toNat?, optBytes key, num.toNat?, gen.toNat?, bytesOfHex data, natList sizes, natList wants with
    | some c, some r, some kb, some key, some num, some gen, some data, some sizes, some wants =>
      showRes (SEC.decryptStream P (encFor c r kb key) num gen
        { rest := data, sizes := sizes, eofWithData := flag eofWith } wants)
    | _, _, _, _, _, _, _, _, _ => "bad-arg"
  -- the independent transcription (C10)
  | ["spec.auth", dict, id0, pPD, pSA] =>
    match Obj.ofWire dict, bytesOfHex id0, optBytes pPD, optBytes pSA with
    | some (.dict kv), some id0, some pPD, some pSA =>
      match specParams kv id0 with
      | none => "unsupported"
      | some (m, p) =>
        if p.R ≤ 4 then
          match pPD with
          | none => s!"ok {methodName m} user=! owner=!"
          | some pw =>
            s!"ok {methodName m} user={showOpt (SpecSec.alg6 execCrypto p pw)} owner={showOpt (SpecSec.alg7 execCrypto p pw)}"
        else
          match pSA with
          | none => s!"ok {methodName m} none"
          | some pw =>
            match SpecSec.alg2A execCrypto p pw with
            | some (.owner, k) => s!"ok {methodName m} owner {hexWire k}"
            | some (.user, k) => s!"ok {methodName m} user {hexWire k}"
            | none => s!"ok {methodName m} none"
    | _, _, _, _ => "bad-arg"
  | ["spec.dec", m, key, num, gen, data] =>
    match methodOf m, bytesOfHex key, num.toNat?, gen.toNat?, bytesOfHex data with
    | some m, some key, some num, some gen, some data =>
      match SpecSec.decryptData execCrypto m key num gen data with
      | some b => "ok " ++ hexWire b
      | none => "fail"
    | _, _, _, _, _ => "bad-arg"
  | ["spec.enc", m, key, num, gen, iv, data] =>
    match methodOf m, bytesOfHex key, num.toNat?, gen.toNat?, bytesOfHex iv, bytesOfHex data with
    | some m, some key, some num, some gen, some iv, some data =>
      "ok " ++ hexWire (SpecSec.encryptData execCrypto m key num gen iv data)
    | _, _, _, _, _, _ => "bad-arg"
  | ["spec.dict", m, bits, r, pval, emd, o, u, oe, ue, perms] =>
    match methodOf m, bits.toNat?, r.toNat?, pval.toNat?, bytesOfHex o, bytesOfHex u, bytesOfHex oe, bytesOfHex ue, bytesOfHex perms with
    | some m, some bits, some r, some pval, some o, some u, some oe, some ue, some perms =>
      let p : SpecSec.Params := { R := r, n := bits / 8, O := o, U := u, P := pval, id0 := [],
                                  encryptMetadata := flag emd, OE := oe, UE := ue, Perms := perms }
      "ok " ++ (sortObj (.dict (valsToKV (SpecSec.encryptDict m bits p)))).wire
    | _, _, _, _, _, _, _, _, _ => "bad-arg"
  | ["spec.file", m, sel, bits, rev3, pval, emd, id0, uPw, oPw, fkey, salts, rnd, items] =>
    match methodOf m, selOf sel, bits.toNat?, pval.toNat?, bytesOfHex id0, bytesOfHex uPw, bytesOfHex oPw,
          bytesOfHex fkey, bytesOfHex salts, bytesOfHex rnd, (if items == "." then some [] else (items.splitOn ",").mapM parseItem) with
    | some m, some sel, some bits, some pval, some id0, some uPw, some oPw, some fkey, some salts, some rnd, some items =>
      let C := execCrypto
      -- the selection of crypt filters exists only with crypt filters
      let sel : SpecSec.Selection := if m.hasCryptFilters then sel else {}
      let V := match m with | .v2 => (if bits = 40 then 1 else 2) | .v2cf => 4 | .aesv2 => 4 | .aesv3 => 5
      match SpecSec.revisionFor V (flag rev3) with
      | none => "unsupported"
      | some R =>
        let p0 : SpecSec.Params := { R := R, n := bits / 8, O := [], U := [], P := pval, id0 := id0,
                                     encryptMetadata := flag emd }
        let (p, fileKey) : SpecSec.Params × Bytes :=
          if R ≤ 4 then
            let p1 := { p0 with O := SpecSec.alg3 C p0 oPw uPw }
            let k := SpecSec.alg2 C p1 uPw
            -- Algorithm 5 (f): "append 16 bytes of arbitrary padding" — taken from the caller's random bytes
            let u := if R = 2 then SpecSec.alg4 C k else SpecSec.alg5 C p1 k ++ salts.take 16
            ({ p1 with U := u }, k)
          else
            let up := SpecSec.truncate127 uPw
            let op := SpecSec.truncate127 oPw
            let ue := SpecSec.alg8 C fkey up (salts.take 8) ((salts.drop 8).take 8)
            let oe := SpecSec.alg9 C fkey op ue.1 ((salts.drop 16).take 8) ((salts.drop 24).take 8)
            ({ p0 with U := ue.1, UE := ue.2, O := oe.1, OE := oe.2,
                       Perms := SpecSec.alg10 C fkey pval (flag emd) rnd }, fkey)
        let d := valsToKV (SpecSec.encryptDict m bits p sel)
        let cts := items.map fun (n, g, iv, pl, kind) => SpecSec.storeData C m sel kind fileKey n g iv pl
        s!"ok {(sortObj (.dict d)).wire} {hexWire fileKey} {showList cts}"
    | _, _, _, _, _, _, _, _, _, _, _ => "bad-arg"
  | _ => "bad-op"

end PdfVerif.Driver.SEC

import PdfVerif.Model.HISXref
import PdfVerif.Model.HISSeq
import PdfVerif.Model.HISReader
import PdfVerif.Driver.C01
import PdfVerif.Spec.HISHistory
/-! Line-protocol handler for the work package HIS (properties C04 and C20). -/
namespace PdfVerif.Driver.HIS
open PdfVerif

/-! ### `spec`: the reference semantics of histories, values are opaque tokens

`HIS spec <history> <queries>`; history = revisions (oldest first) separated by `/`, a revision is
`<main>` or `<main>~<xrefstm>`, a section is `-` (empty) or entries separated by `|`, an entry is
`<num>:d<gen>:<value token>` or `<num>:f<gen>`; queries are `<num>.<gen>` separated by `+`.
The answer lists, for every query, the value token or `z` (the null object). -/

def parseEntry (s : String) : Option (Nat × Spec.HIS.Entry String) :=
  match s.splitOn ":" with
  | [n, g, v] =>
    match n.toNat?, g.toList with
    | some n, 'd' :: gs => (String.ofList gs).toNat?.map fun g => (n, .define g v)
    | _, _ => none
  | [n, g] =>
    match n.toNat?, g.toList with
    | some n, 'f' :: gs => (String.ofList gs).toNat?.map fun g => (n, .free g)
    | _, _ => none
  | _ => none

def parseSection (s : String) : Option (Spec.HIS.Section String) :=
  if s == "-" then some [] else (s.splitOn "|").mapM parseEntry

def parseRevision (s : String) : Option (Spec.HIS.Revision String) :=
  match s.splitOn "~" with
  | [m] => (parseSection m).map fun m => { main := m }
  | [m, x] => do
    let m ← parseSection m
    let x ← parseSection x
    pure { main := m, stm := some x }
  | _ => none

def parseHistory (s : String) : Option (Spec.HIS.History String) :=
  (s.splitOn "/").mapM parseRevision

def parseQuery (s : String) : Option (Nat × Nat) :=
  match s.splitOn "." with
  | [n, g] => do let n ← n.toNat?; let g ← g.toNat?; pure (n, g)
  | _ => none

/-! ### `scan`: `SequentialScan` (locateObjects, indexObjects, checkObjects) on the bytes of a file -/

def showChecked (o : HIS.CheckedObject) : String :=
  s!"{o.num}.{o.gen}@{o.start}-{o.endPos}:" ++ (if o.broken then "B" else o.type ++ "/" ++ hexWire o.subtype)

def showSection (file : Bytes) (secs : List HIS.Section) (s : HIS.Section) : Except Err String := do
  let objs ← s.objects.mapM (HIS.checkObject file secs)
  pure (s!"[{s.xrefPos},{s.trailerPos},{s.startXRefPos},{s.eofPos}:" ++ ";".intercalate (objs.map showChecked) ++ "]")

def scan (file : Bytes) : String :=
  match HIS.locateObjects file with
  | .error e => s!"err {e}"
  | .ok loc =>
    match loc.sections.mapM (showSection file loc.sections) with
    | .error e => s!"err {e}"
    | .ok secs => s!"ok v={hexWire loc.version} s={loc.pdfStart} e={loc.pdfEnd} " ++ " ".intercalate secs

/-! ### `open`, `xtab`, `xstm`, `rdobj`: the reader model on bytes -/

def parseDecoded (s : String) : Option (List (Nat × Bytes)) :=
  if s == "-" then some [] else
  (s.splitOn ",").mapM fun e =>
    match e.splitOn ":" with
    | [p, h] => do let p ← p.toNat?; let b ← bytesOfHex h; pure (p, b)
    | _ => none

def showVal (file : Bytes) : HIS.Val → String
  | .obj o => (Driver.C01.norm o).wire
  | .stream d start len => "S" ++ (Driver.C01.norm (.dict d)).wire ++ "#" ++ hexWire ((file.drop start).take len)

/-- the entries of a map sorted by object number (the first binding of a number counts) -/
def showXMap (m : HIS.XMap) : String :=
  let nums := (m.map (·.1)).eraseDups
  let sorted := nums.toArray.qsort (· < ·) |>.toList
  if sorted.isEmpty then "-" else
  ",".intercalate (sorted.map fun n =>
    match m.lookup n with
    | some e => s!"{n}:{e.pos}:{e.gen}:{e.inStream}"
    | none => "")

def parsePre (s : String) : Option HIS.XMap :=
  if s == "-" then some [] else
  (s.splitOn ",").mapM fun e =>
    match e.splitOn ":" with
    | [n, p, g, i] => do
      let n ← n.toNat?
      let p ← p.toInt?
      let g ← g.toNat?
      let i ← i.toNat?
      pure (n, ({ pos := p, gen := g, inStream := i } : HIS.XEntry))
    | _ => none

def openOp (file : Bytes) (dec : List (Nat × Bytes)) (qs : List (Nat × Nat)) : String :=
  let decodedAt : Nat → Option Bytes := fun p => dec.lookup p
  match HIS.openFile file decodedAt with
  | .error e => s!"err {e}"
  | .ok o =>
    let answers := qs.map fun (n, g) =>
      match HIS.readerGet file o decodedAt 40 n g true false with
      | .ok v => showVal file v
      | .error e => s!"err:{e}"
    "ok " ++ " ".intercalate answers ++ " T" ++ (Driver.C01.norm (.dict o.trailer)).wire ++ " X" ++ showXMap o.xref

/-- the `getInt` handed to the scanner in `rdobj` lines: direct integers are themselves;
    everything else gives the fixed value `v<k>`, fails with a read error (`e`) or fails with a
    malformed-file error (`m`) -/
def getIntOfMode (mode : String) : Obj → Except Err Int
  | .int n => .ok n
  | _ => match mode.toList with
    | 'v' :: ds => match (String.ofList ds).toInt? with
      | some k => .ok k
      | none => .error .malformed
    | 'm' :: _ => .error .malformed
    | _ => .error .other

def handle (args : List String) : String :=
  match args with
  | ["spec", hist, queries] =>
    match parseHistory hist, (queries.splitOn "+").mapM parseQuery with
    | some h, some qs =>
      " ".intercalate (qs.map fun (n, g) => (Spec.HIS.specGet h n g).getD "z")
    | _, _ => "bad-args"
  | ["parse", hex] =>
    match bytesOfHex hex with
    | none => "bad-hex"
    | some bs => Driver.C01.showRes (parseObject bs)
  | ["open", hex, dec, queries] =>
    match bytesOfHex hex, parseDecoded dec, (queries.splitOn "+").mapM parseQuery with
    | some file, some dec, some qs => openOp file dec qs
    | _, _, _ => "bad-args"
  | ["xref", hex, dec] =>
    match bytesOfHex hex, parseDecoded dec with
    | some file, some dec =>
      match HIS.openFile file (fun p => dec.lookup p) with
      | .error e => s!"err {e}"
      | .ok o => s!"ok {o.hdr} X" ++ showXMap o.xref ++ " T" ++ (Driver.C01.norm (.dict o.trailer)).wire
    | _, _ => "bad-args"
  | ["xtab", hex, pre] =>
    match bytesOfHex hex, parsePre pre with
    | some inp, some m =>
      match HIS.readXRefTable m inp with
      | .error e => s!"err {e}"
      | .ok (m, d) => "ok " ++ showXMap m ++ " T" ++ (Driver.C01.norm (.dict d)).wire
    | _, _ => "bad-args"
  | ["xstm", dict, rawLen, hex, pre] =>
    match Obj.ofWire dict, rawLen.toNat?, bytesOfHex hex, parsePre pre with
    | some (.dict d), some rl, some data, some m =>
      match HIS.checkXRefStreamDict d rl with
      | .error e => s!"err {e}"
      | .ok (w0, w1, w2, ss) =>
        match HIS.decodeXRefStream m data w0 w1 w2 ss with
        | .error e => s!"err {e}"
        | .ok m => "ok " ++ showXMap m
    | _, _, _, _ => "bad-args"
  | ["rdobj", hex, pos, mode, scalar] =>
    match bytesOfHex hex, pos.toNat? with
    | some file, some p =>
      match HIS.readIndirect file p (getIntOfMode mode) (scalar == "1") with
      | .error e => s!"err {e}"
      | .ok ind =>
        let v := match ind.val with
          | .obj o => (Driver.C01.norm o).wire
          | .stream d start len => "S" ++ (Driver.C01.norm (.dict d)).wire ++ s!"#{start}+{len}"
        s!"ok {ind.num} {ind.gen} {ind.endPos} {v}"
    | _, _ => "bad-args"
  | ["scan", hex] =>
    match bytesOfHex hex with
    | none => "bad-hex"
    | some file => scan file
  | _ => "bad-op"

end PdfVerif.Driver.HIS

import PdfVerif.Model.Scan
/-! Line-protocol handler for C01 (object syntax). -/
namespace PdfVerif.Driver.C01
open PdfVerif

mutual
/-- canonical output form: dictionaries sorted by key bytes, nil entries dropped, nilArr ↦ null -/
def norm : Obj → Obj
  | .arr xs => .arr (normList xs)
  | .dict kv => .dict (sortKV (normKV kv))
  | .nilArr => .null
  | o => o
def normList : List Obj → List Obj
  | [] => []
  | x :: xs => norm x :: normList xs
def normKV : List (Bytes × Obj) → List (Bytes × Obj)
  | [] => []
  | (k, v) :: rest =>
    match norm v with
    | .null => normKV rest
    | v' => (k, v') :: normKV rest
end

def optOf (s : String) : FmtOpt :=
  { pretty := s.contains 'p', content := s.contains 'c' }

def showRes (r : Except Err (Obj × Bytes)) : String :=
  match r with
  | .ok (o, rest) => s!"ok {(norm o).wire} {rest.length}"
  | .error e => s!"err {e}"

def handle (args : List String) : String :=
  match args with
  | ["fmt", opt, objs] =>
    match objsOfWire objs with
    | none => "bad-wire"
    | some os =>
      match format (optOf opt) os with
      | some bs => "ok " ++ hexWire bs
      | none => "err"
  | ["parse", hex] =>
    match bytesOfHex hex with
    | none => "bad-hex"
    | some bs => showRes (parseObject bs)
  | ["norm", objs] =>
    match objsOfWire objs with
    | none => "bad-wire"
    | some os => "ok " ++ (norm (.arr os)).wire
  | _ => "bad-op"

end PdfVerif.Driver.C01

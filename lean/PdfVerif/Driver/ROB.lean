import PdfVerif.Model.ROBScanBuf
import PdfVerif.Model.ROBScanObj
import PdfVerif.Model.ROBErr
import PdfVerif.Model.ROBSink
/-!
Line-protocol handler for the robustness work package (C05, C19); key `ROB`.

* `ROB scan <data> <chunk> <mode> <k> <short> <filePos> <ops>` — the buffered scanner over a
  (faulty) reader.  `mode` ∈ `n|f|o` (no fault / fail from call k / fail only call k), `short` =
  bytes delivered together with the error; `ops` = `;`-separated: `p<n>` PeekN, `b` ReadByte,
  `w` SkipWhiteSpace, `s<hex>` SkipString, `i` ReadInteger, `d` ScanBytes(digits), `o` ReadObject (last
  operation of the line; computed by the buffer-level parser `readObjectBuf` of Model/ROBScanObj.lean
  on the line's reader, faulty or not).
* `ROB err <tree> <nwrap>` — error algebra (`IsMalformed`, `errors.Is`, `Wrap`, `Optional`, `IsReadError`).
* `ROB exit <mode> <tree>` — `shouldExit` of `NewReader`/`MakeReader`.
* `ROB catalog <seq> <mode> <tree> <hasPages>` — the step after `DecodeCatalog` (`catalogStep`).
* `ROB chain <src> <ctor> <reads>` — `sourceErrChecker`/`sourceAwareReader` under a scripted filter layer.
* `ROB resolve <spec>` — `resolvePath`/`CycleCheck.step` over a scripted object graph.
* `ROB sink <size> <sinkscript> <writes>` — `bufio.Writer` over a scripted failing sink.
-/
namespace PdfVerif.Driver.ROB
open PdfVerif PdfVerif.ROB

def errStr : Option Err → String
  | none => "ok"
  | some e => toString e

/-! ### scan -/

def digitAcc (n : Nat) (b : Nat) : Option Nat := if isDigit b then some (n + 1) else none

def natOf (s : String) : Nat := s.toNat?.getD 0

/-- run one scanner operation; result text and new state -/
def scanOp (src : Source) (fuel : Nat) (s : SB) (op : String) : String × SB :=
  let c := op.front
  let arg := (op.drop 1).toString
  if c == 'p' then
    let (s', buf, e) := peekN src (natOf arg) s
    (s!"p:{hexWire buf}:{errStr e}", s')
  else if c == 'b' then
    match readByte src s with
    | (s', .ok v) => (s!"b:{hexWire [v]}:ok", s')
    | (s', .error e) => (s!"b:-:{e}", s')
  else if c == 'w' then
    let (s', e) := skipWhiteSpace src fuel s
    (s!"w:{errStr e}", s')
  else if c == 's' then
    match bytesOfHex arg with
    | none => ("bad-hex", s)
    | some pat =>
      let (s', e) := skipString src pat s
      (s!"s:{errStr e}", s')
  else if c == 'i' then
    match readIntegerBuf src fuel s with
    | (s', .ok v) => (s!"i:{v}:ok", s')
    | (s', .error e) => (s!"i:-:{e}", s')
  else if c == 'd' then
    let (s', n, e) := scanBytes src digitAcc fuel true 0 s
    (s!"d:{n}:{errStr e}", s')
  else ("bad-op", s)

/-- `o` (last operation of a line): `ReadObject` at the current scanner state, computed by the
    buffer-level parser over the line's (possibly faulty) reader.  On fault-free readers this is
    `parseObject` of the unconsumed bytes (Props/C05robobj.lean `readObjectBuf_refines_at`); on faulty
    readers it is the prediction that `readObject_fault` (Props/C19robobj.lean) is about. -/
def scanObject (src : Source) (fuel : Nat) (d : Bytes) (s : SB) : String :=
  match readObjectBuf src fuel (scanFuel d) 0 s with
  | (s', .ok _) => if s'.panicked then "o:panic@panic" else s!"o:ok:{s'.currentPos}"
  | (s', .error e) => if s'.panicked then "o:panic@panic" else s!"o:{e}"

def scanOps (src : Source) (fuel : Nat) (d : Bytes := []) : SB → List String → List String
  | _, [] => []
  | s, op :: ops =>
    if op == "o" then [scanObject src fuel d s] else
    let (r, s') := scanOp src fuel s op
    if s'.hang then [r ++ "@hang"]
    else if s'.panicked then [r ++ "@panic"]
    else (r ++ s!"@{s'.currentPos}") :: scanOps src fuel d s' ops

def handleScan (data chunk mode k short filePos ops : String) : String :=
  match bytesOfHex data with
  | none => "bad-hex"
  | some d =>
    let m : FaultMode :=
      if mode == "f" then .fromK (natOf k) (natOf short)
      else if mode == "o" then .onlyK (natOf k) (natOf short)
      else .none
    let src := faultySrc d (natOf chunk) m .io
    let res := scanOps src (scanBytesFuel d.length) d (SB.init (natOf filePos)) (ops.splitOn ";")
    ",".intercalate res

/-! ### error trees -/

/-- `S<id>` | `M(<tree>)` | `W(<tree>)` | `O` -/
def parseErr : Nat → List Char → Option (GoErr × List Char)
  | 0, _ => none
  | fuel+1, cs =>
    match cs with
    | 'S' :: r =>
      let ds := r.takeWhile Char.isDigit
      some (.sentinel (natOf (String.ofList ds)), r.drop ds.length)
    | 'O' :: r => some (.other "o", r)
    | 'M' :: '(' :: r =>
      match parseErr fuel r with
      | some (e, ')' :: r') => some (.malformed e [], r')
      | _ => none
    | 'W' :: '(' :: r =>
      match parseErr fuel r with
      | some (e, ')' :: r') => some (.wrapf "w" e, r')
      | _ => none
    | _ => none

def errOfWire (s : String) : Option (Option GoErr) :=
  if s == "N" then some none
  else match parseErr (s.length + 1) s.toList with
    | some (e, []) => some (some e)
    | _ => none

def b01 (b : Bool) : String := if b then "1" else "0"

def wrapN (e : Option GoErr) : Nat → Nat → Option GoErr
  | 0, _ => e
  | n+1, i => wrapN (wrap e s!"L{i}") n (i + 1)

def isN (target : Nat) : Option GoErr → Bool
  | none => false
  | some e => e.is target

def locOf : Option GoErr → List String
  | none => []
  | some e => e.loc

def handleErr (tree nwrap : String) : String :=
  match errOfWire tree with
  | none => "bad-tree"
  | some e0 =>
    let e := wrapN e0 (natOf nwrap) 0
    let opt := optionalGo "zero" "val" e
    s!"{errClass e} mal={b01 (isMalformed e)} is={b01 (isN 0 e)}{b01 (isN 1 e)}{b01 (isN 2 e)}{b01 (isN 3 e)} " ++
    s!"loc={"|".intercalate (locOf e)} opt={opt.1}:{errClass opt.2} rd={b01 (isReadError e)}"

def handleCatalog (seq mode tree pages : String) : String :=
  match errOfWire tree with
  | none => "bad-tree"
  | some e =>
    let r := catalogStep (seq == "1") (natOf mode) e (pages == "1")
    s!"nil={b01 r.1} err={errClass r.2.1} rep={b01 r.2.2}"

def handleExit (mode tree : String) : String :=
  match errOfWire tree with
  | none => "bad-tree"
  | some e =>
    let (ex, rep) := shouldExit (natOf mode) e
    s!"exit={b01 ex} rep={b01 rep.isSome}"

/-! ### scripted source + scripted layer -/

def codeErr (c : Char) : Option GoErr :=
  if c == 'e' then some (.sentinel idEOF)
  else if c == 'u' then some (.sentinel idUnexpectedEOF)
  else if c == 'f' then some (.sentinel 2)
  else if c == 'g' then some (.sentinel 3)
  else if c == 'm' then some (.malformed (.other "m") [])
  else none

/-- `<n><code>` -/
def parseCount (s : String) : Nat × Char :=
  let ds := s.toList.takeWhile Char.isDigit
  (natOf (String.ofList ds), (s.toList.drop ds.length).headD 'n')

/-- the raw reader: per call `(n, code)`; after the script `(0, EOF)`; never more than `want` bytes -/
def rawOf (script : List (Nat × Char)) : RawSrc := fun k want =>
  match script[k]? with
  | none => ([], some (.sentinel idEOF))
  | some (n, c) => (List.replicate (min n want) (k % 251 + 1), codeErr c)

/-- reads `wants` in sequence, then answers: `n` bytes of what was read (zero padded) and the error
    selected by `code`: `p` = the last error seen from below in this call, `w` = that error inside a
    fresh `*MalformedFileError`, otherwise `codeErr` -/
def scriptProg {α : Type} (fin : Bytes → Option GoErr → α) : List Nat → Bytes → Option GoErr → Prog α
  | [], got, last => .ret (fin got last)
  | w :: ws, got, last => .read w fun r => scriptProg fin ws (got ++ r.1) (if r.2.isSome then r.2 else last)

def answer (n : Nat) (code : Char) (got : Bytes) (last : Option GoErr) : Bytes × Option GoErr :=
  let data := (got ++ List.replicate n 0).take n
  let err := if code == 'p' then last
    else if code == 'w' then last.map fun e => GoErr.malformed e []
    else codeErr code
  (data, err)

/-- one top-level read of the script: `<want>:<r..,r..>:<n><code>` (the wants list may be `-`) -/
structure ReadScript where
  wants : List Nat
  n : Nat
  code : Char

def parseWants (s : String) : List Nat :=
  if s == "-" then [] else (s.splitOn ",").map natOf

def parseReadScript (s : String) : ReadScript :=
  match s.splitOn ":" with
  | [ws, res] => let (n, c) := parseCount res; ⟨parseWants ws, n, c⟩
  | _ => ⟨[], 0, 'n'⟩

/-- the scripted stack: state = index of the next top-level read -/
def scriptedLayers (scripts : List ReadScript) : Layers Nat where
  read i _want :=
    match scripts[i]? with
    | none => .ret (([], some (.sentinel idEOF)), i + 1)
    | some sc => scriptProg (fun got last => (answer sc.n sc.code got last, i + 1)) sc.wants [] none

def showOut (o : Bytes × Option GoErr) : String :=
  s!"{o.1.length}:{errClass o.2}:{b01 (isN 2 o.2)}{b01 (isN 3 o.2)}"

def handleChain (src ctor reads : String) : String :=
  let raw := rawOf ((src.splitOn ",").filter (· ≠ "-") |>.map parseCount)
  let cs := parseReadScript ctor
  let ctorProg : Prog (Except GoErr Nat) :=
    scriptProg (fun got last =>
      match (answer cs.n cs.code got last).2 with
      | some e => .error e
      | none => .ok 0) cs.wants [] none
  match construct ctorProg raw with
  | .error e => s!"ctor:{errClass (some e)}:{b01 (e.is 2)}{b01 (e.is 3)}"
  | .ok st =>
    let scripts := ((reads.splitOn ";").filter (· ≠ "-")).map parseReadScript
    let (outs, st') := topReads (scriptedLayers scripts) raw st (scripts.map fun _ => 64)
    " ".intercalate (outs.map showOut) ++ s!" src={errClass st'.2.srcErr}"

/-! ### resolve -/

/-- spec: comma list, entry `i` (1-based) describes object `i`: `r<j>` | `v` | `x` -/
def handleResolve (spec : String) : String :=
  let ents := spec.splitOn ","
  let get : Nat → Option (Nat ⊕ Nat) := fun r =>
    match ents[r - 1]? with
    | none => some (.inr 0)               -- object missing: Get returns nil, nil
    | some e =>
      if r = 0 then some (.inr 0)
      else if e.front == 'r' then some (.inl (natOf (e.drop 1).toString))
      else if e == "x" then none
      else some (.inr 1)
  match resolveLoop get resolveFuel [] 1 with
  | .ok (_, path) => s!"ok {path.length}"
  | .error e => s!"err {e}"


/-! ### bufio over a scripted sink -/

/-- sink script: per call `<n><code>`: accepts `min n (len p)` bytes, code `f` = with the injected
    error, `n` = nil; after the script every call accepts everything -/
def sinkOf (script : List (Nat × Char)) : Sink := fun k p =>
  match script[k]? with
  | none => (p.length, none)
  | some (n, c) => (min n p.length, if c == 'f' then some .io else none)

def handleSink (size script writes : String) : String :=
  let sink := sinkOf (((script.splitOn ",").filter (· ≠ "-")).map parseCount)
  let ps : List Bytes := (((writes.splitOn ",").filter (· ≠ "-")).map natOf).map fun n => List.replicate n 7
  let r := session sink 100000 (BW.new (natOf size)) ps
  " ".intercalate (r.1.map fun e => "w:" ++ errStr e) ++ s!" f:{errStr r.2.2} out={r.2.1.out.length} calls={r.2.1.calls}"

def handle (args : List String) : String :=
  match args with
  | ["scan", data, chunk, mode, k, short, filePos, ops] => handleScan data chunk mode k short filePos ops
  | ["err", tree, nwrap] => handleErr tree nwrap
  | ["exit", mode, tree] => handleExit mode tree
  | ["catalog", seq, mode, tree, pages] => handleCatalog seq mode tree pages
  | ["chain", src, ctor, reads] => handleChain src ctor reads
  | ["resolve", spec] => handleResolve spec
  | ["sink", size, script, writes] => handleSink size script writes
  | _ => "bad-op"

end PdfVerif.Driver.ROB

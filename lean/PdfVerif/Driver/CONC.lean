import PdfVerif.Model.CONCProg
/-!
Line-protocol handler for the cache-protocol model (property C18).

    CONC run <f|o> <getter> <program> <schedule>      one execution, schedule = thread ids
    CONC explore <f|o> <getter> <program>             all schedules: multiset of outcomes
    CONC inv                                          the lock inventory the model assumes
    CONC closeorder                                   the reviewed close order of a decoded stream's filter layers
    CONC appendinv                                    the reviewed inventory of append on fields / package-level slices
    CONC poolinv                                      the reviewed inventory of sync.Pool Get/Put sites
    CONC pkginv                                       the reviewed inventory of guarded package-level state

`f` = cacheStoreOrLoad as it is now, `o` = before commit 231d3ca.  getter: `1>2,2>d,3>e`
(reference 1 holds reference 2, 2 a direct object, 3 fails; unlisted: direct), `-` for none.
Program syntax: see `parseOp`; `pre/rest|…`: thread 0 makes the calls `pre` alone before the
threads are scheduled (see `parseSolo`).
-/
namespace PdfVerif.Driver.CONC
open PdfVerif PdfVerif.CONC

/-! ## parsing -/

def digitVal (c : Char) : Option Nat :=
  if c.isDigit then some (c.toNat - '0'.toNat) else none

def parseNatAux : List Char → Nat → Nat × List Char
  | [], acc => (acc, [])
  | c :: cs, acc =>
    match digitVal c with
    | some d => parseNatAux cs (acc * 10 + d)
    | none => (acc, c :: cs)

def parseNat (cs : List Char) : Option (Nat × List Char) :=
  match cs with
  | c :: _ => if c.isDigit then some (parseNatAux cs 0) else none
  | [] => none

def parseObj (cs : List Char) : Option (Obj × List Char) :=
  match cs with
  | 'd' :: rest => some (.direct, rest)
  | 'r' :: rest =>
    match parseNat rest with
    | some (n, rest') => some (.ref n, rest')
    | none => none
  | _ => none

mutual
/-- op := ('D'|'X') ty ':' obj body | 'P' ty ty ':' 'r' num ; `ctr` numbers the fresh values /
error codes in order of appearance -/
def parseOp : Nat → List Char → Nat → Option (Op × List Char × Nat)
  | 0, _, _ => none
  | fuel + 1, cs, ctr =>
    match cs with
    | 'P' :: a :: b :: ':' :: 'r' :: rest =>
      match digitVal a, digitVal b, parseNat rest with
      | some A, some B, some (r, rest') => some (.pair A B r (ctr + 1) (ctr + 2), rest', ctr + 2)
      | _, _, _ => none
    | k :: ty :: ':' :: rest =>
      if k == 'D' || k == 'X' then
        match digitVal ty, parseObj rest with
        | some tp, some (o, rest') =>
          match parseBody fuel rest' ctr with
          | some (nested, result, rest'', ctr') => some (.dec (k == 'X') tp o nested result, rest'', ctr')
          | none => none
        | _, _ => none
      else none
    | _ => none
/-- body := '[' (['^'] op ';')* result ']' ; result := '+' | '-' | '0' | '!' | '=' num -/
def parseBody : Nat → List Char → Nat → Option (List (Bool × Op) × ResultSpec × List Char × Nat)
  | 0, _, _ => none
  | fuel + 1, cs, ctr =>
    match cs with
    | '[' :: rest => parseItems fuel rest ctr
    | _ => none
def parseItems : Nat → List Char → Nat → Option (List (Bool × Op) × ResultSpec × List Char × Nat)
  | 0, _, _ => none
  | fuel + 1, cs, ctr =>
    match cs with
    | '+' :: ']' :: rest => some ([], .fresh (ctr + 1), rest, ctr + 1)
    | '-' :: ']' :: rest => some ([], .fail (ctr + 1), rest, ctr + 1)
    | '0' :: ']' :: rest => some ([], .nil, rest, ctr)
    | '!' :: ']' :: rest => some ([], .panic, rest, ctr)
    | '=' :: rest =>
      match parseNat rest with
      | some (i, ']' :: rest') => some ([], .same i, rest', ctr)
      | _ => none
    | '^' :: rest =>
      match parseOp fuel rest ctr with
      | some (op, ';' :: rest', ctr') =>
        match parseItems fuel rest' ctr' with
        | some (more, result, rest'', ctr'') => some ((true, op) :: more, result, rest'', ctr'')
        | none => none
      | _ => none
    | _ =>
      match parseOp fuel cs ctr with
      | some (op, ';' :: rest', ctr') =>
        match parseItems fuel rest' ctr' with
        | some (more, result, rest'', ctr'') => some ((false, op) :: more, result, rest'', ctr'')
        | none => none
      | _ => none
end

def parseOps (ss : List String) (ctr : Nat) : Option (List Op × Nat) :=
  match ss with
  | [] => some ([], ctr)
  | s :: rest =>
    match parseOp (s.length + 2) s.toList ctr with
    | some (op, [], ctr') =>
      match parseOps rest ctr' with
      | some (ops, ctr'') => some (op :: ops, ctr'')
      | none => none
    | _ => none

def parseThreads (ss : List String) (ctr : Nat) : Option (List (List Op)) :=
  match ss with
  | [] => some []
  | s :: rest =>
    match parseOps ((s.splitOn ",").filter (· ≠ "")) ctr with
    | some (ops, ctr') =>
      match parseThreads rest ctr' with
      | some more => some (ops :: more)
      | none => none
    | none => none

def parseProg (s : String) : Option (List (List Op)) :=
  if s == "-" then some [] else parseThreads ((s.replace "/" ",").splitOn "|") 0

/-- `pre/rest|…`: the number of calls before the `/` in thread 0's text; thread 0 makes them alone,
before any other thread is scheduled (a prelude which brings the cache into a chosen state) -/
def parseSolo (s : String) : Nat :=
  match s.splitOn "/" with
  | pre :: _ :: _ => ((pre.splitOn ",").filter (· ≠ "")).length
  | _ => 0

/-- getter spec: list of `(ref, result)` -/
def parseGetter (s : String) : Option (List (Ref × GetRes)) :=
  if s == "-" then some []
  else
    (s.splitOn ",").foldr (fun item acc =>
      match acc with
      | none => none
      | some l =>
        match item.splitOn ">" with
        | [a, b] =>
          match a.toNat? with
          | some r =>
            if b == "d" then some ((r, GetRes.direct) :: l)
            else if b == "e" then some ((r, GetRes.err) :: l)
            else match b.toNat? with
              | some r' => some ((r, GetRes.ref r') :: l)
              | none => none
          | none => none
        | _ => none) (some [])

def getterFn (l : List (Ref × GetRes)) (r : Ref) : GetRes :=
  match l.find? (·.1 == r) with
  | some (_, g) => g
  | none => .direct

def mkCfg (fixed : Bool) (l : List (Ref × GetRes)) : Cfg :=
  { get := getterFn l, fixed := fixed }

/-! ## references mentioned (for the cache dump) -/

mutual
def opMaxRef : Op → Nat
  | .dec _ _ o nested _ =>
    Nat.max (match o with | .ref r => r | .direct => 0) (nestedMaxRef nested)
  | .pair _ _ r _ _ => r
def nestedMaxRef : List (Bool × Op) → Nat
  | [] => 0
  | (_, op) :: rest => Nat.max (opMaxRef op) (nestedMaxRef rest)
end

def maxRef (prog : List (List Op)) (g : List (Ref × GetRes)) : Nat :=
  let a := prog.foldl (fun m ops => ops.foldl (fun m op => Nat.max m (opMaxRef op)) m) 0
  g.foldl (fun m (r, x) => Nat.max (Nat.max m r) (match x with | .ref r' => r' | _ => 0)) a

/-! ## printing -/

def showObj : Obj → String
  | .ref r => s!"r{r}"
  | .direct => "d"

def showRes : Res → String
  | .ok v => s!"v{v}"
  | .err .cycle => "Ecycle"
  | .err .depth => "Edepth"
  | .err .get => "Eget"
  | .err (.fn c) => s!"Efn{c}"
  | .err .aborted => "Eaborted"
  | .panic => "PANIC"

def showPath (p : List Ref) : String :=
  if p.isEmpty then "-" else ".".intercalate (p.map toString)

def showEvent : Event → String
  | .dec _ o tp res => s!"D{tp}{showObj o}={showRes res}"
  | .exc _ o tp res _ => s!"X{tp}{showObj o}={showRes res}"
  | .pair _ r A B _ _ (some (a, b)) => s!"P{A}{B}r{r}=v{a}.v{b}"
  | .pair _ r A B _ _ none => s!"P{A}{B}r{r}=PANIC"
  | .run _ tp _ path _ => s!"F{tp}/{showPath path}"
  | .fnPanic _ => "FP"

def eventTid : Event → Tid
  | .dec t .. => t
  | .exc t .. => t
  | .pair t .. => t
  | .run t .. => t
  | .fnPanic t => t

def threadStatus (d : DState) (t : Tid) : String :=
  if finished d t then "done"
  else
    match d.m.thr t with
    | .dead :: _ => "dead"
    | .exWait .. :: _ => "blocked"
    | _ => "open"

def showCache (d : DState) (mr : Nat) : String :=
  let keys := (List.range (mr + 1)).flatMap fun r => (List.range 4).map fun tp => (r, tp)
  let items := keys.filterMap fun k =>
    match d.m.cache k with
    | some v => some s!"{k.1}.{k.2}=v{v}"
    | none => none
  if items.isEmpty then "-" else ",".intercalate items

def wipCount (d : DState) (mr : Nat) : Nat :=
  let keys := (List.range (mr + 1)).flatMap fun r => (List.range 4).map fun tp => (r, tp)
  (keys.filter fun k => (d.m.wip k).isSome).length

def showOutcome (d : DState) (n : Nat) (mr : Nat) : String :=
  let evs := d.vis.reverse
  let per := (List.range n).map fun t =>
    let mine := evs.filter (eventTid · == t)
    s!"t{t}[{threadStatus d t}]:" ++ ";".intercalate (mine.map showEvent)
  "|".intercalate per ++ s!"|c:{showCache d mr}|w{wipCount d mr}"

/-! ## all schedules -/

def addOutcome (acc : List (String × Nat)) (o : String) : List (String × Nat) :=
  match acc with
  | [] => [(o, 1)]
  | (o', c) :: rest => if o' == o then (o', c + 1) :: rest else (o', c) :: addOutcome rest o

/-- the prelude of thread 0 is still running: more than `rest0` of its top-level calls are still
to be made, or the last call of the prelude has not returned yet -/
def soloPending (d : DState) (rest0 : Nat) : Bool :=
  let todo := (getTh d 0).todo.length
  todo > rest0 || (todo == rest0 && !(d.m.thr 0).isEmpty)

/-- the states reachable by one scheduling step: of thread 0 alone while its prelude runs (and it
can move), of every enabled thread otherwise -/
def nextStates (cfg : Cfg) (n rest0 : Nat) (d : DState) : List DState :=
  let all := (List.range n).filterMap fun t => advance cfg d t
  if soloPending d rest0 then
    match advance cfg d 0 with
    | some d' => [d']
    | none => all
  else all

/-- depth-first over every enabled thread at every scheduling point -/
def explore (cfg : Cfg) (n mr rest0 : Nat) : Nat → DState → List (String × Nat) → List (String × Nat)
  | 0, _, acc => addOutcome acc "fuel"
  | fuel + 1, d, acc =>
    let next := nextStates cfg n rest0 d
    if next.isEmpty then addOutcome acc (showOutcome d n mr)
    else next.foldl (fun acc d' => explore cfg n mr rest0 fuel d' acc) acc

def insertSorted (x : String × Nat) : List (String × Nat) → List (String × Nat)
  | [] => [x]
  | y :: ys => if x.1 < y.1 then x :: y :: ys else y :: insertSorted x ys

def sortOutcomes (l : List (String × Nat)) : List (String × Nat) :=
  l.foldl (fun acc x => insertSorted x acc) []

def parseSched (s : String) : Option (List Tid) :=
  if s == "-" then some []
  else s.toList.foldr (fun c acc =>
    match acc, digitVal c with
    | some l, some d => some (d :: l)
    | _, _ => none) (some [])

def showInv : String :=
  " ".intercalate (lockInventory.map fun (f, m, a, l) => s!"{f}/{m}/{a}/{if l then "locked" else "unlocked"}")

def handle (args : List String) : String :=
  match args with
  | ["run", ver, getter, prog, sched] =>
    match parseGetter getter, parseProg prog, parseSched sched with
    | some g, some p, some sc =>
      let cfg := mkCfg (ver == "f") g
      match runSched cfg (initD p) sc with
      | some d => showOutcome d p.length (maxRef p g)
      | none => "bad-sched"
    | _, _, _ => "bad-args"
  | ["explore", ver, getter, prog] =>
    match parseGetter getter, parseProg prog with
    | some g, some p =>
      let cfg := mkCfg (ver == "f") g
      -- without a prelude `rest0` is the number of calls of thread 0: never pending
      let rest0 := (p.headD []).length - parseSolo prog
      let res := sortOutcomes (explore cfg p.length (maxRef p g) rest0 4000 (initD p) [])
      let total := res.foldl (fun n x => n + x.2) 0
      s!"n={total} k={res.length} " ++ " ".intercalate (res.map fun (o, c) => s!"{o}*{c}")
    | _, _ => "bad-args"
  | ["inv"] => showInv
  | ["closeorder"] =>
    " ".intercalate (closeOrder.map fun (f, a, b) => if a == "" then s!"{f}:{b}" else s!"{f}:{a}:{b}")
  | ["appendinv"] =>
    " ".intercalate (appendInventory.map fun (f, fn, a, k, m) => s!"{f}:{fn}:append({a}):{k}:{m}")
  | ["poolinv"] =>
    " ".intercalate (poolInventory.map fun (pl, f, k, a, n, m, c, g) =>
      s!"{pl}/{f}/{k}({a})/paths={n}/maxput={m}/if={c}/guard={g}")
  | ["pkginv"] =>
    " ".intercalate (pkgInventory.map fun (v, m, f, a, st) => s!"{v}@{m}:{f}/{a}/{st}")
  | _ => "bad-op"

end PdfVerif.Driver.CONC

import PdfVerif.Model.FNTSimple
import PdfVerif.Model.FNTCid
import PdfVerif.Model.FNTWidths
/-!
Line-protocol handler for C14 (key `FNT`): fonts — code allocation, `Codes`, width arrays.

One line is one scenario (an encoder is stateful, the driver is a pure function per line):
`FNT simple <notdefWidth> <base encoding: 256 names joined by ','> <op;op;…>` etc.
Fields inside an op are separated by ':', byte strings are hex (`-` for empty).
-/
namespace PdfVerif.Driver.FNT
open PdfVerif PdfVerif.FNT

def hexOpt (s : String) : Bytes := match bytesOfHex s with | some b => b | none => []

def showCodeOut (o : CodeOut) : String :=
  s!"{o.cid}/{o.width}/{hexWire o.text}/{if o.ws then 1 else 0}"

def showCodes (l : List CodeOut) : String :=
  if l.isEmpty then "-" else ",".intercalate (l.map showCodeOut)

def showOptNat : Option Nat → String
  | some c => toString c
  | none => "none"

/-! ### simple -/

def simpleOp (base : Nat → Bytes) (s : Simple) (f : List String) : Simple × String :=
  match f with
  | ["E", gid, bn, fu, r, text, width] =>
    match gid.toNat?, bytesOfHex bn, bytesOfHex fu, r.toNat?, bytesOfHex text, width.toInt? with
    | some gid, some bn, some fu, some r, some text, some width =>
      let (s', res, name) := s.encode base ⟨gid, bn, fu, r, text, width⟩
      let ns := match name with | some n => hexWire n | none => "-"
      match res with
      | .ok c => (s', s!"c{c}:{ns}")
      | .dup => (s', "dup")
      | .overflow => (s', "ovf")
    | _, _, _, _, _, _ => (s, "bad-args")
  | ["G", gid, text] =>
    match gid.toNat?, bytesOfHex text with
    | some gid, some text => (s, showOptNat (s.getCode gid text))
    | _, _ => (s, "bad-args")
  | ["C", str] =>
    match bytesOfHex str with
    | some str => (s, showCodes (s.codes str))
    | none => (s, "bad-args")
  | ["D"] => (s, toString s.defaultWidth)
  | ["R"] => (s, toString s.codesRemaining)
  | ["X"] => (s, if s.err then "1" else "0")
  | ["N", c] =>
    match c.toNat? with
    | some c => (s, hexWire (s.encodingName c))
    | none => (s, "bad-args")
  | ["M", gid] =>
    match gid.toNat? with
    | some gid => (s, hexWire (match s.glyphName.get gid with | some n => n | none => []))
    | none => (s, "bad-args")
  | _ => (s, "bad-op")

def runOps {σ : Type} (step : σ → List String → σ × String) (s : σ) (ops : String) : String :=
  let (_, outs) := (ops.splitOn ";").foldl
    (fun (acc : σ × List String) op =>
      let (s', o) := step acc.1 (op.splitOn ":")
      (s', o :: acc.2)) (s, [])
  ";".intercalate outs.reverse

def baseTable (tbl : String) : Array Bytes := ((tbl.splitOn ",").map bytesOfString).toArray

def baseFn (names : Array Bytes) (c : Nat) : Bytes :=
  match names[c]? with | some n => n | none => []

/-! ### cid encoders -/

def showCidRes : CidRes → String
  | .ok c => s!"c{c}"
  | .dup => "dup"
  | .overflow => "ovf"
  | .notInCMap => "nocid"
  | .widthDiffers => "wdiff"
  | .textDiffers => "tdiff"
  | .nofuel => "nofuel"

def utf8Op (e : Utf8Enc) (f : List String) : Utf8Enc × String :=
  match f with
  | ["E", cid, text, width, single] =>
    match cid.toNat?, bytesOfHex text, width.toInt? with
    | some cid, some text, some width =>
      let sg := if single == "-" then none else single.toNat?
      let (e', res) := e.encode cid text width sg
      (e', showCidRes res)
    | _, _, _ => (e, "bad-args")
  | ["G", cid, text] =>
    match cid.toNat?, bytesOfHex text with
    | some cid, some text => (e, showOptNat (e.getCode cid text))
    | _, _ => (e, "bad-args")
  | ["C", str] =>
    match bytesOfHex str with
    | some str => (e, showCodes (e.codes str))
    | none => (e, "bad-args")
  | ["A", code] =>      -- Codec().AppendCode
    match code.toNat? with
    | some c => (e, hexWire (appendCode csrUTF8 c))
    | none => (e, "bad-args")
  | ["W", code] =>
    match code.toNat? with
    | some c => (e, toString (e.width c))
    | none => (e, "bad-args")
  | ["P", next] =>      -- test hook: set nextPrivate
    match next.toNat? with
    | some n => ({ e with nextPrivate := n }, "ok")
    | none => (e, "bad-args")
  | _ => (e, "bad-op")

def fixedOp (e : FixedEnc) (f : List String) : FixedEnc × String :=
  match f with
  | ["E", cid, text, width] =>
    match cid.toNat?, bytesOfHex text, width.toInt? with
    | some cid, some text, some width =>
      let (e', res) := e.encode cid text width
      (e', showCidRes res)
    | _, _, _ => (e, "bad-args")
  | ["G", cid, text] =>
    match cid.toNat?, bytesOfHex text with
    | some cid, some text => (e, showOptNat (e.getCode cid text))
    | _, _ => (e, "bad-args")
  | ["C", str] =>
    match bytesOfHex str with
    | some str => (e, showCodes (e.codes str))
    | none => (e, "bad-args")
  | ["A", code] =>
    match code.toNat? with
    | some c => (e, hexWire (appendCode e.csr c))
    | none => (e, "bad-args")
  | _ => (e, "bad-op")

/-- `lo-hi,lo-hi,…` in hex -/
def csrOf (s : String) : Option CSR :=
  (s.splitOn ",").mapM fun r =>
    match r.splitOn "-" with
    | [lo, hi] => do
      let l ← bytesOfHexChars lo.toList
      let h ← bytesOfHexChars hi.toList
      pure ⟨l, h⟩
    | _ => none

def showCSR (c : CSR) : String :=
  ",".intercalate (c.map fun r => hexOfBytes r.low ++ "-" ++ hexOfBytes r.high)

/-- `code=cid,code=cid,…` decimal -/
def pairsOf (s : String) : Option (List (Nat × Nat)) :=
  if s == "-" then some [] else
  (s.splitOn ",").mapM fun p =>
    match p.splitOn "=" with
    | [a, b] => do
      let x ← a.toNat?
      let y ← b.toNat?
      pure (x, y)
    | _ => none

/-! ### width arrays -/

/-- `cid=w,cid=w` -/
def entriesOf (s : String) : Option (List (Nat × Int)) :=
  if s == "-" then some [] else
  (s.splitOn ",").mapM fun p =>
    match p.splitOn "=" with
    | [a, b] => do
      let x ← a.toNat?
      let y ← b.toInt?
      pure (x, y)
    | _ => none

def showEntries (l : List (Nat × Int)) : String :=
  if l.isEmpty then "-" else ",".intercalate (l.map fun (c, w) => s!"{c}={w}")

/-- canonical form of a Go map given by its assignment log: last assignment wins, sorted -/
def canonLog (log : List (Nat × Int)) : List (Nat × Int) :=
  -- stable sort by CID keeps assignment order inside a group; keep the last of each group
  let sorted := log.mergeSort (fun a b => a.1 ≤ b.1)
  let rec dedup : List (Nat × Int) → List (Nat × Int)
    | [] => []
    | [x] => [x]
    | x :: y :: rest => if x.1 == y.1 then dedup (y :: rest) else x :: dedup (y :: rest)
  dedup sorted

def hasReal : Nat → Obj → Bool
  | 0, _ => true
  | _, .real _ => true
  | fuel + 1, .arr xs => xs.any (hasReal fuel)
  | _, _ => false

def intsOf (s : String) : Option (List Int) :=
  if s == "-" then some [] else (s.splitOn ",").mapM String.toInt?

def showInts (l : List Int) : String :=
  if l.isEmpty then "-" else ",".intercalate (l.map toString)

def handle (args : List String) : String :=
  match args with
  | ["simple", ndw, tbl, ops] =>
    match ndw.toInt? with
    | some w =>
      let names := baseTable tbl
      runOps (simpleOp (baseFn names)) (Simple.init w) ops
    | none => "bad-args"
  | ["utf8", c0w, ops] =>
    match c0w.toInt? with
    | some w => runOps utf8Op ({ cid0Width := w } : Utf8Enc) ops
    | none => "bad-args"
  | ["identity", c0w, ops] =>
    match c0w.toInt? with
    | some w => runOps fixedOp (FixedEnc.identity w) ops
    | none => "bad-args"
  | ["fixed", c0w, csr, pairs, ops] =>
    match c0w.toInt?, csrOf csr, pairsOf pairs with
    | some w, some csr, some pairs => runOps fixedOp (FixedEnc.ofPairs csr pairs w) ops
    | _, _, _ => "bad-args"
  | ["csr", "utf8"] => showCSR csrUTF8
  | ["csr", "ucs2"] => showCSR csrUCS2
  | ["csr", "simple"] => showCSR csrSimple
  | ["decode", csr, str] =>
    match csrOf csr, bytesOfHex str with
    | some csr, some s => let (c, k, v) := decode csr s; s!"{c} {k} {if v then 1 else 0}"
    | _, _ => "bad-args"
  | ["namevalid", n] =>
    match bytesOfHex n with
    | some n => if isValidName n then "1" else "0"
    | none => "bad-args"
  | ["r2c", r] =>
    match r.toNat? with
    | some r => toString (runeToCode r)
    | none => "bad-args"
  | ["lits", key] =>
    match K.lits key with
    | some l => " ".intercalate (l.map toString)
    | none => "unknown-key"
  | ["dwdefault"] => toString defaultDW
  | ["wenc", entries] =>
    match entriesOf entries with
    | some es => (Obj.arr (flattenW (encodeW es))).wire
    | none => "bad-args"
  | ["wdec", objs] =>
    match objsOfWire objs with
    | none => "bad-wire"
    | some os =>
      if os.any (hasReal 8) then "unsupported" else
      match decodeW os with
      | .ok log => "ok " ++ showEntries (canonLog log)
      | .error _ => "err"
  | ["swenc", ww, mapped, dw] =>
    match intsOf ww, dw.toInt? with
    | some ww, some dw =>
      let wa := ww.toArray
      let ma := mapped.toList.toArray
      let r := encodeSimpleW (fun c => match wa[c]? with | some w => w | none => 0)
        (fun c => match ma[c]? with | some ch => ch == '1' | none => false) dw
      s!"{r.firstChar} {r.lastChar} {showInts r.widths}"
    | _, _ => "bad-args"
  | ["swdec", fc, widths, dw] =>
    match fc.toInt?, dw.toInt? with
    | some fc, some dw =>
      let ws : Option (Option (List Obj)) := if widths == "nil" then some none else (objsOfWire widths).map some
      match ws with
      | none => "bad-wire"
      | some ws =>
        let (ok, f) := decodeSimpleW fc ws dw
        s!"{if ok then 1 else 0} {showInts ((List.range 256).map f)}"
    | _, _ => "bad-args"
  | _ => "bad-op"

end PdfVerif.Driver.FNT

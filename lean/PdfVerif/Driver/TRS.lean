import PdfVerif.Model.TRSNameTree
import PdfVerif.Model.TRSPageTree
/-!
Line-protocol handler for the tree work package (C16 page tree, C17 name/number trees).

  TRS nt name|num <keys> <probes>     write the tree for the key sequence (values = position),
                                      print its shape, look every probe up with both readers,
                                      enumerate with both readers
  TRS pt <old> <ops> <hints>          run a page tree writer program (handles are numbered in
                                      the order NewRange creates them, 0 = root writer), print
                                      the outcome of every operation, the written tree and the
                                      page number callbacks in the order they fired
-/
namespace PdfVerif.Driver.TRS
open PdfVerif PdfVerif.TRSN PdfVerif.TRSP

/-! ### C17 -/

def splitList (s : String) : List String :=
  if s == "~" then [] else s.splitOn ","

def allSome {α} : List (Option α) → Option (List α)
  | [] => some []
  | none :: _ => none
  | some x :: rest => (allSome rest).map (x :: ·)

def parseNameKeys (s : String) : Option (List Bytes) := allSome ((splitList s).map bytesOfHex)
def parseNumKeys (s : String) : Option (List Int) := allSome ((splitList s).map String.toInt?)

def withIdx {K} (ks : List K) : List (K × Nat) := ks.zipIdx

class ShowKey (K : Type) where
  str : K → String
  hash : K → Nat

def M32 : Nat := 4294967296

instance : ShowKey Bytes := ⟨hexWire, fun bs => bs.foldl (fun h b => (h * 131 + b + 1) % M32) 7⟩
instance : ShowKey Int := ⟨toString, fun i => (i % (M32 : Int)).toNat⟩

variable {K : Type} [KeyOrd K] [DecidableEq K] [ShowKey K]

def showLimits : Option (K × K) → String
  | none => "[-]"
  | some (lo, hi) => "[" ++ ShowKey.str lo ++ ";" ++ ShowKey.str hi ++ "]"

mutual
def showTree : NTree K Nat → String
  | .leaf es l => "L" ++ toString es.length ++ showLimits l
  | .inner kids l => "N(" ++ showKids kids ++ ")" ++ showLimits l
def showKids : List (NTree K Nat) → String
  | [] => ""
  | k :: rest => showTree k ++ showKids rest
end

def showLookup : LookupRes Nat → String
  | .found v => "f" ++ toString v
  | .notFound => "n"
  | .tooDeep => "d"

def hashAll (es : List (K × Nat)) : String :=
  let h := es.foldl (fun h e => (h * 31 + ShowKey.hash e.1 + 7 * e.2) % M32) 1
  toString es.length ++ ":" ++ toString h

def runNT (maxDepth : Nat) (keys probes : List K) : String :=
  match write (withIdx keys) with
  | .error e => "err " ++ e.toString
  | .ok root =>
    let shape := match root with
      | none => "none"
      | some t => showTree t
    let mem := extractInMemory maxDepth root
    let s := ",".intercalate (probes.map fun p => showLookup (lookup maxDepth root p))
    let m := ",".intercalate (probes.map fun p => showLookup (match root with
      | none => LookupRes.notFound          -- `ExtractInMemory(r, nil)` is a nil tree
      | some _ => memLookup mem p))
    "ok " ++ shape ++ " S:" ++ s ++ " M:" ++ m ++ " AS:" ++ hashAll (all maxDepth root)
      ++ " AM:" ++ hashAll (memAll mem)

/-! ### C16 -/

def optBytes (s : String) : Option (Option Bytes) :=
  if s == "_" then some none else (bytesOfHex s).map some

def parseAttrs (m c r a : String) : Option Attrs :=
  match optBytes m, optBytes c, optBytes r, optBytes a with
  | some m, some c, some r, some a => some { mediaBox := m, cropBox := c, rotate := r, aa := a }
  | _, _, _, _ => none

def parseHint (s : String) : Option Hint :=
  match s.splitOn ":" with
  | [m, c, r, a] => (parseAttrs m c r a).map fun x =>
      { mediaBox := x.mediaBox, cropBox := x.cropBox, rotate := x.rotate, aa := x.aa }
  | _ => none

/-- an operation of the wire program: the writer is named by its handle -/
inductive HOp where
  | append (h id : Nat) (a : Attrs)
  | newRange (h : Nat)
  | close (h : Nat)
  | npn (h k : Nat)

def parseHOp (s : String) : Option HOp :=
  match s.toList with
  | 'a' :: rest =>
    match (String.ofList rest).splitOn ":" with
    | [h, id, m, c, r, a] =>
      match h.toNat?, id.toNat?, parseAttrs m c r a with
      | some h, some id, some attrs => some (.append h id attrs)
      | _, _, _ => none
    | _ => none
  | 'r' :: rest => (String.ofList rest).toNat?.map .newRange
  | 'c' :: rest => (String.ofList rest).toNat?.map .close
  | 'n' :: rest =>
    match (String.ofList rest).splitOn ":" with
    | [h, k] => match h.toNat?, k.toNat? with
      | some h, some k => some (.npn h k)
      | _, _ => none
    | _ => none
  | _ => none

def showOpt (tag : String) : Option Bytes → String
  | none => ""
  | some b => tag ++ hexWire b

def showAttrs (a : Attrs) : String :=
  "{" ++ showOpt "m" a.mediaBox ++ showOpt ",c" a.cropBox ++ showOpt ",r" a.rotate ++ showOpt ",a" a.aa ++ "}"

mutual
/-- canonical text of the written tree; `!` marks a `/Parent` that is not the listing node -/
def showPTree (parent : Option Nat) : PTree → String
  | .page id p a => "p" ++ toString id ++ (if p == parent then "" else "!") ++ showAttrs a
  | .pages id p kids n a =>
    "P" ++ toString n ++ (if p == parent then "" else "!") ++ showAttrs a ++ "(" ++ showPKids (some id) kids ++ ")"
def showPKids (parent : Option Nat) : List PTree → String
  | [] => ""
  | k :: rest => showPTree parent k ++ showPKids parent rest
end

def showLog (log : List (Nat × Int)) : String :=
  if log.isEmpty then "~" else ",".intercalate (log.map fun (k, v) => toString k ++ "=" ++ toString v)

/-- run the wire program: `paths[h]` is the path of handle `h` -/
def runHOps : List HOp → PState → List (List Nat) → String → String
  | [], s, _, acc =>
    acc ++ " | " ++ (match s.result with
      | none => "none"
      | some t => showPTree none t) ++ " | " ++ showLog s.g.heap.log
  | op :: rest, s, paths, acc =>
    let pathOf (h : Nat) : Option (List Nat) := paths[h]?
    let h := match op with
      | .append h _ _ => h | .newRange h => h | .close h => h | .npn h _ => h
    match pathOf h with
    | none => acc ++ "!bad-handle"
    | some path =>
      let pop : POp := match op with
        | .append _ id a => .append path id a
        | .newRange _ => .newRange path
        | .close _ => .close path
        | .npn _ k => .nextPageNumber path k
      match step s pop with
      | .error e => acc ++ "!" ++ e.toString ++ " | none | " ++ showLog s.g.heap.log
      | .ok (s', o) =>
        let c := match o with
          | .ok => "o" | .closed => "c" | .noPages => "n"
        let paths' := match op, o with
          | .newRange _, .ok =>
            match s'.root.getAt path with
            | some w => paths ++ [path ++ [numSubs w.children - 1]]
            | none => paths
          | _, _ => paths
        runHOps rest s' paths' (acc ++ c)

def runPT (old : String) (ops hints : String) : String :=
  let hs := if hints == "~" then some [] else allSome ((hints.splitOn ",").map parseHint)
  let os := if ops == "~" then some [] else allSome ((ops.splitOn ";").map parseHOp)
  match hs, os with
  | some hs, some os => runHOps os (PState.init (old == "1") hs) [[]] ""
  | _, _ => "bad-args"

/-- big trees: shape, streaming lookups, streaming enumeration (the in-memory reader's model is
    quadratic and is compared on the smaller cases) -/
def runNTB (maxDepth : Nat) (keys probes : List K) : String :=
  match write (withIdx keys) with
  | .error e => "err " ++ e.toString
  | .ok root =>
    let shape := match root with
      | none => "none"
      | some t => showTree t
    let s := ",".intercalate (probes.map fun p => showLookup (lookup maxDepth root p))
    "ok " ++ shape ++ " S:" ++ s ++ " AS:" ++ hashAll (all maxDepth root)

/-- a history on one in-memory tree value (`InMemory.Data` is an exported, mutable map):
    `s<key>=<v>` set, `d<key>` delete, `c` clear, `a` All(), `l<key>` Lookup, `w` Embed into a
    fresh file and read back.  Every answer is a function of the current map only. -/
def runHist (maxDepth : Nat) (parseKey : String → Option K) : List String → List (K × Nat) → List String → String
  | [], _, acc => "|".intercalate acc.reverse
  | op :: rest, m, acc =>
    match op.toList with
    | 'c' :: _ => runHist maxDepth parseKey rest [] ("." :: acc)
    | 'q' :: _ => runHist maxDepth parseKey rest m ("." :: acc)
    | 'x' :: ks =>
      match (String.ofList ks).splitOn "," with
      | [kd, rest'] =>
        match rest'.splitOn "=" with
        | [ki, vs] =>
          match parseKey kd, parseKey ki, vs.toNat? with
          | some kd, some ki, some v => runHist maxDepth parseKey rest (mapSet ki v (mapDel kd m)) ("." :: acc)
          | _, _, _ => "bad-exchange"
        | _ => "bad-exchange"
      | _ => "bad-exchange"
    | 'a' :: _ => runHist maxDepth parseKey rest m (hashAll (memAll m) :: acc)
    | 'w' :: _ =>
      let r := match write (memAll m) with
        | .error e => "err " ++ e.toString
        | .ok root =>
          (match root with
            | none => "none"
            | some t => showTree t) ++ " " ++ hashAll (all maxDepth root)
      runHist maxDepth parseKey rest m (r :: acc)
    | 'l' :: ks =>
      match parseKey (String.ofList ks) with
      | none => "bad-key"
      | some k => runHist maxDepth parseKey rest m (showLookup (memLookup m k) :: acc)
    | 'd' :: ks =>
      match parseKey (String.ofList ks) with
      | none => "bad-key"
      | some k => runHist maxDepth parseKey rest (mapDel k m) ("." :: acc)
    | 's' :: ks =>
      match (String.ofList ks).splitOn "=" with
      | [ks', vs] =>
        match parseKey ks', vs.toNat? with
        | some k, some v => runHist maxDepth parseKey rest (mapSet k v m) ("." :: acc)
        | _, _ => "bad-set"
      | _ => "bad-set"
    | _ => "bad-hist-op"

def handle (args : List String) : String :=
  match args with
  | ["nth", "name", ops] => runHist Gen.limits_MaxNameTreeDepth bytesOfHex (ops.splitOn ";") [] []
  | ["nth", "num", ops] => runHist Gen.limits_MaxNumberTreeDepth String.toInt? (ops.splitOn ";") [] []
  | ["ntb", "name", keys, probes] =>
    match parseNameKeys keys, parseNameKeys probes with
    | some ks, some ps => runNTB Gen.limits_MaxNameTreeDepth ks ps
    | _, _ => "bad-args"
  | ["ntb", "num", keys, probes] =>
    match parseNumKeys keys, parseNumKeys probes with
    | some ks, some ps => runNTB Gen.limits_MaxNumberTreeDepth ks ps
    | _, _ => "bad-args"
  | ["nt", "name", keys, probes] =>
    match parseNameKeys keys, parseNameKeys probes with
    | some ks, some ps => runNT Gen.limits_MaxNameTreeDepth ks ps
    | _, _ => "bad-args"
  | ["nt", "num", keys, probes] =>
    match parseNumKeys keys, parseNumKeys probes with
    | some ks, some ps => runNT Gen.limits_MaxNumberTreeDepth ks ps
    | _, _ => "bad-args"
  | ["pt", old, ops, hints] => runPT old ops hints
  | _ => "bad-op"

end PdfVerif.Driver.TRS

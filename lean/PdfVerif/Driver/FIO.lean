import PdfVerif.Model.FIOWriter
import PdfVerif.Model.FIOReader
import PdfVerif.Spec.FIOFileWF
import PdfVerif.Driver.C01
/-! Line-protocol handler for work package FIO (C02/C03: writer, xref, reader, file checker). -/
namespace PdfVerif.Driver.FIO
open PdfVerif PdfVerif.FIO

/-! ### wire helpers -/

def parseInt (s : String) : Option Int :=
  match s.toList with
  | '-' :: ds => (String.ofList ds).toNat?.map fun n => - (n : Int)
  | _ => s.toNat?.map fun n => (n : Int)

/-- entries `num:inStream:pos:gen` separated by commas, `-` for none -/
def parseEntries (s : String) : Option XMap :=
  if s == "-" then some [] else
  (s.splitOn ",").mapM fun item =>
    match item.splitOn ":" with
    | [a, b, c, d] =>
      match a.toNat?, b.toNat?, parseInt c, d.toNat? with
      | some n, some ins, some pos, some gen => some (n, { inStream := ins, pos := pos, gen := gen })
      | _, _, _, _ => none
    | _ => none

def insertSorted (x : Nat × XEntry) : List (Nat × XEntry) → List (Nat × XEntry)
  | [] => [x]
  | y :: ys => if x.1 < y.1 then x :: y :: ys else if x.1 == y.1 then y :: ys else y :: insertSorted x ys

/-- canonical form of a table: first binding of every number, ascending -/
def canonMap (m : XMap) : List (Nat × XEntry) :=
  -- later bindings of a number are shadowed: insert from the back so that the front wins
  m.reverse.foldl (fun acc x => insertSorted x (acc.filter fun y => y.1 != x.1)) []

def showEntries (m : XMap) : String :=
  let es := canonMap m
  if es.isEmpty then "-" else
  ",".intercalate (es.map fun (n, e) => s!"{n}:{e.inStream}:{e.pos}:{e.gen}")

def showDict (d : List (Bytes × Obj)) : String := (Driver.C01.norm (.dict d)).wire

def parsePairs (s : String) : Option (List (Nat × Nat)) :=
  if s == "-" then some [] else
  (s.splitOn ",").mapM fun item =>
    match item.splitOn ":" with
    | [a, b] => match a.toNat?, b.toNat? with
      | some x, some y => some (x, y)
      | _, _ => none
    | _ => none

def showPairs (ps : List (Nat × Nat)) : String :=
  if ps.isEmpty then "-" else ",".intercalate (ps.map fun (a, b) => s!"{a}:{b}")

/-! ### writer programs -/

def parseDict (s : String) : Option (List (Bytes × Obj)) :=
  match Obj.ofWire s with
  | some (.dict d) => some d
  | _ => none

def parseOptInt (s : String) : Option (Option Int) :=
  if s == "-" then some none else (parseInt s).map some

def parseItems : List String → Option (List (Nat × Nat × Obj))
  | [] => some []
  | a :: b :: c :: rest =>
    match a.toNat?, b.toNat?, Obj.ofWire c, parseItems rest with
    | some n, some g, some o, some r => some ((n, g, o) :: r)
    | _, _, _, _ => none
  | _ => none

def parseOp1 (s : String) : Option Op :=
  match s.splitOn "~" with
  | ["A"] => some .alloc
  | ["F", n, g] =>
    match n.toNat?, g.toNat? with
    | some n, some g => some (.openStreamFail n g)
    | _, _ => none
  | ["P", n, g, o] =>
    match n.toNat?, g.toNat?, Obj.ofWire o with
    | some n, some g, some o => some (.put n g (.plain o))
    | _, _, _ => none
  | ["S", n, g, d, ul, raw] =>
    match n.toNat?, g.toNat?, parseDict d, parseOptInt ul, bytesOfHex raw with
    | some n, some g, some d, some ul, some raw => some (.put n g (.stream d ul raw))
    | _, _, _, _, _ => none
  | ["O", n, g, d, ul] =>
    match n.toNat?, g.toNat?, parseDict d, parseOptInt ul with
    | some n, some g, some d, some ul => some (.openStream n g d ul)
    | _, _, _, _ => none
  | ["W", hex] => (bytesOfHex hex).map .write
  | ["C"] => some .closeStream
  | "Z" :: raws :: items =>
    -- the raw bytes of the object streams, one per stream, separated by `+`
    match (raws.splitOn "+").mapM bytesOfHex, parseItems items with
    | some raws, some items => some (.writeCompressed items raws)
    | _, _ => none
  | ["X", cat, info, tr, raw] =>
    match Obj.ofWire cat, parseDict tr, bytesOfHex raw with
    | some cat, some tr, some raw =>
      if info == "-" then some (.close cat none tr raw)
      else (Obj.ofWire info).map fun i => .close cat (some i) tr raw
    | _, _, _ => none
  | _ => none

def parseNumObjs : List String → Option (List (Nat × Obj))
  | [] => some []
  | a :: c :: rest =>
    match a.toNat?, Obj.ofWire c, parseNumObjs rest with
    | some n, some o, some r => some ((n, o) :: r)
    | _, _, _ => none
  | _ => none

/-- `!op`: the Writer refused `op` without side effects and the program went on -/
def parseOp (s : String) : Option Op :=
  if s.startsWith "!" then (parseOp1 (String.ofList (s.toList.drop 1))).map .rejected else parseOp1 s


/-! ### the independent file checker (C03) -/

/-- `raw=plain` pairs in hex, separated by commas -/
def parseInflate (s : String) : Option (List (Bytes × Bytes)) :=
  if s == "-" then some [] else
  (s.splitOn ",").mapM fun item =>
    match item.splitOn "=" with
    | [a, b] => match bytesOfHex a, bytesOfHex b with
      | some x, some y => some (x, y)
      | _, _ => none
    | _ => none

def inflateOf (tbl : List (Bytes × Bytes)) (raw : Bytes) : Option Bytes :=
  (tbl.find? fun e => e.1 == raw).map (·.2)

def showSpecEntry (ne : Nat × Spec.FileWF.Entry) : String :=
  let (n, e) := ne
  if e.kind == 1 then s!"{n}:u:{e.a}:{e.b}" else if e.kind == 2 then s!"{n}:c:{e.a}:{e.b}" else s!"{n}:f"

def showFact (f : Spec.FileWF.Fact) : String :=
  match f.val, f.stream with
  | .dict d, some (_, len) =>
    s!"{f.num}=S{Spec.FileWF.wire (.dict (d.filter fun e => e.1 != bytesOfString "Length"))}:{len}"
  | v, _ => s!"{f.num}={Spec.FileWF.wire v}"

/-! ### reader side -/

/-- `num:value` pairs: the integer objects an indirect /Length may refer to; `num:!` = resolving
    this reference meets a read error, `num:e` = the end of the data (bare io.EOF).  Anything else
    is a malformed-file error ("not an integer"). -/
def lenGetter (tbl : List (Nat × Except Err Int)) : Obj → Except Err Int
  | .int n => .ok n
  | .ref n _ =>
    match tbl.find? fun e => e.1 == n with
    | some (_, r) => r
    | none => .error .malformed
  | _ => .error .malformed

def parseLens (s : String) : Option (List (Nat × Except Err Int)) :=
  if s == "-" then some [] else
  (s.splitOn ",").mapM fun item =>
    match item.splitOn ":" with
    | [a, b] =>
      if b == "!" then a.toNat?.map fun x => (x, .error .io)
      else if b == "e" then a.toNat?.map fun x => (x, .error .eof)
      else match a.toNat?, parseInt b with
        | some x, some y => some (x, .ok y)
        | _, _ => none
    | _ => none

def handle (args : List String) : String :=
  match args with
  | ["effver", h, c] =>
    match h.toNat?, c.toNat? with
    | some h, some c => s!"ok {effectiveVersion h c}"
    | _, _ => "bad-args"
  | ["rdobj", hex, pos, lens] =>
    match bytesOfHex hex, pos.toNat?, parseLens lens with
    | some inp, some p, some tbl =>
      match readIndirectObject inp p (lenGetter tbl) with
      | .ok (.plain o, n, g, rest) => s!"ok P {(Driver.C01.norm o).wire} {n} {g} {inp.length - rest.length}"
      | .ok (.stream d st len, n, g, rest) => s!"ok S {showDict d} {st} {len} {n} {g} {inp.length - rest.length}"
      | .error e => s!"err {e}"
    | _, _, _ => "bad-args"
  | ["get", hex, ents, tbl, lens, num, gen] =>
    match bytesOfHex hex, parseEntries ents, parseInflate tbl, parseLens lens, num.toNat?, gen.toNat? with
    | some file, some m, some t, some ls, some n, some g =>
      match readerGet file m 0 (inflateOf t) (lenGetter ls) n g with
      | .ok none => "ok null"
      | .ok (some (.plain .null)) => "ok null"   -- Get cannot tell a null object from an absent one
      | .ok (some (.plain o)) => s!"ok P {(Driver.C01.norm o).wire}"
      | .ok (some (.stream d st len)) => s!"ok S {showDict d} {st} {len}"
      | .error e => s!"err {e}"
    | _, _, _, _, _, _ => "bad-args"
  | ["osget", dict, hex, num] =>
    match parseDict dict, bytesOfHex hex, num.toNat? with
    | some d, some content, some n =>
      match getObjStm d content with
      | .error e => s!"err {e}"
      | .ok (idx, headEnd) =>
        let shown := showPairs idx
        match getFromObjStm idx headEnd content n with
        | .ok (some o) => s!"ok {shown} {headEnd} {(Driver.C01.norm o).wire}"
        | .ok none => s!"ok {shown} {headEnd} absent"
        | .error e => s!"ok {shown} {headEnd} err-{e}"
    | _, _, _ => "bad-args"
  | ["chk", hex, tbl] =>
    match bytesOfHex hex, parseInflate tbl with
    | some file, some t =>
      match Spec.FileWF.checkFile (inflateOf t) file with
      | .ok ff => s!"ok {stringOfBytes ff.version} {ff.size} {",".intercalate (ff.table.map showSpecEntry)}"
      | .error e => "fail " ++ e.replace " " "_"
    | _, _ => "bad-args"
  | ["chkbad", hex, tbl] =>
    match bytesOfHex hex, parseInflate tbl with
    | some file, some t =>
      match Spec.FileWF.checkFile (inflateOf t) file with
      | .ok _ => "accepted"
      | .error _ => "fail"
    | _, _ => "bad-args"
  | ["chkval", hex, tbl, nums] =>
    match bytesOfHex hex, parseInflate tbl, (nums.splitOn ",").mapM (·.toNat?) with
    | some file, some t, some ns =>
      match Spec.FileWF.checkFile (inflateOf t) file with
      | .ok ff =>
        "ok " ++ ",".intercalate (ns.map fun n =>
          match ff.objs.find? (fun f => f.num == n) with
          | some f => showFact f
          | none => s!"{n}=absent")
      | .error e => "fail " ++ e.replace " " "_"
    | _, _, _ => "bad-args"
  | ["prog", ver, flags, ops] =>
    match ver.toNat?, (ops.splitOn "|").mapM parseOp with
    | some v, some ops =>
      let o : WOpts := { version := v, human := flags.contains 'h', seekable := flags.contains 's', encrypted := flags.contains 'e' }
      match initState o with
      | none => "err init"
      | some s0 =>
        match run s0 ops 0 with
        | .ok s => "ok " ++ hexWire s.out
        | .error (i, _) => s!"err {i}"
    | _, _ => "bad-args"
  | ["objstm", items] =>
    match parseNumObjs (items.splitOn "~") with
    | some its =>
      match objStmContent { pretty := false, content := false } its with
      | some (bs, n, first) => s!"ok {n} {first} {hexWire bs}"
      | none => "err"
    | none => "bad-args"
  | ["xtab", nr, ents] =>
    match nr.toNat?, parseEntries ents with
    | some n, some m =>
      match xrefTableBody m n with
      | some bs => "ok " ++ hexWire bs
      | none => "err"
    | _, _ => "bad-args"
  | ["xstm", nr, ents] =>
    match nr.toNat?, parseEntries ents with
    | some n, some m =>
      let (w2, w3, bs) := xrefStreamPayload m n
      s!"ok {w2} {w3} {hexWire bs}"
    | _, _ => "bad-args"
  | ["rdtab", pre, hex] =>
    match parseEntries pre, bytesOfHex hex with
    | some m, some bs =>
      match readXRefTable m bs with
      | .ok (m', d, rest) => s!"ok {showEntries m'} {showDict d} {bs.length - rest.length}"
      | .error e => s!"err {e}"
    | _, _ => "bad-args"
  | ["rdsec", pre, hex, st, en] =>
    match parseEntries pre, bytesOfHex hex, st.toNat?, en.toNat? with
    | some m, some bs, some s, some e =>
      match decodeXRefSection s m bs s 0 (e - s) with
      | .ok (m', rest) => s!"ok {showEntries m'} {bs.length - rest.length}"
      | .error e => s!"err {e}"
    | _, _, _, _ => "bad-args"
  | ["xsdec", pre, hex, w0, w1, w2, ss] =>
    match parseEntries pre, bytesOfHex hex, w0.toNat?, w1.toNat?, w2.toNat?, parsePairs ss with
    | some m, some bs, some a, some b, some c, some ps =>
      match decodeXRefStream a b c m bs ps with
      | .ok m' => s!"ok {showEntries m'}"
      | .error e => s!"err {e}"
    | _, _, _, _, _, _ => "bad-args"
  | ["xschk", dict, rawLen] =>
    match Obj.ofWire dict, parseInt rawLen with
    | some (.dict d), some l =>
      match checkXRefStreamDict d l with
      | .ok (ws, ss) => s!"ok {" ".intercalate (ws.map toString)} {showPairs ss}"
      | .error e => s!"err {e}"
    | _, _ => "bad-args"
  | ["pngup", cols, hex] =>
    match cols.toNat?, bytesOfHex hex with
    | some c, some bs =>
      match pngUndo c bs with
      | .ok out => "ok " ++ hexWire out
      | .error e => s!"err {e}"
    | _, _ => "bad-args"
  | ["encint", x, w] =>
    match x.toNat?, w.toNat? with
    | some x, some w => "ok " ++ hexWire (encodeInt64 x w)
    | _, _ => "bad-args"
  | ["decint", hex] =>
    match bytesOfHex hex with
    | some bs => match decodeInt bs with
      | some v => s!"ok {v}"
      | none => "err malformed"
    | none => "bad-args"
  | _ => "bad-op"

end PdfVerif.Driver.FIO

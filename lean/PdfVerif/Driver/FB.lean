import PdfVerif.Basic
import PdfVerif.Model.Obj
import PdfVerif.Model.Format
import PdfVerif.Model.FBPredict
import PdfVerif.Model.FBCCITT
import PdfVerif.Model.FBParams
import PdfVerif.Model.FBGlobals
import PdfVerif.Spec.FBCodecs
/-! Line-protocol handler for work package FB (predictors, CCITTFax, filter parameters). -/
namespace PdfVerif.Driver.FB
open PdfVerif PdfVerif.FB

def int? (s : String) : Option Int := s.toInt?
def nat? (s : String) : Option Nat := s.toNat?

def geoOf (colors bpc columns pred : Int) : Option Geo :=
  let p : PParams := ⟨colors, bpc, columns, pred⟩
  if p.validate then some p.geo else none

/-- insertion sort of dictionary entries by key bytes (canonical order of the wire) -/
def insertKV (kv : Bytes × Obj) : List (Bytes × Obj) → List (Bytes × Obj)
  | [] => [kv]
  | x :: xs => if bytesLt kv.1 x.1 then kv :: x :: xs else x :: insertKV kv xs
def sortDict (d : Dict) : Dict := d.foldr insertKV []

/-- canonical form for comparison: empty/nil dictionaries are `null`, keys sorted -/
def canonParm : Obj → Obj
  | .dict [] => .null
  | .dict d => .dict (sortDict d)
  | o => o

def canonParms : Obj → Obj
  | .arr xs => .arr (xs.map canonParm)
  | o => canonParm o

def dictWire (d : Dict) : String := if d.isEmpty then "z" else (Obj.dict (sortDict d)).wire

def b2s (b : Bool) : String := if b then "1" else "0"

def descFilter : Filter → String
  | .ascii85 => "a85" | .asciiHex => "ahx" | .runLength => "rl"
  | .flate f => s!"flate:{f.predictor},{f.colors},{f.bpc},{f.columns}"
  | .lzw f => s!"lzw:{f.predictor},{f.colors},{f.bpc},{f.columns},{b2s f.offByOne}"
  | .ccitt f => s!"ccitt:{f.k},{b2s f.endOfLine},{b2s f.byteAlign},{f.columns},{f.rows},{b2s f.ignoreEOB},{b2s f.blackIs1},{f.damaged}"
  | .dct n => s!"dct:{n}"
  | .jbig2 => "jbig2" | .jpx => "jpx"
  | .cryptIdentity => "crypt-id" | .cryptStandard => "crypt-std"
  | .cryptNamed n => "crypt:" ++ hexWire n
  | .notImplemented n => "ni:" ++ hexWire n

def flag (flags : String) (c : Char) : Bool := flags.contains c

def ccittOf (cols k rows : Int) (flags : String) : FCCITT :=
  ⟨k, flag flags 'e', flag flags 'a', cols, rows, flag flags 'i', flag flags 'b', 0⟩

def objOf (s : String) : Option Obj := Obj.ofWire s

def dictOf (s : String) : Option Dict :=
  match Obj.ofWire s with
  | some (.dict d) => some d
  | some .null => some []
  | _ => none

def handle (args : List String) : String :=
  match args with
  | ["pvalid", c, b, col, p] =>
    match int? c, int? b, int? col, int? p with
    | some c, some b, some col, some p =>
      match geoOf c b col p with
      | some g => if p = 1 then "ok - -" else s!"ok {g.rowBytes} {g.bpp}"
      | none => "err"
    | _, _, _, _ => "bad-args"
  | ["paeth", a, b, c] =>
    match nat? a, nat? b, nat? c with
    | some a, some b, some c => toString (paeth a b c)
    | _, _, _ => "bad-args"
  | ["penc", c, b, col, p, tags, data] =>
    match int? c, int? b, int? col, int? p, bytesOfHex tags, bytesOfHex data with
    | some c, some b, some col, some p, some tags, some data =>
      match geoOf c b col p with
      | some g => "ok " ++ hexWire (encodeStream g tags data)
      | none => "err"
    | _, _, _, _, _, _ => "bad-args"
  | ["pdec", c, b, col, p, data] =>
    match int? c, int? b, int? col, int? p, bytesOfHex data with
    | some c, some b, some col, some p, some data =>
      match geoOf c b col p with
      | some g =>
        let (out, ok) := decodeStream g data
        hexWire out ++ (if ok then " ok" else " malformed")
      | none => "err"
    | _, _, _, _, _ => "bad-args"
  | ["spenc", c, b, col, p, tags, data] =>   -- Spec encoder (PNG / TIFF specification text)
    match nat? c, nat? b, nat? col, nat? p, bytesOfHex tags, bytesOfHex data with
    | some c, some b, some col, some p, some tags, some data =>
      "ok " ++ hexWire (Spec.FB.predEncode c b col p tags data)
    | _, _, _, _, _, _ => "bad-args"
  | ["spdec", c, b, col, p, data] =>
    match nat? c, nat? b, nat? col, nat? p, bytesOfHex data with
    | some c, some b, some col, some p, some data =>
      hexWire (Spec.FB.predDecode c b col p data)
    | _, _, _, _, _ => "bad-args"
  | ["cenc", cols, k, rows, flags, data] =>
    match int? cols, int? k, int? rows, bytesOfHex data with
    | some cols, some k, some rows, some data =>
      let f := ccittOf cols k rows flags
      if !f.validate then "err" else
      let (out, e) := encodeAll f.encParams data
      hexWire out ++ (match e with | none => " ok" | some .tooManyRows => " toomany" | some .paddingBits => " padding")
    | _, _, _, _ => "bad-args"
  | ["cdec", cols, k, rows, flags, data] =>
    match int? cols, int? k, int? rows, bytesOfHex data with
    | some cols, some k, some rows, some data =>
      let f := ccittOf cols k rows flags
      let (out, e) := decodeAll f.decParams data
      hexWire out ++ (if e = 1 then " ok" else " malformed")
    | _, _, _, _ => "bad-args"
  | ["cgeo", cols, rows, nb] =>
    match int? cols, int? rows, nat? nb with
    | some cols, some rows, some nb =>
      let f : FCCITT := ⟨-1, false, false, cols, rows, true, false, 0⟩
      -- body of `nb` bytes 0xff, Group 4, no EOFB: every bit is a V0 code = one white row, and every
      -- one of them is delivered (the look-ahead's end of data is raised only when made-up bits are
      -- consumed; see `cdec` for the full decoder on small widths)
      s!"{if f.budgetOk nb then min (8 * nb) f.decodeMaxRows.toNat else 0} {bufferBytes f.decParams}"
    | _, _, _ => "bad-args"
  | ["cmaxrows", cols, k, rows, flags, nb] =>   -- rows delivered from a body that holds more rows than the cap
    match int? cols, int? k, int? rows, nat? nb with
    | some cols, some k, some rows, some nb =>
      let f := ccittOf cols k rows flags
      toString (if f.budgetOk nb then f.decParams.maxRows else 0)
    | _, _, _, _ => "bad-args"
  | ["gchain", depth] =>   -- objects DecodeStream fetches along a /JBIG2Globals chain of `depth` streams
    match nat? depth with
    | some depth => toString (globalsChainFetches depth)
    | none => "bad-args"
  | ["jbig2pull", avail] =>   -- bytes FilterJBIG2.Decode pulls from an endless upstream: the cap
                              -- min(budget.Available(), MaxJBIG2PageBytes+1) and one probe byte
    match int? avail with
    | some avail =>
      let limit := min avail ((Gen.limits_MaxJBIG2PageBytes : Int) + 1)
      -- more than MaxJBIG2PageBytes read: "exceeds size limit" without the probe read
      toString (if limit > (Gen.limits_MaxJBIG2PageBytes : Int) then limit else limit + 1)
    | none => "bad-args"
  | ["info", "flate", v, p, c, b, col] =>
    match nat? v, int? p, int? c, int? b, int? col with
    | some v, some p, some c, some b, some col =>
      let f : FFlate := ⟨p, c, b, col⟩
      if f.validate v then "ok " ++ dictWire f.toDict else "err"
    | _, _, _, _, _ => "bad-args"
  | ["info", "lzw", v, p, c, b, col, obo] =>
    match nat? v, int? p, int? c, int? b, int? col with
    | some v, some p, some c, some b, some col =>
      let f : FLZW := ⟨p, c, b, col, obo == "1"⟩
      if f.validate v then "ok " ++ dictWire f.toDict else "err"
    | _, _, _, _, _ => "bad-args"
  | ["info", "compress", v, p, c, b, col] =>
    match nat? v, int? p, int? c, int? b, int? col with
    | some v, some p, some c, some b, some col =>
      if v ≥ Gen.meta_V1_2 then
        let f : FFlate := ⟨p, c, b, col⟩
        if f.validate v then "ok flate " ++ dictWire f.toDict else "err"
      else
        let f : FLZW := ⟨p, c, b, col, true⟩
        if f.validate v then "ok lzw " ++ dictWire f.toDict else "err"
    | _, _, _, _, _ => "bad-args"
  | ["info", "ccitt", k, cols, rows, dmg, flags] =>
    match int? k, int? cols, int? rows, int? dmg with
    | some k, some cols, some rows, some dmg =>
      let f : FCCITT := { ccittOf cols k rows flags with damaged := dmg }
      if f.validate then "ok " ++ dictWire f.toDict else "err"
    | _, _, _, _ => "bad-args"
  | ["make", name, d] =>
    match bytesOfHex name, dictOf d with
    | some name, some d =>
      match makeFilter name d with
      | .ok f => "ok " ++ descFilter f
      | .error e => s!"err {e}"
    | _, _ => "bad-args"
  | ["getf", f, p] =>
    match objOf f, objOf p with
    | some f, some p =>
      match getFilters f p with
      | .ok fs => "ok " ++ (if fs.isEmpty then "-" else ";".intercalate (fs.map descFilter))
      | .error e => s!"err {e}"
    | _, _ => "bad-args"
  | ["appf", f, p, name, d] =>
    match objOf f, objOf p, bytesOfHex name, dictOf d with
    | some f, some p, some name, some d =>
      let (f', p') := appendFilter f p name d
      f'.wire ++ " " ++ (canonParms p').wire
    | _, _, _, _ => "bad-args"
  | _ => "bad-op"

end PdfVerif.Driver.FB

import PdfVerif.Model.CCCodec
import PdfVerif.Model.CCCMap
import PdfVerif.Spec.CCCodeSpace
/-! Line-protocol handler for the work package "CC" (C12 character-code codec, C13 CMaps). -/
namespace PdfVerif.Driver.CC
open PdfVerif PdfVerif.CC

def listOfWire (s : String) : Option (List Bytes) :=
  if s == "_" then some [] else (s.splitOn "/").mapM bytesOfHex

def natsOfWire (s : String) : Option (List Nat) :=
  if s == "_" then some [] else (s.splitOn "/").mapM String.toNat?

def joinRes (xs : List String) : String := if xs.isEmpty then "_" else "/".intercalate xs

def showDec (r : Except CErr (Nat × Nat × Bool)) : String :=
  match r with
  | .ok (code, consumed, valid) => s!"{code},{consumed},{if valid then "t" else "f"}"
  | .error e => s!"err-{e}"

def toSpec (csr : CSR) : List Spec.CodeSpace.CodeRange := csr.map fun r => ⟨r.low, r.high⟩

def specDec (csr : CSR) (s : Bytes) : String :=
  let r := Spec.CodeSpace.decode (toSpec csr) s
  s!"{Spec.CodeSpace.codeValue (s.take r.1)},{r.1},{if r.2 then "t" else "f"}"

def handle12 (args : List String) : Option String :=
  match args with
  | ["new", csr] => do
    let csr ← csrOfWire csr
    match newCodec csr with
    | .ok c => pure ("ok " ++ nodesWire c.nodes)
    | .error e => pure s!"err {e}"
  | ["dec", csr, inputs] => do
    let csr ← csrOfWire csr
    let ins ← listOfWire inputs
    match newCodec csr with
    | .ok c => pure ("ok " ++ joinRes (ins.map fun s => showDec (c.decode s)))
    | .error e => pure s!"err {e}"
  | ["spec", csr, inputs] => do
    let csr ← csrOfWire csr
    let ins ← listOfWire inputs
    pure ("ok " ++ joinRes (ins.map (specDec csr)))
  | ["app", csr, codes] => do
    let csr ← csrOfWire csr
    let cs ← natsOfWire codes
    match newCodec csr with
    | .ok c => pure ("ok " ++ joinRes (cs.map fun code =>
        match c.appendCode code with
        | .ok bs => hexWire bs
        | .error e => s!"err-{e}"))
    | .error e => pure s!"err {e}"
  | ["csr", csr] => do
    let csr ← csrOfWire csr
    match newCodec csr with
    | .ok c =>
      match c.codeSpaceRange with
      | .ok out => pure ("ok " ++ csrWire out)
      | .error e => pure s!"err-{e}"
    | .error e => pure s!"err {e}"
  | ["repr", csr] => do
    -- the certificate of Props/C12ccb: the node array represents the tree of newTree
    let csr ← csrOfWire csr
    match newCodec csr, newTree 4 csr 0 with
    | .ok c, .ok tree => pure (if reprOK c.nodes tree 0 && kidsCover tree then "ok t" else "ok f")
    | .error e, _ => pure s!"err {e}"
    | _, .error e => pure s!"err {e}"
  | ["mlen", csr, inputs] => do
    let csr ← csrOfWire csr
    let ins ← listOfWire inputs
    pure ("ok " ++ joinRes (ins.map fun s => toString (matchLen csr s)))
  | _ => none

/-! ### C13 wire forms -/

def listWire {α : Type} (sep : String) (f : String → Option α) (s : String) : Option (List α) :=
  if s == "_" then some [] else (s.splitOn sep).mapM f

def wireList {α : Type} (sep : String) (f : α → String) (xs : List α) : String :=
  if xs.isEmpty then "_" else sep.intercalate (xs.map f)

def kv (s : String) : Option (String × String) :=
  match s.splitOn "=" with
  | [a, b] => some (a, b)
  | _ => none

def singleOfWire (s : String) : Option Single := do
  let (a, b) ← kv s
  pure ⟨← bytesOfHex a, ← b.toNat?⟩

def crangeOfWire (s : String) : Option CRange := do
  let (a, b) ← kv s
  match a.splitOn ":" with
  | [f, l] => pure ⟨← bytesOfHex f, ← bytesOfHex l, ← b.toNat?⟩
  | _ => none

def fileOfWire (s : String) : Option CMapFile :=
  match s.splitOn "|" with
  | [c, si, ra, ns, nr] => do
    pure ⟨← csrOfWire c, ← listWire ";" singleOfWire si, ← listWire ";" crangeOfWire ra,
          ← listWire ";" singleOfWire ns, ← listWire ";" crangeOfWire nr⟩
  | _ => none

def chainOfWire (s : String) : Option Chain := listWire "~" fileOfWire s

def singleWire (x : Single) : String := hexWire x.code ++ "=" ++ toString x.value
def crangeWire (x : CRange) : String := hexWire x.first ++ ":" ++ hexWire x.last ++ "=" ++ toString x.value

def fileWire (f : CMapFile) : String :=
  csrWire f.csr ++ "|" ++ wireList ";" singleWire f.singles ++ "|" ++ wireList ";" crangeWire f.ranges ++ "|" ++
  wireList ";" singleWire f.ndSingles ++ "|" ++ wireList ";" crangeWire f.ndRanges

def pairOfWire (s : String) : Option (Nat × Nat) := do
  let (a, b) ← kv s
  pure (← a.toNat?, ← b.toNat?)

def hexNat (s : String) : Option Nat :=
  s.toList.foldlM (fun acc c => (hexCharVal c).map fun d => acc * 16 + d) 0

def natHex (n : Nat) : String := String.ofList (Nat.toDigits 16 n)

def textOfWire (s : String) : Option Text :=
  if s == "-" then some [] else (s.splitOn ".").mapM hexNat

def textWire (t : Text) : String := if t.isEmpty then "-" else ".".intercalate (t.map natHex)

def tpairOfWire (s : String) : Option (Nat × Text) := do
  let (a, b) ← kv s
  pure (← a.toNat?, ← textOfWire b)

def tusingleOfWire (s : String) : Option TUSingle := do
  let (a, b) ← kv s
  pure ⟨← bytesOfHex a, ← textOfWire b⟩

def turangeOfWire (s : String) : Option TURange := do
  let (a, b) ← kv s
  match a.splitOn ":" with
  | [f, l] => pure ⟨← bytesOfHex f, ← bytesOfHex l, ← (if b == "!" then some [] else (b.splitOn "^").mapM textOfWire)⟩
  | _ => none

def tufileOfWire (s : String) : Option TUFile :=
  match s.splitOn "|" with
  | [c, si, ra] => do
    pure ⟨← csrOfWire c, ← listWire ";" tusingleOfWire si, ← listWire ";" turangeOfWire ra⟩
  | _ => none

def tusingleWire (x : TUSingle) : String := hexWire x.code ++ "=" ++ textWire x.value
def turangeWire (x : TURange) : String :=
  hexWire x.first ++ ":" ++ hexWire x.last ++ "=" ++ (if x.values.isEmpty then "!" else "^".intercalate (x.values.map textWire))
def tufileWire (f : TUFile) : String :=
  csrWire f.csr ++ "|" ++ wireList ";" tusingleWire f.singles ++ "|" ++ wireList ";" turangeWire f.ranges

def handle13 (args : List String) : Option String :=
  match args with
  | ["ridx", first, last, codes] => do
    let f ← bytesOfHex first
    let l ← bytesOfHex last
    let cs ← listOfWire codes
    pure ("ok " ++ joinRes (cs.map fun c => match rangeIndex f l c with | some i => toString i | none => "x"))
  | ["cir", first, last, n] => do
    let f ← bytesOfHex first
    let l ← bytesOfHex last
    let n ← n.toNat?
    pure ("ok " ++ joinRes ((codesInRange f l n).map fun p => toString p.1 ++ "=" ++ hexWire p.2))
  | ["setmap", csr, f, parents, data] => do
    let csr ← csrOfWire csr
    let f ← fileOfWire f
    let parents ← chainOfWire parents
    let data ← listWire ";" pairOfWire data
    match newCodec csr with
    | .error e => pure s!"err {e}"
    | .ok codec =>
      match setMapping f parents codec data with
      | .error e => pure s!"err-{e}"
      | .ok f' => pure ("ok " ++ fileWire f')
  | ["lookup", chain, codes] => do
    let chain ← chainOfWire chain
    let cs ← listOfWire codes
    pure ("ok " ++ joinRes (cs.map fun c => toString (lookupCID chain c)))
  | ["notdef", chain, codes] => do
    let chain ← chainOfWire chain
    let cs ← listOfWire codes
    pure ("ok " ++ joinRes (cs.map fun c => toString (lookupNotdef chain c)))
  | ["all", chain, csr] => do
    let chain ← chainOfWire chain
    let csr ← csrOfWire csr
    match newCodec csr with
    | .error e => pure s!"err {e}"
    | .ok codec =>
      match cmapAll chain codec with
      | .error e => pure s!"err-{e}"
      | .ok items => pure ("ok " ++ wireList ";" (fun (p : Nat × Nat) => toString p.1 ++ "=" ++ toString p.2) items)
  | ["blocks", a, b, c, d, e] => do
    -- sizes of the begin…end blocks of the CMap writer: code space, cidchar, cidrange, notdefchar, notdefrange
    let ns ← [a, b, c, d, e].mapM String.toNat?
    match ns with
    | [a, b, c, d, e] =>
      pure ("ok " ++ "|".intercalate ((cmapBlockSizes a b c d e).map fun l => wireList "," toString l))
    | _ => none
  | ["tublocks", a, b, lens] => do
    let a ← a.toNat?
    let b ← b.toNat?
    let lens ← natsOfWire lens
    pure ("ok " ++ "|".intercalate ((tuBlockSizes a b lens).map fun l => wireList "," toString l))
  | ["tugetmap", chain] => do
    let chain ← listWire "~" tufileOfWire chain
    match tuGetMapping chain with
    | .error e => pure s!"err {e}"
    | .ok items =>
      -- maps.Collect: later items win; printed in the order of the codes
      let m := items.foldl (fun (acc : List (Nat × Text)) p => (acc.filter fun q => q.1 != p.1) ++ [p]) []
      let sorted := m.toArray.qsort (fun a b => a.1 < b.1) |>.toList
      pure ("ok " ++ wireList ";" (fun (p : Nat × Text) => toString p.1 ++ "=" ++ textWire p.2) sorted)
  | ["chaincodec", chain] => do
    let chain ← chainOfWire chain
    match chainCodec chain with
    | .ok c => pure ("ok " ++ nodesWire c.nodes)
    | .error e => pure s!"err {e}"
  | ["useres", dict, ps] => do
    -- Extract's parent resolution; for a name entry the name is the parent's name, the same
    -- the PostScript body uses
    let psName : Option Bool ← match ps with
      | "none" => some none | "pre" => some (some true) | "other" => some (some false) | _ => none
    let entry : UseCMapEntry ← match dict with
      | "none" => some .absent
      | "name" => some (.name (psName == some true))
      | "stream" => some .stream
      | _ => none
    pure ("ok " ++ match resolveParent entry psName with
      | .none => "none" | .predefined => "predefined" | .embedded => "embedded")
  | ["next", t, inc] => do
    let t ← textOfWire t
    let inc ← inc.toNat?
    pure ("ok " ++ textWire (nextString t inc))
  | ["tunew", csr, data] => do
    let csr ← csrOfWire csr
    let data ← listWire ";" tpairOfWire data
    match newToUnicodeFile csr data with
    | .error e => pure s!"err {e}"
    | .ok f => pure ("ok " ++ tufileWire f)
  | ["tulookup", chain, codes] => do
    let chain ← listWire "~" tufileOfWire chain
    let cs ← listOfWire codes
    pure ("ok " ++ joinRes (cs.map fun c => match tuLookup chain c with | some t => textWire t | none => "x"))
  | ["tuall", chain, csr] => do
    let chain ← listWire "~" tufileOfWire chain
    let csr ← csrOfWire csr
    match newCodec csr with
    | .error e => pure s!"err {e}"
    | .ok codec =>
      match tuAll chain codec with
      | .error e => pure s!"err-{e}"
      | .ok items => pure ("ok " ++ wireList ";" (fun (p : Nat × Text) => toString p.1 ++ "=" ++ textWire p.2) items)
  | _ => none

def handle (args : List String) : String :=
  match handle12 args with
  | some r => r
  | none =>
    match handle13 args with
    | some r => r
    | none => "bad-op"

end PdfVerif.Driver.CC

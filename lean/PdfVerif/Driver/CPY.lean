import PdfVerif.Model.CPYCopier
/-!
Line-protocol handler for C11 (key `CPY`).

  CPY run <x|a> n0=<N> tv=<V> G<num>,<gen>:<o|->:<node> … P<op> …

  tv:    /V of the encryption dictionary of the target (0: not encrypted)

  node:  O<objwire> | S<e|p>:<dictwire>:<hexdata> | B | I
  op:    cr<num>,<gen> | cg<num>,<gen> | co<objwire> | rn<num>,<gen>:<objwire> | rt<num>,<gen>:<k>

Answer: `ok next=<N> roots=<n,g | E<class>;…> <id>:<node> …`: the outcome of every call (the program
goes on after a failed call) and the canonical dump of the target graph in BFS order from the
roots of the successful calls, references renamed to their BFS index.
-/
namespace PdfVerif.Driver.CPY
open PdfVerif PdfVerif.CPY

def dropS (s : String) (n : Nat) : String := String.ofList (s.toList.drop n)
def takeS (s : String) (n : Nat) : String := String.ofList (s.toList.take n)

def parseRef (s : String) : Option Ref :=
  match s.splitOn "," with
  | [a, b] =>
    match a.toNat?, b.toNat? with
    | some n, some g => some (n, g)
    | _, _ => none
  | _ => none

def parseDict (s : String) : Option KV :=
  match Obj.ofWire s with
  | some (.dict kv) => some kv
  | _ => none

def parseNode (parts : List String) : Option Node :=
  match parts with
  | ["B"] => some .bad
  | ["I"] => some .ioErr
  | [o] =>
    if o.startsWith "O" then (Obj.ofWire (dropS o 1)).map fun x => .val (.obj x) else none
  | [e, d, h] =>
    match parseDict d, bytesOfHex h with
    | some kv, some data =>
      if e == "Se" then some (.val (.stream kv data true))
      else if e == "Sp" then some (.val (.stream kv data false))
      else none
    | _, _ => none
  | _ => none

def parseEntry (tok : String) : Option (Ref × Entry) :=
  match (dropS tok 1).splitOn ":" with
  | r :: fl :: rest =>
    match parseRef r, parseNode rest with
    | some ref, some node => some (ref, { node := node, inStm := fl == "o" })
    | _, _ => none
  | _ => none

def parseOp (tok : String) : Option Op :=
  let kind := takeS (dropS tok 1) 2
  let body := dropS tok 3
  if kind == "cr" then (parseRef body).map .copyRef
  else if kind == "cg" then (parseRef body).map .copyGet
  else if kind == "co" then (Obj.ofWire body).map .copyObj
  else if kind == "rn" then
    match body.splitOn ":" with
    | [r, o] =>
      match parseRef r, Obj.ofWire o with
      | some ref, some m => some (.redirectNew ref m)
      | _, _ => none
    | _ => none
  else if kind == "rt" then
    match body.splitOn ":" with
    | [r, k] =>
      match parseRef r, k.toNat? with
      | some ref, some i => some (.redirectTo ref i)
      | _, _ => none
    | _ => none
  else none

structure Input where
  n0 : Nat
  tv : Nat
  graph : Graph
  ops : List Op

def parseInput : List String → Input → Option Input
  | [], acc => some { acc with graph := acc.graph.reverse, ops := acc.ops.reverse }
  | tok :: rest, acc =>
    if tok.startsWith "n0=" then
      match (dropS tok 3).toNat? with
      | some n => parseInput rest { acc with n0 := n }
      | none => none
    else if tok.startsWith "tv=" then
      match (dropS tok 3).toNat? with
      | some n => parseInput rest { acc with tv := n }
      | none => none
    else if tok.startsWith "G" then
      match parseEntry tok with
      | some e => parseInput rest { acc with graph := e :: acc.graph }
      | none => none
    else if tok.startsWith "P" then
      match parseOp tok with
      | some op => parseInput rest { acc with ops := op :: acc.ops }
      | none => none
    else none

/-! ### canonical dump of the target graph -/

mutual
/-- canonical form: null dictionary entries dropped, nil array as null, keys in byte order -/
def norm : Obj → Obj
  | .arr xs => .arr (normList xs)
  | .dict kv => .dict (sortKV (normKV kv))
  | .nilArr => .null
  | o => o
def normList : List Obj → List Obj
  | [] => []
  | x :: xs => norm x :: normList xs
def normKV : KV → KV
  | [] => []
  | (k, v) :: rest =>
    match norm v with
    | .null => normKV rest
    | v' => (k, v') :: normKV rest
end

structure Ren where
  ids : List (Ref × Nat)
  queue : List Ref     -- discovered, not yet printed (in order of discovery)

def Ren.idOf (st : Ren) (r : Ref) : Nat × Ren :=
  match assoc r st.ids with
  | some i => (i, st)
  | none =>
    let i := st.ids.length
    (i, { ids := st.ids ++ [(r, i)], queue := st.queue ++ [r] })

mutual
def ren : Obj → Ren → Obj × Ren
  | .ref n g, st => let (i, st') := st.idOf (n, g); (.ref i 0, st')
  | .arr xs, st => let (ys, st') := renList xs st; (.arr ys, st')
  | .dict kv, st => let (kv', st') := renKV kv st; (.dict kv', st')
  | o, st => (o, st)
def renList : List Obj → Ren → List Obj × Ren
  | [], st => ([], st)
  | x :: xs, st =>
    let (y, st1) := ren x st
    let (ys, st2) := renList xs st1
    (y :: ys, st2)
def renKV : KV → Ren → KV × Ren
  | [], st => ([], st)
  | (k, v) :: rest, st =>
    let (v', st1) := ren v st
    let (rest', st2) := renKV rest st1
    ((k, v') :: rest', st2)
end

def showVal (v : Val) (st : Ren) : String × Ren :=
  match v with
  | .obj o => let (o', st') := ren (norm o) st; ("O" ++ o'.wire, st')
  | .stream dict data _ =>
    let (d', st') := ren (norm (.dict dict)) st
    ("S" ++ d'.wire ++ ":" ++ hexWire data, st')

def dumpLoop (T : List (Ref × Val)) : Nat → Nat → Ren → List String → List String
  | 0, _, _, acc => acc.reverse
  | fuel+1, i, st, acc =>
    match st.queue with
    | [] => acc.reverse
    | r :: q =>
      let v := (assoc r T).getD (.obj .null)   -- an object that was never written reads as null
      let (s, st') := showVal v { st with queue := q }
      dumpLoop T fuel (i + 1) st' ((toString i ++ ":" ++ s) :: acc)

def seedRoots : List Ref → Ren → Ren
  | [], st => st
  | r :: rs, st => seedRoots rs (st.idOf r).2

def dump (T : List (Ref × Val)) (roots : List Ref) : List String :=
  let st := seedRoots roots { ids := [], queue := [] }
  let refsIn := T.foldl (fun n p => n + (valRefs p.2).length) 0
  dumpLoop T (roots.length + refsIn + 1) 0 st []

def showRef (r : Ref) : String := toString r.1 ++ "," ++ toString r.2

def showRoot (exact : Bool) : Except CErr Ref → String
  | .ok t => if exact then showRef t else "-"
  | .error e => "E" ++ e.toString

def okRoots : List (Except CErr Ref) → List Ref
  | [] => []
  | .ok t :: rest => t :: okRoots rest
  | .error _ :: rest => okRoots rest

def handle (args : List String) : String :=
  match args with
  | "run" :: ex :: toks =>
    match parseInput toks { n0 := 1, tv := 0, graph := [], ops := [] } with
    | none => "bad-input"
    | some inp =>
      let s0 : St := { trans := [], next := inp.n0, puts := [], tgtV := inp.tv }
      let (roots, s) := runOpsE (fuelFor inp.graph inp.ops) inp.graph s0 [] inp.ops
      let exact := ex == "x"
      let rs := ";".intercalate (roots.map (showRoot exact))
      let nx := if exact then toString s.next else "-"
      " ".intercalate (s!"ok next={nx} roots={rs}" :: dump s.puts (okRoots roots))
  | _ => "bad-op"

end PdfVerif.Driver.CPY

import PdfVerif.Basic
import PdfVerif.Generated.FnPdf
import PdfVerif.Generated.FnLimits
import PdfVerif.Generated.FnPredict
import PdfVerif.Generated.FnCharcode
import PdfVerif.Generated.FnCmap
import PdfVerif.Generated.FnJbig2
/-!
Line-protocol handler for the translated functions (key `TR`): `TR <fn> <args…>` is answered by
evaluating the GENERATED Lean function (`PdfVerif.Gen.*`, re-created from the Go sources on
every run) on the arguments.  The Go harness calls the real function on the same arguments.

Wire forms: integers in decimal (signed), bytes as lower-case hex (`-` = empty), booleans as
`true`/`false`, errors as `nil`/`err` (only nil-ness is compared), a Go panic as `panic`.
-/
namespace PdfVerif.Driver.TR
open PdfVerif PdfVerif.Gen

def u8s (bs : Bytes) : List UInt8 := bs.map fun b => UInt8.ofNat b
def hexU8 (bs : List UInt8) : String := hexWire (bs.map (·.toNat))
def parseHex (s : String) : Option (List UInt8) := (bytesOfHex s).map u8s
def parseBool (s : String) : Option Bool :=
  if s == "true" then some true else if s == "false" then some false else none

def showErr (e : Option String) : String := if e.isSome then "err" else "nil"
def showBool (b : Bool) : String := if b then "true" else "false"

/-- a panic (`none`) is printed as `panic` -/
def orPanic (r : Option String) : String := r.getD "panic"

def ranges : List String → Option (List charcode_Range)
  | [] => some []
  | [_] => none
  | lo :: hi :: rest => do
    let l ← parseHex lo
    let h ← parseHex hi
    let r ← ranges rest
    pure (⟨l, h⟩ :: r)

def handle (args : List String) : String :=
  match args with
  | ["hexDigit", c] =>
    match c.toNat? with
    | some c => toString (pdf_hexDigit (UInt8.ofNat c)).toNat
    | none => "bad-arg"
  | ["decodeInt", hex] =>
    match parseHex hex with
    | some bs => let r := pdf_decodeInt bs; s!"{r.1} {showErr r.2}"
    | none => "bad-arg"
  | ["encodeInt64", x, w] =>
    match x.toNat?, w.toInt? with
    | some x, some w => orPanic ((pdf_encodeInt64 (UInt64.ofNat x) w).map fun r => s!"{showErr r.1} {hexU8 r.2}")
    | _, _ => "bad-arg"
  | ["PToPerm", r, p] =>
    match r.toInt?, p.toNat? with
    | some r, some p => toString (pdf_stdSecPToPerm r (UInt32.ofNat p))
    | _, _ => "bad-arg"
  | ["PermToP", perm] =>
    match perm.toInt? with
    | some perm => toString (pdf_stdSecPermToP perm).toNat
    | none => "bad-arg"
  | ["canR2", perm] =>
    match perm.toInt? with
    | some perm => showBool (pdf_Perm_canR2 perm)
    | none => "bad-arg"
  | ["unpadPKCS7", hex] =>
    match parseHex hex with
    | some bs => orPanic ((pdf_unpadPKCS7 bs).map fun r => s!"{hexU8 r.1} {showErr r.2}")
    | none => "bad-arg"
  | ["tryCrop", hex, l] =>
    match parseHex hex, l.toInt? with
    | some bs, some l => orPanic ((pdf_tryCrop bs l).map hexU8)
    | _, _ => "bad-arg"
  | ["newReference", n, g] =>
    match n.toNat?, g.toNat? with
    | some n, some g =>
      orPanic ((pdf_NewReference (UInt32.ofNat n) (UInt16.ofNat g)).map fun r =>
        s!"{r.toNat} {(pdf_Reference_Number r).toNat} {(pdf_Reference_Generation r).toNat}")
    | _, _ => "bad-arg"
  | ["refParts", r] =>
    match r.toNat? with
    | some r => s!"{(pdf_Reference_Number (UInt64.ofNat r)).toNat} {(pdf_Reference_Generation (UInt64.ofNat r)).toNat}"
    | none => "bad-arg"
  | ["hasAny", o, opt] =>
    match o.toNat?, opt.toNat? with
    | some o, some opt => showBool (pdf_OutputOptions_HasAny (UInt32.ofNat o) (UInt32.ofNat opt))
    | _, _ => "bad-arg"
  | ["isSecondClassName", hex] =>
    match parseHex hex with
    | some bs => orPanic ((pdf_Name_isSecondClassName bs).map showBool)
    | none => "bad-arg"
  | ["isThirdClassName", hex] =>
    match parseHex hex with
    | some bs => orPanic ((pdf_Name_isThirdClassName bs).map showBool)
    | none => "bad-arg"
  | ["predictorIsValid", p] =>
    match p.toInt? with
    | some p => showBool (pdf_FlatePredictor_isValid p)
    | none => "bad-arg"
  | ["validateFlateLZW", v, p, colors, bpc, columns] =>
    match v.toInt?, p.toInt?, colors.toInt?, bpc.toInt?, columns.toInt? with
    | some v, some p, some c, some b, some k => showErr (pdf_validateFlateLZW v p c b k)
    | _, _, _, _, _ => "bad-arg"
  | ["flateValidate", v, p, colors, bpc, columns] =>
    match v.toInt?, p.toInt?, colors.toInt?, bpc.toInt?, columns.toInt? with
    | some v, some p, some c, some b, some k => showErr (pdf_FilterFlate_validate ⟨p, c, b, k⟩ v)
    | _, _, _, _, _ => "bad-arg"
  | ["lzwValidate", v, p, colors, bpc, columns] =>
    match v.toInt?, p.toInt?, colors.toInt?, bpc.toInt?, columns.toInt? with
    | some v, some p, some c, some b, some k => showErr (pdf_FilterLZW_validate ⟨p, c, b, k, false⟩ v)
    | _, _, _, _, _ => "bad-arg"
  | ["ccittValidate", columns, rows, damaged] =>
    match columns.toInt?, rows.toInt?, damaged.toInt? with
    | some c, some r, some d => showErr (pdf_FilterCCITTFax_validate ⟨0, false, false, c, r, false, false, d⟩ 0)
    | _, _, _ => "bad-arg"
  | ["paeth", a, b, c] =>
    match a.toNat?, b.toNat?, c.toNat? with
    | some a, some b, some c => toString (pred_paethPredictor (UInt8.ofNat a) (UInt8.ofNat b) (UInt8.ofNat c)).toNat
    | _, _, _ => "bad-arg"
  | ["predictValidate", colors, bpc, columns, predictor] =>
    match colors.toInt?, bpc.toInt?, columns.toInt?, predictor.toInt? with
    | some c, some b, some k, some p =>
      let q : pred_Params := ⟨c, b, k, p⟩
      s!"{showErr (pred_Params_Validate q)} {pred_Params_bitsPerPixel q} {pred_Params_bitsPerRow q} {pred_Params_bytesPerRow q} {pred_Params_bytesPerPixel q}"
    | _, _, _, _ => "bad-arg"
  | ["imageDataLimit", w, h, c, b] =>
    match w.toInt?, h.toInt?, c.toInt?, b.toInt? with
    | some w, some h, some c, some b =>
      s!"{lim_ImageDataLimit w h c b} {showBool (lim_ImageBytesExceedLimit w h c b)} {showBool (lim_ImagePixelsExceedLimit w h)}"
    | _, _, _, _ => "bad-arg"
  | ["budgets", n] =>
    match n.toInt? with
    | some n => s!"{lim_StreamBudget n} {lim_ShadingBudget n} {lim_MaxXRefEntries n}"
    | none => "bad-arg"
  | ["rangeIsValid", lo, hi] =>
    match parseHex lo, parseHex hi with
    | some l, some h => orPanic ((charcode_Range_IsValid ⟨l, h⟩).map showBool)
    | _, _ => "bad-arg"
  | ["canMerge", rl, rh, sl, sh] =>
    match parseHex rl, parseHex rh, parseHex sl, parseHex sh with
    | some rl, some rh, some sl, some sh => orPanic ((charcode_canMerge ⟨rl, rh⟩ ⟨sl, sh⟩).map showBool)
    | _, _, _, _ => "bad-arg"
  | "minLength" :: rest =>
    match ranges rest with
    | some rs => orPanic ((charcode_minLength rs).map toString)
    | none => "bad-arg"
  | "matchLen" :: code :: rest =>
    match parseHex code, ranges rest with
    | some c, some rs => orPanic ((charcode_CodeSpaceRange_matchLen rs c).map toString)
    | _, _ => "bad-arg"
  | ["jbig2WorkLimit", n] =>
    match n.toInt? with
    | some n => toString (jbig2_workLimit n)
    | none => "bad-arg"
  | ["jbig2CheckBitmapSize", w, h] =>
    match w.toInt?, h.toInt? with
    | some w, some h => showErr (jbig2_checkBitmapSize w h)
    | _, _ => "bad-arg"
  | ["jbig2CheckedMul", a, b] =>
    match a.toInt?, b.toInt? with
    | some a, some b => orPanic ((jbig2_checkedMul a b).map fun r => s!"{r.1} {showErr r.2}")
    | _, _ => "bad-arg"
  | ["cmapRangeIsValid", lo, hi] =>
    match parseHex lo, parseHex hi with
    | some l, some h => orPanic ((cmap_rangeIsValid l h).map showBool)
    | _, _ => "bad-arg"
  | ["rangeIndex", first, last, code] =>
    match parseHex first, parseHex last, parseHex code with
    | some f, some l, some c => orPanic ((cmap_rangeIndex f l c).map fun r => s!"{r.1} {showBool r.2}")
    | _, _, _ => "bad-arg"
  | _ => "bad-op"

end PdfVerif.Driver.TR

import PdfVerif.Basic
import PdfVerif.Generated.FnPdf
import PdfVerif.Generated.FnLimits
import PdfVerif.Generated.FnPredict
import PdfVerif.Generated.FnCharcode
import PdfVerif.Generated.FnCmap
import PdfVerif.Generated.FnJbig2
import PdfVerif.Generated.FnCcitt
import PdfVerif.Generated.FnFrag
import PdfVerif.Generated.FnContent
/-!
Line-protocol handler for the translated functions (key `TR`): `TR <fn> <args…>` is answered by
evaluating the GENERATED Lean function (`PdfVerif.Gen.*`, re-created from the Go sources on
every run) on the arguments.  The Go harness calls the real function on the same arguments.

Wire forms: integers in decimal (signed), bytes as lower-case hex (`-` = empty), booleans as
`true`/`false`, errors as `nil`/`err` (only nil-ness is compared), a Go panic as `panic`.
-/
namespace PdfVerif.Driver.TR
open PdfVerif PdfVerif.Gen

def u8s (bs : Bytes) : List UInt8 := bs.map fun b => UInt8.ofNat b
def hexU8 (bs : List UInt8) : String := hexWire (bs.map (·.toNat))
def parseHex (s : String) : Option (List UInt8) := (bytesOfHex s).map u8s
def parseBool (s : String) : Option Bool :=
  if s == "true" then some true else if s == "false" then some false else none

def showErr (e : Option String) : String := if e.isSome then "err" else "nil"
def showBool (b : Bool) : String := if b then "true" else "false"

/-- a panic (`none`) is printed as `panic` -/
def orPanic (r : Option String) : String := r.getD "panic"

def ranges : List String → Option (List charcode_Range)
  | [] => some []
  | [_] => none
  | lo :: hi :: rest => do
    let l ← parseHex lo
    let h ← parseHex hi
    let r ← ranges rest
    pure (⟨l, h⟩ :: r)

def ints : List String → Option (List Int)
  | [] => some []
  | x :: xs => do
    let v ← x.toInt?
    let r ← ints xs
    pure (v :: r)

def pairs : List Int → Option (List (Int × Int))
  | [] => some []
  | [_] => none
  | a :: b :: rest => (pairs rest).map fun r => (a, b) :: r

/-- the control flow of `checkXRefStreamDict` around the GENERATED guard expressions (fragments):
well-typed `/Size`, `/W` (three integers) and `/Index` (pairs of integers, or absent) -/
def xrefGuards (sizeOk : Bool) (size rawLen w0 w1 w2 : Int) (index : Option (List (Int × Int))) : String :=
  if frag_checkXRefStreamDict_sizeBad sizeOk size then "err" else
  if frag_checkXRefStreamDict_widthBad true w0 || frag_checkXRefStreamDict_widthBad true w1 ||
     frag_checkXRefStreamDict_widthBad true w2 then "err" else
  if frag_checkXRefStreamDict_widthsZero w0 w1 w2 then "err" else
  let subs : Option (List Int) :=
    match index with
    | none => some [size]
    | some ps =>
      if ps.any (fun p => frag_checkXRefStreamDict_subsectionBad p.1 p.2 size) then none
      else some (ps.map (·.2))
  match subs with
  | none => "err"
  | some sizes =>
    let total := sizes.foldl (· + ·) 0
    if frag_checkXRefStreamDict_tooMany total (frag_checkXRefStreamDict_maxEntries rawLen) then "err" else "nil"

/-- the statements of `FilterCCITTFax.Decode` around the GENERATED clamp expressions; `columns` is
`params.Columns` (after `toParams`), the result is the effective `MaxRows` -/
def ccittClamp (columns maxRows : Int) : Option Int := do
  let cols := frag_FilterCCITTFax_Decode_cols columns
  let g ← frag_FilterCCITTFax_Decode_geoMax cols
  pure (if frag_FilterCCITTFax_Decode_clamp maxRows g then g else maxRows)

def handle (args : List String) : String :=
  match args with
  | ["hexDigit", c] =>
    match c.toNat? with
    | some c => toString (pdf_hexDigit (UInt8.ofNat c)).toNat
    | none => "bad-arg"
  | ["decodeInt", hex] =>
    match parseHex hex with
    | some bs => let r := pdf_decodeInt bs; s!"{r.1} {showErr r.2}"
    | none => "bad-arg"
  | ["encodeInt64", x, w] =>
    match x.toNat?, w.toInt? with
    | some x, some w => orPanic ((pdf_encodeInt64 (UInt64.ofNat x) w).map fun r => s!"{showErr r.1} {hexU8 r.2}")
    | _, _ => "bad-arg"
  | ["PToPerm", r, p] =>
    match r.toInt?, p.toNat? with
    | some r, some p => toString (pdf_stdSecPToPerm r (UInt32.ofNat p))
    | _, _ => "bad-arg"
  | ["PermToP", perm] =>
    match perm.toInt? with
    | some perm => toString (pdf_stdSecPermToP perm).toNat
    | none => "bad-arg"
  | ["canR2", perm] =>
    match perm.toInt? with
    | some perm => showBool (pdf_Perm_canR2 perm)
    | none => "bad-arg"
  | ["unpadPKCS7", hex] =>
    match parseHex hex with
    | some bs => orPanic ((pdf_unpadPKCS7 bs).map fun r => s!"{hexU8 r.1} {showErr r.2}")
    | none => "bad-arg"
  | ["tryCrop", hex, l] =>
    match parseHex hex, l.toInt? with
    | some bs, some l => orPanic ((pdf_tryCrop bs l).map hexU8)
    | _, _ => "bad-arg"
  | ["newReference", n, g] =>
    match n.toNat?, g.toNat? with
    | some n, some g =>
      orPanic ((pdf_NewReference (UInt32.ofNat n) (UInt16.ofNat g)).map fun r =>
        s!"{r.toNat} {(pdf_Reference_Number r).toNat} {(pdf_Reference_Generation r).toNat}")
    | _, _ => "bad-arg"
  | ["refParts", r] =>
    match r.toNat? with
    | some r => s!"{(pdf_Reference_Number (UInt64.ofNat r)).toNat} {(pdf_Reference_Generation (UInt64.ofNat r)).toNat}"
    | none => "bad-arg"
  | ["hasAny", o, opt] =>
    match o.toNat?, opt.toNat? with
    | some o, some opt => showBool (pdf_OutputOptions_HasAny (UInt32.ofNat o) (UInt32.ofNat opt))
    | _, _ => "bad-arg"
  | ["isSecondClassName", hex] =>
    match parseHex hex with
    | some bs => orPanic ((pdf_Name_isSecondClassName bs).map showBool)
    | none => "bad-arg"
  | ["isThirdClassName", hex] =>
    match parseHex hex with
    | some bs => orPanic ((pdf_Name_isThirdClassName bs).map showBool)
    | none => "bad-arg"
  | ["predictorIsValid", p] =>
    match p.toInt? with
    | some p => showBool (pdf_FlatePredictor_isValid p)
    | none => "bad-arg"
  | ["validateFlateLZW", v, p, colors, bpc, columns] =>
    match v.toInt?, p.toInt?, colors.toInt?, bpc.toInt?, columns.toInt? with
    | some v, some p, some c, some b, some k => showErr (pdf_validateFlateLZW v p c b k)
    | _, _, _, _, _ => "bad-arg"
  | ["flateValidate", v, p, colors, bpc, columns] =>
    match v.toInt?, p.toInt?, colors.toInt?, bpc.toInt?, columns.toInt? with
    | some v, some p, some c, some b, some k => showErr (pdf_FilterFlate_validate ⟨p, c, b, k⟩ v)
    | _, _, _, _, _ => "bad-arg"
  | ["lzwValidate", v, p, colors, bpc, columns] =>
    match v.toInt?, p.toInt?, colors.toInt?, bpc.toInt?, columns.toInt? with
    | some v, some p, some c, some b, some k => showErr (pdf_FilterLZW_validate ⟨p, c, b, k, false⟩ v)
    | _, _, _, _, _ => "bad-arg"
  | ["ccittValidate", columns, rows, damaged] =>
    match columns.toInt?, rows.toInt?, damaged.toInt? with
    | some c, some r, some d => orPanic ((pdf_FilterCCITTFax_validate ⟨0, false, false, c, r, false, false, d⟩ 0).map showErr)
    | _, _, _ => "bad-arg"
  | ["paeth", a, b, c] =>
    match a.toNat?, b.toNat?, c.toNat? with
    | some a, some b, some c => toString (pred_paethPredictor (UInt8.ofNat a) (UInt8.ofNat b) (UInt8.ofNat c)).toNat
    | _, _, _ => "bad-arg"
  | ["predictValidate", colors, bpc, columns, predictor] =>
    match colors.toInt?, bpc.toInt?, columns.toInt?, predictor.toInt? with
    | some c, some b, some k, some p =>
      let q : pred_Params := ⟨c, b, k, p⟩
      s!"{showErr (pred_Params_Validate q)} {pred_Params_bitsPerPixel q} {pred_Params_bitsPerRow q} {pred_Params_bytesPerRow q} {pred_Params_bytesPerPixel q}"
    | _, _, _, _ => "bad-arg"
  | ["imageDataLimit", w, h, c, b] =>
    match w.toInt?, h.toInt?, c.toInt?, b.toInt? with
    | some w, some h, some c, some b =>
      s!"{lim_ImageDataLimit w h c b} {showBool (lim_ImageBytesExceedLimit w h c b)} {showBool (lim_ImagePixelsExceedLimit w h)}"
    | _, _, _, _ => "bad-arg"
  | ["budgets", n] =>
    match n.toInt? with
    | some n => s!"{lim_StreamBudget n} {lim_ShadingBudget n} {lim_MaxXRefEntries n}"
    | none => "bad-arg"
  | ["rangeIsValid", lo, hi] =>
    match parseHex lo, parseHex hi with
    | some l, some h => orPanic ((charcode_Range_IsValid ⟨l, h⟩).map showBool)
    | _, _ => "bad-arg"
  | ["canMerge", rl, rh, sl, sh] =>
    match parseHex rl, parseHex rh, parseHex sl, parseHex sh with
    | some rl, some rh, some sl, some sh => orPanic ((charcode_canMerge ⟨rl, rh⟩ ⟨sl, sh⟩).map showBool)
    | _, _, _, _ => "bad-arg"
  | "minLength" :: rest =>
    match ranges rest with
    | some rs => orPanic ((charcode_minLength rs).map toString)
    | none => "bad-arg"
  | "matchLen" :: code :: rest =>
    match parseHex code, ranges rest with
    | some c, some rs => orPanic ((charcode_CodeSpaceRange_matchLen rs c).map toString)
    | _, _ => "bad-arg"
  | ["jbig2WorkLimit", n] =>
    match n.toInt? with
    | some n => toString (jbig2_workLimit n)
    | none => "bad-arg"
  | ["jbig2CheckBitmapSize", w, h] =>
    match w.toInt?, h.toInt? with
    | some w, some h => showErr (jbig2_checkBitmapSize w h)
    | _, _ => "bad-arg"
  | ["jbig2CheckedMul", a, b] =>
    match a.toInt?, b.toInt? with
    | some a, some b => orPanic ((jbig2_checkedMul a b).map fun r => s!"{r.1} {showErr r.2}")
    | _, _ => "bad-arg"
  | ["ccittBufferBytes", cols, k] =>
    match cols.toInt?, k.toInt? with
    | some c, some k => toString (ccitt_BufferBytes ⟨c, k, 0, false, false, false, false, 0⟩)
    | _, _ => "bad-arg"
  | ["ccittGetPixel", cols, black, hex, x] =>
    match cols.toInt?, parseBool black, parseHex hex, x.toInt? with
    | some c, some b, some line, some x =>
      let p : ccitt_Params := ⟨c, 0, 0, false, false, b, false, 0⟩
      orPanic ((ccitt_Params_getPixel p line x).map fun v => s!"{v.toNat} {(ccitt_Params_whiteBit p).toNat}")
    | _, _, _, _ => "bad-arg"
  | ["ccittEndOfRun", cols, black, hex, x, bit] =>
    match cols.toInt?, parseBool black, parseHex hex, x.toInt?, bit.toNat? with
    | some c, some b, some line, some x, some bit =>
      orPanic ((ccitt_Params_endOfRun ⟨c, 0, 0, false, false, b, false, 0⟩ line x (UInt8.ofNat bit)).map toString)
    | _, _, _, _, _ => "bad-arg"
  | ["ccittClamp", columns, maxRows, feed] =>
    -- rows the decoder delivers when `feed` rows are available: min(feed, effective MaxRows)
    match columns.toInt?, maxRows.toInt?, feed.toInt? with
    | some c, some r, some n => orPanic ((ccittClamp c r).map fun m => toString (min n m))
    | _, _, _ => "bad-arg"
  | "xrefGuards" :: sizeOk :: size :: rawLen :: w0 :: w1 :: w2 :: idx :: rest =>
    match parseBool sizeOk, size.toInt?, rawLen.toInt?, w0.toInt?, w1.toInt?, w2.toInt?, ints rest with
    | some ok, some size, some raw, some w0, some w1, some w2, some xs =>
      if idx == "N" then xrefGuards ok size raw w0 w1 w2 none
      else match pairs xs with
        | some ps => xrefGuards ok size raw w0 w1 w2 (some ps)
        | none => "bad-arg"
    | _, _, _, _, _, _, _ => "bad-arg"
  | ["nextString", hex, inc] =>
    match parseHex hex, inc.toInt? with
    | some s, some inc => orPanic ((cmap_nextString s inc).map hexU8)
    | _, _ => "bad-arg"
  | ["runes", hex] =>
    match parseHex hex with
    | some s => " ".intercalate ((Go.runes s).map toString ++ ["."])
    | none => "bad-arg"
  | "encodeRunes" :: rest =>
    match ints rest with
    | some rr => hexU8 (Go.stringOfRunes rr)
    | none => "bad-arg"
  | ["contentHexDigit", c] =>
    match c.toNat? with
    | some c => toString (content_hexDigit (UInt8.ofNat c)).toNat
    | none => "bad-arg"
  | ["contentNameClass", hex] =>
    match parseHex hex with
    | some n => s!"{showBool (content_isASCIIFilter n)} {showBool (content_needsClose n)} {showBool (content_isStrokeOp n)}"
    | none => "bad-arg"
  | ["cmapRangeIsValid", lo, hi] =>
    match parseHex lo, parseHex hi with
    | some l, some h => orPanic ((cmap_rangeIsValid l h).map showBool)
    | _, _ => "bad-arg"
  | ["rangeIndex", first, last, code] =>
    match parseHex first, parseHex last, parseHex code with
    | some f, some l, some c => orPanic ((cmap_rangeIndex f l c).map fun r => s!"{r.1} {showBool r.2}")
    | _, _, _ => "bad-arg"
  | _ => "bad-op"

end PdfVerif.Driver.TR

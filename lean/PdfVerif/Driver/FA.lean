import PdfVerif.Model.FAAsciiHex
import PdfVerif.Model.FAAscii85
import PdfVerif.Model.FARunLength
import PdfVerif.Model.FALZW
import PdfVerif.Spec.FAAsciiHex
import PdfVerif.Spec.FAAscii85
import PdfVerif.Spec.FARunLength
import PdfVerif.Spec.FALZW
/-!
Line-protocol handler of work package FA (byte codecs of C06/C07/C08).

    FA enc  <codec> <hex>      model encoder            → ok <hex>
    FA dec  <codec> <hex>      model decoder            → ok <hex> | err <class> <hex of data before the error>
    FA decsum <codec> <hex>    model decoder, digest    → ok len=<n> h=<hash> | err <class> len=<n> h=<hash>
    FA senc <codec> <hex>      Spec (reference) encoder → ok <hex>
    FA sdec <codec> <hex>      Spec (reference) decoder → ok <hex> | none

codec ∈ ahex | a85 | rl | lzw0 | lzw1   (lzw1 = EarlyChange 1 = `OffByOne: true`)
-/
namespace PdfVerif.Driver.FA
open PdfVerif PdfVerif.FA

def showDec (r : DecRes) : String :=
  match r.2 with
  | none => "ok " ++ hexWire r.1
  | some e => s!"err {e} " ++ hexWire r.1

/-- length and a 32-bit polynomial hash of the data, for outputs too long to print in full -/
def digest (d : Bytes) : String :=
  s!"len={d.length} h={d.foldl (fun h b => (h * 31 + b) % 4294967296) 7}"

def showDecSum (r : DecRes) : String :=
  match r.2 with
  | none => "ok " ++ digest r.1
  | some e => s!"err {e} " ++ digest r.1

def showOpt (r : Option Bytes) : String :=
  match r with
  | some d => "ok " ++ hexWire d
  | none => "none"

def modelEnc (codec : String) (x : Bytes) : Option Bytes :=
  match codec with
  | "ahex" => some (AsciiHex.encode x)
  | "a85" => some (Ascii85.encode x)
  | "rl" => some (RunLength.encode x)
  | "lzw0" => some (LZW.encode false x)
  | "lzw1" => some (LZW.encode true x)
  | _ => none

def modelDec (codec : String) (x : Bytes) : Option DecRes :=
  match codec with
  | "ahex" => some (AsciiHex.decode x)
  | "a85" => some (Ascii85.decode x)
  | "rl" => some (RunLength.decode x)
  | "lzw0" => some (LZW.decode false x)
  | "lzw1" => some (LZW.decode true x)
  | _ => none

def specEnc (codec : String) (x : Bytes) : Option Bytes :=
  match codec with
  | "ahex" => some (Spec.AsciiHex.encode x)
  | "a85" => some (Spec.Ascii85.encode x)
  | "rl" => some (Spec.RunLength.encode x)
  | "lzw0" => some (Spec.LZW.encode false x)
  | "lzw1" => some (Spec.LZW.encode true x)
  | _ => none

def specDec (codec : String) (x : Bytes) : Option (Option Bytes) :=
  match codec with
  | "ahex" => some (Spec.AsciiHex.decode x)
  | "a85" => some (Spec.Ascii85.decode x)
  | "rl" => some (Spec.RunLength.decode x)
  | "lzw0" => some (Spec.LZW.decode false x)
  | "lzw1" => some (Spec.LZW.decode true x)
  | _ => none

def handle (args : List String) : String :=
  match args with
  | [op, codec, hex] =>
    match bytesOfHex hex with
    | none => "bad-hex"
    | some x =>
      match op with
      | "enc" => match modelEnc codec x with | some y => "ok " ++ hexWire y | none => "bad-codec"
      | "dec" => match modelDec codec x with | some r => showDec r | none => "bad-codec"
      | "decsum" => match modelDec codec x with | some r => showDecSum r | none => "bad-codec"
      | "senc" => match specEnc codec x with | some y => "ok " ++ hexWire y | none => "bad-codec"
      | "sdec" => match specDec codec x with | some r => showOpt r | none => "bad-codec"
      | _ => "bad-op"
  | _ => "bad-op"

end PdfVerif.Driver.FA

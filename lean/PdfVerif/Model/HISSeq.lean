import PdfVerif.Model.HISObj
/-!
# Model of `sequential.go`: `locateObjects`, `indexObjects`, `checkObjects`

* `scanner.Find` is modelled with its buffer windows (`scannerBufSize`, `regexpOverlap`), because
  the two patterns used here contain `^` and `\b`, which see the edges of the text handed to
  the regexp engine (the current window), not the edges of the file.
* The two regular expressions are hand-written matchers (`matchStart`, `matchMarker`) with the
  leftmost-first semantics of Go's `regexp`; `Props/C20his.lean` pins the pattern strings
  extracted from `sequential.go` so that a change of a pattern breaks the build.
-/
namespace PdfVerif.HIS
open PdfVerif

/-! ## the buffer windows of `scanner.Find` -/

/-- scanner state: the buffer holds `file[base, base+used)`, the read position is `base+pos` -/
structure Win where
  base : Nat
  pos : Nat
  used : Nat
  deriving Repr, DecidableEq

/-- `refill` on an in-memory source of `size` bytes -/
def Win.refill (size : Nat) (w : Win) : Win :=
  let kept := w.used - w.pos
  let base' := w.base + w.pos
  let avail := size - (base' + kept)
  { base := base', pos := 0, used := kept + min (Gen.his_scanner_scannerBufSize - kept) avail }

/-- result of a regexp match on a text: start and end offsets within the text and a tag -/
structure Match (τ : Type) where
  a : Nat
  b : Nat
  tag : τ

/-- `scanner.Find`: returns the state after the match, the absolute position of the match and
    the tag; `.error .eof` when the end of the data is reached.  `fuel` bounds the number of
    windows (`file.length + 8` always suffices: see `find_fuel` in the properties). -/
def find {τ} (file : Bytes) (matcher : Bytes → Option (Match τ)) : Nat → Win → Except Err (Win × Nat × Nat × τ)
  | 0, _ => .error .other
  | fuel+1, w =>
    let text := (file.drop (w.base + w.pos)).take (w.used - w.pos)
    match matcher text with
    | some m => .ok ({ w with pos := w.pos + m.b }, w.base + w.pos + m.a, m.b - m.a, m.tag)
    | none =>
      let pos' := if w.used ≥ Gen.his_scanner_regexpOverlap + w.pos + 1 then w.used - Gen.his_scanner_regexpOverlap else w.pos
      let w' := ({ w with pos := pos' }).refill file.length
      if w.used < Gen.his_scanner_scannerBufSize && w.used == w'.used then .error .eof
      else find file matcher fuel w'

/-! ## `startRegexp = %PDF-([12]\.[0-9])[^0-9]` -/

def pdfMagic : Bytes := [37, 80, 68, 70, 45]

/-- width of the character the regexp engine sees at the head of the text: a valid UTF-8
    sequence counts as one character, any other byte as one -/
def runeLen : Bytes → Nat
  | [] => 0
  | c :: rest =>
    let cont (x : Nat) : Bool := 128 ≤ x && x < 192
    if c < 128 then 1
    else if 194 ≤ c && c < 224 then
      match rest with
      | x :: _ => if cont x then 2 else 1
      | _ => 1
    else if 224 ≤ c && c < 240 then
      match rest with
      | x :: y :: _ =>
        let lo := if c == 224 then 160 else 128
        let hi := if c == 237 then 160 else 192
        if lo ≤ x && x < hi && cont y then 3 else 1
      | _ => 1
    else if 240 ≤ c && c < 245 then
      match rest with
      | x :: y :: z :: _ =>
        let lo := if c == 240 then 144 else 128
        let hi := if c == 244 then 144 else 192
        if lo ≤ x && x < hi && cont y && cont z then 4 else 1
      | _ => 1
    else 1

def matchStartAt (t : Bytes) : Option (Nat × Bytes) :=
  if !isPrefixOf pdfMagic t then none else
  match t.drop 5 with
  | v :: 46 :: d :: c :: rest =>
    if (v == 49 || v == 50) && isDigit d && !isDigit c then some (8 + runeLen (c :: rest), [v, 46, d]) else none
  | _ => none

def matchStartFrom : Nat → Bytes → Option (Match Bytes)
  | _, [] => none
  | i, c :: cs =>
    match matchStartAt (c :: cs) with
    | some (len, ver) => some { a := i, b := i + len, tag := ver }
    | none => matchStartFrom (i + 1) cs

def matchStart (text : Bytes) : Option (Match Bytes) := matchStartFrom 0 text

/-! ## `markerRegexp = (?:\r\n|\r|\n|^)(([0-9]+)[\000\011\014 ]+([0-9]+)[\000\011\014 ]+obj|xref|trailer|startxref|%%EOF)\b` -/

inductive Marker where
  | obj (num gen : Bytes)      -- the digit strings
  | xref | trailer | startxref | eof
  deriving Repr, DecidableEq

def isWordByte (c : Nat) : Bool :=
  isDigit c || (65 ≤ c && c ≤ 90) || (97 ≤ c && c ≤ 122) || c == 95

/-- `\b` after a word character: end of the text or a non-word character -/
def wordEnd : Bytes → Bool
  | [] => true
  | c :: _ => !isWordByte c

def isMarkerWS (c : Nat) : Bool := c == 0 || c == 9 || c == 12 || c == 32

def spanP (p : Nat → Bool) : Bytes → Bytes × Bytes
  | [] => ([], [])
  | c :: cs => if p c then let (a, b) := spanP p cs; (c :: a, b) else ([], c :: cs)

def kwXref : Bytes := [120, 114, 101, 102]
def kwTrailer : Bytes := [116, 114, 97, 105, 108, 101, 114]
def kwStartxref : Bytes := [115, 116, 97, 114, 116, 120, 114, 101, 102]
def kwEOF : Bytes := [37, 37, 69, 79, 70]

/-- the group after the line start: length of the match and what it is -/
def matchMarkerBody (t : Bytes) : Option (Nat × Marker) :=
  let objAlt : Option (Nat × Marker) :=
    let (n, r1) := spanP isDigit t
    let (w1, r2) := spanP isMarkerWS r1
    let (g, r3) := spanP isDigit r2
    let (w2, r4) := spanP isMarkerWS r3
    if !n.isEmpty && !w1.isEmpty && !g.isEmpty && !w2.isEmpty && isPrefixOf kwObj r4 && wordEnd (r4.drop 3) then
      some (n.length + w1.length + g.length + w2.length + 3, .obj n g)
    else none
  match objAlt with
  | some r => some r
  | none =>
    let kw (k : Bytes) (m : Marker) : Option (Nat × Marker) :=
      if isPrefixOf k t && wordEnd (t.drop k.length) then some (k.length, m) else none
    match kw kwXref .xref with
    | some r => some r
    | none =>
    match kw kwTrailer .trailer with
    | some r => some r
    | none =>
    match kw kwStartxref .startxref with
    | some r => some r
    | none => kw kwEOF .eof

/-- a match starting exactly at the head of `t` (`atStart`: `t` is the whole text, so `^`
    matches); returns the total length, the length of the line-start part and the marker -/
def matchMarkerAt (atStart : Bool) (t : Bytes) : Option (Nat × Nat × Marker) :=
  let tryAt (k : Nat) : Option (Nat × Nat × Marker) :=
    (matchMarkerBody (t.drop k)).map fun (len, m) => (k + len, k, m)
  let alt1 := match t with | 13 :: 10 :: _ => tryAt 2 | _ => none
  match alt1 with
  | some r => some r
  | none =>
  let alt2 := match t with | 13 :: _ => tryAt 1 | _ => none
  match alt2 with
  | some r => some r
  | none =>
  let alt3 := match t with | 10 :: _ => tryAt 1 | _ => none
  match alt3 with
  | some r => some r
  | none => if atStart then tryAt 0 else none

def matchMarkerFrom : Nat → Bytes → Option (Match (Nat × Marker))
  | _, [] => none
  | i, c :: cs =>
    match matchMarkerAt (i == 0) (c :: cs) with
    | some (len, lead, m) => some { a := i, b := i + len, tag := (lead, m) }
    | none => matchMarkerFrom (i + 1) cs

/-- leftmost match of `markerRegexp` in `text`; the tag carries `countLeadingSpaces(m[0])` -/
def matchMarker (text : Bytes) : Option (Match (Nat × Marker)) := matchMarkerFrom 0 text

/-! ## `locateObjects` -/

structure FileObject where
  num : Nat
  gen : Nat
  start : Nat
  deriving Repr, DecidableEq, Inhabited

structure Section where
  xrefPos : Nat := 0
  trailerPos : Nat := 0
  startXRefPos : Nat := 0
  eofPos : Nat := 0
  objects : List FileObject := []     -- in scan order
  deriving Repr, Inhabited

structure Located where
  pdfStart : Nat
  version : Bytes
  sections : List Section
  pdfEnd : Nat
  deriving Repr

structure LocState where
  done : List Section       -- finished sections, newest first
  cur : Section
  used : Bool
  inTrailer : Bool

def LocState.finish (s : LocState) : LocState :=
  { done := if s.used then { s.cur with objects := s.cur.objects.reverse } :: s.done else s.done,
    cur := {}, used := false, inTrailer := false }

/-- `strconv.ParseUint(digits, 10, bits)`: `none` when the value does not fit -/
def parseUint (digits : Bytes) (bits : Nat) : Option Nat :=
  let v := digitsVal digits 0
  if v < 2 ^ bits then some v else none

def locStep (s : LocState) (pos : Nat) (m : Marker) : LocState :=
  match m with
  | .obj n g =>
    match parseUint n 32 with
    | none => s
    | some n =>
      if n ≥ Gen.his_xref_maxXRefSize then s else
      match parseUint g 16 with
      | none => s
      | some g =>
        let s := if s.inTrailer then s.finish else s
        { s with cur := { s.cur with objects := { num := n, gen := g, start := pos } :: s.cur.objects }, used := true }
  | .xref => { s with cur := { s.cur with xrefPos := pos }, inTrailer := true, used := true }
  | .trailer => { s with cur := { s.cur with trailerPos := pos }, inTrailer := true, used := true }
  | .startxref => { s with cur := { s.cur with startXRefPos := pos }, inTrailer := true, used := true }
  | .eof => ({ s with cur := { s.cur with eofPos := pos } }).finish

/-- b778f0b (D-C20-2): the `^` of the marker pattern only says that a search of `scanner.Find` started
    here; a match without a leading end-of-line marker (`lead = 0`) counts only at offset 0 or
    behind an end-of-line byte -/
def lineInitial (file : Bytes) (pos lead : Nat) : Bool :=
  lead > 0 || pos == 0 ||
    (match (file.drop (pos - 1)).head? with
     | some c => c == 13 || c == 10
     | none => false)

/-- the `scanLoop`; returns the final state and the scanner window at `io.EOF` -/
def locLoop (file : Bytes) : Nat → Win → LocState → Except Err (LocState × Win)
  | 0, _, _ => .error .other
  | fuel+1, w, s =>
    match find file matchMarker (file.length + 8) w with
    | .error .eof =>
      -- reproduce the window in which `Find` gave up (for `PDFEnd`)
      .ok (s, w)
    | .error e => .error e
    | .ok (w', pos, _, (lead, m)) =>
      locLoop file fuel w' (if lineInitial file pos lead then locStep s (pos + lead) m else s)

/-- the scanner window when `Find` returns `io.EOF`, starting from `w` -/
def findEofWin {τ} (file : Bytes) (matcher : Bytes → Option (Match τ)) : Nat → Win → Win
  | 0, w => w
  | fuel+1, w =>
    let text := (file.drop (w.base + w.pos)).take (w.used - w.pos)
    match matcher text with
    | some _ => w
    | none =>
      let pos' := if w.used ≥ Gen.his_scanner_regexpOverlap + w.pos + 1 then w.used - Gen.his_scanner_regexpOverlap else w.pos
      let w' := ({ w with pos := pos' }).refill file.length
      if w.used < Gen.his_scanner_scannerBufSize && w.used == w'.used then w'
      else findEofWin file matcher fuel w'

/-- `locateObjects`; `.error .malformed` stands for `errNoPDF` and "no PDF content found" -/
def locateObjects (file : Bytes) : Except Err Located :=
  match find file matchStart (file.length + 8) { base := 0, pos := 0, used := 0 } with
  | .error .eof => .error .other        -- errNoPDF is a plain error value
  | .error e => .error e
  | .ok (w, pos, _, ver) =>
    match locLoop file (file.length + 2) w { done := [], cur := {}, used := false, inTrailer := false } with
    | .error e => .error e
    | .ok (s, w) =>
      let s := s.finish
      let wEnd := findEofWin file matchMarker (file.length + 8) w
      let (r, _) := skipWS (file.drop (wEnd.base + wEnd.pos))
      if s.done.isEmpty then .error .malformed
      else .ok { pdfStart := pos, version := ver, sections := s.done.reverse, pdfEnd := file.length - r.length }

/-! ## `indexObjects`, `makeSafeGetInt`, `checkObjects` -/

/-- `findObject`: the last object with this reference in scan order -/
def findObject (secs : List Section) (num gen : Nat) : Option FileObject :=
  let all := secs.flatMap (·.objects)
  (all.reverse.find? fun o => o.num == num && o.gen == gen)

/-- the `getInt` closure of `makeSafeGetInt`: follows references through `findObject` reading
    each target in scalar-only mode; `seen` is shared by all calls for one object.
    Returns the new `seen` and the integer or the error (the errors made here are malformed-file
    errors; an error of the nested `doRead` is handed on as it is). -/
def safeGetInt (file : Bytes) (secs : List Section) : Nat → List (Nat × Nat) → Obj → List (Nat × Nat) × Except Err Int
  | 0, seen, _ => (seen, .error .malformed)
  | fuel+1, seen, o =>
    match o with
    | .ref n g =>
      if seen.contains (n, g) || seen.length > 8 then (seen, .error .malformed) else
      let seen := (n, g) :: seen
      match findObject secs n g with
      | none => (seen, .error .malformed)   -- doRead(nil) gives nil: "expected integer, got null"
      | some fo =>
        -- nested /Length look-ups cannot happen in scalar-only mode (composites are refused)
        match readIndirect file fo.start (fun _ => .error .malformed) true with
        | .error e => (seen, .error e)
        | .ok ind =>
          match ind.val with
          | .obj o' => safeGetInt file secs fuel seen o'
          | .stream .. => (seen, .error .malformed)
    | .int i => (seen, .ok i)
    | _ => (seen, .error .malformed)

structure CheckedObject where
  num : Nat
  gen : Nat
  start : Nat
  endPos : Nat
  broken : Bool
  type : String
  subtype : Bytes
  deriving Repr, Inhabited

def typeOf : Val → String × Bytes
  | .stream d _ _ => ("Stream", match dictLookup [84, 121, 112, 101] d with | some (.name t) => t | _ => [])
  | .obj (.arr _) => ("Array", [])
  | .obj (.bool _) => ("Bool", [])
  | .obj (.dict d) => ("Dict", match dictLookup [84, 121, 112, 101] d with | some (.name t) => t | _ => [])
  | .obj (.int _) => ("Integer", [])
  | .obj (.name _) => ("Name", [])
  | .obj (.real _) => ("Real", [])
  | .obj (.ref _ _) => ("Reference", [])
  | .obj (.str _) => ("String", [])
  | .obj _ => ("", [])

/-- `doRead` (1430e5c): the start of the next located object behind `start`, the scanner's
    `findLimit` (`objStarts` holds the starts of ALL located objects, sorted) -/
def nextStart (secs : List Section) (start : Nat) : Option Nat :=
  match ((secs.flatMap (·.objects)).map (·.start)).filter (fun x => x > start) with
  | [] => none
  | x :: xs => some (xs.foldl min x)

/-- `checkObjects` for one object (`doRead` with a fresh `makeSafeGetInt`) -/
def checkObject (file : Bytes) (secs : List Section) (fo : FileObject) : Except Err CheckedObject :=
  let getInt (o : Obj) : Except Err Int := (safeGetInt file secs 12 [] o).2
  match readIndirect file fo.start getInt false (nextStart secs fo.start) with
  | .error .malformed => .ok { num := fo.num, gen := fo.gen, start := fo.start, endPos := 0, broken := true, type := "", subtype := [] }
  | .error .eof => .ok { num := fo.num, gen := fo.gen, start := fo.start, endPos := 0, broken := true, type := "", subtype := [] }
  | .error e => .error e
  | .ok ind =>
    let (t, st) := typeOf ind.val
    .ok { num := fo.num, gen := fo.gen, start := fo.start, endPos := ind.endPos, broken := false, type := t, subtype := st }

end PdfVerif.HIS

import PdfVerif.Basic
import PdfVerif.Generated.FactsCC
/-!
# Model of `font/charcode/{codec.go,range.go}` (property C12)

Hand-written executable model of the character-code codec: `Range.IsValid`, `newTree`
(breaks per byte position, prefix-conflict rejection, `minLength` for invalid gaps, the
sub-tree descriptors), the lineariser (`linearize`/`AppendNodes`, sharing by descriptor,
node-count cap), `NewCodec`, `Decode`, `AppendCode`, `walk`/`canMerge`/`CodeSpaceRange`
and `matchLen`.

Conventions: bytes are `Nat` (< 256), byte strings `List Nat`.  A Go run-time panic (index out
of range, the explicit `panic("unreachable")`) is the error `CErr.panic`; the only error the Go
code returns is `errInvalidCodeSpaceRange` = `CErr.invalid`.  All constants (special child
values, `maxNodes`, descriptor tags) come from `Generated/FactsCC.lean`.
-/
namespace PdfVerif.CC
open PdfVerif

inductive CErr where
  | invalid   -- errInvalidCodeSpaceRange
  | panic     -- a Go run-time panic (never returned by the real code; proved unreachable)
  deriving DecidableEq, Repr, Inhabited

def CErr.toString : CErr → String
  | .invalid => "invalid" | .panic => "panic"
instance : ToString CErr := ⟨CErr.toString⟩

/-- `charcode.Range` -/
structure Range where
  low : Bytes
  high : Bytes
  deriving DecidableEq, Repr, Inhabited

abbrev CSR := List Range

/-- `for i := range r.Low { if r.Low[i] > r.High[i] { return false } }` (lengths equal) -/
def leAll : Bytes → Bytes → Bool
  | a :: as, b :: bs => !(a > b) && leAll as bs
  | _, _ => true

/-- `Range.IsValid` -/
def Range.isValid (r : Range) : Bool :=
  if r.low.length != r.high.length || r.low.length == 0 || r.low.length > 4 then false
  else leAll r.low r.high

/-- `b[d]` for an index that the caller has checked to be in range -/
def byteAt (bs : Bytes) (d : Nat) : Nat := bs[d]?.getD 0

/-! ## `newTree` -/

/-- the lookup tree before linearisation (`tree`/`treeNode`); a child list is keyed by the
highest byte value of each interval, in increasing order -/
inductive Node where
  | valid
  | invalid (consume : Nat)
  | sub (cs : List (Nat × Node))
  deriving Repr, Inhabited

/-- membership in the `breaks` map of `newTree` -/
def isBreak (ranges : CSR) (d b : Nat) : Bool :=
  b == 0 || b == 256 || ranges.any fun r => byteAt r.low d == b || byteAt r.high d + 1 == b

/-- `slices.Sorted(maps.Keys(breaks))`: all keys lie in `0..256` -/
def breaks (ranges : CSR) (d : Nat) : List Nat := (List.range 257).filter (isBreak ranges d)

/-- `(bSlice[j], bSlice[j+1]-1)` for consecutive breaks -/
def intervals : List Nat → List (Nat × Nat)
  | a :: b :: rest => (a, b - 1) :: intervals (b :: rest)
  | _ => []

/-- `minLength` -/
def minLength : CSR → Nat
  | [] => 1
  | r :: rs => rs.foldl (fun m r => if r.low.length < m then r.low.length else m) r.low.length

/-- sequential loop with early error return -/
def mapE {α β : Type} (f : α → Except CErr β) : List α → Except CErr (List β)
  | [] => .ok []
  | a :: as =>
    match f a with
    | .error e => .error e
    | .ok b =>
      match mapE f as with
      | .error e => .error e
      | .ok bs => .ok (b :: bs)

/-- ranges overlapping the interval `[low, high]` at byte position `depth` -/
def overlapping (ranges : CSR) (depth low high : Nat) : CSR :=
  ranges.filter fun r => byteAt r.low depth ≤ high && byteAt r.high depth ≥ low

def numLeaves (child : CSR) (depth : Nat) : Nat :=
  (child.filter fun r => r.low.length == depth + 1).length

/-- the body of the loop over the break intervals of `newTree`: the tree node for the interval
`iv = (low, high)`; `recur` is the recursive call `newTree(childRanges, depth+1)` -/
def nodeFor (recur : CSR → Except CErr (List (Nat × Node))) (ranges : CSR) (depth : Nat)
    (iv : Nat × Nat) : Except CErr (Nat × Node) :=
  let child := overlapping ranges depth iv.1 iv.2
  if child.isEmpty then
    .ok (iv.2, Node.invalid (minLength ranges - (depth + 1)))
  else if numLeaves child depth == child.length then
    .ok (iv.2, Node.valid)
  else if numLeaves child depth == 0 then
    match recur child with
    | .ok cs => .ok (iv.2, Node.sub cs)
    | .error e => .error e
  else
    .error .invalid

/-- `newTree(ranges, depth)`.  `fuel` bounds the recursion depth (ranges have at most 4 bytes,
so 4 levels); running out of fuel or indexing a range beyond its length is a Go panic. -/
def newTree : (fuel : Nat) → CSR → (depth : Nat) → Except CErr (List (Nat × Node))
  | 0, _, _ => .error .panic
  | fuel + 1, ranges, depth =>
    if !(ranges.all fun r => decide (depth < r.low.length) && decide (depth < r.high.length)) then
      .error .panic
    else
      mapE (nodeFor (fun child => newTree fuel child (depth + 1)) ranges depth)
        (intervals (breaks ranges depth))

/-! ## semantics of the (unshared) tree — a proof device, not part of the Go code -/

mutual
/-- what the sub-tree below a node does with the bytes `s` that follow the byte which selected
the node: `(further bytes consumed, valid)` -/
def Node.dec : Node → Bytes → Nat × Bool
  | .valid, _ => (0, true)
  | .invalid k, s => (min k s.length, false)
  | .sub cs, s => kidsDec cs s
/-- a child list applied to the input: select the first child whose bound is `≥` the byte -/
def kidsDec : List (Nat × Node) → Bytes → Nat × Bool
  | _, [] => (0, false)
  | [], _ :: _ => (1, false)
  | (hi, n) :: rest, b :: s =>
    if b ≤ hi then ((n.dec s).1 + 1, (n.dec s).2) else kidsDec rest (b :: s)
end

/-! ## descriptors -/

mutual
/-- `treeNode.desc` -/
def Node.desc : Node → Bytes
  | .valid => [Gen.cc_descValidBegin, Gen.cc_descValidEnd]
  | .invalid k => [Gen.cc_descInvalid, k % 256]
  | .sub cs => Gen.cc_descValidBegin :: (kidsDesc cs ++ [Gen.cc_descValidEnd])
def kidsDesc : List (Nat × Node) → Bytes
  | [] => []
  | (hi, n) :: rest => n.desc ++ (hi :: kidsDesc rest)
end

/-! ## lineariser -/

/-- `linearizedNode` (`child` is a `uint16`) -/
structure LNode where
  bound : Nat
  child : Nat
  deriving DecidableEq, Repr, Inhabited

/-- `linearizer`: `done` is a map keyed by descriptor -/
structure Lin where
  nodes : List LNode
  done : List (Bytes × Nat)
  deriving Repr

def lookupDesc (d : Bytes) : List (Bytes × Nat) → Option Nat
  | [] => none
  | (k, v) :: rest => if k == d then some v else lookupDesc d rest

/-- `newLinearizer` -/
def newLin : Lin :=
  { nodes := []
    done := [ ([Gen.cc_descValidBegin, Gen.cc_descValidEnd], Gen.cc_validLeaf),
              ([Gen.cc_descInvalid, 3], Gen.cc_invalidConsume3),
              ([Gen.cc_descInvalid, 2], Gen.cc_invalidConsume2),
              ([Gen.cc_descInvalid, 1], Gen.cc_invalidConsume1),
              ([Gen.cc_descInvalid, 0], Gen.cc_invalidConsume0) ] }

def setChild (nodes : List LNode) (i : Nat) (c : Nat) : List LNode :=
  match nodes[i]? with
  | some n => nodes.set i { n with child := c }
  | none => nodes

/-- children of a tree node (`treeNode.children`, nil for leaves) -/
def Node.kids : Node → List (Nat × Node)
  | .sub cs => cs
  | _ => []

mutual
/-- `linearizer.AppendNodes`: returns the new state and the index (`uint16`) of the group -/
def appendNodes (l : Lin) (cs : List (Nat × Node)) : Except CErr (Lin × Nat) :=
  let base := l.nodes.length
  if base + cs.length > Gen.cc_maxNodes then
    .ok ({ l with nodes := l.nodes ++ List.replicate cs.length ⟨0, 0⟩ }, 0)
  else
    match fillKids { l with nodes := l.nodes ++ cs.map fun c => ⟨c.1, 0⟩ } base 0 cs with
    | .error e => .error e
    | .ok (l', aborted) => if aborted then .ok (l', 0) else .ok (l', base % 65536)
/-- the second loop of `AppendNodes`; the flag says that it returned early (too many nodes) -/
def fillKids (l : Lin) (base i : Nat) : List (Nat × Node) → Except CErr (Lin × Bool)
  | [] => .ok (l, false)
  | (_, n) :: rest =>
    match lookupDesc n.desc l.done with
    | some idx => fillKids { l with nodes := setChild l.nodes (base + i) idx } base (i + 1) rest
    | none =>
      match (match n with
             | .sub cs' => appendNodes l cs'
             | _ => appendNodes l []) with
      | .error e => .error e
      | .ok (l', childPos) =>
        if l'.nodes.length > Gen.cc_maxNodes then .ok (l', true)
        else if childPos ≤ base + i then .error .panic
        else
          fillKids { nodes := setChild l'.nodes (base + i) childPos,
                     done := (n.desc, childPos) :: l'.done } base (i + 1) rest
end

/-- `Codec` -/
structure Codec where
  nodes : List LNode
  deriving Repr

/-- `NewCodec` -/
def newCodec (ranges : CSR) : Except CErr Codec :=
  if !(ranges.all Range.isValid) then .error .invalid else
  match newTree 4 ranges 0 with
  | .error e => .error e
  | .ok tree =>
    match appendNodes newLin tree with
    | .error e => .error e
    | .ok (l, _) =>
      if l.nodes.length > Gen.cc_maxNodes then .error .invalid
      else .ok ⟨l.nodes⟩

/-! ## `Decode`, `AppendCode` -/

/-- the inner `for { node = c.nodes[cur]; if b <= node.bound { break }; cur++ }`;
`none` = index out of range -/
def scan (nodes : List LNode) : (fuel : Nat) → (cur : Nat) → (b : Nat) → Option (Nat × LNode)
  | 0, _, _ => none
  | fuel + 1, cur, b =>
    match nodes[cur]? with
    | none => none
    | some n => if b ≤ n.bound then some (cur, n) else scan nodes fuel (cur + 1) b

/-- `code |= Code(b) << (8*consumed)` on `uint32` -/
def orByte (code b consumed : Nat) : Nat := (code ||| (b <<< (8 * consumed))) % 4294967296

/-- consume up to `k` further bytes of an invalid code -/
def takeInvalid : (k : Nat) → Bytes → (code consumed : Nat) → Nat × Nat
  | 0, _, code, consumed => (code, consumed)
  | _ + 1, [], code, consumed => (code, consumed)
  | k + 1, b :: s, code, consumed => takeInvalid k s (orByte code b consumed) (consumed + 1)

/-- the loop of `Codec.Decode`; result `(code, consumed, valid)` -/
def decodeLoop (nodes : List LNode) : Bytes → (cur code consumed : Nat) → Except CErr (Nat × Nat × Bool)
  | [], _, code, consumed => .ok (code, consumed, false)
  | b :: s, cur, code, consumed =>
    let code := orByte code b consumed
    let consumed := consumed + 1
    match scan nodes nodes.length cur b with
    | none => .error .panic
    | some (_, node) =>
      let next := node.child
      if next == Gen.cc_validLeaf then .ok (code, consumed, true)
      else if next == Gen.cc_invalidConsume3 then
        let r := takeInvalid 3 s code consumed; .ok (r.1, r.2, false)
      else if next == Gen.cc_invalidConsume2 then
        let r := takeInvalid 2 s code consumed; .ok (r.1, r.2, false)
      else if next == Gen.cc_invalidConsume1 then
        let r := takeInvalid 1 s code consumed; .ok (r.1, r.2, false)
      else if next == Gen.cc_invalidConsume0 then .ok (code, consumed, false)
      else decodeLoop nodes s next code consumed

/-- `Codec.Decode` -/
def Codec.decode (c : Codec) (s : Bytes) : Except CErr (Nat × Nat × Bool) :=
  decodeLoop c.nodes s 0 0 0

/-- emit `k` further bytes of the code -/
def emitBytes : (k : Nat) → (code : Nat) → Bytes
  | 0, _ => []
  | k + 1, code => (code % 256) :: emitBytes k (code / 256)

/-- the loop of `Codec.AppendCode` (returns the appended bytes); the Go loop has no bound, it
terminates because `cur` increases — `fuel` = number of nodes -/
def appendLoop (nodes : List LNode) : (fuel : Nat) → (cur code : Nat) → Except CErr Bytes
  | 0, _, _ => .error .panic
  | fuel + 1, cur, code =>
    let b := code % 256
    let code := code / 256
    match scan nodes nodes.length cur b with
    | none => .error .panic
    | some (_, node) =>
      let next := node.child
      if next == Gen.cc_validLeaf then .ok [b]
      else if next == Gen.cc_invalidConsume3 then .ok (b :: emitBytes 3 code)
      else if next == Gen.cc_invalidConsume2 then .ok (b :: emitBytes 2 code)
      else if next == Gen.cc_invalidConsume1 then .ok (b :: emitBytes 1 code)
      else if next == Gen.cc_invalidConsume0 then .ok [b]
      else
        match appendLoop nodes fuel next code with
        | .error e => .error e
        | .ok bs => .ok (b :: bs)

/-- `Codec.AppendCode(nil, code)`.  The Go loop has no explicit bound; every iteration descends
one level of the lookup tree, which has at most as many levels as a code has bytes. -/
def Codec.appendCode (c : Codec) (code : Nat) : Except CErr Bytes :=
  appendLoop c.nodes 4 0 (code % 4294967296)

/-! ## the linearised tree represents the unshared tree — checkable certificate

`reprOK nodes cs idx`: the group of nodes starting at `idx` has the bounds of the child list `cs`
and every child value is the special value of the leaf or the index of a group that represents
the child's sub-tree.  Proved for every accepted range set in `Props/C12ccc.lean`; the driver
also evaluates it on every codec of the correspondence run (`CC repr`). -/

mutual
def childOK (nodes : List LNode) : Node → Nat → Bool
  | .valid, c => c == Gen.cc_validLeaf
  | .invalid k, c => decide (k ≤ 3) && c == Gen.cc_invalidConsume0 - k
  | .sub cs, c => c != Gen.cc_validLeaf && decide (c < Gen.cc_maxNodes) && reprOK nodes cs c
def reprOK (nodes : List LNode) : List (Nat × Node) → Nat → Bool
  | [], _ => true
  | (hi, n) :: rest, idx =>
    match nodes[idx]? with
    | none => false
    | some ln => ln.bound == hi && childOK nodes n ln.child && reprOK nodes rest (idx + 1)
end

mutual
/-- tree nodes as `newTree` builds them: no empty child list, at most 3 further bytes to consume -/
def Node.wf : Node → Bool
  | .valid => true
  | .invalid k => decide (k ≤ 3)
  | .sub cs => !cs.isEmpty && kidsWf cs
def kidsWf : List (Nat × Node) → Bool
  | [] => true
  | (_, n) :: rest => n.wf && kidsWf rest
end

mutual
/-- every child list ends with the bound 255 (so every byte selects a child) -/
def Node.covers : Node → Bool
  | .sub cs => kidsCover cs
  | _ => true
def kidsCover : List (Nat × Node) → Bool
  | [] => false
  | [(hi, n)] => hi == 255 && n.covers
  | (_, n) :: rest => n.covers && kidsCover rest
end

/-! ## `CodeSpaceRange`, `walk`, `canMerge`, `matchLen` -/

def isSpecial (child : Nat) : Bool :=
  child == Gen.cc_invalidConsume0 || child == Gen.cc_invalidConsume1 ||
  child == Gen.cc_invalidConsume2 || child == Gen.cc_invalidConsume3

/-- `Codec.walk` (`low`, `high` are the bounds from the parent nodes).  `fuel` bounds the depth
of the recursion, `n` the length of the scan along one group. -/
def walk (nodes : List LNode) : (fuel : Nat) → (n : Nat) → CSR → (cur : Nat) → (low high : Bytes) → (nextLow : Nat) →
    Except CErr CSR
  | 0, _, _, _, _, _, _ => .error .panic
  | _, 0, _, _, _, _, _ => .error .panic
  | fuel + 1, n + 1, csr, cur, low, high, nextLow =>
    match nodes[cur]? with
    | none => .error .panic
    | some node =>
      let nextHigh := node.bound
      let low2 := low ++ [nextLow]
      let high2 := high ++ [nextHigh]
      let r :=
        if node.child == Gen.cc_validLeaf then .ok (csr ++ [⟨low2, high2⟩])
        else if isSpecial node.child then .ok csr
        else walk nodes fuel nodes.length csr node.child low2 high2 0
      match r with
      | .error e => .error e
      | .ok csr' =>
        if nextHigh == 255 then .ok csr'
        else walk nodes (fuel + 1) n csr' (cur + 1) low high (nextHigh + 1)
termination_by fuel n => (fuel, n)

/-- `canMerge` -/
def canMergeLoop : Bytes → Bytes → Bytes → Bytes → (numAdjacent : Nat) → Bool
  | rl :: rls, rh :: rhs, sl :: sls, sh :: shs, numAdjacent =>
    if rl == sl && rh == sh then canMergeLoop rls rhs sls shs numAdjacent
    else
      let isAdjacent := rh + 1 == sl
      if !isAdjacent || numAdjacent > 0 then false
      else canMergeLoop rls rhs sls shs (numAdjacent + 1)
  | _, _, _, _, _ => true

def canMerge (r s : Range) : Bool :=
  if r.low.length != s.low.length then false
  else canMergeLoop r.low r.high s.low s.high 0

/-- `pos := 0; for r.Low[pos] == s.Low[pos] && r.High[pos] == s.High[pos] { pos++ }`;
`none` = index out of range -/
def diffPos : Bytes → Bytes → Bytes → Bytes → Option Nat
  | rl :: rls, rh :: rhs, sl :: sls, sh :: shs =>
    if rl == sl && rh == sh then (diffPos rls rhs sls shs).map (· + 1) else some 0
  | _, _, _, _ => none

/-- all candidates `(pos, i, j)` in the order of the two nested loops -/
def candidates (csr : CSR) : Except CErr (List (Nat × Nat × Nat)) :=
  let idx := (List.range csr.length).zip csr
  mapE (fun (p : (Nat × Range) × (Nat × Range)) =>
      match diffPos p.1.2.low p.1.2.high p.2.2.low p.2.2.high with
      | none => .error .panic
      | some pos => .ok (pos, p.1.1, p.2.1))
    ((idx.flatMap fun a => idx.map fun b => (a, b)).filter fun p =>
      p.1.1 != p.2.1 && canMerge p.1.2 p.2.2)

def candLt (a b : Nat × Nat × Nat) : Bool :=
  if a.1 != b.1 then a.1 < b.1 else if a.2.1 != b.2.1 then a.2.1 < b.2.1 else a.2.2 < b.2.2

/-- the first element after `sort.Slice` with `candLt` (a strict total order on distinct triples) -/
def minCand : List (Nat × Nat × Nat) → Option (Nat × Nat × Nat)
  | [] => none
  | c :: cs => match minCand cs with
    | none => some c
    | some m => if candLt m c then some m else some c

/-- the merge loop of `Codec.CodeSpaceRange` -/
def mergeLoop : (fuel : Nat) → CSR → Except CErr CSR
  | 0, _ => .error .panic
  | fuel + 1, csr =>
    match candidates csr with
    | .error e => .error e
    | .ok cands =>
      match minCand cands with
      | none => .ok csr
      | some (_, i, j) =>
        match csr[i]?, csr[j]? with
        | some ri, some rj =>
          mergeLoop fuel ((csr.set i { ri with high := rj.high }).eraseIdx j)
        | _, _ => .error .panic

/-- `Codec.CodeSpaceRange` -/
def Codec.codeSpaceRange (c : Codec) : Except CErr CSR :=
  match walk c.nodes 5 c.nodes.length [] 0 [] [] 0 with
  | .error e => .error e
  | .ok csr => mergeLoop (csr.length + 1) csr

/-- `CodeSpaceRange.matchLen` -/
def rangeMatches : Bytes → Bytes → Bytes → Bool
  | [], _, _ => true
  | l :: ls, h :: hs, b :: bs => if b < l || b > h then false else rangeMatches ls hs bs
  | _ :: _, _, _ => false

def matchLen : CSR → Bytes → Nat
  | [], _ => 0
  | r :: rest, s =>
    if s.length < r.low.length then matchLen rest s
    else if rangeMatches r.low r.high s then r.low.length
    else matchLen rest s

/-! ## wire forms for the correspondence protocol -/

def Range.wire (r : Range) : String := hexWire r.low ++ ":" ++ hexWire r.high

def csrWire (csr : CSR) : String :=
  if csr.isEmpty then "_" else ",".intercalate (csr.map Range.wire)

def rangeOfWire (s : String) : Option Range :=
  match s.splitOn ":" with
  | [a, b] => do
    let lo ← bytesOfHex a
    let hi ← bytesOfHex b
    pure ⟨lo, hi⟩
  | _ => none

def csrOfWire (s : String) : Option CSR :=
  if s == "_" then some [] else (s.splitOn ",").mapM rangeOfWire

def nodesWire (nodes : List LNode) : String :=
  if nodes.isEmpty then "_" else
  ",".intercalate (nodes.map fun n => toString n.bound ++ ":" ++ toString n.child)

end PdfVerif.CC

import PdfVerif.Model.Scan
import PdfVerif.Generated.FactsHIS
/-!
# Model of `xref.go` (reading side) — cross-reference map, tables, streams, `/Prev` loop

* `XEntry` mirrors `xRefEntry`; the Go map `map[uint32]*xRefEntry` is an association list in
  which a number is bound at most once (`setIfAbsent` mirrors the `xref[i] != nil` tests of
  `decodeXRefSection` / `decodeXRefStream`: the first entry seen for a number is kept).
* `decodeXRefSection`, `readXRefTable`, `checkXRefStreamDict`, `decodeXRefStream`,
  `findXRef`/`lastOccurence`, and the loop of `readXRef` with its `seen` set.
-/
namespace PdfVerif.HIS
open PdfVerif

/-! ## the map and "first entry wins" (generic in the entry type) -/

/-- `if xref[n] == nil { xref[n] = e }` -/
def setIfAbsent {β} (m : List (Nat × β)) (n : Nat) (e : β) : List (Nat × β) :=
  match m.lookup n with
  | some _ => m
  | none => (n, e) :: m

/-- one section's entries in file order -/
def fillSection {β} : List (Nat × β) → List (Nat × β) → List (Nat × β)
  | m, [] => m
  | m, (n, e) :: rest => fillSection (setIfAbsent m n e) rest

/-- the sections in the order the reader visits them (newest first) -/
def fillAll {β} : List (Nat × β) → List (List (Nat × β)) → List (Nat × β)
  | m, [] => m
  | m, s :: ss => fillAll (fillSection m s) ss

/-- `xRefEntry` -/
structure XEntry where
  pos : Int          -- byte offset, index in the object stream, or -1 for a free entry
  gen : Nat
  inStream : Nat     -- object number of the containing object stream, 0 = none
  deriving DecidableEq, Repr, Inhabited

abbrev XMap := List (Nat × XEntry)

/-- `xRefEntry.IsFree` on a possibly missing entry -/
def isFree : Option XEntry → Bool
  | none => true
  | some e => e.pos < 0

/-- the test at the top of `Reader.get`: the entry to follow, or `none` for "return null" -/
def getDecision (m : XMap) (num gen : Nat) : Option XEntry :=
  match m.lookup num with
  | none => none
  | some e => if e.pos < 0 || e.gen != gen then none else some e

/-! ## the `/Prev` loop of `readXRef` with its `seen` set

`step st seen start` reads the section at `start`: it returns the new state, the grown `seen`
set (an `/XRefStm` position may have been added) and the integer value of `/Prev`, or `none`
when there is no `/Prev`.  `size` is the file size, `hdr` the header offset; the range check
on `/Prev` is the one in the Go loop.  The result is `none` only if the fuel runs out (the
property theorem `prev_chain_terminates` shows that `size + 1` always suffices). -/
def prevLoop {σ} (size hdr : Nat) (step : σ → List Int → Int → Except Err (σ × List Int × Option Int)) :
    Nat → σ → List Int → Int → Option (Except Err σ)
  | 0, _, _, _ => none
  | fuel+1, st, seen, start =>
    if seen.contains start then some (.ok st) else
    match step st (start :: seen) start with
    | .error e => some (.error e)
    | .ok (st', _, none) => some (.ok st')
    | .ok (st', seen', some prev) =>
      -- `prevStart <= 0 || int64(prevStart) >= size-r.headerOffset`
      if prev ≤ 0 || prev ≥ (size : Int) - hdr then some (.error .malformed)
      else prevLoop size hdr step fuel st' seen' (prev + hdr)

end PdfVerif.HIS

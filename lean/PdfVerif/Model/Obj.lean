import PdfVerif.Basic
/-!
PDF object values as the formatter/scanner models see them, and their one-line wire encoding
for the correspondence protocol.  (`types.go`: Native types.)
-/
namespace PdfVerif

inductive Obj where
  | null
  | nilArr                          -- Go: typed nil `Array(nil)` or `Dict(nil)`, formatted as `null`
  | bool (b : Bool)
  | int (i : Int)
  | real (tok : Bytes)              -- decimal token as produced by strconv.FormatFloat(x,'f',-1,64)
  | name (n : Bytes)
  | str (s : Bytes)
  | op (o : Bytes)                  -- content stream operator
  | ref (num gen : Nat)
  | arr (xs : List Obj)
  | dict (kv : List (Bytes × Obj))  -- Go map: keys unique; order irrelevant (sorted on output)
  deriving Repr, Inhabited

/-! ### wire encoding (see harness/wire.go for the Go side) -/

mutual
def Obj.wire : Obj → String
  | .null => "z"
  | .nilArr => "Z"
  | .bool true => "t"
  | .bool false => "f"
  | .int i => "i" ++ toString i ++ ";"
  | .real t => "r" ++ hexOfBytes t ++ ";"
  | .name n => "n" ++ hexOfBytes n ++ ";"
  | .str s => "s" ++ hexOfBytes s ++ ";"
  | .op o => "o" ++ hexOfBytes o ++ ";"
  | .ref n g => "R" ++ toString n ++ "," ++ toString g ++ ";"
  | .arr xs => "a" ++ wireList xs ++ "]"
  | .dict kv => "d" ++ wireKV kv ++ ">"
def wireList : List Obj → String
  | [] => ""
  | x :: xs => x.wire ++ wireList xs
def wireKV : List (Bytes × Obj) → String
  | [] => ""
  | (k, v) :: rest => hexOfBytes k ++ ";" ++ v.wire ++ wireKV rest
end

private def takeUntil (stop : Char) : List Char → List Char × List Char
  | [] => ([], [])
  | c :: cs => if c == stop then ([], cs) else
      let (a, b) := takeUntil stop cs; (c :: a, b)

private theorem takeUntil_len (stop : Char) (cs : List Char) :
    (takeUntil stop cs).2.length ≤ cs.length := by
  induction cs with
  | nil => simp [takeUntil]
  | cons c cs ih => unfold takeUntil; split <;> simp <;> omega

private def parseDec (cs : List Char) : Option Int :=
  match cs with
  | '-' :: ds => (String.ofList ds).toNat?.map fun n => - (n : Int)
  | ds => (String.ofList ds).toNat?.map fun n => (n : Int)

mutual
/-- parse one object from the wire; fuel bounds recursion -/
def parseWire : Nat → List Char → Option (Obj × List Char)
  | 0, _ => none
  | fuel+1, cs =>
    match cs with
    | [] => none
    | 'z' :: r => some (.null, r)
    | 'Z' :: r => some (.nilArr, r)
    | 'N' :: r => some (.nilArr, r)   -- typed nil `Dict(nil)`: the same value (written `null`)
    | 't' :: r => some (.bool true, r)
    | 'f' :: r => some (.bool false, r)
    | 'i' :: r => let (a, b) := takeUntil ';' r; (parseDec a).map fun i => (.int i, b)
    | 'r' :: r => let (a, b) := takeUntil ';' r; (bytesOfHexChars a).map fun x => (.real x, b)
    | 'n' :: r => let (a, b) := takeUntil ';' r; (bytesOfHexChars a).map fun x => (.name x, b)
    | 's' :: r => let (a, b) := takeUntil ';' r; (bytesOfHexChars a).map fun x => (.str x, b)
    | 'o' :: r => let (a, b) := takeUntil ';' r; (bytesOfHexChars a).map fun x => (.op x, b)
    | 'R' :: r =>
      let (a, b) := takeUntil ',' r
      let (c, d) := takeUntil ';' b
      match (String.ofList a).toNat?, (String.ofList c).toNat? with
      | some n, some g => some (.ref n g, d)
      | _, _ => none
    | 'a' :: r => (parseWireList fuel r).map fun (xs, r') => (.arr xs, r')
    | 'd' :: r => (parseWireKV fuel r).map fun (kv, r') => (.dict kv, r')
    | _ => none
def parseWireList : Nat → List Char → Option (List Obj × List Char)
  | 0, _ => none
  | fuel+1, cs =>
    match cs with
    | ']' :: r => some ([], r)
    | _ => do
      let (x, r) ← parseWire fuel cs
      let (xs, r') ← parseWireList fuel r
      pure (x :: xs, r')
def parseWireKV : Nat → List Char → Option (List (Bytes × Obj) × List Char)
  | 0, _ => none
  | fuel+1, cs =>
    match cs with
    | '>' :: r => some ([], r)
    | _ => do
      let (a, b) := takeUntil ';' cs
      let k ← bytesOfHexChars a
      let (v, r) ← parseWire fuel b
      let (kv, r') ← parseWireKV fuel r
      pure ((k, v) :: kv, r')
end

def Obj.ofWire (s : String) : Option Obj :=
  let cs := s.toList
  match parseWire (cs.length + 2) cs with
  | some (o, []) => some o
  | _ => none

/-- a sequence of objects: concatenated wire forms, `"-"` for none -/
def objsOfWire (s : String) : Option (List Obj) :=
  if s == "-" then some [] else
  let cs := s.toList ++ [']']
  match parseWireList (cs.length + 2) cs with
  | some (xs, []) => some xs
  | _ => none

end PdfVerif

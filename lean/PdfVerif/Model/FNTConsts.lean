import PdfVerif.Basic
/-!
Integer literals that occur *inside function bodies* of the anchored Go code (the fact
extractor only evaluates named constants and tables, `Generated/FNTFacts.lean` holds those).
They are tied to the sources on every run: the harness re-reads the Go files with `go/ast`,
lists the integer/char literals of each function body in source order and emits them as the
correspondence line `FNT lits <key>`; the driver answers with the lists below.  A changed
literal therefore fails the correspondence (and the models, which use these names, change
with the list when it is updated).
-/
namespace PdfVerif.FNT.K

-- font/encoding/simpleenc/simple.go: (*Simple).Encode
def simpleMaxCodes : Nat := 256      -- `len(t.info) >= 256`, `range 256`
def scoreUnused : Nat := 100         -- base encoding has `.notdef`/"" at the code
def scoreOther : Nat := 10           -- base encoding has another glyph there
def spaceCode : Nat := 32            -- `code == 32 && glyphName != "space"`, `c == 0x20`
-- (*Simple).makeGlyphName
def maxNameLen : Nat := 31           -- `len(glyphName) > 31`

-- font/encoding/cidenc/utf8.go: NewCompositeUtf8 / makeCode
def privStart : Nat := 0xE000
def privEnd1 : Nat := 0xF900
def privStart2 : Nat := 0xF0000
def privEnd2 : Nat := 0xFFFFE
def privStart3 : Nat := 0x100000
def privEnd3 : Nat := 0x10FFFE

-- graphics/extract/font-metrics.go: decodeCompositeWidths / getSimpleWidthsErr (body of getSimpleWidths since D88)
def maxCID : Nat := 65535
def maxWEntries : Nat := 65536

/-- literals of the function bodies, in source order (see the harness, `fnt_consts.go`) -/
def lits : String → Option (List Nat)
  | "simple.Encode" =>
      some [0, simpleMaxCodes, 0, 0, 0, 0, 1, 0, simpleMaxCodes, 0, scoreUnused, spaceCode, scoreOther]
  | "simple.makeGlyphName" => some [0, 0, maxNameLen, 0]
  | "simple.Codes" => some [0, 0, 1, 1000, spaceCode]
  | "simple.DefaultWidth" => some [0, 1, 1, 256, 255, 1, 254, 0, 1, 0]
  | "utf8.NewCompositeUtf8" => some [privStart]
  | "utf8.makeCode" => some [1, 0, privEnd1, privStart2, privEnd2, privStart3, privEnd3, 0]
  | "utf8.runeToCode" => some [8]
  | "utf8.Codes" => some [0, 1000, 0, 1000, 0, 1000, 1, spaceCode]
  | "fixed.Codes" => some [0, 1, 0, 1000, 1, spaceCode, 0, 0, 1000, 1, spaceCode]
  | "extract.decodeCompositeWidths" => some [0, 1, 0, 1, 3, 0, maxCID, 2, maxWEntries, 3, 1, 0, maxCID, maxWEntries, 2, 0]
  | "extract.getSimpleWidths" => some [256, 0, 256, 256]
  | "dict.setSimpleWidths" => some [0, 255, 0, 1, 10]
  | "dict.encodeCompositeWidths" => some [0, 1, 2, 0, 1, 0, 0, 0, 0, 0, 1]
  | _ => none

end PdfVerif.FNT.K

import PdfVerif.Basic
import PdfVerif.Model.Obj
import PdfVerif.Generated.SecFacts
/-!
# Model of the standard security handler (`crypto.go`) and of the places where the Writer and
# the Reader apply it (`writer.go: NewWriter`, `reader.go/crypto.go: parseEncryptDict`)

Everything is a total function over byte lists.  The cryptographic primitives are *parameters*
(`Prims`): the theorems in `Props/C09sec.lean`, `Props/C10sec.lean` put hypotheses on them
(never axioms), the driver instantiates them with the executable `Model/SECPrim.lean`.

Go constructs and their model:
* `[]byte` → `Bytes`; `uint32 P` → `Nat` (kept `< 2^32` by `stdSecPermToP`/`openStdSec`);
* `crypto/rand.Reader` → an explicit byte list `rng`; every function that draws returns the rest;
* a `panic("invalid R")`/`panic("unknown cipher")` site → `.error .other` (unreachable after
  `openStdSec`, which only lets `2 ≤ R ≤ 6` through);
* `PDFDocEncode` and `stringprep.SASLprep` are external: the model takes their result
  (`none` = "cannot be encoded/prepared") as an input.
The numbers 50, 19, 20, 64, 32, 127, the offsets 32/40/48 and the bit numbers of the `P` word
are literals inside the Go function bodies (not named constants), so they are literals here; the
named constants (`passwdPad`, `zero16`, `Perm*`, versions) come from `Generated/SecFacts.lean`.
-/
namespace PdfVerif.SEC
open PdfVerif

/-- cryptographic primitives (Go: crypto/md5, crypto/sha256, crypto/sha512, crypto/rc4, crypto/aes) -/
structure Prims where
  md5 : Bytes → Bytes
  sha256 : Bytes → Bytes
  sha384 : Bytes → Bytes
  sha512 : Bytes → Bytes
  /-- the first `n` key-stream bytes of RC4 under a key -/
  rc4ks : Bytes → Nat → Bytes
  /-- AES block encryption / decryption, key then 16-byte block -/
  aesEnc : Bytes → Bytes → Bytes
  aesDec : Bytes → Bytes → Bytes

/-! ## byte helpers -/

def xorBytes (a b : Bytes) : Bytes := List.zipWith (· ^^^ ·) a b

/-- `rc4.Cipher.XORKeyStream(dst, src)` for a fresh cipher -/
def rc4 (P : Prims) (k x : Bytes) : Bytes := xorBytes x (P.rc4ks k x.length)

/-- little-endian bytes of a `uint32` -/
def le32 (p : Nat) : Bytes := [p % 256, p / 256 % 256, p / 65536 % 256, p / 16777216 % 256]

/-- `aes.NewCipher` accepts exactly these key sizes -/
def aesKeyOk (k : Bytes) : Bool := k.length == 16 || k.length == 24 || k.length == 32

/-! ## CBC (`crypto/cipher` `NewCBCEncrypter/Decrypter.CryptBlocks`) as a machine whose state is
the chaining value; `n` is the number of blocks of `d` -/

def cbcEncBlocks (P : Prims) (k : Bytes) : Nat → Bytes → Bytes → Bytes × Bytes
  | 0, iv, _ => ([], iv)
  | n+1, iv, d =>
    let c := P.aesEnc k (xorBytes (d.take 16) iv)
    let r := cbcEncBlocks P k n c (d.drop 16)
    (c ++ r.1, r.2)

def cbcDecBlocks (P : Prims) (k : Bytes) : Nat → Bytes → Bytes → Bytes × Bytes
  | 0, iv, _ => ([], iv)
  | n+1, iv, d =>
    let c := d.take 16
    let p := xorBytes (P.aesDec k c) iv
    let r := cbcDecBlocks P k n c (d.drop 16)
    (p ++ r.1, r.2)

def cbcEncrypt (P : Prims) (k iv d : Bytes) : Bytes := (cbcEncBlocks P k (d.length / 16) iv d).1
def cbcDecrypt (P : Prims) (k iv d : Bytes) : Bytes := (cbcDecBlocks P k (d.length / 16) iv d).1

/-! ## PKCS#7 -/

/-- the padding `EncryptBytes`/`encryptWriter.Close` append: `16 - n%16` bytes of that value -/
def pkcs7Pad (x : Bytes) : Bytes :=
  x ++ List.replicate (16 - x.length % 16) (16 - x.length % 16)

/-- `errCorrupted` is a plain `errors.New` value: class `other`.
`unpadPKCS7`: the accumulated `good` flag over the 16 trailing bytes -/
def padGood (buf : Bytes) (padByte : Nat) : Bool :=
  decide (padByte ≤ 16) && !(padByte == 0) &&
  (List.range 16).all fun i =>
    !(decide (i + 1 ≤ padByte)) || ((buf.reverse)[i]? == some padByte)

def unpadPKCS7 (buf : Bytes) : Except Err Bytes :=
  let n := buf.length
  if n < 16 || n % 16 != 0 then .error .other
  else
    match buf.getLast? with
    | none => .error .other
    | some padByte =>
      if padGood buf padByte then .ok (buf.take (n - padByte)) else .error .other

/-! ## handler state -/

inductive Cipher where
  | rc4 | aes
  deriving DecidableEq, Repr, Inhabited

def Cipher.code : Cipher → Nat
  | .rc4 => Gen.sec_cipherRC4
  | .aes => Gen.sec_cipherAES

structure CryptFilter where
  cipher : Cipher
  length : Nat            -- key length in bits
  deriving DecidableEq, Repr, Inhabited

/-- `stdSecHandler` -/
structure Sec where
  R : Nat
  ID : Bytes
  O : Bytes
  U : Bytes
  OE : Bytes := []
  UE : Bytes := []
  Perms : Bytes := []
  P : Nat
  keyBytes : Nat
  key : Option Bytes := none
  unencMeta : Bool := false
  deriving Repr, Inhabited

/-- `encryptInfo`; `none` is the Identity crypt filter.  `efF` (embedded file streams) is used on
reading only; the Writer sets all three to the same filter. -/
structure EncInfo where
  sec : Sec
  strF : Option CryptFilter
  stmF : Option CryptFilter
  efF : Option CryptFilter := none
  deriving Repr, Inhabited

/-! ## password preparation -/

/-- `padPasswd`; the argument is the result of `PDFDocEncode` -/
def padPasswd (enc : Option Bytes) : Except Err Bytes :=
  match enc with
  | none => .error .other
  | some buf =>
    let n := min buf.length 32
    .ok (buf.take n ++ Gen.sec_passwdPad.take (32 - n))

/-- `utf8Passwd`; the argument is the result of `stringprep.SASLprep.Prepare` -/
def utf8Passwd (prep : Option Bytes) : Except Err Bytes :=
  match prep with
  | none => .error .other
  | some buf => .ok (if buf.length > 127 then buf.take 127 else buf)

/-! ## permissions -/

def hasBit (p : Nat) (bit : Nat) : Bool := p.testBit (bit - 1)

/-- `perm &= ^mask` -/
def clearBits (perm mask : Nat) : Nat := perm - (perm &&& mask)

/-- `stdSecPToPerm` -/
def stdSecPToPerm (R : Nat) (P : Nat) : Nat :=
  let perm := Gen.sec_PermAll
  let perm :=
    if R = 2 then
      if !hasBit P 3 then clearBits perm (Gen.sec_PermPrint ||| Gen.sec_PermPrintDegraded) else perm
    else if R ≥ 3 then
      if !hasBit P 3 && !hasBit P 12 then clearBits perm (Gen.sec_PermPrint ||| Gen.sec_PermPrintDegraded)
      else if hasBit P 3 && !hasBit P 12 then clearBits perm Gen.sec_PermPrint
      else perm
    else perm
  let perm :=
    if !hasBit P 4 then
      let perm := clearBits perm Gen.sec_PermModify
      if !hasBit P 11 then clearBits perm Gen.sec_PermAssemble else perm
    else perm
  let perm := if !hasBit P 5 then clearBits perm Gen.sec_PermCopy else perm
  let perm :=
    if !hasBit P 6 then
      let perm := clearBits perm Gen.sec_PermAnnotate
      if !hasBit P 9 then clearBits perm Gen.sec_PermForms else perm
    else perm
  perm

def bitMask (bit : Nat) : Nat := 2 ^ (bit - 1)

/-- `stdSecPermToP` (`^forbidden` on `uint32`) -/
def stdSecPermToP (perm : Nat) : Nat :=
  let f := 3
  let f := if perm &&& Gen.sec_PermCopy == 0 then f ||| bitMask 5 else f
  let f :=
    if perm &&& Gen.sec_PermPrint == 0 then
      let f := f ||| bitMask 12
      if perm &&& Gen.sec_PermPrintDegraded == 0 then f ||| bitMask 3 else f
    else f
  let f :=
    if perm &&& Gen.sec_PermAnnotate == 0 then
      let f := f ||| bitMask 6
      if perm &&& Gen.sec_PermForms == 0 then f ||| bitMask 9 else f
    else f
  let f := if perm &&& Gen.sec_PermAssemble == 0 then f ||| bitMask 11 else f
  let f := if perm &&& Gen.sec_PermModify == 0 then f ||| bitMask 4 else f
  4294967295 - f

/-- `Perm.canR2` -/
def canR2 (perm : Nat) : Bool :=
  if perm &&& Gen.sec_PermPrint == 0 && perm &&& Gen.sec_PermPrintDegraded != 0 then false
  else if perm &&& Gen.sec_PermAnnotate == 0 && perm &&& Gen.sec_PermForms != 0 then false
  else if perm &&& Gen.sec_PermModify == 0 && perm &&& Gen.sec_PermAssemble != 0 then false
  else true

/-! ## Algorithms 2–7 (R ≤ 4) -/

/-- `for range n { h.Reset(); h.Write(key[:keyBytes]); key = h.Sum(key[:0]) }` -/
def md5Iter (P : Prims) (keyBytes : Nat) : Nat → Bytes → Bytes
  | 0, key => key
  | r+1, key => md5Iter P keyBytes r (P.md5 (key.take keyBytes))

/-- `computeFileEncyptionKey` (Algorithm 2) -/
def computeFileKey (P : Prims) (sec : Sec) (paddedUser : Bytes) : Bytes :=
  let h0 := P.md5 (paddedUser ++ sec.O ++ le32 sec.P ++ sec.ID ++
    (if sec.unencMeta && decide (sec.R ≥ 4) then [255, 255, 255, 255] else []))
  let key := if sec.R ≥ 3 then md5Iter P sec.keyBytes 50 h0 else h0
  key.take sec.keyBytes

/-- the RC4 key of Algorithms 3 and 7 (steps a–d) as `computeO`/`authenticateOwner` compute it -/
def ownerRC4Key (P : Prims) (sec : Sec) (paddedOwner : Bytes) : Bytes :=
  let sum := P.md5 paddedOwner
  let sum := if sec.R ≥ 3 then md5Iter P sec.keyBytes 50 sum else sum
  sum.take sec.keyBytes

/-- `key[j] = rc4key[j] ^ i` -/
def xorKey (k : Bytes) (i : Nat) : Bytes := k.map (· ^^^ i)

/-- successive RC4 passes with keys `k ⊕ i` for the `i` in the list, in order -/
def rc4Chain (P : Prims) (k : Bytes) : List Nat → Bytes → Bytes
  | [], x => x
  | i :: is, x => rc4Chain P k is (rc4 P (xorKey k i) x)

/-- `for i := byte(1); i <= 19; i++` -/
def up19 : List Nat := List.range' 1 19
/-- `for i := 19; i >= 0; i--` -/
def down19 : List Nat := (List.range 20).reverse

/-- `computeO` (Algorithm 3) -/
def computeO (P : Prims) (sec : Sec) (paddedUser paddedOwner : Bytes) : Bytes :=
  let k := ownerRC4Key P sec paddedOwner
  let o := rc4 P k paddedUser
  if sec.R ≥ 3 then rc4Chain P k up19 o else o

/-- `computeU` (Algorithms 4/5) -/
def computeU (P : Prims) (sec : Sec) (fileKey : Bytes) : Except Err Bytes :=
  if sec.R = 2 then .ok (rc4 P fileKey Gen.sec_passwdPad)
  else if sec.R = 3 ∨ sec.R = 4 then
    let h := P.md5 (Gen.sec_passwdPad ++ sec.ID)
    let u := rc4Chain P fileKey up19 (rc4 P fileKey h)
    .ok (u.take 16 ++ List.replicate 16 0)
  else .error .other

/-- `authenticateUser` (Algorithm 6): new handler state and success -/
def authenticateUser (P : Prims) (sec : Sec) (paddedUser : Bytes) : Except Err Sec :=
  let key := computeFileKey P sec paddedUser
  match computeU P sec key with
  | .error e => .error e
  | .ok u =>
    if sec.R = 2 then
      if u == sec.U then .ok { sec with key := some key } else .error .auth
    else
      if u.take 16 == sec.U.take 16 then .ok { sec with key := some key } else .error .auth

/-- `buf := make([]byte, 32); copy(buf, sec.O)` -/
def copy32 (o : Bytes) : Bytes := (o ++ List.replicate 32 0).take 32

/-- `authenticateOwner` (Algorithm 7) -/
def authenticateOwner (P : Prims) (sec : Sec) (paddedOwner : Bytes) : Except Err Sec :=
  let k := ownerRC4Key P sec paddedOwner
  let buf := copy32 sec.O
  let buf :=
    if sec.R = 2 then rc4 P k buf
    else if sec.R = 3 ∨ sec.R = 4 then rc4Chain P k down19 buf
    else buf
  authenticateUser P sec buf

/-! ## Algorithms 2.A, 2.B, 8–13 (R = 6; R = 5 for reading) -/

def sumBytes : Bytes → Nat
  | [] => 0
  | b :: bs => b + sumBytes bs

/-- one round (a)–(d) of Algorithm 2.B: new `K` and the last byte of `E` -/
def slowHashRound (P : Prims) (pw u K : Bytes) : Bytes × Nat :=
  let k1 := (List.replicate 64 (pw ++ K ++ u)).flatten
  let e := cbcEncrypt P (K.take 16) ((K.drop 16).take 16) k1
  let rem := sumBytes (e.take 16) % 3
  let K' := if rem = 0 then P.sha256 e else if rem = 1 then P.sha384 e else P.sha512 e
  (K', match e.getLast? with | some b => b | none => 0)

/-- `for i := 0; i < 64 || int(K1[len(K1)-1]) > i-32; i++` — `fuel` bounds the rounds; 288 always
suffice because the last byte is `≤ 255` (`Props/C09sec.lean: slowHash_fuel`) -/
def slowHashLoop (P : Prims) (pw u : Bytes) : Nat → Nat → Bytes → Nat → Bytes
  | 0, _, K, _ => K
  | fuel+1, i, K, last =>
    if i < 64 ∨ last + 32 > i then
      let r := slowHashRound P pw u K
      slowHashLoop P pw u fuel (i + 1) r.1 r.2
    else K

/-- `slowHash` (Algorithm 2.B) -/
def slowHash (P : Prims) (pw salt u : Bytes) : Bytes :=
  (slowHashLoop P pw u 288 0 (P.sha256 (pw ++ salt ++ u)) 0).take 32

/-- `hashRev` -/
def hashRev (P : Prims) (R : Nat) (pw salt u : Bytes) : Bytes :=
  if R = 5 then P.sha256 (pw ++ salt ++ u) else slowHash P pw salt u

/-- `computeUAndUE` (Algorithm 8); `buf` are the 16 random bytes -/
def computeUAndUE (P : Prims) (fileKey pw buf : Bytes) : Bytes × Bytes :=
  let out := slowHash P pw (buf.take 8) []
  let key := slowHash P pw (buf.drop 8) []
  (out ++ buf, cbcEncrypt P key Gen.sec_zero16 fileKey)

/-- `computeOAndOE` (Algorithm 9) -/
def computeOAndOE (P : Prims) (fileKey pw u buf : Bytes) : Bytes × Bytes :=
  let out := slowHash P pw (buf.take 8) u
  let key := slowHash P pw (buf.drop 8) u
  (out ++ buf, cbcEncrypt P key Gen.sec_zero16 fileKey)

/-- the twelve checked bytes of the `Perms` plaintext -/
def permsHead (p : Nat) (unencMeta : Bool) : Bytes :=
  le32 p ++ [255, 255, 255, 255] ++ [if unencMeta then 70 else 84] ++ [97, 100, 98]

/-- `computePerms` (Algorithm 10); `rnd` are the 4 random bytes -/
def computePerms (P : Prims) (sec : Sec) (fileKey rnd : Bytes) : Bytes :=
  P.aesEnc fileKey (permsHead sec.P sec.unencMeta ++ rnd)

/-- `checkPerms` (Algorithm 13) -/
def checkPerms (P : Prims) (sec : Sec) (fileKey : Bytes) : Bool :=
  (P.aesDec fileKey sec.Perms).take 12 == permsHead sec.P sec.unencMeta

/-- `authenticateUser6` (Algorithm 11) -/
def authenticateUser6 (P : Prims) (sec : Sec) (pw : Bytes) : Except Err Sec :=
  if hashRev P sec.R pw ((sec.U.drop 32).take 8) [] != sec.U.take 32 then .error .auth
  else
    let key := hashRev P sec.R pw ((sec.U.drop 40).take 8) []
    let fileKey := cbcDecrypt P key Gen.sec_zero16 sec.UE
    if checkPerms P sec fileKey then .ok { sec with key := some fileKey } else .error .auth

/-- `authenticateOwner6` (Algorithm 12) -/
def authenticateOwner6 (P : Prims) (sec : Sec) (pw : Bytes) : Except Err Sec :=
  if hashRev P sec.R pw ((sec.O.drop 32).take 8) sec.U != sec.O.take 32 then .error .auth
  else
    let key := hashRev P sec.R pw ((sec.O.drop 40).take 8) sec.U
    let fileKey := cbcDecrypt P key Gen.sec_zero16 sec.OE
    if checkPerms P sec fileKey then .ok { sec with key := some fileKey } else .error .auth

/-! ## `authenticate`, `KeyForRef` -/

/-- a password as the handler sees it: its `PDFDocEncode` and its `SASLprep` form -/
structure Passwd where
  pdfDoc : Option Bytes
  sasl : Option Bytes
  deriving Repr, Inhabited

/-- `stdSecHandler.authenticate`: owner first, then user.  Result and new state. -/
def authenticate (P : Prims) (sec : Sec) (pw : Passwd) : Except Err Nat × Sec :=
  if sec.R < 5 then
    match padPasswd pw.pdfDoc with
    | .error _ => (.error .auth, sec)   -- no PDFDocEncoding form: cannot be the right password
    | .ok padded =>
      match authenticateOwner P sec padded with
      | .ok sec' => (.ok Gen.sec_PermAll, sec')
      | .error _ =>
        match authenticateUser P sec padded with
        | .ok sec' => (.ok (stdSecPToPerm sec.R sec.P), sec')
        | .error _ => (.error .auth, sec)
  else
    match utf8Passwd pw.sasl with
    | .error _ => (.error .auth, sec)   -- rejected by SASLprep: cannot be the right password
    | .ok prepared =>
      match authenticateOwner6 P sec prepared with
      | .ok sec' => (.ok Gen.sec_PermAll, sec')
      | .error _ =>
        match authenticateUser6 P sec prepared with
        | .ok sec' => (.ok (stdSecPToPerm sec.R sec.P), sec')
        | .error _ => (.error .auth, sec)

/-- the five bytes appended to the file key: low 3 of the number, low 2 of the generation -/
def refBytes (num gen : Nat) : Bytes :=
  [num % 256, num / 256 % 256, num / 65536 % 256, gen % 256, gen / 256 % 256]

def saltAES : Bytes := [115, 65, 108, 84]   -- []byte("sAlT")

/-- `KeyForRef` (Algorithm 1 / 1.A) -/
def keyForRef (P : Prims) (sec : Sec) (cf : CryptFilter) (num gen : Nat) : Except Err Bytes :=
  match sec.key with
  | none => .error .auth
  | some key =>
    if sec.R = 2 ∨ sec.R = 3 ∨ sec.R = 4 then
      let h := P.md5 (key ++ refBytes num gen ++ (if cf.cipher = .aes then saltAES else []))
      .ok (h.take (min (sec.keyBytes + 5) 16))
    else if sec.R = 5 ∨ sec.R = 6 then .ok key
    else .error .other

/-! ## strings: `EncryptBytes` / `DecryptBytes` -/

/-- the AES branch of `EncryptBytes` exactly as written: all full blocks first, then the last
block after the padding has been put behind the remaining bytes -/
def encryptAES (P : Prims) (key iv buf : Bytes) : Bytes :=
  let n := buf.length
  let nPad := 16 - n % 16
  let r1 := cbcEncBlocks P key ((n + nPad - 16) / 16) iv (buf.take (n + nPad - 16))
  let last := buf.drop (n + nPad - 16) ++ List.replicate nPad nPad
  let r2 := cbcEncBlocks P key 1 r1.2 last
  iv ++ r1.1 ++ r2.1

/-- the AES branch of `DecryptBytes` -/
def decryptAES (P : Prims) (key buf : Bytes) : Except Err Bytes :=
  if buf.length < 32 || buf.length % 16 != 0 then .error .other
  else unpadPKCS7 (cbcDecrypt P key (buf.take 16) (buf.drop 16))

/-- `EncryptBytes`; `rng` is the random stream, the rest is returned.  An exhausted `rng` is the
`io.ReadFull(rand.Reader, iv)` error. -/
def encryptBytes (P : Prims) (enc : EncInfo) (num gen : Nat) (buf rng : Bytes) :
    Except Err (Bytes × Bytes) :=
  match enc.strF with
  | none => .ok (buf, rng)
  | some cf =>
    match keyForRef P enc.sec cf num gen with
    | .error e => .error e
    | .ok key =>
      match cf.cipher with
      | .aes =>
        if rng.length < 16 then .error .io
        else if !aesKeyOk key then .error .other
        else .ok (encryptAES P key (rng.take 16) buf, rng.drop 16)
      | .rc4 => .ok (rc4 P key buf, rng)

/-- `DecryptBytes` -/
def decryptBytes (P : Prims) (enc : EncInfo) (num gen : Nat) (buf : Bytes) : Except Err Bytes :=
  match enc.strF with
  | none => .ok buf
  | some cf =>
    match keyForRef P enc.sec cf num gen with
    | .error e => .error e
    | .ok key =>
      match cf.cipher with
      | .aes =>
        if buf.length < 32 || buf.length % 16 != 0 then .error .other
        else if !aesKeyOk key then .error .other
        else decryptAES P key buf
      | .rc4 => .ok (rc4 P key buf)

/-! ## streams: `encryptWriter` and `decryptReader` as byte machines -/

/-- `encryptWriter`: pending bytes (`buf[:pos]`, fewer than 16) and the CBC chaining value -/
structure EncW where
  key : Bytes
  iv : Bytes
  pend : Bytes
  deriving Repr, Inhabited

/-- one byte of `Write`: a completed block is encrypted and handed to the underlying writer -/
def EncW.writeByte (P : Prims) (w : EncW) (b : Nat) : EncW × Bytes :=
  let pend := w.pend ++ [b]
  if pend.length ≥ 16 then
    let c := P.aesEnc w.key (xorBytes pend w.iv)
    ({ w with iv := c, pend := [] }, c)
  else ({ w with pend := pend }, [])

/-- `Write(p)`: the bytes written to the underlying writer -/
def EncW.write (P : Prims) : EncW → Bytes → EncW × Bytes
  | w, [] => (w, [])
  | w, b :: bs =>
    let r := w.writeByte P b
    let r' := EncW.write P r.1 bs
    (r'.1, r.2 ++ r'.2)

/-- `Close()`: the padded last block -/
def EncW.close (P : Prims) (w : EncW) : Bytes :=
  let kPad := 16 - w.pend.length
  P.aesEnc w.key (xorBytes (w.pend ++ List.replicate kPad kPad) w.iv)

/-- a sequence of `Write` calls followed by `Close` -/
def EncW.run (P : Prims) : EncW → List Bytes → Bytes
  | w, [] => w.close P
  | w, c :: cs => let r := w.write P c; r.2 ++ EncW.run P r.1 cs

/-- `EncryptStream` + all writes + `Close`: everything the underlying writer receives -/
def encryptStream (P : Prims) (enc : EncInfo) (num gen : Nat) (chunks : List Bytes) (rng : Bytes) :
    Except Err (Bytes × Bytes) :=
  match enc.stmF with
  | none => .ok (chunks.flatten, rng)
  | some cf =>
    match keyForRef P enc.sec cf num gen with
    | .error e => .error e
    | .ok key =>
      match cf.cipher with
      | .aes =>
        if !aesKeyOk key then .error .other
        else if rng.length < 16 then .error .io
        else
          let iv := rng.take 16
          .ok (iv ++ EncW.run P { key := key, iv := iv, pend := [] } chunks, rng.drop 16)
      | .rc4 => .ok (rc4 P key chunks.flatten, rng)

/-- one encryption call the Writer makes while objects are written: a string of object
`(num, gen)` (`formatString` → `EncryptBytes`) or a whole stream (`OpenStream` → `EncryptStream`,
the `Write` calls, `Close`) -/
inductive EncCall where
  | str (num gen : Nat) (buf : Bytes)
  | stm (num gen : Nat) (chunks : List Bytes)
  deriving Repr, Inhabited

def encCall (P : Prims) (enc : EncInfo) : EncCall → Bytes → Except Err (Bytes × Bytes)
  | .str n g b, rng => encryptBytes P enc n g b rng
  | .stm n g cs, rng => encryptStream P enc n g cs rng

/-- the calls of a whole document in order, threading the random stream -/
def encCalls (P : Prims) (enc : EncInfo) : List EncCall → Bytes → Except Err (List Bytes × Bytes)
  | [], rng => .ok ([], rng)
  | c :: cs, rng =>
    match encCall P enc c rng with
    | .error e => .error e
    | .ok (o, rng') =>
      match encCalls P enc cs rng' with
      | .error e => .error e
      | .ok (os, rng'') => .ok (o :: os, rng'')

/-! ## objects on the encrypting writer -/

mutual
/-- what `Format` on the encrypting `posWriter` does to an object of `(num, gen)` whose
dictionaries are in `SortedKeys` order (`Obj.canon`): every string leaf goes through
`EncryptBytes` (`types.go: formatString`), in the order of formatting; nothing else changes -/
def encObj (P : Prims) (enc : EncInfo) (num gen : Nat) : Obj → Bytes → Except Err (Obj × Bytes)
  | .str s, rng =>
    match encryptBytes P enc num gen s rng with
    | .ok (c, r) => .ok (.str c, r)
    | .error e => .error e
  | .arr xs, rng =>
    match encList P enc num gen xs rng with
    | .ok (ys, r) => .ok (.arr ys, r)
    | .error e => .error e
  | .dict kv, rng =>
    match encKV P enc num gen kv rng with
    | .ok (kv', r) => .ok (.dict kv', r)
    | .error e => .error e
  | o, rng => .ok (o, rng)
def encList (P : Prims) (enc : EncInfo) (num gen : Nat) : List Obj → Bytes → Except Err (List Obj × Bytes)
  | [], rng => .ok ([], rng)
  | x :: xs, rng =>
    match encObj P enc num gen x rng with
    | .error e => .error e
    | .ok (y, r) =>
      match encList P enc num gen xs r with
      | .error e => .error e
      | .ok (ys, r') => .ok (y :: ys, r')
def encKV (P : Prims) (enc : EncInfo) (num gen : Nat) :
    List (Bytes × Obj) → Bytes → Except Err (List (Bytes × Obj) × Bytes)
  | [], rng => .ok ([], rng)
  | (k, v) :: rest, rng =>
    match encObj P enc num gen v rng with
    | .error e => .error e
    | .ok (v', r) =>
      match encKV P enc num gen rest r with
      | .error e => .error e
      | .ok (rest', r') => .ok ((k, v') :: rest', r')
end

mutual
/-- the string leaves in the order of formatting -/
def strLeaves : Obj → List Bytes
  | .str s => [s]
  | .arr xs => strLeavesList xs
  | .dict kv => strLeavesKV kv
  | _ => []
def strLeavesList : List Obj → List Bytes
  | [] => []
  | x :: xs => strLeaves x ++ strLeavesList xs
def strLeavesKV : List (Bytes × Obj) → List Bytes
  | [] => []
  | (_, v) :: rest => strLeaves v ++ strLeavesKV rest
end

mutual
/-- the object with every string emptied: everything that is not string content -/
def skeleton : Obj → Obj
  | .str _ => .str []
  | .arr xs => .arr (skeletonList xs)
  | .dict kv => .dict (skeletonKV kv)
  | o => o
def skeletonList : List Obj → List Obj
  | [] => []
  | x :: xs => skeleton x :: skeletonList xs
def skeletonKV : List (Bytes × Obj) → List (Bytes × Obj)
  | [] => []
  | (k, v) :: rest => (k, skeleton v) :: skeletonKV rest
end


/-- the underlying reader of `decryptReader`: what remains, and for each coming `Read` call how
many bytes it is willing to return at most (after the list is used up: as many as asked for);
`eofWithData` says whether the last bytes arrive together with `io.EOF` -/
structure Src where
  rest : Bytes
  sizes : List Nat
  eofWithData : Bool
  deriving Repr, Inhabited

/-- one `Read(buf[k:])` of the underlying reader with room for `room` bytes: data, EOF?, new source -/
def Src.read (s : Src) (room : Nat) : Bytes × Bool × Src :=
  let want := match s.sizes with | [] => room | z :: _ => min z room
  let n := min want s.rest.length
  let data := s.rest.take n
  let rest := s.rest.drop n
  let eof := if rest.isEmpty then (s.eofWithData || n == 0) else false
  (data, eof, { s with rest := rest, sizes := s.sizes.drop 1 })

/-- `io.ReadFull(r, buf)` for `need` bytes as `DecryptStream` uses it for the IV: `io.EOF` if
nothing could be read; `io.ErrUnexpectedEOF` (only a part) is turned into a `MalformedFileError`
("AES stream shorter than its initialisation vector") there -/
def Src.readFull : Nat → Bytes → Nat → Src → Except Err (Bytes × Src)
  | 0, _, _, _ => .error .other
  | fuel+1, acc, need, s =>
    if acc.length ≥ need then .ok (acc, s)
    else
      let r := s.read (need - acc.length)
      let acc := acc ++ r.1
      if acc.length ≥ need then .ok (acc, r.2.2)
      else if r.2.1 then .error (if acc.isEmpty then .eof else .malformed)
      else Src.readFull fuel acc need r.2.2

/-- `decryptReader` state: CBC chaining value, `reserved`, `ready`, and the source (`none` = `r.r == nil`) -/
structure DecR where
  key : Bytes
  iv : Bytes
  reserved : Bytes
  ready : Bytes
  src : Option Src
  deriving Repr, Inhabited

/-- the fill loop `for k <= 16 && r.r != nil`; `fuel` bounds zero-length reads -/
def DecR.fill : Nat → Bytes → Option Src → Except Err (Bytes × Option Src)
  | 0, buf, src => .ok (buf, src)
  | fuel+1, buf, src =>
    match src with
    | none => .ok (buf, none)
    | some s =>
      if buf.length ≤ 16 then
        let r := s.read (32 - buf.length)
        let buf := buf ++ r.1
        if r.2.1 then
          if buf.length % 16 != 0 then .error .malformed else DecR.fill fuel buf none
        else DecR.fill fuel buf (some r.2.2)
      else .ok (buf, some s)

/-- one `Read(p)` with `len(p) = want`: result bytes, `io.EOF`?, new state -/
def DecR.read (P : Prims) (r : DecR) (want : Nat) : Except Err (Bytes × Bool × DecR) :=
  if r.ready.isEmpty then
    -- every underlying read uses up an entry of `sizes` or delivers a byte or ends the source
    let fuel := (match r.src with | some s => s.sizes.length | none => 0) + 40
    match DecR.fill fuel r.reserved r.src with
    | .error e => .error e
    | .ok (buf, src) =>
      let k := buf.length
      if k < 16 then .ok ([], true, { r with reserved := [], src := src })
      else
        let l := if src.isSome then k - 1 else k
        let l := l - l % 16
        let ct := buf.take l
        let d := cbcDecBlocks P r.key (l / 16) r.iv ct
        if src.isNone then
          match unpadPKCS7 d.1 with
          | .error _ => .error .malformed   -- `&MalformedFileError{Err: err}`: a defect of the file
          | .ok un =>
            -- the last block was padding only: `return 0, io.EOF`, never a read of nothing without error
            if un.isEmpty then .ok ([], true, { r with iv := d.2, reserved := buf.drop l, ready := [], src := src })
            else
            .ok (un.take want, false, { r with iv := d.2, reserved := buf.drop l, ready := un.drop want, src := src })
        else
          .ok (d.1.take want, false, { r with iv := d.2, reserved := buf.drop l, ready := d.1.drop want, src := src })
  else .ok (r.ready.take want, false, { r with ready := r.ready.drop want })

/-- read until EOF with the given sequence of buffer sizes (cyclic use of `wants`), `fuel` calls -/
def DecR.readAll (P : Prims) : Nat → DecR → List Nat → Nat → Except Err Bytes
  | 0, _, _, _ => .error .other
  | fuel+1, r, wants, dflt =>
    let want := match wants with | [] => dflt | w :: _ => w
    match r.read P want with
    | .error e => .error e
    | .ok (out, eof, r') =>
      if eof then .ok out
      else
        match DecR.readAll P fuel r' (wants.drop 1) dflt with
        | .error e => .error e
        | .ok more => .ok (out ++ more)

/-- `DecryptStream` followed by reading to the end -/
def decryptStream (P : Prims) (enc : EncInfo) (num gen : Nat) (src : Src) (wants : List Nat) :
    Except Err Bytes :=
  match enc.stmF with
  | none => .ok src.rest
  | some cf =>
    match keyForRef P enc.sec cf num gen with
    | .error e => .error e
    | .ok key =>
      match cf.cipher with
      | .rc4 => .ok (rc4 P key src.rest)
      | .aes =>
        match Src.readFull (src.sizes.length + 20) [] 16 src with
        | .error .eof => .ok []   -- an empty stream stored without IV and padding: empty data
        | .error e => .error e
        | .ok (iv, src') =>
          if !aesKeyOk key then .error .other
          else
            let r : DecR := { key := key, iv := iv, reserved := [], ready := [], src := some src' }
            DecR.readAll P (src.rest.length + 8) r wants 512

/-- `filterCrypt.Decode`: an embedded file stream (`/Type /EmbeddedFile`) is decrypted with the
`/EFF` crypt filter, every other stream with `/StmF` (`decryptStreamWith(cf, ref, r)`) -/
def decryptStreamFor (P : Prims) (enc : EncInfo) (embeddedFile : Bool) (num gen : Nat) (src : Src)
    (wants : List Nat) : Except Err Bytes :=
  decryptStream P { enc with stmF := if embeddedFile then enc.efF else enc.stmF } num gen src wants

/-! ## reading: `openStdSecHandler`, `parseEncryptDict` -/

/-- `tryCrop` -/
def tryCrop (s : Bytes) (l : Nat) : Bytes :=
  if s.length ≤ l then s
  else if (s.drop l).all (· == 0) then s.take l else s

def dictGet (kv : List (Bytes × Obj)) (k : String) : Option Obj :=
  match kv.find? (fun e => e.1 == bytesOfString k) with
  | some (_, v) => some v
  | none => none

/-- `Cursor.Integer` on a direct object (reals are not generated) -/
def asInt : Option Obj → Except Err Int
  | none => .ok 0
  | some .null => .ok 0
  | some (.int i) => .ok i
  | some _ => .error .malformed

def asName : Option Obj → Except Err Bytes
  | none => .ok []
  | some .null => .ok []
  | some (.name n) => .ok n
  | some _ => .error .malformed

def asStr : Option Obj → Except Err Bytes
  | none => .ok []
  | some .null => .ok []
  | some (.str s) => .ok s
  | some _ => .error .malformed

def asBool : Option Obj → Except Err Bool
  | none => .ok false
  | some .null => .ok false
  | some (.bool b) => .ok b
  | some _ => .error .malformed

def asDict : Option Obj → Except Err (Option (List (Bytes × Obj)))
  | none => .ok none
  | some .null => .ok none
  | some (.dict kv) => .ok (some kv)
  | some _ => .error .malformed

/-- `Optional(…)`: a malformed value counts as absent -/
def optional {α} (zero : α) : Except Err α → Except Err α
  | .error .malformed => .ok zero
  | r => r

/-- `uint32(P)` for an `Integer` -/
def toU32 (i : Int) : Nat := (i % 4294967296).toNat

/-- `openStdSecHandler` -/
def openStdSec (enc : List (Bytes × Obj)) (V : Int) (keyBytes : Nat) (ID : Bytes) : Except Err Sec :=
  match asInt (dictGet enc "R") with
  | .error e => .error e
  | .ok R =>
  if R < 2 || R > 6 then .error .malformed else
  let ouLength := if R ≥ 5 then 48 else 32
  if (V == 5) != (R == 5 || R == 6) then .error .malformed else
  match asStr (dictGet enc "O") with
  | .error e => .error e
  | .ok O =>
  let O := tryCrop O ouLength
  if O.length != ouLength then .error .malformed else
  match asStr (dictGet enc "U") with
  | .error e => .error e
  | .ok U =>
  let U := tryCrop U ouLength
  if U.length != ouLength then .error .malformed else
  if (dictGet enc "P").isNone then .error .malformed else
  match asInt (dictGet enc "P") with
  | .error e => .error e
  | .ok Pv =>
  match (if (dictGet enc "EncryptMetadata").isSome && V ≥ 4 then asBool (dictGet enc "EncryptMetadata") else .ok true) with
  | .error e => .error e
  | .ok emd =>
  let sec : Sec := { ID := ID, keyBytes := keyBytes, R := R.toNat, O := O, U := U, P := toU32 Pv,
                     unencMeta := !emd }
  if R ≥ 5 then
    match asStr (dictGet enc "OE") with
    | .error e => .error e
    | .ok OE =>
    if OE.length != 32 then .error .malformed else
    match asStr (dictGet enc "UE") with
    | .error e => .error e
    | .ok UE =>
    if UE.length != 32 then .error .malformed else
    match asStr (dictGet enc "Perms") with
    | .error e => .error e
    | .ok Perms =>
    if Perms.length != 16 then .error .malformed else
    .ok { sec with OE := OE, UE := UE, Perms := Perms }
  else .ok sec

/-- `getCryptFilter`: `.ok none` is `/Identity` -/
def getCryptFilter (name : Bytes) (CF : Option (List (Bytes × Obj))) : Except Err (Option CryptFilter) :=
  if name == bytesOfString "Identity" then .ok none
  else if name != bytesOfString "StdCF" then .error .other
  else
    match CF with
    | none => .error .other
    | some cf =>
      match dictGet cf "StdCF" with
      | some (.dict d) =>
        match dictGet d "CFM" with
        | some (.name n) =>
          if n == bytesOfString "V2" then .ok (some { cipher := .rc4, length := 128 })
          else if n == bytesOfString "AESV2" then .ok (some { cipher := .aes, length := 128 })
          else if n == bytesOfString "AESV3" then .ok (some { cipher := .aes, length := 256 })
          else .error .other
        | _ => .error .other
      | _ => .error .other

/-- the `/StmF`, `/StrF` selectors of `parseEncryptDict` (V = 4, 5) -/
def selectCF (enc : List (Bytes × Obj)) (key : String) (CF : Option (List (Bytes × Obj))) :
    Except Err (Option CryptFilter) :=
  match optional [] (asName (dictGet enc key)) with
  | .error e => .error e
  | .ok name => if name.isEmpty then .ok none else getCryptFilter name CF

/-- the part of `parseEncryptDict` before authentication: filters, key length, handler -/
def parseEncryptDict (enc : List (Bytes × Obj)) (idLen : Nat) (ID : Bytes) : Except Err EncInfo :=
  if idLen != 2 then .error .malformed else
  match asName (dictGet enc "Filter") with
  | .error e => .error e
  | .ok filter =>
  match asInt (dictGet enc "V") with
  | .error e => .error e
  | .ok V =>
  let cfs : Except Err (Option CryptFilter × Option CryptFilter × Option CryptFilter × Nat) :=
    if V == 1 then .ok (some ⟨.rc4, 40⟩, some ⟨.rc4, 40⟩, some ⟨.rc4, 40⟩, 5)
    else if V == 2 then
      if (dictGet enc "Length").isSome then
        match asInt (dictGet enc "Length") with
        | .error e => .error e
        | .ok len =>
          if len < 40 || len > 128 || len % 8 != 0 then .error .malformed
          else .ok (some ⟨.rc4, len.toNat⟩, some ⟨.rc4, len.toNat⟩, some ⟨.rc4, len.toNat⟩, len.toNat / 8)
      else .ok (some ⟨.rc4, 40⟩, some ⟨.rc4, 40⟩, some ⟨.rc4, 40⟩, 5)
    else if V == 4 || V == 5 then
      match optional none (asDict (dictGet enc "CF")) with
      | .error e => .error e
      | .ok CF =>
        match selectCF enc "StmF" CF with
        | .error e => .error e
        | .ok stmF =>
          match selectCF enc "StrF" CF with
          | .error e => .error e
          | .ok strF =>
            -- `res.efF = res.stmF // default`, replaced if /EFF names a crypt filter
            match optional [] (asName (dictGet enc "EFF")) with
            | .error e => .error e
            | .ok effName =>
              if effName.isEmpty then .ok (strF, stmF, stmF, if V == 4 then 16 else 32)
              else
                match getCryptFilter effName CF with
                | .error e => .error e
                | .ok efF => .ok (strF, stmF, efF, if V == 4 then 16 else 32)
    else .error .malformed
  match cfs with
  | .error e => .error e
  | .ok (strF, stmF, efF, keyBytes) =>
    if filter != bytesOfString "Standard" then .error .malformed else
    match openStdSec enc V keyBytes ID with
    | .error e => .error e
    | .ok sec => .ok { sec := sec, strF := strF, stmF := stmF, efF := efF }

/-- the "eager authentication" at the end of `parseEncryptDict`: the empty password first, the
supplied one only if that fails and it is not empty -/
def eagerAuth (P : Prims) (sec : Sec) (empty : Passwd) (pwNonEmpty : Bool) (pw : Passwd) :
    Except Err Nat × Sec :=
  match authenticate P sec empty with
  | (.ok perm, sec') => (.ok perm, sec')
  | (.error e, sec') =>
    if pwNonEmpty then authenticate P sec' pw else (.error e, sec')

/-! ## writing: `createStdSecHandler`, `NewWriter`, `AsDict` -/

/-- the revision `createStdSecHandler` chooses -/
def chooseR (V perm : Nat) : Except Err Nat :=
  if V < 2 && canR2 perm then .ok 2
  else if V ≤ 3 then .ok 3
  else if V = 4 then .ok 4
  else if V = 5 then .ok 6
  else .error .malformed

/-- `createStdSecHandler`.  `ownerEmpty`: `ownerPwd == ""` (then the user password is used). -/
def createStdSec (P : Prims) (id : Bytes) (user owner : Passwd) (ownerEmpty : Bool) (perm length V : Nat)
    (unencMeta : Bool) (rng : Bytes) : Except Err (Sec × Bytes) :=
  let owner := if ownerEmpty then user else owner
  match chooseR V perm with
  | .error e => .error e
  | .ok R =>
    let sec : Sec := { ID := id, keyBytes := length / 8, R := R, P := stdSecPermToP perm,
                       unencMeta := unencMeta, O := [], U := [] }
    if R = 2 ∨ R = 3 ∨ R = 4 then
      match padPasswd user.pdfDoc with
      | .error e => .error e
      | .ok pu =>
        match padPasswd owner.pdfDoc with
        | .error e => .error e
        | .ok po =>
          let sec := { sec with O := computeO P sec pu po }
          let fileKey := computeFileKey P sec pu
          match computeU P sec fileKey with
          | .error e => .error e
          | .ok u => .ok ({ sec with U := u, key := some fileKey }, rng)
    else
      match utf8Passwd user.sasl with
      | .error e => .error e
      | .ok pu =>
        match utf8Passwd owner.sasl with
        | .error e => .error e
        | .ok po =>
          if rng.length < 32 + 16 + 16 + 4 then .error .io else
          let fileKey := rng.take 32
          let rng := rng.drop 32
          let ue := computeUAndUE P fileKey pu (rng.take 16)
          let rng := rng.drop 16
          let oe := computeOAndOE P fileKey po ue.1 (rng.take 16)
          let rng := rng.drop 16
          let sec := { sec with key := some fileKey, U := ue.1, UE := ue.2, O := oe.1, OE := oe.2 }
          let perms := computePerms P sec fileKey (rng.take 4)
          .ok ({ sec with Perms := perms }, rng.drop 4)

/-- cipher, key length and `V` that `NewWriter` picks for a PDF version -/
def versionScheme (v : Nat) : CryptFilter × Nat :=
  if v ≥ Gen.ver_V2_0 then (⟨.aes, 256⟩, 5)
  else if v ≥ Gen.ver_V1_6 then (⟨.aes, 128⟩, 4)
  else if v ≥ Gen.ver_V1_5 then (⟨.rc4, 128⟩, 4)   -- RC4 as crypt filter method /V2: PDF 1.5 has /Crypt filters
  else if v ≥ Gen.ver_V1_4 then (⟨.rc4, 128⟩, 2)
  else (⟨.rc4, 40⟩, 1)

def nameObj (s : String) : Obj := .name (bytesOfString s)
def key (s : String) : Bytes := bytesOfString s

/-- `int32(sec.P)` -/
def toI32 (p : Nat) : Int := if p ≥ 2147483648 then (p : Int) - 4294967296 else p

/-- `encryptInfo.AsDict` for the case `stmF = strF = efF = cf` that `NewWriter` produces -/
def asEncryptDict (cf : CryptFilter) (sec : Sec) (version : Nat) : Except Err (List (Bytes × Obj)) :=
  if cf.length % 8 != 0 then .error .other else
  let head : Except Err (List (Bytes × Obj)) :=
    if cf.cipher = .aes ∧ cf.length = 256 ∧ version ≥ Gen.ver_V2_0 then
      .ok [(key "V", .int 5), (key "StmF", nameObj "StdCF"), (key "StrF", nameObj "StdCF"),
           (key "Length", .int 256),
           (key "CF", .dict [(key "StdCF", .dict [(key "Length", .int 256), (key "CFM", nameObj "AESV3")])])]
    else if cf.cipher = .aes ∧ cf.length = 128 ∧ version ≥ Gen.ver_V1_6 then
      .ok [(key "V", .int 4), (key "StmF", nameObj "StdCF"), (key "StrF", nameObj "StdCF"),
           (key "CF", .dict [(key "StdCF", .dict [(key "Length", .int 128), (key "CFM", nameObj "AESV2")])])]
    else if cf.cipher = .rc4 ∧ cf.length = 128 ∧ version ≥ Gen.ver_V1_5 then
      .ok [(key "V", .int 4), (key "StmF", nameObj "StdCF"), (key "StrF", nameObj "StdCF"),
           (key "CF", .dict [(key "StdCF", .dict [(key "Length", .int 128), (key "CFM", nameObj "V2")])])]
    else if cf.cipher = .rc4 ∧ cf.length = 40 ∧ version ≥ Gen.ver_V1_1 then
      .ok [(key "V", .int 1)]
    else if cf.cipher = .rc4 ∧ version ≥ Gen.ver_V1_4 then
      .ok [(key "V", .int 2), (key "Length", .int cf.length)]
    else .error .other
  match head with
  | .error e => .error e
  | .ok h =>
    .ok ([(key "Filter", nameObj "Standard")] ++ h ++
      [(key "R", .int sec.R), (key "O", .str sec.O), (key "U", .str sec.U), (key "P", .int (toI32 sec.P))] ++
      (if sec.unencMeta then [(key "EncryptMetadata", .bool false)] else []) ++
      (if sec.R = 6 then [(key "OE", .str sec.OE), (key "UE", .str sec.UE), (key "Perms", .str sec.Perms)] else []))

/-- the options of `NewWriter` that matter for encryption -/
structure WriterOpt where
  version : Nat
  user : Passwd
  owner : Passwd
  userNonEmpty : Bool
  ownerNonEmpty : Bool
  perm : Nat
  ids : Option (List Bytes)        -- `opt.ID` (`none` = nil)
  plaintextMeta : Bool             -- `DocumentMetadata != nil && DocumentMetadata.Plaintext`
  deriving Repr, Inhabited

structure WriterSec where
  ids : List Bytes                 -- `[]` = no /ID
  enc : Option EncInfo
  dict : Option (List (Bytes × Obj))
  rng : Bytes
  deriving Repr, Inhabited

/-- the encryption set-up of `NewWriter`: ID, scheme, handler, Encrypt dictionary.
Version errors are `.other` (`*VersionError`), `errInvalidID` too. -/
def newWriterSec (P : Prims) (o : WriterOpt) (rng : Bytes) : Except Err WriterSec :=
  let useEnc := o.userNonEmpty || o.ownerNonEmpty
  if o.version < Gen.ver_V1_0 || o.version > Gen.ver_V2_0 then .error .other else
  if useEnc && o.version == Gen.ver_V1_0 then .error .other else
  if o.plaintextMeta && useEnc && o.version < Gen.ver_V1_6 then .error .other else
  let needID := o.ids.isSome || useEnc || o.version ≥ Gen.ver_V2_0
  if needID && o.version == Gen.ver_V1_0 then .error .other else
  let given := match o.ids with | none => [] | some l => l
  let idr : Except Err (List Bytes × Bytes) :=
    if !needID then .ok ([], rng)
    else if o.version ≥ Gen.ver_V2_0 && given.any (fun id => id.length < 16) then .error .other
    else
      match given with
      | [] => if rng.length < 16 then .error .io else .ok ([rng.take 16, rng.take 16], rng.drop 16)
      | [a] => if rng.length < 16 then .error .io else .ok ([a, rng.take 16], rng.drop 16)
      | a :: b :: _ => .ok ([a, b], rng)
  match idr with
  | .error e => .error e
  | .ok (ids, rng) =>
    if !useEnc then .ok { ids := ids, enc := none, dict := none, rng := rng } else
    let sch := versionScheme o.version
    match ids with
    | [] => .error .other
    | id0 :: _ =>
      match createStdSec P id0 o.user o.owner (!o.ownerNonEmpty) o.perm sch.1.length sch.2
              o.plaintextMeta rng with
      | .error e => .error e
      | .ok (sec, rng) =>
        match asEncryptDict sch.1 sec o.version with
        | .error e => .error e
        | .ok d => .ok { ids := ids, enc := some { sec := sec, strF := some sch.1, stmF := some sch.1, efF := some sch.1 },
                         dict := some d, rng := rng }

/-! ## `Writer.Close`: the ID the key was derived from; `Writer.OpenStream`: the Crypt-first rule -/

/-- the check `Writer.Close` makes in an encrypted file before the trailer is written:
`MetaInfo.ID` (which `GetMeta` hands out for modification) must still have two elements and its
first one must be the ID the handler was created with (`NewWriter` keeps its own copy) -/
def closeCheckID (enc : Option EncInfo) (metaID : List Bytes) : Except Err Unit :=
  match enc with
  | none => .ok ()
  | some e =>
    match metaID with
    | [a, _] => if a == e.sec.ID then .ok () else .error .other
    | _ => .error .other

/-- a filter of a stream's chain as far as encryption is concerned -/
inductive FilterKind where
  | cryptIdentity      -- /Crypt with /Name /Identity (or no /Name)
  | cryptOther         -- /Crypt naming /StdCF or another crypt filter: cannot be written yet
  | other              -- any other filter
  deriving DecidableEq, Repr, Inhabited

def FilterKind.isCrypt : FilterKind → Bool
  | .other => false
  | _ => true

/-- a Crypt filter somewhere behind the first position -/
def cryptBehindFirst : List FilterKind → Bool
  | [] => false
  | _ :: rest => rest.any (·.isCrypt)

/-- `Writer.OpenStream`: the filters named in the stream dictionary (`dictChain`) come first, the
`filters` argument is appended.  Result: the chain written to the file and whether the default
stream encryption is skipped (`leadingCrypt != nil`; `refIsPlaintext` is a separate input of
the caller).  Errors (all plain `errors.New`): a Crypt filter not in first position in either
part, a Crypt filter other than Identity, a Crypt argument behind a dictionary that already has
filters, a Crypt filter in a file that is encrypted without crypt filters (`encrypted = some
false`: the encryption dictionary has /V 1 or 2; `none`: the file is not encrypted). -/
def openStreamChain (dictChain argChain : List FilterKind) (encrypted : Option Bool := none) :
    Except Err (List FilterKind × Bool) :=
  if cryptBehindFirst argChain then .error .other
  else if argChain.head? == some .cryptOther then .error .other
  else if cryptBehindFirst dictChain then .error .other
  else if dictChain.head? == some .cryptOther then .error .other
  else if argChain.head? == some .cryptIdentity && !dictChain.isEmpty then .error .other
  else if (argChain.head? == some .cryptIdentity || dictChain.head? == some .cryptIdentity) &&
      encrypted == some false then .error .other
  else .ok (dictChain ++ argChain,
            argChain.head? == some .cryptIdentity || dictChain.head? == some .cryptIdentity)

/-- `Writer.Close`: the `/Encrypt` entry of the trailer is the dictionary made in `NewWriter` if
the file is encrypted and is absent otherwise, whatever `MetaInfo.Trailer` (which `GetMeta` hands
out) holds by then -/
def closeEncryptEntry (encryptDict : Option Obj) (trailer : List (Bytes × Obj)) : List (Bytes × Obj) :=
  let rest := trailer.filter fun e => e.1 != key "Encrypt"
  match encryptDict with
  | some d => (key "Encrypt", d) :: rest
  | none => rest

end PdfVerif.SEC

import PdfVerif.Model.Format
import PdfVerif.Generated.FactsCNT
/-!
Model of the content-stream writer `graphics/content/writer.go`: `Operator.Format`
(operands through `pdf.Format(out, OptContentStream, arg)` — the model of `types.go` in
`Model/Format.lean` — each followed by a space, then the operator name and a newline; the
pseudo-operators `%raw%` and `%image%` with the `BI … ID … EI` framing, keys written as names,
nil entries skipped) and of
`Operators.RawBytes` (`graphics/content/operators.go`: the concatenation of the operators).

`none` = `Format` returned an error (an operator object outside a content stream cannot occur
here because `OptContentStream` is set; kept because `Model/Format.lean` is partial).
-/
namespace PdfVerif.CNT
open PdfVerif

/-- the options `Operator.Format` passes to `pdf.Format` -/
def copt : FmtOpt := { pretty := false, content := true }

/-- one operand -/
def fmtArg (o : Obj) : Option Bytes := format copt [o]

/-- the operand loop: every operand is followed by one space -/
def fmtArgs : List Obj → Option Bytes
  | [] => some []
  | a :: as =>
    match fmtArg a, fmtArgs as with
    | some x, some y => some (x ++ 32 :: y)
    | _, _ => none

/-- one written entry followed by the remaining ones -/
def joinEntry (k : Bytes) (val rest : Option Bytes) : Option Bytes :=
  match val, rest with
  | some x, some y => some (fmtName k ++ 32 :: x ++ 10 :: y)
  | _, _ => none

/-- the entries of an inline image dictionary in `slices.Sort` order: the key as a PDF name
    (`pdf.Format`, with `#xx` escapes), a space, the value, a newline; a nil entry is skipped -/
def fmtImageEntries : List (Bytes × Obj) → Option Bytes
  | [] => some []
  | (k, v) :: rest =>
    match v with
    | .null => fmtImageEntries rest
    | v => joinEntry k (fmtArg v) (fmtImageEntries rest)

def bytesBI : Bytes := [66, 73, 10]
def bytesID : Bytes := [73, 68, 10]
def bytesEI : Bytes := [10, 69, 73, 10]

/-- `Operator.Format` -/
def fmtOp (name : Bytes) (args : List Obj) : Option Bytes :=
  if name == Gen.content_OpRawContent then
    match args with
    | .str s :: _ => some (s ++ [10])
    | _ => some []
  else if name == Gen.content_OpInlineImage then
    match args with
    | a0 :: a1 :: _ =>
      let kv := match a0 with
        | .dict kv => kv
        | _ => []
      let data := match a1 with
        | .str s => s
        | _ => []
      match fmtImageEntries (sortKV kv) with
      | some e => some (bytesBI ++ e ++ bytesID ++ data ++ bytesEI)
      | none => none
    | _ => some []
  else
    match fmtArgs args with
    | some a => some (a ++ name ++ [10])
    | none => none

/-- `Operators.RawBytes` read to the end -/
def fmtOps : List (Bytes × List Obj) → Option Bytes
  | [] => some []
  | (n, a) :: rest =>
    match fmtOp n a, fmtOps rest with
    | some x, some y => some (x ++ y)
    | _, _ => none

end PdfVerif.CNT

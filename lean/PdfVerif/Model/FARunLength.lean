import PdfVerif.Model.FACommon
import PdfVerif.Generated.FactsFA
/-!
Model of `internal/filter/runlength/{writer,reader}.go` (`FilterRunLength`).

Encoder: the Go `Write` loop is already byte-at-a-time; the state is `(buf[1:1+used],
repeatCount, repeatVal)`.  `step` returns the packets written to the underlying writer at
that byte.  Decoder: one state per position inside a packet.  Error typing as observed through
`filterContentReader` when the caller's buffer is never the limiting factor:
* end of input where a length byte is expected → clean EOF (a missing EOD marker is tolerated);
* end of input right after a repeat length byte → bare `io.EOF` from `ReadByte` → clean EOF;
* end of input inside a literal run: `io.ReadFull` gives `io.EOF` if no byte of the run was
  read (clean EOF) and `io.ErrUnexpectedEOF` (→ malformed) after at least one byte.
-/
namespace PdfVerif.FA.RunLength
open PdfVerif PdfVerif.FA

/-! ### encoder (`writer.go`) -/

structure W where
  /-- `buf[1 : 1+used]`, the pending literal bytes -/
  lit : Bytes
  repeatCount : Nat
  repeatVal : Nat
  deriving Repr, DecidableEq

def W.init : W := ⟨[], 0, 0⟩

/-- `flushLiteral(count)` with `count = len(lit)`: `byte(count-1)` then the bytes -/
def litPacket (lit : Bytes) : Bytes := (lit.length - Gen.rl_rlWriter_flushLiteral_litBias) :: lit

/-- `flushRepeat`: `byte(257 - repeatCount), repeatVal` -/
def repPacket (count val : Nat) : Bytes := [Gen.rl_rlWriter_flushRepeat_repBase - count, val]

/-- the part of `Write`'s loop body after a pending repeat run has been dealt with:
    append `b` to the literal buffer, detect three equal bytes, flush a full literal buffer -/
def stepLit (lit : Bytes) (b : Nat) : W × Bytes :=
  let lit' := lit ++ [b]
  let used := lit'.length
  if used ≥ Gen.rl_rlWriter_Write_trigger then
    match (lit'.drop (used - Gen.rl_rlWriter_Write_trigger)) with
    | [x, y, z] =>
      if x == y && y == z then
        let head := lit'.take (used - Gen.rl_rlWriter_Write_trigger)
        (⟨[], Gen.rl_rlWriter_Write_startRepeat, x⟩, if head.length > 0 then litPacket head else [])
      else if used == Gen.rl_rlWriter_Write_maxLiteral then (⟨[], 0, 0⟩, litPacket lit')
      else (⟨lit', 0, 0⟩, [])
    | _ => (⟨lit', 0, 0⟩, [])  -- unreachable: the drop has exactly `trigger` = 3 elements
  else (⟨lit', 0, 0⟩, [])

/-- one input byte -/
def step (w : W) (b : Nat) : W × Bytes :=
  if w.repeatCount > 0 then
    if b == w.repeatVal && w.repeatCount < Gen.rl_rlWriter_Write_maxRepeat then
      ({ w with repeatCount := w.repeatCount + 1 }, [])
    else
      let (w', e) := stepLit w.lit b
      (w', repPacket w.repeatCount w.repeatVal ++ e)
  else stepLit w.lit b

/-- `Close`: pending repeat, pending literal, EOD -/
def close (w : W) : Bytes :=
  (if w.repeatCount > 0 then repPacket w.repeatCount w.repeatVal else []) ++
  (if w.lit.length > 0 then litPacket w.lit else []) ++ [Gen.rl_rlWriter_Close_eod]

def run (w : W) : Bytes → Bytes
  | [] => close w
  | b :: bs => let (w', e) := step w b; e ++ run w' bs

def encode (x : Bytes) : Bytes := run W.init x

/-! ### decoder (`reader.go`) -/

inductive R where
  /-- a length byte is expected (`r.count == 0`) -/
  | len
  /-- inside a literal run: `count` bytes still to copy; `fresh` = no byte of the run read yet -/
  | lit (count : Nat) (fresh : Bool)
  /-- the value byte of a repeat run of `count` is expected -/
  | rep (count : Nat)
  deriving Repr, DecidableEq

def dec : R → Bytes → DecRes
  | .len, [] => ([], none)
  | .len, l :: cs =>
    if l == Gen.rl_rlReader_Read_eod then ([], none)
    else if l < Gen.rl_rlReader_Read_litBound then dec (.lit (l + Gen.rl_rlReader_Read_litBias) true) cs
    else dec (.rep (Gen.rl_rlReader_Read_repBase - l)) cs
  | .lit _ fresh, [] => if fresh then ([], none) else ([], some .malformed)
  | .lit count _, c :: cs =>
    DecRes.pre [c] (if count ≤ 1 then dec .len cs else dec (.lit (count - 1) false) cs)
  | .rep _, [] => ([], none)
  | .rep count, v :: cs => DecRes.pre (List.replicate count v) (dec .len cs)

def decode (bs : Bytes) : DecRes := dec .len bs

end PdfVerif.FA.RunLength

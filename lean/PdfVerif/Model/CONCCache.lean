import PdfVerif.Generated.FactsCONC
/-!
# Model of the Extractor cache protocol (resource.go, cursor.go) as a labelled transition system

One transition = the code a goroutine executes between two *scheduling points*.  A scheduling
point is a place where the goroutine is outside every critical section and has just returned
from / is about to enter a call-out or a hook:

* inside `Getter.Get` (called by `Decode`'s reference loop),
* inside the user's decode function (it may start nested calls or return),
* the five `verifYield` points of `DecodeExclusive` (`ex:owner`, `ex:wait`, `ex:pre-publish`,
  `ex:pre-close`, `ex:closed`),
* between two top-level calls of a thread.

Every transition contains **at most one critical section** (`mu.Lock() … mu.Unlock()`) of
`cacheGet`, `cacheStoreOrLoad`, `StoreOrLoadPair` or `DecodeExclusive`, plus thread-local work
and reads of the immutable file; so interleaving transitions is interleaving the atomic
sections of the protocol.

Threads are unbounded (`Tid = Nat`, a thread is its call stack); the decode function is
arbitrary: the *label* of a transition says what it does next (start any nested call with any
cursor path, return any value, fail, panic).  Theorems quantify over all label sequences.

Values are `Nat` (the identity of a Go value; `0` is the nil value), types are `Nat`.  Since
commit e69b1c0 every conversion of a cached or handed-over `any` back to `T` uses the comma-ok
form (`r, _ := v.(T)`), so a nil result of an interface type (stored as an untyped nil `any`)
comes back as the zero value on every path; the model therefore needs no notion of interface
types, and the only way a goroutine dies is a panicking decode function.
-/
namespace PdfVerif.CONC

abbrev Ref := Nat
abbrev Ty := Nat
abbrev Val := Nat
abbrev Key := Ref × Ty
abbrev Pid := Nat
abbrev Tid := Nat

/-- the object a call is applied to: an indirect reference or a direct object -/
inductive Obj where
  | ref (r : Ref)
  | direct
  deriving DecidableEq, Repr

/-- what `Getter.Get` returns for a reference: another reference, a non-reference object, or an error -/
inductive GetRes where
  | ref (r : Ref)
  | direct
  | err
  deriving DecidableEq, Repr

inductive Err where
  | cycle            -- path.step: ErrCycle
  | depth            -- path.step: ErrDepth
  | get              -- error returned by Getter.Get
  | fn (code : Nat)  -- error returned by the decode function
  | aborted          -- "exclusive decode did not complete": the owner's function panicked
  deriving DecidableEq, Repr

/-- outcome of a call -/
inductive Res where
  | ok (v : Val)
  | err (e : Err)
  | panic
  deriving DecidableEq, Repr

/-- static configuration: the file, and which version of `cacheStoreOrLoad` is modelled
(`fixed = false`: the code before commit 231d3ca). -/
structure Cfg where
  get : Ref → GetRes
  fixed : Bool

def nilVal : Val := 0

/-- `limits.MaxExtractDepth`, regenerated from internal/limits/limits.go -/
def maxDepth : Nat := Gen.limits_MaxExtractDepth

/-- function update -/
def upd {α : Type} {β : Type} [DecidableEq α] (f : α → β) (a : α) (b : β) : α → β :=
  fun x => if x = a then b else f x

/-- `pending{done, val, err}` of resource.go: `out` is `(val, err)` once written.  `key` is a
ghost field (the key under which the pending was registered in `wip`); no transition reads it. -/
structure Pending where
  done : Bool
  out : Option Res
  key : Key

/-- a stack frame = an activation of Decode / DecodeExclusive stopped at a scheduling point -/
inductive Frame where
  /-- `Decode`, parked in `x.R.Get(r)`; `refs` ends in `r`, `path` starts with `r` -/
  | decGet (tp : Ty) (refs : List Ref) (path : List Ref) (r : Ref)
  /-- `Decode`, inside the decode function (cursor path `path`) -/
  | decFn (tp : Ty) (refs : List Ref) (path : List Ref)
  /-- `DecodeExclusive` on a direct object, inside the decode function -/
  | exFn (tp : Ty) (path : List Ref)
  /-- `DecodeExclusive`, registered as owner of pending `p` for `k`, at `ex:owner` -/
  | exStart (k : Key) (p : Pid) (path : List Ref)
  /-- `DecodeExclusive`, owner, inside its call of `Decode` (the frames above) -/
  | exRun (k : Key) (p : Pid)
  /-- `DecodeExclusive`, owner, at `ex:pre-publish` with Decode's outcome -/
  | exPub (k : Key) (p : Pid) (res : Res)
  /-- `DecodeExclusive`, owner, at `ex:pre-close` -/
  | exClose (k : Key) (p : Pid) (res : Res)
  /-- `DecodeExclusive`, former owner, at `ex:closed` (after `close(p.done)`, before returning) -/
  | exDone (k : Key) (p : Pid) (res : Res)
  /-- `DecodeExclusive`, waiter, at `ex:wait` (before `<-p.done`) -/
  | exWait (k : Key) (p : Pid)
  /-- the goroutine panicked (stack unwound; no `defer` in Decode/DecodeExclusive cleans up) -/
  | dead
  deriving DecidableEq, Repr

/-- observable events, newest first in `State.hist` -/
inductive Event where
  /-- a `Decode` call returned -/
  | dec (t : Tid) (o : Obj) (tp : Ty) (res : Res)
  /-- a `DecodeExclusive` call returned; `p` = the pending it owned or waited for -/
  | exc (t : Tid) (o : Obj) (tp : Ty) (res : Res) (p : Option Pid)
  /-- a `StoreOrLoadPair` call returned (`none`: it panicked) -/
  | pair (t : Tid) (r : Ref) (A B : Ty) (a b : Val) (res : Option (Val × Val))
  /-- a decode function was entered with cursor path `path`; `p` = the exclusive pending whose
  owner called it -/
  | run (t : Tid) (tp : Ty) (refs : List Ref) (path : List Ref) (p : Option Pid)
  /-- a decode function panicked -/
  | fnPanic (t : Tid)
  deriving DecidableEq, Repr

structure State where
  cache : Key → Option Val
  wip : Key → Option Pid
  pend : Pid → Pending
  npend : Nat
  thr : Tid → List Frame
  hist : List Event

def State.init : State :=
  { cache := fun _ => none, wip := fun _ => none, pend := fun _ => ⟨false, none, (0, 0)⟩, npend := 0,
    thr := fun _ => [], hist := [] }

/-- what a transition of a thread does (the thread's own choice or the environment's) -/
inductive Act where
  /-- start `Decode(CursorAt(x, path), o, fn)` with `T = tp` -/
  | callDecode (o : Obj) (tp : Ty) (path : List Ref)
  /-- start `DecodeExclusive(CursorAt(x, path), o, fn)` -/
  | callExcl (o : Obj) (tp : Ty) (path : List Ref)
  /-- `StoreOrLoadPair[A,B](x, r, a, b)` -/
  | callPair (r : Ref) (A B : Ty) (a b : Val)
  /-- the running decode function returns (`.panic`: it panics) -/
  | fnRet (res : Res)
  /-- continue from a parked position (Get returns what the file says) -/
  | go
  /-- continue from inside `Get` with a transient error -/
  | goFail
  deriving DecidableEq, Repr

/-! ## the critical sections -/

/-- first loop of `cacheStoreOrLoad` (after the fix): the first cached value along `refs` -/
def firstCached (c : Key → Option Val) (tp : Ty) : List Ref → Option Val
  | [] => none
  | r :: rs =>
    match c (r, tp) with
    | some v => some v
    | none => firstCached c tp rs

/-- second loop of `cacheStoreOrLoad` (after the fix): store under the references still missing -/
def storeMissing (c : Key → Option Val) (tp : Ty) (v : Val) : List Ref → (Key → Option Val)
  | [] => c
  | r :: rs =>
    match c (r, tp) with
    | some _ => storeMissing c tp v rs
    | none => storeMissing (upd c (r, tp) (some v)) tp v rs

/-- loop of `cacheStoreOrLoad` before the fix: overwrite every reference -/
def storeAll (c : Key → Option Val) (tp : Ty) (v : Val) : List Ref → (Key → Option Val)
  | [] => c
  | r :: rs => storeAll (upd c (r, tp) (some v)) tp v rs

/-- `cacheStoreOrLoad(refs, tp, res)`: new cache and returned value -/
def storeOrLoad (fixed : Bool) (c : Key → Option Val) (tp : Ty) (refs : List Ref) (v : Val) :
    (Key → Option Val) × Val :=
  if fixed then
    match firstCached c tp refs with
    | some w => (storeMissing c tp w refs, w)
    | none => (storeMissing c tp v refs, v)
  else
    match refs with
    | [] => (c, v)            -- never called with an empty chain
    | r0 :: _ =>
      match c (r0, tp) with
      | some w => (c, w)
      | none => (storeAll c tp v refs, v)

/-! ## transitions -/

/-- the object a Decode activation was called with, for the event record -/
def firstObj (refs : List Ref) (o : Obj) : Obj :=
  match refs with
  | [] => o
  | r :: _ => .ref r

/-- the exclusive pending on whose behalf the frames above `rest` run -/
def ownerOf (rest : List Frame) : Option Pid :=
  match rest with
  | .exRun _ p :: _ => some p
  | _ => none

/-- the caller's stack after a call returned `res` to it: the owner of an exclusive decode
moves on to `ex:pre-publish`, a decode function (or the top level) just continues -/
def deliverStack (rest : List Frame) (res : Res) : List Frame :=
  match rest with
  | .exRun k p :: rest' => .exPub k p res :: rest'
  | _ => rest

/-- hand a result to the caller whose frames are `rest` -/
def deliver (s : State) (t : Tid) (rest : List Frame) (res : Res) : State :=
  { s with thr := upd s.thr t (deliverStack rest res) }

def retDec (s : State) (t : Tid) (rest : List Frame) (o : Obj) (tp : Ty) (res : Res) : State :=
  deliver { s with hist := .dec t o tp res :: s.hist } t rest res

def retExc (s : State) (t : Tid) (rest : List Frame) (o : Obj) (tp : Ty) (res : Res)
    (p : Option Pid) : State :=
  deliver { s with hist := .exc t o tp res p :: s.hist } t rest res

/-- the deferred function of `DecodeExclusive` (commit "DecodeExclusive releases its marker when
the decode function does not return"): when a panic (or `runtime.Goexit`) unwinds a stack, every
exclusive owner on it which has not finished sets `p.err`, deletes its `wip` entry and closes
`p.done`.  Only an owner inside its `Decode` call (`exRun`) can have a running decode function
above it; the other owner phases are released in the same way so that the function is total. -/
def releaseOwned (s : State) : List Frame → State
  | [] => s
  | f :: rest =>
    let s1 := releaseOwned s rest
    match f with
    | .exStart k p _ =>
      { s1 with pend := upd s1.pend p ⟨true, some (.err .aborted), (s1.pend p).key⟩, wip := upd s1.wip k none }
    | .exRun k p =>
      { s1 with pend := upd s1.pend p ⟨true, some (.err .aborted), (s1.pend p).key⟩, wip := upd s1.wip k none }
    | .exPub k p _ =>
      { s1 with pend := upd s1.pend p ⟨true, some (.err .aborted), (s1.pend p).key⟩, wip := upd s1.wip k none }
    | .exClose _ p _ =>
      { s1 with pend := upd s1.pend p ⟨true, (s1.pend p).out, (s1.pend p).key⟩ }
    | _ => s1

/-- the goroutine panics: its stack is unwound; the deferred functions of the exclusive owners on
it release their markers, nothing else is cleaned up -/
def crash (s : State) (t : Tid) (ev : Event) : State :=
  let s1 := releaseOwned s (s.thr t)
  { s1 with thr := upd s1.thr t [.dead], hist := ev :: s1.hist }

/-- one iteration of `Decode`'s reference loop with current object `o`, up to the next
scheduling point -/
def decLoop (s : State) (t : Tid) (rest : List Frame) (tp : Ty) (refs path : List Ref)
    (o : Obj) : State :=
  match o with
  | .direct =>
    { s with thr := upd s.thr t (.decFn tp refs path :: rest),
             hist := .run t tp refs path (ownerOf rest) :: s.hist }
  | .ref r =>
    match s.cache (r, tp) with
    | some v => retDec s t rest (firstObj refs o) tp (.ok v)          -- cacheGet hit
    | none =>
      if r ∈ path then retDec s t rest (firstObj refs o) tp (.err .cycle)
      else if path.length + 1 > maxDepth then retDec s t rest (firstObj refs o) tp (.err .depth)
      else { s with thr := upd s.thr t (.decGet tp (refs ++ [r]) (r :: path) r :: rest) }

/-- first critical section of `DecodeExclusive` -/
def exclCall (_cfg : Cfg) (s : State) (t : Tid) (stk : List Frame) (o : Obj) (tp : Ty)
    (path : List Ref) : State :=
  match o with
  | .direct =>
    { s with thr := upd s.thr t (.exFn tp path :: stk), hist := .run t tp [] path none :: s.hist }
  | .ref r =>
    match s.cache (r, tp) with
    | some v => retExc s t stk o tp (.ok v) none          -- r, _ := v.(T)
    | none =>
      match s.wip (r, tp) with
      | some p => { s with thr := upd s.thr t (.exWait (r, tp) p :: stk) }
      | none =>
        { s with pend := upd s.pend s.npend ⟨false, none, (r, tp)⟩, npend := s.npend + 1,
                 wip := upd s.wip (r, tp) (some s.npend),
                 thr := upd s.thr t (.exStart (r, tp) s.npend path :: stk) }

/-- `StoreOrLoadPair`: one critical section (`a, _ = v.(A)`, `b, _ = v.(B)`: no panic) -/
def pairCall (_cfg : Cfg) (s : State) (t : Tid) (r : Ref) (A B : Ty) (a b : Val) : State :=
  match s.cache (r, A) with
  | some va =>
    match s.cache (r, B) with
    | some vb => { s with hist := .pair t r A B a b (some (va, vb)) :: s.hist }
    | none =>
      { s with cache := upd s.cache (r, B) (some b),
               hist := .pair t r A B a b (some (va, b)) :: s.hist }
  | none =>
    let c1 := upd s.cache (r, A) (some a)
    match c1 (r, B) with
    | some vb => { s with cache := c1, hist := .pair t r A B a b (some (a, vb)) :: s.hist }
    | none =>
      { s with cache := upd c1 (r, B) (some b),
               hist := .pair t r A B a b (some (a, b)) :: s.hist }

/-- the decode function of a `Decode` activation returns -/
def fnReturn (cfg : Cfg) (s : State) (t : Tid) (rest : List Frame) (tp : Ty) (refs : List Ref)
    (res : Res) : State :=
  match res with
  | .panic => crash s t (.fnPanic t)
  | .err e => retDec s t rest (firstObj refs .direct) tp (.err e)
  | .ok v =>
    match refs with
    | [] => retDec s t rest .direct tp (.ok v)
    | r0 :: _ =>
      let cv := storeOrLoad cfg.fixed s.cache tp refs v
      retDec { s with cache := cv.1 } t rest (.ref r0) tp (.ok cv.2)

/-- may a call start here: at top level or inside a running decode function -/
def canCall (stk : List Frame) : Bool :=
  match stk with
  | [] => true
  | .decFn _ _ _ :: _ => true
  | .exFn _ _ :: _ => true
  | _ => false

/-- the transition function: `none` = the action is not enabled in this state -/
def step (cfg : Cfg) (s : State) (t : Tid) (a : Act) : Option State :=
  match a with
  | .callDecode o tp path =>
    if canCall (s.thr t) then some (decLoop s t (s.thr t) tp [] path o) else none
  | .callExcl o tp path =>
    if canCall (s.thr t) then some (exclCall cfg s t (s.thr t) o tp path) else none
  | .callPair r A B a b =>
    if canCall (s.thr t) then some (pairCall cfg s t r A B a b) else none
  | .fnRet res =>
    match s.thr t with
    | .decFn tp refs _ :: rest => some (fnReturn cfg s t rest tp refs res)
    | .exFn tp _ :: rest =>
      match res with
      | .panic => some (crash s t (.fnPanic t))
      | _ => some (retExc s t rest .direct tp res none)
    | _ => none
  | .goFail =>
    match s.thr t with
    | .decGet tp refs _ _ :: rest => some (retDec s t rest (firstObj refs .direct) tp (.err .get))
    | _ => none
  | .go =>
    match s.thr t with
    | .decGet tp refs path r :: rest =>
      match cfg.get r with
      | .err => some (retDec s t rest (firstObj refs .direct) tp (.err .get))
      | .ref r' => some (decLoop s t rest tp refs path (.ref r'))
      | .direct => some (decLoop s t rest tp refs path .direct)
    | .exStart k p path :: rest =>
      -- ex:owner → Decode(c, obj, decode)
      some (decLoop { s with thr := upd s.thr t (.exRun k p :: rest) } t (.exRun k p :: rest)
              k.2 [] path (.ref k.1))
    | .exPub k p res :: rest =>
      -- second critical section: p.val, p.err = res, err; delete(x.wip, key)
      some { s with pend := upd s.pend p ⟨(s.pend p).done, some res, (s.pend p).key⟩,
                    wip := upd s.wip k none,
                    thr := upd s.thr t (.exClose k p res :: rest) }
    | .exClose k p res :: rest =>
      -- close(p.done)
      some { s with pend := upd s.pend p ⟨true, (s.pend p).out, (s.pend p).key⟩,
                    thr := upd s.thr t (.exDone k p res :: rest) }
    | .exDone k p res :: rest =>
      -- return res, err
      some (retExc s t rest (.ref k.1) k.2 res (some p))
    | .exWait k p :: rest =>
      -- <-p.done; if p.err != nil {…}; r, _ := p.val.(T); return r, nil
      if (s.pend p).done then
        match (s.pend p).out with
        | some (.ok v) => some (retExc s t rest (.ref k.1) k.2 (.ok v) (some p))
        | some (.err e) => some (retExc s t rest (.ref k.1) k.2 (.err e) (some p))
        | some .panic => none
        | none =>
          -- done closed before val/err were written: p.val is a nil `any`, the zero value comes back
          some (retExc s t rest (.ref k.1) k.2 (.ok nilVal) (some p))
      else none
    | _ => none

abbrev Label := Tid × Act

/-- run a sequence of labelled transitions; `none` if some label is not enabled -/
def run (cfg : Cfg) (s : State) : List Label → Option State
  | [] => some s
  | (t, a) :: ls =>
    match step cfg s t a with
    | some s' => run cfg s' ls
    | none => none

/-- `s` is reachable from the initial state -/
def Reachable (cfg : Cfg) (s : State) : Prop := ∃ ls, run cfg State.init ls = some s

end PdfVerif.CONC

import PdfVerif.Basic
/-!
Shared by the byte-codec models of work package FA (ASCIIHex, ASCII85, RunLength, LZW).
-/
namespace PdfVerif.FA
open PdfVerif

/-- what a finished decoder run reports: the bytes produced and how it ended
    (`none` = `io.EOF`, a clean end of data; `some e` = the error class the reader returns
    after the data, as seen through `filterContentReader`) -/
abbrev DecRes := Bytes × Option Err

/-- prepend output to a decoder result -/
def DecRes.pre (bs : Bytes) (r : DecRes) : DecRes := (bs ++ r.1, r.2)

@[simp] theorem DecRes.pre_nil (r : DecRes) : DecRes.pre [] r = r := by
  simp [DecRes.pre]
@[simp] theorem DecRes.pre_pre (a b : Bytes) (r : DecRes) :
    DecRes.pre a (DecRes.pre b r) = DecRes.pre (a ++ b) r := by
  simp [DecRes.pre]
@[simp] theorem DecRes.pre_fst (a : Bytes) (r : DecRes) : (DecRes.pre a r).1 = a ++ r.1 := rfl
@[simp] theorem DecRes.pre_snd (a : Bytes) (r : DecRes) : (DecRes.pre a r).2 = r.2 := rfl
@[simp] theorem DecRes.pre_mk (a d : Bytes) (e : Option Err) : DecRes.pre a (d, e) = (a ++ d, e) := rfl

end PdfVerif.FA

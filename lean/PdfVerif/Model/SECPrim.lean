import PdfVerif.Basic
/-!
Executable crypto primitives for the `pdfdriver` (core Lean only): MD5, RC4, SHA-256/384/512,
AES-128/192/256 block encryption and decryption.

UNVERIFIED.  No theorem unfolds anything in this file: the property theorems take the primitives
as parameters with explicit hypotheses.  These implementations are validated on every check by
known-answer lines against Go's `crypto/*` (harness `sec_kat.go`, ops `SEC md5|sha256|…`).
The tables are the public constants of RFC 1321, FIPS 180-4 and FIPS 197 (they are not constants
of the Go library under verification).
-/
namespace PdfVerif.SECPrim

def md5K : Array UInt32 := #[
  0xd76aa478, 0xe8c7b756, 0x242070db, 0xc1bdceee, 0xf57c0faf, 0x4787c62a, 0xa8304613, 0xfd469501, 0x698098d8, 0x8b44f7af, 0xffff5bb1, 0x895cd7be, 0x6b901122, 0xfd987193, 0xa679438e, 0x49b40821, 0xf61e2562, 0xc040b340, 0x265e5a51, 0xe9b6c7aa, 0xd62f105d, 0x02441453, 0xd8a1e681, 0xe7d3fbc8, 0x21e1cde6, 0xc33707d6, 0xf4d50d87, 0x455a14ed, 0xa9e3e905, 0xfcefa3f8, 0x676f02d9, 0x8d2a4c8a, 0xfffa3942, 0x8771f681, 0x6d9d6122, 0xfde5380c, 0xa4beea44, 0x4bdecfa9, 0xf6bb4b60, 0xbebfbc70, 0x289b7ec6, 0xeaa127fa, 0xd4ef3085, 0x04881d05, 0xd9d4d039, 0xe6db99e5, 0x1fa27cf8, 0xc4ac5665, 0xf4292244, 0x432aff97, 0xab9423a7, 0xfc93a039, 0x655b59c3, 0x8f0ccc92, 0xffeff47d, 0x85845dd1, 0x6fa87e4f, 0xfe2ce6e0, 0xa3014314, 0x4e0811a1, 0xf7537e82, 0xbd3af235, 0x2ad7d2bb, 0xeb86d391]
def sha256K : Array UInt32 := #[
  0x428a2f98, 0x71374491, 0xb5c0fbcf, 0xe9b5dba5, 0x3956c25b, 0x59f111f1, 0x923f82a4, 0xab1c5ed5, 0xd807aa98, 0x12835b01, 0x243185be, 0x550c7dc3, 0x72be5d74, 0x80deb1fe, 0x9bdc06a7, 0xc19bf174, 0xe49b69c1, 0xefbe4786, 0x0fc19dc6, 0x240ca1cc, 0x2de92c6f, 0x4a7484aa, 0x5cb0a9dc, 0x76f988da, 0x983e5152, 0xa831c66d, 0xb00327c8, 0xbf597fc7, 0xc6e00bf3, 0xd5a79147, 0x06ca6351, 0x14292967, 0x27b70a85, 0x2e1b2138, 0x4d2c6dfc, 0x53380d13, 0x650a7354, 0x766a0abb, 0x81c2c92e, 0x92722c85, 0xa2bfe8a1, 0xa81a664b, 0xc24b8b70, 0xc76c51a3, 0xd192e819, 0xd6990624, 0xf40e3585, 0x106aa070, 0x19a4c116, 0x1e376c08, 0x2748774c, 0x34b0bcb5, 0x391c0cb3, 0x4ed8aa4a, 0x5b9cca4f, 0x682e6ff3, 0x748f82ee, 0x78a5636f, 0x84c87814, 0x8cc70208, 0x90befffa, 0xa4506ceb, 0xbef9a3f7, 0xc67178f2]
def sha256H : Array UInt32 := #[
  0x6a09e667, 0xbb67ae85, 0x3c6ef372, 0xa54ff53a, 0x510e527f, 0x9b05688c, 0x1f83d9ab, 0x5be0cd19]
def sha512K : Array UInt64 := #[
  0x428a2f98d728ae22, 0x7137449123ef65cd, 0xb5c0fbcfec4d3b2f, 0xe9b5dba58189dbbc, 0x3956c25bf348b538, 0x59f111f1b605d019, 0x923f82a4af194f9b, 0xab1c5ed5da6d8118, 0xd807aa98a3030242, 0x12835b0145706fbe, 0x243185be4ee4b28c, 0x550c7dc3d5ffb4e2, 0x72be5d74f27b896f, 0x80deb1fe3b1696b1, 0x9bdc06a725c71235, 0xc19bf174cf692694, 0xe49b69c19ef14ad2, 0xefbe4786384f25e3, 0x0fc19dc68b8cd5b5, 0x240ca1cc77ac9c65, 0x2de92c6f592b0275, 0x4a7484aa6ea6e483, 0x5cb0a9dcbd41fbd4, 0x76f988da831153b5, 0x983e5152ee66dfab, 0xa831c66d2db43210, 0xb00327c898fb213f, 0xbf597fc7beef0ee4, 0xc6e00bf33da88fc2, 0xd5a79147930aa725, 0x06ca6351e003826f, 0x142929670a0e6e70, 0x27b70a8546d22ffc, 0x2e1b21385c26c926, 0x4d2c6dfc5ac42aed, 0x53380d139d95b3df, 0x650a73548baf63de, 0x766a0abb3c77b2a8, 0x81c2c92e47edaee6, 0x92722c851482353b, 0xa2bfe8a14cf10364, 0xa81a664bbc423001, 0xc24b8b70d0f89791, 0xc76c51a30654be30, 0xd192e819d6ef5218, 0xd69906245565a910, 0xf40e35855771202a, 0x106aa07032bbd1b8, 0x19a4c116b8d2d0c8, 0x1e376c085141ab53, 0x2748774cdf8eeb99, 0x34b0bcb5e19b48a8, 0x391c0cb3c5c95a63, 0x4ed8aa4ae3418acb, 0x5b9cca4f7763e373, 0x682e6ff3d6b2b8a3, 0x748f82ee5defb2fc, 0x78a5636f43172f60, 0x84c87814a1f0ab72, 0x8cc702081a6439ec, 0x90befffa23631e28, 0xa4506cebde82bde9, 0xbef9a3f7b2c67915, 0xc67178f2e372532b, 0xca273eceea26619c, 0xd186b8c721c0c207, 0xeada7dd6cde0eb1e, 0xf57d4f7fee6ed178, 0x06f067aa72176fba, 0x0a637dc5a2c898a6, 0x113f9804bef90dae, 0x1b710b35131c471b, 0x28db77f523047d84, 0x32caab7b40c72493, 0x3c9ebe0a15c9bebc, 0x431d67c49c100d4c, 0x4cc5d4becb3e42b6, 0x597f299cfc657e2a, 0x5fcb6fab3ad6faec, 0x6c44198c4a475817]
def sha512H : Array UInt64 := #[
  0x6a09e667f3bcc908, 0xbb67ae8584caa73b, 0x3c6ef372fe94f82b, 0xa54ff53a5f1d36f1, 0x510e527fade682d1, 0x9b05688c2b3e6c1f, 0x1f83d9abfb41bd6b, 0x5be0cd19137e2179]
def sha384H : Array UInt64 := #[
  0xcbbb9d5dc1059ed8, 0x629a292a367cd507, 0x9159015a3070dd17, 0x152fecd8f70e5939, 0x67332667ffc00b31, 0x8eb44a8768581511, 0xdb0c2e0d64f98fa7, 0x47b5481dbefa4fa4]
def aesSbox : Array UInt8 := #[
  0x63, 0x7c, 0x77, 0x7b, 0xf2, 0x6b, 0x6f, 0xc5, 0x30, 0x01, 0x67, 0x2b, 0xfe, 0xd7, 0xab, 0x76, 0xca, 0x82, 0xc9, 0x7d, 0xfa, 0x59, 0x47, 0xf0, 0xad, 0xd4, 0xa2, 0xaf, 0x9c, 0xa4, 0x72, 0xc0, 0xb7, 0xfd, 0x93, 0x26, 0x36, 0x3f, 0xf7, 0xcc, 0x34, 0xa5, 0xe5, 0xf1, 0x71, 0xd8, 0x31, 0x15, 0x04, 0xc7, 0x23, 0xc3, 0x18, 0x96, 0x05, 0x9a, 0x07, 0x12, 0x80, 0xe2, 0xeb, 0x27, 0xb2, 0x75, 0x09, 0x83, 0x2c, 0x1a, 0x1b, 0x6e, 0x5a, 0xa0, 0x52, 0x3b, 0xd6, 0xb3, 0x29, 0xe3, 0x2f, 0x84, 0x53, 0xd1, 0x00, 0xed, 0x20, 0xfc, 0xb1, 0x5b, 0x6a, 0xcb, 0xbe, 0x39, 0x4a, 0x4c, 0x58, 0xcf, 0xd0, 0xef, 0xaa, 0xfb, 0x43, 0x4d, 0x33, 0x85, 0x45, 0xf9, 0x02, 0x7f, 0x50, 0x3c, 0x9f, 0xa8, 0x51, 0xa3, 0x40, 0x8f, 0x92, 0x9d, 0x38, 0xf5, 0xbc, 0xb6, 0xda, 0x21, 0x10, 0xff, 0xf3, 0xd2, 0xcd, 0x0c, 0x13, 0xec, 0x5f, 0x97, 0x44, 0x17, 0xc4, 0xa7, 0x7e, 0x3d, 0x64, 0x5d, 0x19, 0x73, 0x60, 0x81, 0x4f, 0xdc, 0x22, 0x2a, 0x90, 0x88, 0x46, 0xee, 0xb8, 0x14, 0xde, 0x5e, 0x0b, 0xdb, 0xe0, 0x32, 0x3a, 0x0a, 0x49, 0x06, 0x24, 0x5c, 0xc2, 0xd3, 0xac, 0x62, 0x91, 0x95, 0xe4, 0x79, 0xe7, 0xc8, 0x37, 0x6d, 0x8d, 0xd5, 0x4e, 0xa9, 0x6c, 0x56, 0xf4, 0xea, 0x65, 0x7a, 0xae, 0x08, 0xba, 0x78, 0x25, 0x2e, 0x1c, 0xa6, 0xb4, 0xc6, 0xe8, 0xdd, 0x74, 0x1f, 0x4b, 0xbd, 0x8b, 0x8a, 0x70, 0x3e, 0xb5, 0x66, 0x48, 0x03, 0xf6, 0x0e, 0x61, 0x35, 0x57, 0xb9, 0x86, 0xc1, 0x1d, 0x9e, 0xe1, 0xf8, 0x98, 0x11, 0x69, 0xd9, 0x8e, 0x94, 0x9b, 0x1e, 0x87, 0xe9, 0xce, 0x55, 0x28, 0xdf, 0x8c, 0xa1, 0x89, 0x0d, 0xbf, 0xe6, 0x42, 0x68, 0x41, 0x99, 0x2d, 0x0f, 0xb0, 0x54, 0xbb, 0x16]
def aesInvSbox : Array UInt8 := #[
  0x52, 0x09, 0x6a, 0xd5, 0x30, 0x36, 0xa5, 0x38, 0xbf, 0x40, 0xa3, 0x9e, 0x81, 0xf3, 0xd7, 0xfb, 0x7c, 0xe3, 0x39, 0x82, 0x9b, 0x2f, 0xff, 0x87, 0x34, 0x8e, 0x43, 0x44, 0xc4, 0xde, 0xe9, 0xcb, 0x54, 0x7b, 0x94, 0x32, 0xa6, 0xc2, 0x23, 0x3d, 0xee, 0x4c, 0x95, 0x0b, 0x42, 0xfa, 0xc3, 0x4e, 0x08, 0x2e, 0xa1, 0x66, 0x28, 0xd9, 0x24, 0xb2, 0x76, 0x5b, 0xa2, 0x49, 0x6d, 0x8b, 0xd1, 0x25, 0x72, 0xf8, 0xf6, 0x64, 0x86, 0x68, 0x98, 0x16, 0xd4, 0xa4, 0x5c, 0xcc, 0x5d, 0x65, 0xb6, 0x92, 0x6c, 0x70, 0x48, 0x50, 0xfd, 0xed, 0xb9, 0xda, 0x5e, 0x15, 0x46, 0x57, 0xa7, 0x8d, 0x9d, 0x84, 0x90, 0xd8, 0xab, 0x00, 0x8c, 0xbc, 0xd3, 0x0a, 0xf7, 0xe4, 0x58, 0x05, 0xb8, 0xb3, 0x45, 0x06, 0xd0, 0x2c, 0x1e, 0x8f, 0xca, 0x3f, 0x0f, 0x02, 0xc1, 0xaf, 0xbd, 0x03, 0x01, 0x13, 0x8a, 0x6b, 0x3a, 0x91, 0x11, 0x41, 0x4f, 0x67, 0xdc, 0xea, 0x97, 0xf2, 0xcf, 0xce, 0xf0, 0xb4, 0xe6, 0x73, 0x96, 0xac, 0x74, 0x22, 0xe7, 0xad, 0x35, 0x85, 0xe2, 0xf9, 0x37, 0xe8, 0x1c, 0x75, 0xdf, 0x6e, 0x47, 0xf1, 0x1a, 0x71, 0x1d, 0x29, 0xc5, 0x89, 0x6f, 0xb7, 0x62, 0x0e, 0xaa, 0x18, 0xbe, 0x1b, 0xfc, 0x56, 0x3e, 0x4b, 0xc6, 0xd2, 0x79, 0x20, 0x9a, 0xdb, 0xc0, 0xfe, 0x78, 0xcd, 0x5a, 0xf4, 0x1f, 0xdd, 0xa8, 0x33, 0x88, 0x07, 0xc7, 0x31, 0xb1, 0x12, 0x10, 0x59, 0x27, 0x80, 0xec, 0x5f, 0x60, 0x51, 0x7f, 0xa9, 0x19, 0xb5, 0x4a, 0x0d, 0x2d, 0xe5, 0x7a, 0x9f, 0x93, 0xc9, 0x9c, 0xef, 0xa0, 0xe0, 0x3b, 0x4d, 0xae, 0x2a, 0xf5, 0xb0, 0xc8, 0xeb, 0xbb, 0x3c, 0x83, 0x53, 0x99, 0x61, 0x17, 0x2b, 0x04, 0x7e, 0xba, 0x77, 0xd6, 0x26, 0xe1, 0x69, 0x14, 0x63, 0x55, 0x21, 0x0c, 0x7d]

@[inline] def toBA (bs : Bytes) : ByteArray := ByteArray.mk (bs.toArray.map fun n => n.toUInt8)
@[inline] def ofBA (b : ByteArray) : Bytes := b.toList.map fun x => x.toNat

/-! ### MD5 (RFC 1321) -/

def md5S : Array UInt32 := #[
  7, 12, 17, 22, 7, 12, 17, 22, 7, 12, 17, 22, 7, 12, 17, 22,
  5, 9, 14, 20, 5, 9, 14, 20, 5, 9, 14, 20, 5, 9, 14, 20,
  4, 11, 16, 23, 4, 11, 16, 23, 4, 11, 16, 23, 4, 11, 16, 23,
  6, 10, 15, 21, 6, 10, 15, 21, 6, 10, 15, 21, 6, 10, 15, 21]

@[inline] def rotl32 (x : UInt32) (s : UInt32) : UInt32 := (x <<< s) ||| (x >>> (32 - s))
@[inline] def rotr32 (x : UInt32) (s : UInt32) : UInt32 := (x >>> s) ||| (x <<< (32 - s))
@[inline] def rotr64 (x : UInt64) (s : UInt64) : UInt64 := (x >>> s) ||| (x <<< (64 - s))

/-- message ++ 0x80 ++ zeros ++ 64-bit (or 128-bit) length; `be` selects big-endian length -/
def padMsg (msg : ByteArray) (block lenBytes : Nat) (be : Bool) : ByteArray := Id.run do
  let bitLen := msg.size * 8
  let mut m := msg.push 0x80
  while (m.size + lenBytes) % block != 0 do
    m := m.push 0
  for i in [0:lenBytes] do
    let sh := if be then 8 * (lenBytes - 1 - i) else 8 * i
    m := m.push ((bitLen >>> sh) % 256).toUInt8
  return m

@[inline] def le32 (m : ByteArray) (o : Nat) : UInt32 :=
  (m.get! o).toUInt32 ||| ((m.get! (o+1)).toUInt32 <<< 8) ||| ((m.get! (o+2)).toUInt32 <<< 16) |||
    ((m.get! (o+3)).toUInt32 <<< 24)
@[inline] def be32 (m : ByteArray) (o : Nat) : UInt32 :=
  (m.get! (o+3)).toUInt32 ||| ((m.get! (o+2)).toUInt32 <<< 8) ||| ((m.get! (o+1)).toUInt32 <<< 16) |||
    ((m.get! o).toUInt32 <<< 24)
@[inline] def be64 (m : ByteArray) (o : Nat) : UInt64 :=
  ((be32 m o).toUInt64 <<< 32) ||| (be32 m (o+4)).toUInt64

def push32le (b : ByteArray) (x : UInt32) : ByteArray :=
  (((b.push x.toUInt8).push (x >>> 8).toUInt8).push (x >>> 16).toUInt8).push (x >>> 24).toUInt8
def push32be (b : ByteArray) (x : UInt32) : ByteArray :=
  (((b.push (x >>> 24).toUInt8).push (x >>> 16).toUInt8).push (x >>> 8).toUInt8).push x.toUInt8
def push64be (b : ByteArray) (x : UInt64) : ByteArray :=
  push32be (push32be b (x >>> 32).toUInt32) x.toUInt32

def md5BA (msg : ByteArray) : ByteArray := Id.run do
  let m := padMsg msg 64 8 false
  let mut a0 : UInt32 := 0x67452301
  let mut b0 : UInt32 := 0xefcdab89
  let mut c0 : UInt32 := 0x98badcfe
  let mut d0 : UInt32 := 0x10325476
  for blk in [0:m.size / 64] do
    let base := blk * 64
    let mut a := a0
    let mut b := b0
    let mut c := c0
    let mut d := d0
    for i in [0:64] do
      let mut f : UInt32 := 0
      let mut g : Nat := 0
      if i < 16 then
        f := (b &&& c) ||| ((~~~ b) &&& d); g := i
      else if i < 32 then
        f := (d &&& b) ||| ((~~~ d) &&& c); g := (5 * i + 1) % 16
      else if i < 48 then
        f := b ^^^ c ^^^ d; g := (3 * i + 5) % 16
      else
        f := c ^^^ (b ||| (~~~ d)); g := (7 * i) % 16
      f := f + a + md5K[i]! + le32 m (base + 4 * g)
      a := d; d := c; c := b
      b := b + rotl32 f md5S[i]!
    a0 := a0 + a; b0 := b0 + b; c0 := c0 + c; d0 := d0 + d
  return push32le (push32le (push32le (push32le ByteArray.empty a0) b0) c0) d0

/-! ### SHA-256 (FIPS 180-4) -/

def sha256BA (msg : ByteArray) : ByteArray := Id.run do
  let m := padMsg msg 64 8 true
  let mut h := sha256H
  for blk in [0:m.size / 64] do
    let base := blk * 64
    let mut w : Array UInt32 := Array.mkEmpty 64
    for i in [0:16] do
      w := w.push (be32 m (base + 4 * i))
    for i in [16:64] do
      let w15 := w[i-15]!
      let w2 := w[i-2]!
      let s0 := rotr32 w15 7 ^^^ rotr32 w15 18 ^^^ (w15 >>> 3)
      let s1 := rotr32 w2 17 ^^^ rotr32 w2 19 ^^^ (w2 >>> 10)
      w := w.push (w[i-16]! + s0 + w[i-7]! + s1)
    let mut a := h[0]!
    let mut b := h[1]!
    let mut c := h[2]!
    let mut d := h[3]!
    let mut e := h[4]!
    let mut f := h[5]!
    let mut g := h[6]!
    let mut hh := h[7]!
    for i in [0:64] do
      let s1 := rotr32 e 6 ^^^ rotr32 e 11 ^^^ rotr32 e 25
      let ch := (e &&& f) ^^^ ((~~~ e) &&& g)
      let t1 := hh + s1 + ch + sha256K[i]! + w[i]!
      let s0 := rotr32 a 2 ^^^ rotr32 a 13 ^^^ rotr32 a 22
      let maj := (a &&& b) ^^^ (a &&& c) ^^^ (b &&& c)
      let t2 := s0 + maj
      hh := g; g := f; f := e; e := d + t1; d := c; c := b; b := a; a := t1 + t2
    h := #[h[0]! + a, h[1]! + b, h[2]! + c, h[3]! + d, h[4]! + e, h[5]! + f, h[6]! + g, h[7]! + hh]
  let mut out := ByteArray.empty
  for x in h do
    out := push32be out x
  return out

/-! ### SHA-512 / SHA-384 (FIPS 180-4) -/

def sha512Core (iv : Array UInt64) (msg : ByteArray) : Array UInt64 := Id.run do
  let m := padMsg msg 128 16 true
  let mut h := iv
  for blk in [0:m.size / 128] do
    let base := blk * 128
    let mut w : Array UInt64 := Array.mkEmpty 80
    for i in [0:16] do
      w := w.push (be64 m (base + 8 * i))
    for i in [16:80] do
      let w15 := w[i-15]!
      let w2 := w[i-2]!
      let s0 := rotr64 w15 1 ^^^ rotr64 w15 8 ^^^ (w15 >>> 7)
      let s1 := rotr64 w2 19 ^^^ rotr64 w2 61 ^^^ (w2 >>> 6)
      w := w.push (w[i-16]! + s0 + w[i-7]! + s1)
    let mut a := h[0]!
    let mut b := h[1]!
    let mut c := h[2]!
    let mut d := h[3]!
    let mut e := h[4]!
    let mut f := h[5]!
    let mut g := h[6]!
    let mut hh := h[7]!
    for i in [0:80] do
      let s1 := rotr64 e 14 ^^^ rotr64 e 18 ^^^ rotr64 e 41
      let ch := (e &&& f) ^^^ ((~~~ e) &&& g)
      let t1 := hh + s1 + ch + sha512K[i]! + w[i]!
      let s0 := rotr64 a 28 ^^^ rotr64 a 34 ^^^ rotr64 a 39
      let maj := (a &&& b) ^^^ (a &&& c) ^^^ (b &&& c)
      let t2 := s0 + maj
      hh := g; g := f; f := e; e := d + t1; d := c; c := b; b := a; a := t1 + t2
    h := #[h[0]! + a, h[1]! + b, h[2]! + c, h[3]! + d, h[4]! + e, h[5]! + f, h[6]! + g, h[7]! + hh]
  return h

def sha512BA (msg : ByteArray) : ByteArray := Id.run do
  let mut out := ByteArray.empty
  for x in sha512Core sha512H msg do
    out := push64be out x
  return out

def sha384BA (msg : ByteArray) : ByteArray := Id.run do
  let mut out := ByteArray.empty
  for x in (sha512Core sha384H msg).extract 0 6 do
    out := push64be out x
  return out

/-! ### RC4 -/

/-- the first `n` key-stream bytes of RC4 under `key` (`key` non-empty) -/
def rc4KeystreamBA (key : ByteArray) (n : Nat) : ByteArray := Id.run do
  if key.size == 0 then return ByteArray.empty
  let mut s : ByteArray := ByteArray.empty
  for i in [0:256] do
    s := s.push i.toUInt8
  let mut j : Nat := 0
  for i in [0:256] do
    j := (j + (s.get! i).toNat + (key.get! (i % key.size)).toNat) % 256
    let t := s.get! i
    s := s.set! i (s.get! j)
    s := s.set! j t
  let mut out := ByteArray.empty
  let mut i : Nat := 0
  j := 0
  for _ in [0:n] do
    i := (i + 1) % 256
    j := (j + (s.get! i).toNat) % 256
    let t := s.get! i
    s := s.set! i (s.get! j)
    s := s.set! j t
    out := out.push (s.get! (((s.get! i).toNat + (s.get! j).toNat) % 256))
  return out

/-! ### AES (FIPS 197) -/

@[inline] def xtime (b : UInt8) : UInt8 := (b <<< 1) ^^^ (if b &&& 0x80 != 0 then 0x1b else 0)
@[inline] def sb (b : UInt8) : UInt8 := aesSbox[b.toNat]!
@[inline] def isb (b : UInt8) : UInt8 := aesInvSbox[b.toNat]!

/-- expanded key: 16*(rounds+1) bytes; `none` unless the key has 16, 24 or 32 bytes -/
def aesExpand (key : ByteArray) : Option (ByteArray × Nat) := Id.run do
  let nk := key.size / 4
  if key.size != 16 && key.size != 24 && key.size != 32 then return none
  let rounds := nk + 6
  let mut w := key
  let mut rcon : UInt8 := 1
  for i in [nk:4 * (rounds + 1)] do
    let mut t0 := w.get! (4 * (i - 1))
    let mut t1 := w.get! (4 * (i - 1) + 1)
    let mut t2 := w.get! (4 * (i - 1) + 2)
    let mut t3 := w.get! (4 * (i - 1) + 3)
    if i % nk == 0 then
      let r0 := sb t1 ^^^ rcon
      let r1 := sb t2
      let r2 := sb t3
      let r3 := sb t0
      t0 := r0; t1 := r1; t2 := r2; t3 := r3
      rcon := xtime rcon
    else if nk > 6 && i % nk == 4 then
      t0 := sb t0; t1 := sb t1; t2 := sb t2; t3 := sb t3
    w := w.push (w.get! (4 * (i - nk)) ^^^ t0)
    w := w.push (w.get! (4 * (i - nk) + 1) ^^^ t1)
    w := w.push (w.get! (4 * (i - nk) + 2) ^^^ t2)
    w := w.push (w.get! (4 * (i - nk) + 3) ^^^ t3)
  return some (w, rounds)

def addRoundKey (st w : ByteArray) (r : Nat) : ByteArray := Id.run do
  let mut o := ByteArray.emptyWithCapacity 16
  for i in [0:16] do
    o := o.push (st.get! i ^^^ w.get! (16 * r + i))
  return o

/-- SubBytes ∘ ShiftRows (state is column-major: byte `4*c + r`) -/
def subShift (st : ByteArray) : ByteArray := Id.run do
  let mut o := ByteArray.emptyWithCapacity 16
  for c in [0:4] do
    for r in [0:4] do
      o := o.push (sb (st.get! (4 * ((c + r) % 4) + r)))
  return o

def invSubShift (st : ByteArray) : ByteArray := Id.run do
  let mut o := ByteArray.emptyWithCapacity 16
  for c in [0:4] do
    for r in [0:4] do
      o := o.push (isb (st.get! (4 * ((c + 4 - r) % 4) + r)))
  return o

def mixColumns (st : ByteArray) : ByteArray := Id.run do
  let mut o := ByteArray.emptyWithCapacity 16
  for c in [0:4] do
    let a0 := st.get! (4 * c)
    let a1 := st.get! (4 * c + 1)
    let a2 := st.get! (4 * c + 2)
    let a3 := st.get! (4 * c + 3)
    o := o.push (xtime a0 ^^^ (xtime a1 ^^^ a1) ^^^ a2 ^^^ a3)
    o := o.push (a0 ^^^ xtime a1 ^^^ (xtime a2 ^^^ a2) ^^^ a3)
    o := o.push (a0 ^^^ a1 ^^^ xtime a2 ^^^ (xtime a3 ^^^ a3))
    o := o.push ((xtime a0 ^^^ a0) ^^^ a1 ^^^ a2 ^^^ xtime a3)
  return o

@[inline] def m9 (a : UInt8) : UInt8 := xtime (xtime (xtime a)) ^^^ a
@[inline] def m11 (a : UInt8) : UInt8 := xtime (xtime (xtime a) ^^^ a) ^^^ a
@[inline] def m13 (a : UInt8) : UInt8 := xtime (xtime (xtime a ^^^ a)) ^^^ a
@[inline] def m14 (a : UInt8) : UInt8 := xtime (xtime (xtime a ^^^ a) ^^^ a)

def invMixColumns (st : ByteArray) : ByteArray := Id.run do
  let mut o := ByteArray.emptyWithCapacity 16
  for c in [0:4] do
    let a0 := st.get! (4 * c)
    let a1 := st.get! (4 * c + 1)
    let a2 := st.get! (4 * c + 2)
    let a3 := st.get! (4 * c + 3)
    o := o.push (m14 a0 ^^^ m11 a1 ^^^ m13 a2 ^^^ m9 a3)
    o := o.push (m9 a0 ^^^ m14 a1 ^^^ m11 a2 ^^^ m13 a3)
    o := o.push (m13 a0 ^^^ m9 a1 ^^^ m14 a2 ^^^ m11 a3)
    o := o.push (m11 a0 ^^^ m13 a1 ^^^ m9 a2 ^^^ m14 a3)
  return o

def aesEncBlockW (w : ByteArray) (rounds : Nat) (blk : ByteArray) : ByteArray := Id.run do
  let mut st := addRoundKey blk w 0
  for r in [1:rounds] do
    st := addRoundKey (mixColumns (subShift st)) w r
  return addRoundKey (subShift st) w rounds

def aesDecBlockW (w : ByteArray) (rounds : Nat) (blk : ByteArray) : ByteArray := Id.run do
  let mut st := addRoundKey blk w rounds
  for i in [1:rounds] do
    st := invMixColumns (addRoundKey (invSubShift st) w (rounds - i))
  return addRoundKey (invSubShift st) w 0

/-! ### `Bytes` interface used by the driver

Conventions for out-of-domain arguments (never reached from the models, which check first):
an AES key of a wrong size or a block not of 16 bytes gives `[]`. -/

def md5 (x : Bytes) : Bytes := ofBA (md5BA (toBA x))
def sha256 (x : Bytes) : Bytes := ofBA (sha256BA (toBA x))
def sha384 (x : Bytes) : Bytes := ofBA (sha384BA (toBA x))
def sha512 (x : Bytes) : Bytes := ofBA (sha512BA (toBA x))
def rc4ks (key : Bytes) (n : Nat) : Bytes := ofBA (rc4KeystreamBA (toBA key) n)

def aesEnc (key blk : Bytes) : Bytes :=
  if blk.length != 16 then [] else
  match aesExpand (toBA key) with
  | none => []
  | some (w, r) => ofBA (aesEncBlockW w r (toBA blk))

def aesDec (key blk : Bytes) : Bytes :=
  if blk.length != 16 then [] else
  match aesExpand (toBA key) with
  | none => []
  | some (w, r) => ofBA (aesDecBlockW w r (toBA blk))

/-- CBC encryption of whole blocks with one key expansion (fast path for Algorithm 2.B; the
models define CBC themselves from `aesEnc`, the driver checks both agree) -/
def aesCbcEncFast (key iv data : Bytes) : Bytes :=
  match aesExpand (toBA key) with
  | none => []
  | some (w, r) => Id.run do
    let d := toBA data
    let mut prev := toBA iv
    let mut out := ByteArray.emptyWithCapacity d.size
    for b in [0:d.size / 16] do
      let mut x := ByteArray.emptyWithCapacity 16
      for i in [0:16] do
        x := x.push (d.get! (16 * b + i) ^^^ prev.get! i)
      prev := aesEncBlockW w r x
      out := out ++ prev
    return ofBA out

end PdfVerif.SECPrim

import PdfVerif.Basic
/-!
# Character-code segmentation used by the composite encoders (C14's view of `charcode.Codec`)

`decode` / `appendCode` are the input/output behaviour of `(*Codec).Decode` / `AppendCode`
for a code space range set, written as the candidate-filtering semantics the codec tree of
`font/charcode/codec.go:newTree` implements: at depth `d` the candidates are the ranges whose
first `d` byte intervals contain the bytes read so far; an empty candidate set after the next
byte is an invalid code which consumes `minLength(candidates) - (d+1)` further bytes (ISO
32000-2 9.7.6.3); if all remaining candidates end here the code is valid.  (That the tree
implements this semantics is property C12's business; C14 validates it on every `Codes` line.)
Codes are packed little-endian as in `charcode.Code`.
-/
namespace PdfVerif.FNT

structure Range where
  low : Bytes
  high : Bytes
  deriving DecidableEq, Repr

abbrev CSR := List Range

/-- `charcode.UTF8` (range.go) — tied by the correspondence line `FNT csr utf8` -/
def csrUTF8 : CSR :=
  [ ⟨[0x00], [0x7F]⟩,
    ⟨[0xC2, 0x80], [0xDF, 0xBF]⟩,
    ⟨[0xE0, 0x80, 0x80], [0xEF, 0xBF, 0xBF]⟩,
    ⟨[0xF0, 0x80, 0x80, 0x80], [0xF4, 0xBF, 0xBF, 0xBF]⟩ ]

/-- `charcode.UCS2`, the code space of Identity-H/V — tied by `FNT csr ucs2` -/
def csrUCS2 : CSR := [ ⟨[0x00, 0x00], [0xFF, 0xFF]⟩ ]

/-- `charcode.Simple` -/
def csrSimple : CSR := [ ⟨[0x00], [0xFF]⟩ ]

def minLength : CSR → Nat
  | [] => 1
  | r :: rs => rs.foldl (fun m r => min m r.low.length) r.low.length

def Range.matchAt (r : Range) (d b : Nat) : Bool :=
  match r.low[d]?, r.high[d]? with
  | some l, some h => l ≤ b && b ≤ h
  | _, _ => false

def filterAt (d b : Nat) (R : CSR) : CSR := R.filter (fun r => r.matchAt d b)

/-- OR further bytes into the code (invalid codes) -/
def packFrom (d : Nat) : Bytes → Nat
  | [] => 0
  | b :: bs => b * 256 ^ d + packFrom (d + 1) bs

/-- little-endian packing of a code's bytes -/
def packLE (bs : Bytes) : Nat := packFrom 0 bs

/-- `(*Codec).Decode`: (code, consumed, valid) -/
def decodeAux : Nat → CSR → Nat → Nat → Bytes → Nat × Nat × Bool
  | 0, _, d, code, _ => (code, d, false)
  | _ + 1, _, d, code, [] => (code, d, false)
  | fuel + 1, R, d, code, b :: s =>
    let code := code + b * 256 ^ d
    let R' := filterAt d b R
    if R'.isEmpty then
      let taken := s.take (minLength R - (d + 1))
      (code + packFrom (d + 1) taken, d + 1 + taken.length, false)
    else if R'.all (fun r => r.low.length == d + 1) then (code, d + 1, true)
    else decodeAux fuel R' (d + 1) code s

def decode (csr : CSR) (s : Bytes) : Nat × Nat × Bool := decodeAux 4 csr 0 0 s

/-- the next `n` bytes of a packed code -/
def unpack : Nat → Nat → Bytes
  | 0, _ => []
  | n + 1, code => (code % 256) :: unpack n (code / 256)

/-- `(*Codec).AppendCode` (the bytes appended) -/
def appendAux : Nat → CSR → Nat → Nat → Bytes
  | 0, _, _, _ => []
  | fuel + 1, R, d, code =>
    let b := code % 256
    let R' := filterAt d b R
    if R'.isEmpty then b :: unpack (minLength R - (d + 1)) (code / 256)
    else if R'.all (fun r => r.low.length == d + 1) then [b]
    else b :: appendAux fuel R' (d + 1) (code / 256)

def appendCode (csr : CSR) (code : Nat) : Bytes := appendAux 4 csr 0 code

end PdfVerif.FNT

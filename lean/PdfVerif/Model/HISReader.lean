import PdfVerif.Model.HISXref
import PdfVerif.Model.HISObj
/-!
# Model of the reading side of `xref.go` and `reader.go` on the bytes of a file

`decodeXRefSection`, `readXRefTable`, `checkXRefStreamDict`, `decodeXRefStream`,
`readXRefStream`, `findXRef`/`lastOccurence`, `readXRef`, `findHeaderOffset`,
`ReadHeaderVersion`, `Reader.get`, `getFromObjStm`/`getObjStm`, `safeGetInteger`/`resolve`.

Stream filters are not modelled: `decodedAt` gives, for the absolute offset of a stream's data,
the decoded bytes (the harness supplies them from its own serialiser; a stream without
`/Filter` is its raw bytes).
-/
namespace PdfVerif.HIS
open PdfVerif

/-- overwrite (the Go map assignment `xref[n] = e`) -/
def setEntry {β} (m : List (Nat × β)) (n : Nat) (e : β) : List (Nat × β) := (n, e) :: m

/-! ## classic tables -/

/-- `strconv.ParseUint(s, 10, 16)` on the five generation characters -/
def parseGen (bs : Bytes) : Option Nat :=
  if bs.isEmpty || !bs.all isDigit then none
  else let v := digitsVal bs 0; if v ≤ Gen.his_xref_maxGeneration then some v else none

def repairPrefix : Bytes := [48, 48, 48, 48, 48, 48, 48, 48, 48, 48, 32, 54, 53, 53, 51, 54, 32]  -- "0000000000 65536 "

/-- `decodeXRefSection`: entries `i = cur … end-1`; returns the map and the rest of the input.
    `first` = `start` of the subsection (for the off-by-one repair). -/
def decodeXRefSection : Nat → XMap → Bytes → (first cur end_ offByOne : Nat) → Except Err (XMap × Bytes)
  | 0, m, inp, _, _, _, _ => .ok (m, inp)
  | k+1, m, inp, first, cur, end_, offByOne =>
    if cur ≥ end_ then .ok (m, inp) else
    match m.lookup cur with
    | some _ =>
      -- Discard(20)
      if inp.length < 20 then .error .eof
      else decodeXRefSection k m (inp.drop 20) first (cur + 1) end_ offByOne
    | none =>
      let buf := inp.take 20
      if buf.length < 20 then .error .malformed else
      match parseInt64 (buf.take 10) with
      | none => .error .other              -- strconv error, not a MalformedFileError
      | some a =>
        let genField := (buf.drop 11).take 5
        let fixed : Option (Nat × Nat) :=    -- generation and the type byte
          match parseGen genField with
          | some b => some (b, buf.getD 17 0)
          | none => if isPrefixOf repairPrefix buf then some (Gen.his_xref_maxGeneration, 102) else none
        match fixed with
        | none => .error .other
        | some (b, c) =>
          let offByOne := if cur == first && first == 1 && a == 0 && b == Gen.his_xref_maxGeneration then 1 else offByOne
          let adv := if buf.getD 19 0 == 10 || buf.getD 19 0 == 13 then 20 else 19
          if c == 102 then
            decodeXRefSection k (setEntry m (cur - offByOne) { pos := -1, gen := b, inStream := 0 }) (inp.drop adv) first (cur + 1) end_ offByOne
          else if c == 110 then
            decodeXRefSection k (setEntry m (cur - offByOne) { pos := a, gen := b, inStream := 0 }) (inp.drop adv) first (cur + 1) end_ offByOne
          else .error .malformed

def kwXrefT : Bytes := [120, 114, 101, 102]
def kwTrailerT : Bytes := [116, 114, 97, 105, 108, 101, 114]

/-- `ReadInteger` inside `readXRefTable`: its errors are wrapped (`Wrap`), which leaves a
    malformed error malformed and turns the bare `io.EOF` into an ordinary error -/
def readIntWrapped (inp : Bytes) : Except Err (Int × Bytes) :=
  match readInt inp with
  | .error .eof => .error .other
  | r => r

/-- the subsection loop of `readXRefTable` -/
def tableLoop : Nat → XMap → Bytes → Except Err (XMap × Bytes)
  | 0, _, _ => .error .other
  | fuel+1, m, inp =>
    match inp with
    | [] => .ok (m, inp)
    | c :: _ =>
      if !isDigit c then .ok (m, inp) else
      match readIntWrapped inp with
      | .error e => .error e
      | .ok (start, r) =>
      match readIntWrapped r with
      | .error e => .error e
      | .ok (length, r) =>
      if start < 0 || length < 0 || start ≥ Gen.his_xref_maxXRefSize || start + length > Gen.his_xref_maxXRefSize then
        .error .malformed
      else
      match skipWS r with
      | (_, true) => .error .eof
      | (r, false) =>
      match decodeXRefSection length.toNat m r start.toNat start.toNat (start + length).toNat 0 with
      | .error e => .error e
      | .ok (m, r) =>
      match skipWS r with
      | (_, true) => .error .eof
      | (r, false) => tableLoop fuel m r

/-- `readXRefTable`: the map and the trailer dictionary -/
def readXRefTable (m : XMap) (inp : Bytes) : Except Err (XMap × List (Bytes × Obj)) :=
  if !startsWith inp kwXrefT then .error .malformed else
  match skipWS (inp.drop 4) with
  | (_, true) => .error .eof
  | (r, false) =>
  match tableLoop (r.length + 1) m r with
  | .error e => .error e
  | .ok (m, r) =>
  match skipWS r with
  | (_, true) => .error .eof
  | (r, false) =>
  if !startsWith r kwTrailerT then .error .malformed else
  match skipWS (r.drop 7) with
  | (_, true) => .error .eof
  | (r, false) =>
  match readDict (objFuel r) 0 r with
  | .error e => .error e
  | .ok (d, _) => .ok (m, d)

/-! ## cross-reference streams -/

def kSize : Bytes := [83, 105, 122, 101]
def kW : Bytes := [87]
def kIndex : Bytes := [73, 110, 100, 101, 120]
def kPrev : Bytes := [80, 114, 101, 118]
def kXRefStm : Bytes := [88, 82, 101, 102, 83, 116, 109]
def kFilter : Bytes := [70, 105, 108, 116, 101, 114]
def kN : Bytes := [78]
def kFirst : Bytes := [70, 105, 114, 115, 116]

/-- `dict[key]` where a null value counts as absent (`== nil` tests) -/
def dictGet (k : Bytes) (d : List (Bytes × Obj)) : Option Obj :=
  match dictLookup k d with
  | some .null => none
  | r => r

def indexPairs (size : Int) : List Obj → Option (List (Nat × Nat))
  | [] => some []
  | [_] => none
  | .int s :: .int n :: rest =>
    if s < 0 || n ≤ 0 || s > size || n > size - s then none
    else (indexPairs size rest).map fun ps => (s.toNat, n.toNat) :: ps
  | _ => none

/-- `checkXRefStreamDict`: the three widths and the subsections -/
def checkXRefStreamDict (d : List (Bytes × Obj)) (rawLen : Nat) : Except Err (Nat × Nat × Nat × List (Nat × Nat)) :=
  match dictLookup kSize d with
  | some (.int size) =>
    if size < 0 || size > Gen.his_xref_maxXRefSize then .error .malformed else
    match dictLookup kW d with
    | some (.arr [.int w0, .int w1, .int w2]) =>
      if w0 < 0 || w0 > 8 || w1 < 0 || w1 > 8 || w2 < 0 || w2 > 8 then .error .malformed
      else if w0 + w1 + w2 == 0 then .error .malformed
      else
        let ss : Option (List (Nat × Nat)) :=
          match dictGet kIndex d with
          | none => some [(0, size.toNat)]
          | some (.arr ind) => indexPairs size ind
          | some _ => none
        match ss with
        | none => .error .malformed
        | some ss =>
          let maxEntries := min Gen.his_xref_maxXRefSize (Gen.limits_XRefEntriesBase + Gen.limits_XRefEntriesPerByte * rawLen)
          let total := ss.foldl (fun acc p => acc + p.2) 0
          if total > maxEntries then .error .malformed
          else .ok (w0.toNat, w1.toNat, w2.toNat, ss)
    | _ => .error .malformed
  | _ => .error .malformed

/-- `decodeInt`: big-endian, `none` if the value exceeds `MaxInt64` -/
def decodeInt (bs : Bytes) : Option Nat :=
  let v := bs.foldl (fun acc b => acc * 256 + b) 0
  if v > 9223372036854775807 then none else some v

/-- the fields of one entry of a cross-reference stream: the `xRefEntry` it stands for, or
    `none` if `decodeXRefStream` skips it (a field overflows `int64`, a generation above
    `maxGeneration`, an object-stream number at or above `maxXRefSize`, an unknown type) -/
def decodeEntry (buf : Bytes) (w0 w1 w2 : Nat) : Option XEntry :=
  match decodeInt (buf.take w0), decodeInt ((buf.drop w0).take w1), decodeInt ((buf.drop (w0 + w1)).take w2) with
  | some tp, some a, some b =>
    let tp := if w0 == 0 then 1 else tp
    if tp == 0 then
      if b > Gen.his_xref_maxGeneration then none else some { pos := -1, gen := b, inStream := 0 }
    else if tp == 1 then
      if b > Gen.his_xref_maxGeneration then none else some { pos := a, gen := b, inStream := 0 }
    else if tp == 2 then
      if a ≥ Gen.his_xref_maxXRefSize then none else some { pos := b, gen := 0, inStream := a }
    else none
  | _, _, _ => none

/-- one entry of `decodeXRefStream`: `if xref[i] != nil { continue }`, then decode and store -/
def xrefStreamEntry (m : XMap) (i : Nat) (buf : Bytes) (w0 w1 w2 : Nat) : XMap :=
  match decodeEntry buf w0 w1 w2 with
  | some e => setIfAbsent m i e
  | none => m

def xrefStreamSub : Nat → XMap → Bytes → (cur wTotal w0 w1 w2 : Nat) → Except Err (XMap × Bytes)
  | 0, m, data, _, _, _, _, _ => .ok (m, data)
  | k+1, m, data, cur, wTotal, w0, w1, w2 =>
    -- io.ReadFull: io.EOF if nothing is left, io.ErrUnexpectedEOF if the entry is cut
    if data.length < wTotal then (if data.isEmpty then .error .eof else .error .other)
    else xrefStreamSub k (xrefStreamEntry m cur (data.take wTotal) w0 w1 w2) (data.drop wTotal) (cur + 1) wTotal w0 w1 w2

/-- `decodeXRefStream` -/
def decodeXRefStream (m : XMap) (data : Bytes) (w0 w1 w2 : Nat) : List (Nat × Nat) → Except Err XMap
  | [] => .ok m
  | (start, size) :: ss =>
    match xrefStreamSub size m data start (w0 + w1 + w2) w0 w1 w2 with
    | .error e => .error e
    | .ok (m, data) => decodeXRefStream m data w0 w1 w2 ss

/-- the data of a stream after its filters -/
def streamData (file : Bytes) (decodedAt : Nat → Option Bytes) (d : List (Bytes × Obj)) (start len : Nat) : Option Bytes :=
  match dictGet kFilter d with
  | none => some ((file.drop start).take len)
  | some _ => decodedAt start

/-- the `getInt` of a scanner made while the cross-reference table is still empty: only direct
    integers (and what `asInteger` makes of a reference to nothing, a null or a real) -/
def getIntNoXref : Obj → Except Err Int
  | .int n => .ok n
  | .null => .ok 0
  | .ref _ _ => .ok 0
  | _ => .error .malformed

/-- `readXRefStream`: new map and the stream dictionary -/
def readXRefStream (file : Bytes) (decodedAt : Nat → Option Bytes) (m : XMap) (pos : Nat) :
    Except Err (XMap × List (Bytes × Obj)) :=
  match readIndirect file pos getIntNoXref false with
  | .error e => .error e
  | .ok ind =>
    match ind.val with
    | .obj _ => .error .malformed
    | .stream d start len =>
      match checkXRefStreamDict d len with
      | .error e => .error e
      | .ok (w0, w1, w2, ss) =>
        match streamData file decodedAt d start len with
        | none => .error .other
        | some data =>
          match decodeXRefStream m data w0 w1 w2 ss with
          | .error e => .error e
          | .ok m => .ok (m, d)

/-! ## `findXRef`, `readXRef` -/

def indexOf (pat : Bytes) : Bytes → Option Nat
  | [] => if pat.isEmpty then some 0 else none
  | c :: cs => if isPrefixOf pat (c :: cs) then some 0 else (indexOf pat cs).map (· + 1)

def lastIndexOfFrom (pat : Bytes) : Nat → Bytes → Option Nat → Option Nat
  | _, [], best => best
  | i, c :: cs, best => lastIndexOfFrom pat (i + 1) cs (if isPrefixOf pat (c :: cs) then some i else best)

/-- `lastOccurence` (the chunked backwards search finds the last occurrence in the file) -/
def lastOccurrence (pat : Bytes) (file : Bytes) : Option Nat := lastIndexOfFrom pat 0 file none

def kwStartxrefT : Bytes := [115, 116, 97, 114, 116, 120, 114, 101, 102]

/-- `findXRef`: absolute position of the newest cross-reference section -/
def findXRef (file : Bytes) (hdr : Nat) : Except Err Nat :=
  match lastOccurrence kwStartxrefT file with
  | none => .error .malformed
  | some p =>
    match readInt (file.drop (p + 9)) with
    | .error .eof => .error .other          -- Wrap of a bare io.EOF
    | .error e => .error e
    | .ok (x, _) =>
      if x ≤ 0 || x ≥ (file.length : Int) - hdr then .error .malformed
      else .ok (x.toNat + hdr)

structure XState where
  xref : XMap := []
  trailer : Option (List (Bytes × Obj)) := none    -- the dictionary of the first section read

def kRoot : Bytes := [82, 111, 111, 116]
def kEncrypt : Bytes := [69, 110, 99, 114, 121, 112, 116]
def kInfo : Bytes := [73, 110, 102, 111]
def kID : Bytes := [73, 68]

/-- `Name.isSecondClassName` / `isThirdClassName` -/
def isSpecialName (k : Bytes) : Bool :=
  (k.take 5).any (fun c => c == 58 || c == 95) || (match k with | 88 :: 88 :: _ => true | _ => false)

def keepTrailerKey (k : Bytes) : Bool :=
  k == kRoot || k == kEncrypt || k == kInfo || k == kID || isSpecialName k

/-- one iteration of the loop in `readXRef`: read the section at `start` -/
def xrefStep (file : Bytes) (hdr : Nat) (decodedAt : Nat → Option Bytes) (st : XState) (seen : List Int) (start : Int) :
    Except Err (XState × List Int × Option Int) :=
  if start < 0 then .error .other else
  let pos := start.toNat
  let inp := file.drop pos
  let res : Except Err (XMap × List (Bytes × Obj) × List Int) :=
    if inp.take 4 == kwXrefT then
      match readXRefTable st.xref inp with
      | .error e => .error e
      | .ok (m, d) =>
        match dictLookup kXRefStm d with
        | none => .ok (m, d, seen)
        | some (.int z) =>
          let stmStart : Int := z + hdr
          if seen.contains stmStart then .ok (m, d, seen)
          else if stmStart < 0 then .error .other
          else
            match readXRefStream file decodedAt m stmStart.toNat with
            | .error e => .error e
            | .ok (m, _) => .ok (m, d, stmStart :: seen)
        | some _ => .error .malformed
    else
      match readXRefStream file decodedAt st.xref pos with
      | .error e => .error e
      | .ok (m, d) => .ok (m, d, seen)
  match res with
  | .error e => .error e
  | .ok (m, d, seen) =>
    let tr := match st.trailer with
      | some t => some t
      | none => some (d.filter fun kv => keepTrailerKey kv.1)
    match dictGet kPrev d with
    | none => .ok ({ xref := m, trailer := tr }, seen, none)
    | some (.int p) => .ok ({ xref := m, trailer := tr }, seen, some p)
    | some _ => .error .malformed

/-- `readXRef` -/
def readXRef (file : Bytes) (hdr : Nat) (decodedAt : Nat → Option Bytes) : Except Err XState :=
  match findXRef file hdr with
  | .error e => .error e
  | .ok start =>
    match prevLoop file.length hdr (xrefStep file hdr decodedAt) (file.length + 1) {} [] start with
    | none => .error .other
    | some r => r

/-! ## `NewReader` (up to the cross-reference data) and `Reader.get` -/

def findHeaderOffset (file : Bytes) : Except Err Nat :=
  match indexOf pdfMagicR (file.take 1024) with
  | none => .error .malformed
  | some i => .ok i
where pdfMagicR : Bytes := [37, 80, 68, 70, 45]

def validVersions : List Bytes :=
  [[49,46,48],[49,46,49],[49,46,50],[49,46,51],[49,46,52],[49,46,53],[49,46,54],[49,46,55],[50,46,48]]

/-- `ReadHeaderVersion` at the header: `ScanBytes` reports the end of the input as `io.EOF` -/
def readHeaderVersion (inp : Bytes) : Except Err Unit :=
  let rec span : Bytes → Bytes × Bytes
    | [] => ([], [])
    | c :: cs => if isDigit c || c == 46 then let (a, b) := span cs; (c :: a, b) else ([], c :: cs)
  let (tok, rest) := span (inp.drop 5)
  if rest.isEmpty then .error .eof
  else if validVersions.contains tok then .ok () else .error .malformed

structure Opened where
  hdr : Nat
  xref : XMap
  trailer : List (Bytes × Obj)

/-- the part of `NewReader` that the history property depends on; an `io.EOF` is wrapped on
    its way out (`Wrap(err, "xref")`), so it surfaces as an ordinary error -/
def openFile (file : Bytes) (decodedAt : Nat → Option Bytes) : Except Err Opened :=
  match findHeaderOffset file with
  | .error e => .error e
  | .ok hdr =>
    match readHeaderVersion (file.drop hdr) with
    | .error e => .error e
    | .ok () =>
      match readXRef file hdr decodedAt with
      | .error .eof => .error .other
      | .error e => .error e
      | .ok st => .ok { hdr := hdr, xref := st.xref, trailer := (st.trailer.getD []) }

/-- `scanner.readReferenceTail` (library HEAD 7ec872d) on the decoded object stream `data`, the
    scanner standing at `memberEnd` behind the integer `a`; `endOff` is the offset of the next
    member (`none`: there is none).  White space and comments, an integer (`ReadInteger`: sign, any
    number of digits), white space and comments, `R`; the `R` must end at or before `endOff`; if
    it ends before it (or there is no limit) the next byte must not be regular; `a` and the
    generation in range.  A malformed-file error or the end of the data at any step means "not a
    reference" (the model's byte source has no other read errors). -/
def readReferenceTail (data : Bytes) (memberEnd : Nat) (endOff : Option Nat) (a : Int) : Option (Nat × Nat) :=
  match skipWS (data.drop memberEnd) with
  | (_, true) => none
  | (r1, false) =>
    match readInt r1 with
    | .error _ => none
    | .ok (b, r2) =>
      match skipWS r2 with
      | (_, true) => none
      | (82 :: r4, false) =>
        let pos := data.length - r4.length
        let tooFar : Bool := match endOff with | some e => pos > e | none => false
        let mustLook : Bool := match endOff with | some e => pos < e | none => true
        let follows : Bool := match r4 with | [] => true | c :: _ => !isRegular c
        if tooFar then none
        else if mustLook && !follows then none
        else if a < 0 || a ≥ Gen.his_xref_maxXRefSize || b < 0 || b > Gen.his_xref_maxGeneration then none
        else some (a.toNat, b.toNat)
      | _ => none

/-- the look-ahead `getFromObjStm` applies to a member that was read as the integer `a`:
    `offsAbs` are the offsets of all members, `target` this member's, `memberEnd` where the
    integer ended -/
def memberValue (data : Bytes) (offsAbs : List Nat) (target memberEnd : Nat) (a : Int) : Obj :=
  let endOff : Option Nat :=
    match offsAbs.filter (fun x => x > target) with
    | [] => none
    | x :: xs => some (xs.foldl min x)
  match readReferenceTail data memberEnd endOff a with
  | some (n, g) => .ref n g
  | none => .int a

/-- the `N` pairs of integers at the start of an object stream (`getObjStm`) -/
def readIndex : Nat → Bytes → List (Nat × Nat) → Except Err (List (Nat × Nat) × Bytes)
  | 0, inp, acc => .ok (acc.reverse, inp)
  | k+1, inp, acc =>
    match readInt inp with
    | .error e => .error e
    | .ok (no, r) =>
      match readInt r with
      | .error e => .error e
      | .ok (offs, r) =>
        if no < 0 || no > 4294967295 || offs < 0 || offs > 9223372036854775807 then .error .malformed
        else readIndex k r ((no.toNat, offs.toNat) :: acc)

mutual
/-- `Reader.get` -/
def readerGet (file : Bytes) (o : Opened) (decodedAt : Nat → Option Bytes) :
    Nat → (num gen : Nat) → (canObjStm scalarOnly : Bool) → Except Err Val
  | 0, _, _, _, _ => .error .other
  | fuel+1, num, gen, canObjStm, scalarOnly =>
    match getDecision o.xref num gen with
    | none => .ok (.obj .null)
    | some e =>
      if e.inStream != 0 then
        if !canObjStm then .error .malformed
        else fromObjStm file o decodedAt fuel num e.inStream
      else
        match readIndirect file (e.pos.toNat + o.hdr) (resolveInt file o decodedAt fuel canObjStm) scalarOnly with
        | .error .eof => .error .other      -- wrapped by the deferred `Wrap`
        | .error err => .error err
        | .ok ind => if ind.num != num || ind.gen != gen then .error .malformed else .ok ind.val
/-- `safeGetInteger(lengthGetter{r}, canObjStm)`: the integer, or the error class (`asInteger` and
    the cycle check make malformed-file errors; an error of `Reader.get` is handed on) -/
def resolveInt (file : Bytes) (o : Opened) (decodedAt : Nat → Option Bytes) :
    Nat → (canObjStm : Bool) → Obj → Except Err Int
  | 0, _, _ => .error .other
  | fuel+1, canObjStm, obj =>
    match obj with
    | .int n => .ok n
    | .ref n g =>
      match resolveRef file o decodedAt fuel canObjStm [] n g with
      | .ok (.obj (.int i)) => .ok i
      | .ok (.obj .null) => .ok 0
      | .ok _ => .error .malformed         -- rounding of reals is not modelled (never generated)
      | .error e => .error e
    | .null => .ok 0
    | _ => .error .malformed
/-- the loop of `resolvePath` through `lengthGetter` (scalar-only reads) -/
def resolveRef (file : Bytes) (o : Opened) (decodedAt : Nat → Option Bytes) :
    Nat → (canObjStm : Bool) → List (Nat × Nat) → (num gen : Nat) → Except Err Val
  | 0, _, _, _, _ => .error .other
  | fuel+1, canObjStm, seen, num, gen =>
    if seen.contains (num, gen) then .error .malformed else
    match readerGet file o decodedAt fuel num gen canObjStm true with
    | .error e => .error e
    | .ok (.obj (.ref n g)) => resolveRef file o decodedAt fuel canObjStm ((num, gen) :: seen) n g
    | .ok v => .ok v
/-- `getFromObjStm` -/
def fromObjStm (file : Bytes) (o : Opened) (decodedAt : Nat → Option Bytes) :
    Nat → (num stmNum : Nat) → Except Err Val
  | 0, _, _ => .error .other
  | fuel+1, num, stmNum =>
    -- resolve(r, sRef, false): the container itself is read normally, not from an object stream
    match readerGet file o decodedAt fuel stmNum 0 false false with
    | .error e => .error e
    | .ok (.obj _) => .error .malformed
    | .ok (.stream d start len) =>
      match dictLookup kN d with
      | some (.int n) =>
        if n < 0 || n > 10000 then .error .malformed else
        match streamData file decodedAt d start len with
        | none => .error .other
        | some data =>
          match readIndex n.toNat data [] with
          | .error .eof => .error .other
          | .error e => .error e
          | .ok (idx, rest) =>
            let pos := data.length - rest.length
            match dictLookup kFirst d with
            | some (.int first) =>
              if first < pos then .error .malformed else
              match idx.find? (fun p => p.1 == num) with
              | none => .error .malformed
              | some (_, offs) =>
                let target := offs + first.toNat
                -- delta = target - pos ≥ 0 because offs ≥ 0 and first ≥ pos
                if target > data.length then .error .other    -- Discard runs into the end: io.EOF, wrapped
                else
                  match readObject (objFuel data) 0 (data.drop target) with
                  | .error .eof => .error .other
                  | .error e => .error e
                  | .ok (.int a, r) =>
                    .ok (.obj (memberValue data (idx.map fun p => p.2 + first.toNat) target (data.length - r.length) a))
                  | .ok (v, _) => .ok (.obj v)
            | _ => .error .malformed
      | _ => .error .malformed
end

end PdfVerif.HIS

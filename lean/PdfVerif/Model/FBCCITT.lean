import PdfVerif.Basic
import PdfVerif.Generated.FactsFB
/-!
Model of `internal/filter/ccittfax` (params.go, writer.go, reader.go) with the code tables of
tables.go taken from `Generated.FactsFB` (packed naturals with accessors).

* encoder: `Writer.Write`/`writeRow`/`encode1DLine`/`encode1DRun`/`encode2DLineG3`/`Close`
  (row framing, the padding-bit check, `MaxRows`, EOL, tag bits, byte alignment, EOFB/RTC);
* decoder: the bit window (`peekBits`/`consumeBits` incl. the "zeros after the first error"
  rule), `decodeRun`, `decodeFullRun` (64-iteration cap), `decodeG3ScanLine1D`,
  `decodeG3ScanLine2D`, `decodeG4ScanLine`, `decode2D` (pass/horizontal/vertical/extension, the
  no-forward-progress guard), `fillRowBits`, the reference line copy and `Reader.Read`'s row loop.

Bits are `Bool`s, most significant first.  Pixel values are 0/1 as stored (`getPixel`).
-/
namespace PdfVerif.FB
open PdfVerif

abbrev Bits := List Bool

structure CParams where
  columns : Nat            -- after `Columns == 0 → 1728`
  k : Int
  maxRows : Nat            -- 0 = no limit
  endOfLine : Bool
  byteAlign : Bool
  blackIs1 : Bool
  ignoreEOB : Bool
  deriving Repr, DecidableEq

def CParams.whiteBit (p : CParams) : Nat := if p.blackIs1 then 0 else 1
def CParams.lineBytes (p : CParams) : Nat := (p.columns + 7) / 8

/-! ### bit helpers -/

/-- `writeBits(code, length)`: the `length` low bits of `code`, most significant first -/
def codeBits (code : Nat) : (width : Nat) → Bits
  | 0 => []
  | w + 1 => (code / 2 ^ w % 2 == 1) :: codeBits code w

def bitsToNat (bs : Bits) : Nat := bs.foldl (fun acc b => 2 * acc + (if b then 1 else 0)) 0

def byteBits (b : Nat) : Bits := codeBits b 8

def bytesToBits (bs : Bytes) : Bits := bs.flatMap byteBits

/-- full bytes of a bit string and the leftover (fewer than 8 bits) -/
def packBits : Bits → Bytes × Bits
  | b0 :: b1 :: b2 :: b3 :: b4 :: b5 :: b6 :: b7 :: rest =>
    let (bytes, left) := packBits rest
    (bitsToNat [b0, b1, b2, b3, b4, b5, b6, b7] :: bytes, left)
  | left => ([], left)

/-- `flushBits`: pad the pending bits with zeros to one byte -/
def flushPending (pending : Bits) : Bytes :=
  if pending.isEmpty then [] else [bitsToNat (pending ++ List.replicate (8 - pending.length) false)]

/-- pixels `0 … columns-1` of a line buffer (`getPixel`; beyond the buffer: white) -/
def pixelsOf (p : CParams) (line : Bytes) : List Nat :=
  let bits := (bytesToBits line).map fun b => if b then 1 else 0
  (bits ++ List.replicate (p.columns - bits.length) p.whiteBit).take p.columns

/-! ### encoder -/

/-- maximal runs of equal pixels -/
def groupRunsGo : (cur n : Nat) → List Nat → List Nat
  | _, n, [] => [n]
  | cur, n, q :: rest => if q = cur then groupRunsGo cur (n + 1) rest else n :: groupRunsGo q 1 rest

/-- `encode1DLine`: run lengths, alternating, white first (the first may be 0) -/
def runs1D (white : Nat) : List Nat → List Nat
  | [] => []
  | p :: rest => if p = white then groupRunsGo p 1 rest else 0 :: groupRunsGo p 1 rest

def extCode (i : Nat) : Bits := codeBits (Gen.ccitt_extMakeupEncodeTable_Code i) (Gen.ccitt_extMakeupEncodeTable_Width i)
def makeupCode (white : Bool) (i : Nat) : Bits :=
  if white then codeBits (Gen.ccitt_whiteMakeupEncodeTable_Code i) (Gen.ccitt_whiteMakeupEncodeTable_Width i)
  else codeBits (Gen.ccitt_blackMakeupEncodeTable_Code i) (Gen.ccitt_blackMakeupEncodeTable_Width i)
def termCode (white : Bool) (i : Nat) : Bits :=
  if white then codeBits (Gen.ccitt_whiteTermEncodeTable_Code i) (Gen.ccitt_whiteTermEncodeTable_Width i)
  else codeBits (Gen.ccitt_blackTermEncodeTable_Code i) (Gen.ccitt_blackTermEncodeTable_Width i)

/-- `encode1DRun(runLength, runBit)`: `runLength/2560` copies of the last extended make-up code
(the `for runLength >= 2560` loop), then at most one extended and one ordinary make-up code, then
the terminating code -/
def encodeRun (white : Bool) (len : Nat) : Bits :=
  let big := (List.replicate (len / 2560) (extCode (Gen.ccitt_extMakeupEncodeTable_len - 1))).flatten
  let r := len % 2560
  let (ext, r) := if r ≥ 1792 then
      let i := (r - 1792) / 64
      (extCode i, r - (i + 28) * 64)
    else ([], r)
  let (mk, r) := if r ≥ 64 then (makeupCode white (r / 64 - 1), r % 64) else ([], r)
  big ++ ext ++ mk ++ termCode white r

/-- runs of one line, colours alternating from white -/
def encodeRuns : (white : Bool) → List Nat → Bits
  | _, [] => []
  | w, r :: rest => encodeRun w r ++ encodeRuns (!w) rest

def encode1DLine (p : CParams) (px : List Nat) : Bits := encodeRuns true (runs1D p.whiteBit px)

/-- `changingElements`: columns where the colour changes, imaginary white pixel before column 0 -/
def changesGo : (prev x : Nat) → List Nat → List Nat
  | _, _, [] => []
  | prev, x, c :: rest => if c ≠ prev then x :: changesGo c (x + 1) rest else changesGo prev (x + 1) rest

def changingElements (p : CParams) (px : List Nat) : List Nat := changesGo p.whiteBit 0 px

/-- `sort.Search(len(changes), changes[i] > a0)` on the (strictly increasing) list -/
def searchGT (changes : List Nat) (a0 : Int) : Nat := (changes.takeWhile fun (c : Nat) => decide ((c : Int) ≤ a0)).length

def changeAt (changes : List Nat) (columns i : Nat) : Nat :=
  match changes[i]? with | some c => c | none => columns

/-- `nextTwoChanges` -/
def nextTwoChanges (changes : List Nat) (columns : Nat) (a0 : Int) : Nat × Nat :=
  let idx := searchGT changes a0
  (changeAt changes columns idx, changeAt changes columns (idx + 1))

/-- `findB1B2FromChanges` -/
def findB1B2 (changes : List Nat) (columns : Nat) (a0 : Int) (currentBit whiteBit : Nat) : Nat × Nat :=
  let idx := searchGT changes a0
  let colourEven := 1 - whiteBit
  let idx := if idx < changes.length ∧ (decide (idx % 2 = 0) != decide (colourEven = 1 - currentBit)) then idx + 1 else idx
  (changeAt changes columns idx, changeAt changes columns (idx + 1))

def vertCode (delta : Int) : Bits :=
  if delta = 0 then codeBits 1 1
  else if delta = 1 then codeBits 3 3
  else if delta = 2 then codeBits 3 6
  else if delta = 3 then codeBits 3 7
  else if delta = -1 then codeBits 2 3
  else if delta = -2 then codeBits 2 6
  else codeBits 2 7

/-- `encode2DLineG3` -/
def encode2DGo (p : CParams) (refCh lineCh : List Nat) : (fuel : Nat) → (a0 : Int) → (cur : Nat) → Bits
  | 0, _, _ => []
  | fuel + 1, a0, cur =>
    if a0 < (p.columns : Int) then
      let (a1, a2) := nextTwoChanges lineCh p.columns a0
      let (b1, b2) := findB1B2 refCh p.columns a0 cur p.whiteBit
      let delta : Int := (a1 : Int) - b1
      if b2 < a1 then
        codeBits 1 4 ++ encode2DGo p refCh lineCh fuel b2 cur
      else if -3 ≤ delta ∧ delta ≤ 3 then
        vertCode delta ++ encode2DGo p refCh lineCh fuel a1 (1 - cur)
      else
        codeBits 1 3 ++ encodeRun (cur == p.whiteBit) (((a1 : Int) - max a0 0).toNat)
          ++ encodeRun (cur != p.whiteBit) (a2 - a1) ++ encode2DGo p refCh lineCh fuel a2 cur
    else []

def encode2DLine (p : CParams) (refPx px : List Nat) : Bits :=
  encode2DGo p (changingElements p refPx) (changingElements p px) (p.columns + 2) (-1) p.whiteBit

def eol12 : Bits := codeBits 1 12

inductive EncErr where
  | tooManyRows | paddingBits
  deriving Repr, DecidableEq

/-- the padding-bit check at the start of `writeRow` -/
def paddingOk (p : CParams) (line : Bytes) : Bool :=
  if p.columns % 8 ≠ 0 then
    match line[(p.columns - 1) / 8]? with
    | some b => b % 2 ^ (8 - p.columns % 8) == 0
    | none => true
  else true

/-- bits of one row as `writeRow` emits them (before alignment); `count2D` is threaded -/
def encodeRowBits (p : CParams) (count2D : Nat) (refPx px : List Nat) : Bits × Nat :=
  if p.k > 0 then
    let eol := if p.endOfLine then eol12 else []
    if (count2D : Int) ≥ p.k - 1 then (eol ++ [true] ++ encode1DLine p px, 0)
    else (eol ++ [false] ++ encode2DLine p refPx px, count2D + 1)
  else if p.k = 0 then
    ((if p.endOfLine then eol12 else []) ++ encode1DLine p px, count2D)
  else (encode2DLine p refPx px, count2D)

/-- `Close`: EOFB (K<0), six EOL (K=0) or six EOL+1 (K>0) unless `IgnoreEndOfBlock` -/
def endOfBlockBits (p : CParams) : Bits :=
  if p.ignoreEOB then []
  else if p.k < 0 then codeBits 4097 24
  else if p.k = 0 then (List.replicate 6 (codeBits 1 12)).flatten
  else (List.replicate 6 (codeBits 3 13)).flatten

/-- `Write` of complete rows followed by `Close`; returns the bytes written so far and the error
of `Write` if any.  A trailing partial row stays in the line buffer and is never written. -/
def encodeRowsGo (p : CParams) : (rows : List Bytes) → (numRows count2D : Nat) → (refPx : List Nat) → (pending : Bits)
    → Bytes × Bits × Option EncErr
  | [], _, _, _, pending => ([], pending, none)
  | row :: rest, numRows, count2D, refPx, pending =>
    if p.maxRows > 0 ∧ numRows ≥ p.maxRows then ([], pending, some .tooManyRows)
    else if !paddingOk p row then ([], pending, some .paddingBits)
    else
      let px := pixelsOf p row
      let (bits, c2) := encodeRowBits p count2D refPx px
      let (bytes, left) := packBits (pending ++ bits)
      let (bytes, left) := if p.byteAlign then (bytes ++ flushPending left, []) else (bytes, left)
      let (more, pend, err) := encodeRowsGo p rest (numRows + 1) c2 px left
      (bytes ++ more, pend, err)

def splitRows (n : Nat) : (fuel : Nat) → Bytes → List Bytes
  | 0, _ => []
  | fuel + 1, data => if data.length < n ∨ n = 0 then [] else data.take n :: splitRows n fuel (data.drop n)

/-- the whole encoder: `NewWriter`, one or more `Write`s (chunking does not matter: rows are
assembled in `w.line`), `Close`.  On a `Write` error the caller sees the error; `Close` is still
modelled (the harness closes the writer). -/
def encodeAll (p : CParams) (data : Bytes) : Bytes × Option EncErr :=
  let rows := splitRows p.lineBytes (data.length + 1) data
  let whiteRow := List.replicate p.columns p.whiteBit
  let (bytes, pending, err) := encodeRowsGo p rows 0 0 whiteRow []
  -- a partial row left in w.line triggers the MaxRows check as well
  let err := match err with
    | some e => some e
    | none => if data.length % p.lineBytes ≠ 0 ∧ p.maxRows > 0 ∧ rows.length ≥ p.maxRows then some .tooManyRows else none
  let (tail, left) := packBits (pending ++ endOfBlockBits p)
  (bytes ++ tail ++ flushPending left, err)

/-! ### decoder -/

/-- reader state: bit window (`current`/`validBits`), unread source, error
(0 = nil, 1 = io.EOF, 2 = a decoding error), line buffer as pixels (length a multiple of 8),
`srcErr` (0 = nil, 1 = the source is exhausted) and `fake` = `fakeBits`, the number of made-up
zero bits at the end of the window -/
structure Rd where
  win : Bits
  src : Bytes
  err : Nat
  line : Bits
  srcErr : Nat := 0
  fake : Nat := 0
  deriving Repr

/-- `peekBits(n)`: load bytes while `validBits < n`; after the first error zeros are shifted in.
The end of the source is remembered in `srcErr` and the made-up bits are counted; it becomes the
reader's error only when made-up bits are consumed (`Rd.consume`): the look-ahead may run past
the end of the data while real bits are still in the window. -/
def Rd.load (r : Rd) (n : Nat) : (fuel : Nat) → Rd
  | 0 => r
  | fuel + 1 =>
    if r.win.length < n then
      if r.err = 0 ∧ r.srcErr = 0 then
        match r.src with
        | b :: rest => Rd.load { r with win := r.win ++ byteBits b, src := rest } n fuel
        | [] => Rd.load { r with win := r.win ++ List.replicate 8 false, srcErr := 1, fake := r.fake + 8 } n fuel
      else if r.srcErr ≠ 0 then Rd.load { r with win := r.win ++ List.replicate 8 false, fake := r.fake + 8 } n fuel
      else Rd.load { r with win := r.win ++ List.replicate 8 false } n fuel
    else r

def Rd.peek (r : Rd) (n : Nat) : Nat × Rd :=
  let r := r.load n 4
  (bitsToNat (r.win.take n), r)

def Rd.consume (r : Rd) (n : Nat) : Rd :=
  let r := if r.win.length < n then r.load n 4 else r
  let r := { r with win := r.win.drop n }
  if r.win.length < r.fake then { r with fake := r.win.length, err := if r.err = 0 then r.srcErr else r.err } else r

def Rd.readBits (r : Rd) (n : Nat) : Nat × Rd :=
  let (v, r) := r.peek n
  (v, r.consume n)

def Rd.bitsLeft (r : Rd) : Nat := r.win.length + 8 * r.src.length

/-- `waitForOne` -/
def Rd.waitForOne (r : Rd) : (fuel : Nat) → Rd
  | 0 => r
  | fuel + 1 =>
    if r.err = 0 then
      let (v, r) := r.readBits 1
      if v = 0 then r.waitForOne fuel else r
    else r

def setRange : Bits → Nat → Nat → Bits
  | [], _, _ => []
  | b :: rest, s, e => (if s = 0 ∧ 0 < e then true else b) :: setRange rest (s - 1) (e - 1)

/-- `fillRowBits(start, end, fill)` -/
def fillRow (line : Bits) (start stop : Int) (fill : Bool) : Bits :=
  if start ≥ stop then line
  else
    let req := (Int.tdiv (stop + 7) 8).toNat * 8
    let line := line ++ List.replicate (req - line.length) false
    if fill then setRange line start.toNat stop.toNat else line

/-- `decodeRun(isWhite)`: run length and state; an all-zero table entry is an invalid code -/
def Rd.decodeRun (r : Rd) (isWhite : Bool) : Nat × Nat × Rd :=
  let (value, r) := if isWhite then r.peek 12 else r.peek 13
  let (st, w, prm) := if isWhite
    then (Gen.ccitt_whiteTable_State value, Gen.ccitt_whiteTable_Width value, Gen.ccitt_whiteTable_Param value)
    else (Gen.ccitt_blackTable_State value, Gen.ccitt_blackTable_Width value, Gen.ccitt_blackTable_Param value)
  if w = 0 then (0, st, { r with err := 2 })
  else (prm, st, r.consume w)

def isTermOrEOL (st : Nat) : Bool := st == Gen.ccitt_S_TermW || st == Gen.ccitt_S_TermB || st == Gen.ccitt_S_EOL

/-- `decodeFullRun(isWhite)`: at most `Columns/64 + 2` codes (the callers pass that as `iter`) -/
def Rd.decodeFullRun (r : Rd) (columns : Nat) (isWhite : Bool) : (iter : Nat) → (total : Nat) → Nat × Rd
  | 0, total => (total, r)
  | iter + 1, total =>
    let (len, st, r) := r.decodeRun isWhite
    let total := total + len
    if isTermOrEOL st || r.err ≠ 0 then (total, r)
    else if total > columns then (total, r)
    else Rd.decodeFullRun r columns isWhite iter total

/-- `alignRow`: skip the fill bits after a completed row when EncodedByteAlign is set (the input
is loaded bytewise, so `validBits % 8` bits remain up to the byte boundary) -/
def Rd.alignRow (r : Rd) (p : CParams) : Rd :=
  if p.byteAlign ∧ r.err = 0 then r.consume (r.win.length % 8) else r

def isMakeUp (st : Nat) : Bool := st == Gen.ccitt_S_MakeUpW || st == Gen.ccitt_S_MakeUpB || st == Gen.ccitt_S_MakeUp

/-- `decodeG3ScanLine1D` (the caller has cleared the line); `needTerm`: the last code was a
make-up code, the terminating code that follows belongs to this row even if the row is full;
when the loop ends with a full row the fill bits are skipped -/
def Rd.decode1DGo (r : Rd) (p : CParams) : (fuel : Nat) → (xpos : Nat) → (isWhite : Bool) → (numEOL : Nat) → (needTerm : Bool) → Rd
  | 0, _, _, _, _ => r
  | fuel + 1, xpos, isWhite, numEOL, needTerm =>
    if (xpos < p.columns ∨ needTerm = true) ∧ r.err = 0 then
      let (len, st, r) := r.decodeRun isWhite
      let needTerm := isMakeUp st
      let len := min len (p.columns - xpos)
      let r := { r with line := fillRow r.line xpos (xpos + len) (isWhite != p.blackIs1) }
      let xpos := xpos + len
      if st = Gen.ccitt_S_EOL then
        let r := r.waitForOne (r.bitsLeft + 2)
        if xpos = 0 then
          let numEOL := numEOL + 1
          if !p.ignoreEOB ∧ numEOL ≥ 6 then { r with err := 1 }
          else Rd.decode1DGo r p fuel xpos isWhite numEOL needTerm
        else r
      else if st = Gen.ccitt_S_TermW then Rd.decode1DGo r p fuel xpos false numEOL needTerm
      else if st = Gen.ccitt_S_TermB then Rd.decode1DGo r p fuel xpos true numEOL needTerm
      else Rd.decode1DGo r p fuel xpos isWhite numEOL needTerm
    else if xpos = p.columns then r.alignRow p else r

def Rd.decode1D (r : Rd) (p : CParams) : Rd :=
  let r := { r with line := [] }
  Rd.decode1DGo r p (r.bitsLeft + 2) 0 true 0 false

/-- `int16(entry.Param)` -/
def int16 (v : Nat) : Int := if v ≥ 32768 then (v : Int) - 65536 else v

/-- the loop of `decode2D`; a changing element never lies beyond the end of the row (`a1` is
clamped to `Columns`, the first horizontal run is capped after `a0 = max(a0, 0)`), which is what
`row_length` (Props/C08fbc.lean) rests on -/
def Rd.decode2DGo (r : Rd) (p : CParams) (refCh : List Nat) : (fuel : Nat) → (a0 prevA0 : Int) → (cur prevCol : Nat) → Rd
  | 0, _, _, _, _ => r
  | fuel + 1, a0, prevA0, cur, prevCol =>
    if a0 < (p.columns : Int) ∧ r.err = 0 then
      if a0 = prevA0 ∧ cur = prevCol then { r with err := 2 }
      else
        let (value, r) := r.peek 7
        let st := Gen.ccitt_mainTable_State value
        if st = Gen.ccitt_S_EOL then (r.peek 11).2
        else
          let r := r.consume (Gen.ccitt_mainTable_Width value)
          let white := p.whiteBit
          let (b1, b2) := findB1B2 refCh p.columns a0 cur white
          if st = Gen.ccitt_S_Pass then
            let r := { r with line := fillRow r.line a0 b2 (cur == 1) }
            Rd.decode2DGo r p refCh fuel b2 a0 cur cur
          else if st = Gen.ccitt_S_Horiz then
            let (len, r) := r.decodeFullRun p.columns (cur == white) (p.columns / 64 + 2) 0
            let a0' : Int := max a0 0
            let len : Int := min (len : Int) ((p.columns : Int) - a0')
            let r := { r with line := fillRow r.line a0' (a0' + len) (cur == 1) }
            let a0' := a0' + len
            let (len2, r) := r.decodeFullRun p.columns (cur != white) (p.columns / 64 + 2) 0
            let len2 : Int := min (len2 : Int) ((p.columns : Int) - a0')
            let r := { r with line := fillRow r.line a0' (a0' + len2) (cur == 0) }
            Rd.decode2DGo r p refCh fuel (a0' + len2) a0 cur cur
          else if st = Gen.ccitt_S_Vert then
            let a1 : Int := min ((b1 : Int) + int16 (Gen.ccitt_mainTable_Param value)) (p.columns : Int)
            let r := { r with line := fillRow r.line a0 a1 (cur == 1) }
            Rd.decode2DGo r p refCh fuel a1 a0 (1 - cur) cur
          else if st = Gen.ccitt_S_Ext then { r with err := 2 }
          else Rd.decode2DGo r p refCh fuel a0 a0 cur cur
    else r

def Rd.decode2D (r : Rd) (p : CParams) (refLine : Bits) : Rd :=
  let refPx := (refLine.take p.columns).map fun b => if b then 1 else 0
  let r := { r with line := [] }
  Rd.decode2DGo r p (changingElements p refPx) (r.bitsLeft + 2) (-1) (-2) p.whiteBit (p.whiteBit ^^^ 1)

/-- `decodeG4ScanLine` -/
def Rd.decodeG4 (r : Rd) (p : CParams) (refLine : Bits) : Rd :=
  let r := (r.decode2D p refLine).alignRow p
  if !p.ignoreEOB then
    let (v, r) := r.peek 24
    if v = 4097 then { (r.consume 24) with err := 1 } else r
  else r

/-- the EOL-skipping loop of `decodeG3ScanLine2D` -/
def Rd.skipEOLs (r : Rd) : (fuel : Nat) → Rd
  | 0 => r
  | fuel + 1 =>
    if r.err = 0 then
      let (v, r) := r.peek 11
      if v = 0 then
        let r := r.consume 11
        (r.waitForOne (r.bitsLeft + 2)).skipEOLs fuel
      else r
    else r

/-- `decodeG3ScanLine2D`; EOL+1 followed by another EOL instead of a row (no run code starts
with eleven zeros) is the return-to-control sequence: clean end of the data -/
def Rd.decodeG32D (r : Rd) (p : CParams) (refLine : Bits) : Rd :=
  let r := r.skipEOLs (r.bitsLeft + 2)
  let (tp, r) := r.readBits 1
  if tp = 1 then
    if !p.ignoreEOB ∧ r.err = 0 then
      let (v, r) := r.peek 11
      if v = 0 then { r with line := [], err := 1 } else r.decode1D p
    else r.decode1D p
  else (r.decode2D p refLine).alignRow p

/-- `decodeScanLine` followed by `copy(r.refLine, r.line)` -/
def Rd.decodeScanLine (r : Rd) (p : CParams) (refLine : Bits) : Rd × Bits :=
  let r := if p.k < 0 then r.decodeG4 p refLine else if p.k = 0 then r.decode1D p else r.decodeG32D p refLine
  let n := min refLine.length r.line.length
  (r, r.line.take n ++ refLine.drop n)

/-- `Reader.Read` until it reports an error or EOF: the delivered rows, and the final error
(1 = io.EOF: clean end, 2 = decoding error → malformed) -/
def Rd.readRows (r : Rd) (p : CParams) : (fuel : Nat) → (numRows : Nat) → (refLine : Bits) → List Bytes × Nat
  | 0, _, _ => ([], 1)
  | fuel + 1, numRows, refLine =>
    if r.err = 0 ∧ (p.maxRows = 0 ∨ numRows < p.maxRows) then
      let (r, refLine) := r.decodeScanLine p refLine
      if r.line.isEmpty then ([], if r.err = 0 then 1 else r.err)
      else
        let (more, e) := Rd.readRows { r with line := [] } p fuel (numRows + 1) refLine
        ((packBits r.line).1 :: more, e)
    else ([], if r.err = 0 then 1 else r.err)

/-- `NewReader`: the rows `io.ReadAll` collects -/
def decodeRows (p : CParams) (data : Bytes) : List Bytes × Nat :=
  let refLine : Bits := if p.k ≠ 0 then List.replicate (p.lineBytes * 8) (!p.blackIs1) else []
  let r : Rd := { win := [], src := data, err := 0, line := [] }
  Rd.readRows r p (8 * data.length + 8) 0 refLine

/-- `NewReader` + `io.ReadAll` -/
def decodeAll (p : CParams) (data : Bytes) : Bytes × Nat :=
  ((decodeRows p data).1.flatten, (decodeRows p data).2)

/-- `BufferBytes(p)` for `Columns > 0` -/
def bufferBytes (p : CParams) : Nat :=
  if p.k ≠ 0 then 2 * p.lineBytes + p.columns * 8 else p.lineBytes

end PdfVerif.FB

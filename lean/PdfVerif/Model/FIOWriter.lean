import PdfVerif.Model.FIOXRef
/-!
Model of `writer.go` (work package FIO, properties C02/C03): the `Writer` state machine.

State: the bytes written so far (`out`, with the running `pos` of `posWriter`), the
cross-reference map and `nextRef`, the open stream (if any) with the `< 1024` byte buffering of
`streamWriter` and the three `/Length` strategies of `Placeholder`, and the `afterStream` list
of deferred `Put`s.  Operations: `alloc`, `put` (plain object or stream object),
`openStream`/`streamWrite`/`streamClose`, `writeCompressed`, `close`.

Parameters (DESIGN 2.3): Flate and the ciphers are *not* modelled.  Every operation that sends
data through a filter or a cipher takes the bytes that reach `streamWriter.Write` as an
argument (`raw`); string objects of encrypted files are given in their on-disk form.  All
theorems hold for arbitrary such bytes.
-/
namespace PdfVerif.FIO
open PdfVerif

structure WOpts where
  version : Nat          -- numbering of meta.go (`Gen.fio_V1_0` … `Gen.fio_V2_0`)
  human : Bool           -- WriterOptions.HumanReadable
  seekable : Bool        -- the sink is an io.WriteSeeker
  encrypted : Bool       -- `posWriter.enc != nil` until `Close` clears it
  deriving Repr, DecidableEq, Inhabited

/-- `optObjStm`/`optXRefStream`: set by `defaultOutputOptions` from 1.5 on, cleared by HumanReadable -/
def WOpts.objStm (o : WOpts) : Bool := decide (o.version ≥ Gen.fio_V1_5) && !o.human
/-- formatting options of the shared formatter model -/
def WOpts.fmt (o : WOpts) : FmtOpt := { pretty := o.human, content := false }
/-- formatting into a buffer (object stream members) or after `Close` has cleared `enc` -/
def WOpts.fmtPlain (o : WOpts) : FmtOpt := { pretty := o.human, content := false }
/-- the `posWriter` encrypts and `OptPretty` is set: `formatString` then never chooses the hex
    form (`pretty = false` for the ciphertext), everything else stays pretty -/
def WOpts.litStr (o : WOpts) : Bool := o.human && o.encrypted

mutual
/-- `doFormat` with `OptPretty` through an encrypting `posWriter`: `fmtObj` of
    `Model/Format.lean` with strings always in the literal form (the strings given to the model
    are the ciphertext) -/
def fmtObjE (needSep : Bool) : Obj → Option (Bytes × Bool)
  | .str s => some (fmtString false s, false)
  | .arr xs => do
      let body ← fmtSeqPrettyE true xs
      pure ([91] ++ body ++ [93], false)
  | .dict kv => do
      let body ← fmtDictPrettyE kv
      pure ([60, 60] ++ [10] ++ body ++ [62, 62], false)
  | o => fmtObj { pretty := true, content := false } needSep o
def fmtSeqPrettyE (first : Bool) : List Obj → Option Bytes
  | [] => some []
  | x :: xs => do
      let (a, _) ← fmtObjE false x
      let b ← fmtSeqPrettyE false xs
      pure ((if first then [] else [32]) ++ a ++ b)
def fmtDictPrettyE : List (Bytes × Obj) → Option Bytes
  | [] => some []
  | (k, v) :: rest => do
      let b ← fmtDictPrettyE rest
      match v with
      | .null => pure b
      | v => do
        let (a, _) ← fmtObjE false v
        pure (fmtName k ++ [32] ++ a ++ [10] ++ b)
end

/-- `Format(w.w, w.outputOptions, obj)` on the writer's `posWriter` -/
def wformat (o : WOpts) (objs : List Obj) : Option Bytes :=
  if o.litStr then fmtSeqPrettyE true (canonList objs) else format o.fmt objs

/-- what `Put` can be given -/
inductive PutObj where
  | plain (o : Obj)
  | stream (dict : List (Bytes × Obj)) (userLen : Option Int) (raw : Bytes)
  deriving Repr, Inhabited

structure OpenStm where
  num : Nat
  gen : Nat
  dict : List (Bytes × Obj)     -- stream dictionary without /Length
  userLen : Option Int          -- caller-supplied direct /Length
  buf : Bytes                   -- `streamWriter.buf`
  started : Bool
  startPos : Nat
  patchPos : Option Nat         -- Placeholder method 2: position of the 12 reserved bytes
  lenRef : Option Nat           -- Placeholder method 3: number of the indirect length object
  deriving Repr, Inhabited

structure WState where
  out : Bytes
  pos : Nat
  xref : XMap
  nextRef : Nat
  stm : Option OpenStm
  after : List (Nat × Nat × PutObj)
  opts : WOpts
  /-- ghost: the plain objects written so far with their references, in the order in which
      they reached the file (no influence on the output; used to state what a reader must find) -/
  doc : List (Nat × Nat × Obj) := []
  /-- ghost: the bytes handed to `streamWriter.Write` for the open stream so far -/
  sdata : Bytes := []
  /-- ghost: the stream objects completed so far: reference, dictionary without `/Length`, and
      the bytes written to the stream -/
  sdoc : List (Nat × Nat × List (Bytes × Obj) × Bytes) := []
  deriving Repr, Inhabited

/-! ### byte literals -/
def kObj : Bytes := [32, 111, 98, 106, 10]                                   -- " obj\n"
def kEndobj : Bytes := [10, 101, 110, 100, 111, 98, 106, 10]                 -- "\nendobj\n"
def kStream : Bytes := [10, 115, 116, 114, 101, 97, 109, 10]                 -- "\nstream\n"
def kEndstream : Bytes :=                                                     -- "\nendstream\nendobj\n"
  [10, 101, 110, 100, 115, 116, 114, 101, 97, 109, 10, 101, 110, 100, 111, 98, 106, 10]
def kStartxref : Bytes := [115, 116, 97, 114, 116, 120, 114, 101, 102, 10]   -- "startxref\n"
def kEOF : Bytes := [10, 37, 37, 69, 79, 70, 10]                             -- "\n%%EOF\n"
def kPdf : Bytes := [37, 80, 68, 70, 45]                                     -- "%PDF-"
def kBinary : Bytes := [10, 37, 128, 128, 128, 128, 10]                      -- "\n%\x80\x80\x80\x80\n"
def kLength : Bytes := [76, 101, 110, 103, 116, 104]
def kTrailerNL : Bytes := kwTrailer ++ [10]

/-- `Version.ToString` -/
def versionString (v : Nat) : Option Bytes :=
  if v ≥ Gen.fio_V1_0 ∧ v ≤ Gen.fio_V1_7 then some [49, 46, 48 + (v - Gen.fio_V1_0)]
  else if v = Gen.fio_V2_0 then some [50, 46, 48]
  else none

/-- the file header written by `NewWriter` -/
def header (o : WOpts) : Option Bytes :=
  (versionString o.version).map fun vs => kPdf ++ vs ++ kBinary ++ (if o.human then [10] else [])

def initState (o : WOpts) : Option WState :=
  (header o).map fun h =>
    { out := h, pos := h.length, xref := [(0, { inStream := 0, pos := -1, gen := Gen.fio_maxGeneration })],
      nextRef := 1, stm := none, after := [], opts := o }

/-- `posWriter.Write` -/
def emit (s : WState) (bs : Bytes) : WState := { s with out := s.out ++ bs, pos := s.pos + bs.length }

/-- `"%d %d obj\n"` -/
def objHeader (num gen : Nat) : Bytes := decOf num ++ [32] ++ decOf gen ++ kObj

/-- `Writer.Alloc` (`none` = the object-number overflow panic) -/
def alloc (s : WState) : Option (WState × Nat) :=
  if s.nextRef ≥ Gen.fio_maxXRefSize then none
  else some ({ s with nextRef := s.nextRef + 1 }, s.nextRef)

def prettyNL (o : WOpts) : Bytes := if o.human then [10] else []

/-- `Put` of a non-stream object while no stream is open -/
def putPlain (s : WState) (num gen : Nat) (o : Obj) : Except Err WState :=
  match setXRef s.xref s.nextRef num { inStream := 0, pos := s.pos, gen := gen } with
  | none => .error .other
  | some (x, n) =>
    match wformat s.opts [o] with
    | none => .error .other
    | some body =>
      .ok (emit { s with xref := x, nextRef := n, doc := s.doc ++ [(num, gen, o)] }
        (objHeader num gen ++ body ++ kEndobj ++ prettyNL s.opts))

/-- a dictionary with `/Length` formatted as the given bytes: the output and the offset of
    the value in it (`formatDict` handles the entries one after the other) -/
def fmtDictLen (opt : FmtOpt) (lit : Bool) (kv : List (Bytes × Obj)) (value : Bytes) : Option (Bytes × Nat) :=
  let all := sortedEntries (canonKV ((kv.filter fun e => e.1 != kLength) ++ [(kLength, .int 0)]))
  let before := all.takeWhile fun e => e.1 != kLength
  let after := (all.dropWhile fun e => e.1 != kLength).drop 1
  let body := fun (es : List (Bytes × Obj)) =>
    if lit then fmtDictPrettyE es else if opt.pretty then fmtDictPretty opt es else fmtDictPlain opt es
  match body before, body after with
  | some b1, some b2 =>
    let pre := [60, 60] ++ (if opt.pretty then [10] else []) ++ b1 ++ fmtName kLength ++ [32]
    some (pre ++ value ++ (if opt.pretty then [10] else []) ++ b2 ++ [62, 62], pre.length)
  | _, _ => none

def blanks12 : Bytes := List.replicate 12 32

/-- `streamWriter.startWriting`; `known` = the final length when it is already known
    (`Placeholder` method 1, taken when the stream is closed before 1024 bytes were written) -/
def startWriting (s : WState) (st : OpenStm) (known : Option Nat) : Except Err (WState × OpenStm) :=
  let hdr := objHeader st.num st.gen
  -- the value printed for /Length, and the bookkeeping of the Placeholder
  let sel : Option (WState × OpenStm × Bytes) :=
    match st.userLen with
    | some l => some (s, st, intDec l)
    | none =>
      match known with
      | some l => some (s, st, decOf l)
      | none =>
        if s.opts.seekable then some (s, st, blanks12)
        else match alloc s with
          | none => none
          | some (s', r) => some (s', { st with lenRef := some r }, decOf r ++ [32, 48, 32, 82])
  match sel with
  | none => .error .other
  | some (s1, st1, value) =>
    match fmtDictLen s.opts.fmt s.opts.litStr st1.dict value with
    | none => .error .other
    | some (dictBytes, off) =>
      let patch := if st.userLen.isNone && known.isNone && s.opts.seekable then some (s1.pos + hdr.length + off) else none
      let s2 := emit s1 (hdr ++ dictBytes ++ kStream)
      let s3 := emit s2 st1.buf
      .ok (s3, { st1 with started := true, startPos := s2.pos, buf := [], patchPos := patch })

/-- `OpenStream` (after the filter list has been turned into `dict`) -/
def openStream (s : WState) (num gen : Nat) (dict : List (Bytes × Obj)) (userLen : Option Int) : Except Err WState :=
  match s.stm with
  | some _ => .error .other
  | none =>
    match setXRef s.xref s.nextRef num { inStream := 0, pos := s.pos, gen := gen } with
    | none => .error .other
    | some (x, n) =>
      .ok { s with xref := x, nextRef := n, sdata := [],
                   stm := some { num := num, gen := gen, dict := dict, userLen := userLen, buf := [],
                                 started := false, startPos := 0, patchPos := none, lenRef := none } }

/-- an `OpenStream` call that enters its cross-reference entry (`setXRef` succeeds) and then fails
    — a filter that cannot be encoded, a `/Length` of the wrong type, a Crypt probe, … — while the
    program goes on: the entry is rolled back, only `nextRef` stays pushed past the number
    (library commit 7c9953a; before it the entry stayed and pointed at the next object written) -/
def openStreamFail (s : WState) (num gen : Nat) : Except Err WState :=
  match s.stm with
  | some _ => .error .other
  | none =>
    match setXRef s.xref s.nextRef num { inStream := 0, pos := s.pos, gen := gen } with
    | none => .error .other
    | some (_, n) => .ok { s with nextRef := n }

/-- `streamWriter.Write` -/
def streamWrite (s : WState) (p : Bytes) : Except Err WState :=
  match s.stm with
  | none => .error .other
  | some st =>
    if st.started then .ok (emit { s with sdata := s.sdata ++ p } p)
    else if st.buf.length + p.length < 1024 then
      .ok { s with stm := some { st with buf := st.buf ++ p }, sdata := s.sdata ++ p }
    else
      match startWriting s st none with
      | .error e => .error e
      | .ok (s', st') => .ok (emit { s' with stm := some st', sdata := s.sdata ++ p } p)

/-- overwrite `value.length` bytes at `at` -/
def patchAt (out : Bytes) (at_ : Nat) (value : Bytes) : Bytes :=
  out.take at_ ++ value ++ out.drop (at_ + value.length)

/-- the replay loop at the end of `streamWriter.Close` over the detached list: deferred plain
    objects are written with `putPlain`, deferred stream objects with `putS` (a complete
    `OpenStream`/`Write`/`Close`) -/
def replayWith (putS : WState → Nat → Nat → List (Bytes × Obj) → Option Int → Bytes → Except Err WState) :
    WState → List (Nat × Nat × PutObj) → Except Err WState
  | s, [] => .ok s
  | s, (num, gen, .plain o) :: rest =>
    match putPlain s num gen o with
    | .error e => .error e
    | .ok s' => replayWith putS s' rest
  | s, (num, gen, .stream d ul raw) :: rest =>
    match putS s num gen d ul raw with
    | .error e => .error e
    | .ok s' => replayWith putS s' rest

/-- the caller-supplied `/Length` disagrees with the data written -/
def lengthMismatch (ul : Option Int) (length : Nat) : Bool :=
  match ul with
  | some l => l != (length : Int)
  | none => false

/-- first half of `streamWriter.Close`: length bookkeeping (`Placeholder.Set`) and, for short
    streams, the late `startWriting`; returns the state, the stream record and the length -/
def closeLength (s : WState) (st : OpenStm) : Except Err (WState × OpenStm × Nat) :=
  if st.started then
    let length := s.pos - st.startPos
    match st.lenRef, st.patchPos with
    | some r, _ =>   -- Set → Put while the stream is open → deferred
      .ok ({ s with after := s.after ++ [(r, 0, .plain (.int length))] }, st, length)
    | none, some p =>
      let v := decOf length
      if v.length > 12 then .error .other
      else .ok ({ s with out := patchAt s.out p v }, st, length)
    | none, none => .ok (s, st, length)
  else
    let length := st.buf.length
    match startWriting s st (some length) with
    | .error e => .error e
    | .ok (s', st') => .ok (s', st', length)

/-- `streamWriter.Close`, given how a deferred stream object is written.  The list of deferred
    `Put`s is detached (`pending := afterStream; afterStream = nil`) before it is replayed. -/
def streamCloseWith (putS : WState → Nat → Nat → List (Bytes × Obj) → Option Int → Bytes → Except Err WState)
    (s : WState) : Except Err WState :=
  match s.stm with
  | none => .error .other
  | some st =>
    match closeLength s st with
    | .error e => .error e
    | .ok (s1, _, length) =>
      if lengthMismatch st.userLen length then .error .other
      else
        let s2 := emit s1 (kEndstream ++ prettyNL s.opts)
        let s3 := { s2 with stm := none, after := [], sdoc := s2.sdoc ++ [(st.num, st.gen, st.dict, s.sdata)] }
        replayWith putS s3 s2.after

/-- `Put` of a stream object while no stream is open: `OpenStream`, `io.Copy`, `Close` -/
def putStreamWith (close : WState → Except Err WState)
    (s : WState) (num gen : Nat) (dict : List (Bytes × Obj)) (userLen : Option Int) (raw : Bytes) : Except Err WState :=
  match openStream s num gen dict userLen with
  | .error e => .error e
  | .ok s1 =>
    match streamWrite s1 raw with
    | .error e => .error e
    | .ok s2 => close s2

/-- a stream written from the replay loop defers at most its own indirect `/Length` (a plain
    integer): its `Close` never meets a deferred stream -/
def noDeferredStream : WState → Nat → Nat → List (Bytes × Obj) → Option Int → Bytes → Except Err WState :=
  fun _ _ _ _ _ _ => .error .other

/-- `Close` of a stream that was itself written from a replay loop -/
def streamClose0 : WState → Except Err WState := streamCloseWith noDeferredStream
def putStream0 := putStreamWith streamClose0

/-- `streamWriter.Close` -/
def streamClose : WState → Except Err WState := streamCloseWith putStream0
def putStream := putStreamWith streamClose

/-- `Writer.Put` -/
def put (s : WState) (num gen : Nat) (o : PutObj) : Except Err WState :=
  match s.stm with
  | some _ => .ok { s with after := s.after ++ [(num, gen, o)] }
  | none =>
    match o with
    | .plain v => putPlain s num gen v
    | .stream dict userLen raw => putStream s num gen dict userLen raw

/-! ### object streams -/

/-- index lines and bodies of `WriteCompressed`: `(head, body)` with every object but the last
    followed by a newline -/
def objStmParts (opt : FmtOpt) : List (Nat × Obj) → (head body : Bytes) → Option (Bytes × Bytes)
  | [], head, body => some (head, body)
  | [(num, o)], head, body =>
    (format opt [o]).map fun b => (head ++ decOf num ++ [32] ++ decOf body.length ++ [10], body ++ b)
  | (num, o) :: rest, head, body =>
    match format opt [o] with
    | none => none
    | some b => objStmParts opt rest (head ++ decOf num ++ [32] ++ decOf body.length ++ [10]) (body ++ b ++ [10])

def kType : Bytes := keyType
def nObjStm : Bytes := [79, 98, 106, 83, 116, 109]
def kN : Bytes := [78]
def kFirst : Bytes := [70, 105, 114, 115, 116]
def kFilter : Bytes := [70, 105, 108, 116, 101, 114]
def nFlate : Bytes := [70, 108, 97, 116, 101, 68, 101, 99, 111, 100, 101]
def kDecodeParms : Bytes := [68, 101, 99, 111, 100, 101, 80, 97, 114, 109, 115]
def kColumns : Bytes := [67, 111, 108, 117, 109, 110, 115]
def kPredictor : Bytes := [80, 114, 101, 100, 105, 99, 116, 111, 114]
def nXRef : Bytes := [88, 82, 101, 102]
def kRoot : Bytes := [82, 111, 111, 116]
def kInfo : Bytes := [73, 110, 102, 111]

/-- the uncompressed content of an object stream and its `/N`, `/First` -/
def objStmContent (opt : FmtOpt) (items : List (Nat × Obj)) : Option (Bytes × Nat × Nat) :=
  (objStmParts opt items [] []).map fun (head, body) => (head ++ body, items.length, head.length)

def setEntries (sRef : Nat) : XMap → Nat → List (Nat × Nat × Obj) → Nat → Option (XMap × Nat)
  | x, n, [], _ => some (x, n)
  | x, n, (num, _, _) :: rest, i =>
    match setXRef x n num { inStream := sRef, pos := (i : Int), gen := 0 } with
    | none => none
    | some (x', n') => setEntries sRef x' n' rest (i + 1)

def putAll : WState → List (Nat × Nat × Obj) → Except Err WState
  | s, [] => .ok s
  | s, (num, gen, o) :: rest =>
    match put s num gen (.plain o) with
    | .error e => .error e
    | .ok s' => putAll s' rest

/-- one object stream: `Alloc`, the members' entries, the stream with `/N`, `/First`;
    `raw` = the bytes of the compressed (and encrypted) object stream -/
def writeObjStmAt (s : WState) (items : List (Nat × Nat × Obj)) (raw : Bytes) : Except Err WState :=
  match alloc s with
  | none => .error .other
  | some (s1, sRef) =>
    match setEntries sRef s1.xref s1.nextRef items 0 with
    | none => .error .other
    | some (x, n) =>
      match objStmContent s.opts.fmtPlain (items.map fun (num, _, o) => (num, o)) with
      | none => .error .other
      | some (_, cnt, first) =>
        let dict : List (Bytes × Obj) :=
          [(kType, .name nObjStm), (kN, .int cnt), (kFirst, .int first), (kFilter, .name nFlate)]
        match openStream { s1 with xref := x, nextRef := n } sRef 0 dict none with
        | .error e => .error e
        | .ok s2 =>
          match streamWrite s2 raw with
          | .error e => .error e
          | .ok s3 => streamClose s3

/-- numbers chosen by the caller are set aside before the container is allocated: the object
    stream must not take a member's number (library fix of `WriteCompressed`) -/
def reserveNumbers (s : WState) (items : List (Nat × Nat × Obj)) : WState :=
  { s with nextRef := items.foldl (fun n it => max n (it.1 + 1)) s.nextRef }

def writeObjStm (s : WState) (items : List (Nat × Nat × Obj)) (raw : Bytes) : Except Err WState :=
  writeObjStmAt (reserveNumbers s items) items raw

/-- the splitting loop: more than `maxObjStmObjects` members go into several object streams
    (the first ones full); `raws` = the stream bytes, one per object stream -/
def writeObjStms : Nat → WState → List (Nat × Nat × Obj) → List Bytes → Except Err WState
  | 0, _, _, _ => .error .other
  | fuel+1, s, items, raws =>
    if items.length > Gen.fio_maxObjStmObjects then
      match writeObjStm s (items.take Gen.fio_maxObjStmObjects) (raws.headD []) with
      | .error e => .error e
      | .ok s' => writeObjStms fuel s' (items.drop Gen.fio_maxObjStmObjects) raws.tail
    else writeObjStm s items (raws.headD [])

/-- `WriteCompressed` -/
def writeCompressed (s : WState) (items : List (Nat × Nat × Obj)) (raws : List Bytes) : Except Err WState :=
  if s.stm.isSome then .error .other
  else if items.any (fun (_, gen, o) => gen > 0 || (match o with | .ref _ _ => true | _ => false)) then .error .other
  else if items.isEmpty then .ok s
  else if !s.opts.objStm then putAll s items
  else writeObjStms (items.length + 1) s items raws

/-! ### `Close` -/

/-- the dictionary of the cross-reference stream -/
def xrefStreamDict (trailer : List (Bytes × Obj)) (size w2 w3 : Nat) : List (Bytes × Obj) :=
  let cols := 1 + w2 + w3
  let parms : List (Bytes × Obj) := [(kPredictor, .int 12)] ++ (if cols != 1 then [(kColumns, .int cols)] else [])
  let own : List (Bytes × Obj) :=
    [(kType, .name nXRef), (kSize, .int size), (kW, .arr [.int 1, .int w2, .int w3]),
     (kFilter, .name nFlate), (kDecodeParms, .dict parms)]
  trailer.filter (fun e => !(own.any fun o => o.1 == e.1)) ++ own

def optPut (s : WState) (o : Option Obj) : Except Err (WState × Option Nat) :=
  match o with
  | none => .ok (s, none)
  | some v =>
    match alloc s with
    | none => .error .other
    | some (s1, r) =>
      match put s1 r 0 (.plain v) with
      | .error e => .error e
      | .ok s2 => .ok (s2, some r)

/-- `Writer.Close`: catalog, Info, cross-reference section, `startxref`.
    `trailer` = the trailer entries fixed at `NewWriter` (`ID`, `Encrypt`); `xrefRaw` = the
    compressed rows (used only in the stream form). -/
def close (s : WState) (cat : Obj) (info : Option Obj) (trailer : List (Bytes × Obj)) (xrefRaw : Bytes) : Except Err WState :=
  if s.stm.isSome then .error .other else
  match optPut s (some cat) with
  | .error e => .error e
  | .ok (s1, catRef) =>
    match optPut s1 info with
    | .error e => .error e
    | .ok (s2, infoRef) =>
      let refOf (r : Option Nat) (k : Bytes) : List (Bytes × Obj) :=
        match r with | some n => [(k, .ref n 0)] | none => []
      let tr0 := trailer.filter fun e => e.1 != kRoot && e.1 != kInfo && e.1 != kSize
      let xRefPos := s2.pos
      let tail (s : WState) : WState := emit s (kStartxref ++ decOf xRefPos ++ kEOF)
      if s.opts.objStm then
        match alloc s2 with
        | none => .error .other
        | some (s3, ref) =>
          let (f2, f3) := maxFields s3.xref 0 s3.nextRef
          let w2 := fieldWidth f2
          let w3 := fieldWidth f3
          let tr := tr0 ++ refOf catRef kRoot ++ refOf infoRef kInfo
          let dict := xrefStreamDict tr s3.nextRef w2 w3
          match openStream s3 ref 0 dict (some xrefRaw.length) with
          | .error e => .error e
          | .ok s4 =>
            match streamWrite s4 xrefRaw with
            | .error e => .error e
            | .ok s5 =>
              match streamClose s5 with
              | .error e => .error e
              | .ok s6 => .ok (tail s6)
      else
        let tr := tr0 ++ refOf catRef kRoot ++ refOf infoRef kInfo ++ [(kSize, .int s2.nextRef)]
        match xrefTableBody s2.xref s2.nextRef, format s.opts.fmtPlain [.dict tr] with
        | some body, some td => .ok (tail (emit s2 (body ++ kTrailerNL ++ td ++ [10])))
        | _, _ => .error .other

/-! ### programs -/

inductive Op where
  | alloc
  | put (num gen : Nat) (o : PutObj)
  | openStream (num gen : Nat) (dict : List (Bytes × Obj)) (userLen : Option Int)
  | write (p : Bytes)
  | closeStream
  | writeCompressed (items : List (Nat × Nat × Obj)) (raws : List Bytes)
  | close (cat : Obj) (info : Option Obj) (trailer : List (Bytes × Obj)) (xrefRaw : Bytes)
  /-- `OpenStream` failing behind `setXRef`; the program continues -/
  | openStreamFail (num gen : Nat)
  /-- an operation the Writer refused before doing anything (a second definition of a number,
      `OpenStream`/`WriteCompressed` while a stream is open, a reference or a non-zero generation
      in `WriteCompressed`, …); the program continues with the state unchanged.  The model must
      refuse the operation as well. -/
  | rejected (op : Op)
  deriving Repr, Inhabited

def step (s : WState) : Op → Except Err WState
  | .alloc => match alloc s with | some (s', _) => .ok s' | none => .error .other
  | .put num gen o => put s num gen o
  | .openStream num gen dict ul => openStream s num gen dict ul
  | .write p => streamWrite s p
  | .closeStream => streamClose s
  | .writeCompressed items raws => writeCompressed s items raws
  | .close cat info tr raw => close s cat info tr raw
  | .openStreamFail num gen => openStreamFail s num gen
  | .rejected op => match step s op with | .error _ => .ok s | .ok _ => .error .other

/-- run a program; on failure the index of the failing operation and the error -/
def run : WState → List Op → Nat → Except (Nat × Err) WState
  | s, [], _ => .ok s
  | s, op :: rest, i =>
    match step s op with
    | .error e => .error (i, e)
    | .ok s' => run s' rest (i + 1)

end PdfVerif.FIO

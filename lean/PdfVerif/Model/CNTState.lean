import PdfVerif.Model.Obj
import PdfVerif.Generated.FactsCNT
/-!
Model of the structural part of `graphics/content/state.go`: `NewState`, `ApplyOperator`
(`CheckOperatorAllowed`, the required-state check with the line-cap relaxation,
`ApplyStateChanges`: `Push`/`Pop`, `TextBegin`/`TextEnd`, marked content, compatibility
sections, path construction and painting, `applyTransition`), `popNesting`,
`ClosingOperators`, `CanClose`.

Modelled state: `CurrentObject`, the nesting stack, the q/Q stack with the saved `Usable`
bits and dash pattern emptiness, `Usable`, whether the dash pattern is empty, the commands of
the current path, whether `0 < Version < 2.0` (`strict`) and whether `0 < Version` (`ver`).  Not modelled: the graphics
parameters themselves (CTM, colours, fonts, …) and resources; the harness runs with empty
resources, so that `gs` and `Tf` change `Usable` only through the operator table.

The operator table (`operators`: Allowed, Transition, Sets, Requires), the object and pair
constants, the case lists of `isStrokeOp`/`needsClose`/the painting case of
`ApplyStateChanges`, `initializedStateBits` and the depth limit in `Push` are regenerated from
the sources (`Generated/FactsCNT.lean`).
-/
namespace PdfVerif.CNT
open PdfVerif

structure Info where
  allowed : Nat
  transition : Nat
  sets : Nat
  requires : Nat
  deriving Repr, DecidableEq

def lookupOp : List (Bytes × List Nat) → Bytes → Option Info
  | [], _ => none
  | (k, v) :: rest, name =>
    if k == name then some { allowed := v.getD 0 0, transition := v.getD 1 0, sets := v.getD 2 0, requires := v.getD 3 0 }
    else lookupOp rest name

/-- `operators[name]` -/
def opInfo (name : Bytes) : Option Info := lookupOp Gen.content_operators name

inductive Cmd where
  | move | line | cube | close
  deriving DecidableEq, Repr

inductive StErr where
  | context      -- ErrInvalidContext
  | required     -- required state not set
  | nomatch      -- no matching opening operator
  | depth        -- q stack depth exceeds the PDF 1.x limit
  | panic        -- index out of range in the Go code (proved unreachable: `C15cntb.no_panic`)
  deriving DecidableEq, Repr

def StErr.toString : StErr → String
  | .context => "context" | .required => "required" | .nomatch => "nomatch" | .depth => "depth" | .panic => "panic"

structure Saved where
  usable : Nat
  dashEmpty : Bool
  deriving Repr, DecidableEq

structure St where
  obj : Nat                 -- CurrentObject
  nesting : List Nat        -- pair kinds, innermost (last opened) first — Go's slice reversed
  stack : List Saved        -- q/Q stack, top first
  usable : Nat              -- Usable
  dashEmpty : Bool          -- len(GState.DashPattern) == 0
  path : List Cmd           -- currentPath.Cmds
  strict : Bool             -- 0 < Version < pdf.V2_0
  ver : Bool                -- 0 < Version (set by the Builder; readers leave Version 0)
  compat : Nat              -- compatibilityDepth
  deriving Repr

/-- `a &^ b` -/
def andNot (a b : Nat) : Nat := a ^^^ (a &&& b)

/-- the q/Q depth limit in `Push` (second integer literal of the function body) -/
def qLimit : Nat := Gen.content_lits_State_Push.getD 1 0

/-- `NewState(ct, nil)` with `Version` set (`strict`: `0 < Version < 2.0`, `ver`: `0 < Version`); `ct`: 0 Page, 1 Form, 2 TransparencyGroup,
    3 PatternColored, 4 PatternUncolored, 5 Glyph -/
def initSt (ct : Nat) (strict ver : Bool) : St :=
  { obj := if ct == 5 then Gen.content_ObjType3Start else Gen.content_ObjPage
    nesting := []
    stack := []
    usable := if ct == 0 then Gen.content_initializedStateBits else Gen.gfx_AllBits
    dashEmpty := true
    path := []
    strict := strict
    ver := ver
    compat := 0 }

/-- `allSubpathsClosed` -/
def allClosedFrom : (hasSegments : Bool) → List Cmd → Bool
  | hs, [] => !hs
  | hs, .move :: rest => if hs then false else allClosedFrom hs rest
  | _, .line :: rest => allClosedFrom true rest
  | _, .cube :: rest => allClosedFrom true rest
  | _, .close :: rest => allClosedFrom false rest

def allSubpathsClosed (p : List Cmd) : Bool := allClosedFrom false p

def isStrokeOp (name : Bytes) : Bool := Gen.content_cases_isStrokeOp.contains name
def needsClose (name : Bytes) : Bool := Gen.content_cases_needsClose.contains name
def isPaintOp (name : Bytes) : Bool := Gen.content_cases_State_ApplyStateChanges_OpStroke.contains name

/-- `getNumber(args, idx)` succeeds -/
def isNum : Option Obj → Bool
  | some (.int _) => true
  | some (.real _) => true
  | _ => false

def numsAt (args : List Obj) (idx n : Nat) : Bool :=
  (List.range n).all fun i => isNum args[idx + i]?

/-- `popNesting`: remove the innermost frame of the given kind.  With `Version == 0` (readers)
    the frame need not be on top (cross-nested pairs of broken files are tolerated); with
    `Version > 0` (the Builder) it must be on top, otherwise the operator is rejected
    ("improperly nested", D-C15-5) -/
def popNesting (ver : Bool) (nesting : List Nat) (kind : Nat) : Option (List Nat) :=
  if ver then
    match nesting with
    | k :: rest => if k == kind then some rest else none
    | [] => none
  else if nesting.contains kind then some (nesting.erase kind) else none

/-- the effect of `applyOperatorToParams` on the modelled state: only `d` matters -/
def applyParams (s : St) (name : Bytes) (args : List Obj) : St :=
  if name == Gen.content_OpSetLineDash then
    match args with
    | a0 :: a1 :: _ =>
      if isNum (some a1) then
        match a0 with
        | .arr xs => if xs.all (fun x => isNum (some x)) then { s with dashEmpty := xs.isEmpty } else s
        | .nilArr => { s with dashEmpty := true }
        | _ => s
      else s
    | _ => s
  else s

/-- the `switch name` of `ApplyStateChanges` -/
def applySwitch (s : St) (name : Bytes) (args : List Obj) : Except StErr St :=
  if name == Gen.content_OpPushGraphicsState then
    if s.strict && s.obj == Gen.content_ObjText then .error .context
    else if s.strict && s.stack.length ≥ qLimit then .error .depth
    else .ok { s with stack := { usable := s.usable, dashEmpty := s.dashEmpty } :: s.stack,
                      nesting := Gen.content_pairQ :: s.nesting }
  else if name == Gen.content_OpPopGraphicsState then
    if s.strict && s.obj == Gen.content_ObjText then .error .context
    else match popNesting s.ver s.nesting Gen.content_pairQ with
      | none => .error .nomatch
      | some n' =>
        match s.stack with
        | [] => .error .panic
        | saved :: below => .ok { s with nesting := n', stack := below, usable := saved.usable, dashEmpty := saved.dashEmpty }
  else if name == Gen.content_OpTextBegin then
    if s.obj != Gen.content_ObjPage then .error .context
    else .ok { s with obj := Gen.content_ObjText, nesting := Gen.content_pairBT :: s.nesting }
  else if name == Gen.content_OpTextEnd then
    match popNesting s.ver s.nesting Gen.content_pairBT with
    | none => .error .nomatch
    | some n' => .ok { s with nesting := n', obj := Gen.content_ObjPage, usable := andNot s.usable Gen.gfx_StateTextMatrix }
  else if name == Gen.content_OpBeginMarkedContent || name == Gen.content_OpBeginMarkedContentWithProperties then
    .ok { s with nesting := Gen.content_pairBMC :: s.nesting }
  else if name == Gen.content_OpEndMarkedContent then
    match popNesting s.ver s.nesting Gen.content_pairBMC with
    | none => .error .nomatch
    | some n' => .ok { s with nesting := n' }
  else if name == Gen.content_OpBeginCompatibility then
    .ok { s with nesting := Gen.content_pairBX :: s.nesting, compat := s.compat + 1 }
  else if name == Gen.content_OpEndCompatibility then
    match popNesting s.ver s.nesting Gen.content_pairBX with
    | none => .error .nomatch
    | some n' => .ok { s with nesting := n', compat := s.compat - 1 }
  else if name == Gen.content_OpMoveTo then
    .ok (if numsAt args 0 2 then { s with path := s.path ++ [.move] } else s)
  else if name == Gen.content_OpLineTo then
    .ok (if numsAt args 0 2 then { s with path := s.path ++ [.line] } else s)
  else if name == Gen.content_OpCurveTo then
    .ok (if numsAt args 0 6 then { s with path := s.path ++ [.cube] } else s)
  else if name == Gen.content_OpCurveToV || name == Gen.content_OpCurveToY then
    .ok (if numsAt args 0 4 then { s with path := s.path ++ [.cube] } else s)
  else if name == Gen.content_OpClosePath then
    .ok { s with path := s.path ++ [.close] }
  else if name == Gen.content_OpRectangle then
    .ok (if numsAt args 0 4 then { s with path := s.path ++ [.move, .line, .line, .line, .close] } else s)
  else if isPaintOp name then
    .ok { s with path := [] }
  else .ok s

/-- `ApplyStateChanges` -/
def applyStateChanges (s : St) (name : Bytes) (args : List Obj) : Except StErr St :=
  let info := opInfo name
  let s := match info with
    | some i => { s with usable := s.usable ||| i.sets }
    | none => s
  match applySwitch s name args with
  | .error e => .error e
  | .ok s =>
    let s := match info with
      | some i => if i.transition != 0 then { s with obj := i.transition } else s
      | none => s
    .ok (applyParams s name args)

/-- `ApplyOperator` -/
def applyOperator (s : St) (name : Bytes) (args : List Obj) : Except StErr St :=
  match opInfo name with
  | none => applyStateChanges s name args
  | some i =>
    if s.obj &&& i.allowed == 0 then .error .context
    else
      let requires :=
        if isStrokeOp name && allSubpathsClosed s.path && s.dashEmpty then andNot i.requires Gen.gfx_StateLineCap
        else i.requires
      if andNot requires s.usable != 0 then .error .required
      else applyStateChanges s name args

/-- apply a sequence of operators; stops at the first rejected one -/
def run (s : St) : List (Bytes × List Obj) → Except StErr St
  | [] => .ok s
  | (n, a) :: rest =>
    match applyOperator s n a with
    | .error e => .error e
    | .ok s' => run s' rest

def closerOf (kind : Nat) : Option Bytes :=
  if kind == Gen.content_pairQ then some Gen.content_OpPopGraphicsState
  else if kind == Gen.content_pairBT then some Gen.content_OpTextEnd
  else if kind == Gen.content_pairBMC then some Gen.content_OpEndMarkedContent
  else if kind == Gen.content_pairBX then some Gen.content_OpEndCompatibility
  else none

/-- `ClosingOperators` -/
def closingOperators (s : St) : List Bytes :=
  (if s.obj == Gen.content_ObjPath || s.obj == Gen.content_ObjClippingPath then [Gen.content_OpEndPath] else [])
    ++ s.nesting.filterMap closerOf

/-- `CanClose() == nil` -/
def canClose (s : St) : Bool := s.nesting.isEmpty && s.obj == Gen.content_ObjPage

end PdfVerif.CNT

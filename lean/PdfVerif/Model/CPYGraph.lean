import PdfVerif.Model.Format
import PdfVerif.Generated.FactsCPY
/-!
C11 — the source side of `Copier`: what a `pdf.Getter` returns, `Resolve`
(`resolve.go:resolvePath`, `CycleCheck.step`), `inlineFilterRefs` (`copier.go`),
`filterChainStartsWithCrypt`, `GetFilters` (the part that decides the kind of the filter at
position 0) and `streamCryptRecipe` (`container.go`).

The source file is a finite map `Graph` from references to entries; a reference without an
entry is what `Reader.Get` answers with `nil, nil` (free, never written, wrong generation).
Hand-written; tied to the code by the correspondence run of C11.
-/
namespace PdfVerif.CPY

abbrev Ref := Nat × Nat
abbrev KV := List (Bytes × Obj)

/-- error classes of the copier model -/
inductive CErr where
  | fuel         -- model recursion budget exhausted (never with `fuelFor`, see Props/C11cpy)
  | read         -- a non-malformed error of the Getter (`IsReadError`)
  | malformed    -- `*MalformedFileError`
  | other        -- any other error value (errors.New / fmt.Errorf / duplicate Put)
  | overflow     -- `Writer.Alloc` panics: object number overflow
  | gap          -- code path outside the model (never produced by the harness)
  deriving DecidableEq, Repr, Inhabited

def CErr.toString : CErr → String
  | .fuel => "fuel" | .read => "io" | .malformed => "malformed" | .other => "other"
  | .overflow => "panic" | .gap => "gap"

/-- a native value as returned by `Getter.Get` / held by the caller: a plain object or a stream.
    `enc` is `x.crypt != nil`: the stream was read from an encrypted file and is not exempt — with
    /EncryptMetadata false the Reader reads the catalog's /Metadata stream (that reference only,
    whatever the /Type of other streams) without a decryption filter; `data` are the bytes
    `RawStreamReader` yields (after decryption, before filter decoding). -/
inductive Val where
  | obj (o : Obj)
  | stream (dict : KV) (data : Bytes) (enc : Bool)
  deriving Inhabited

inductive Node where
  | val (v : Val)
  | bad          -- Get returns a MalformedFileError
  | ioErr        -- Get returns another error
  deriving Inhabited

structure Entry where
  node : Node
  inStm : Bool   -- stored in an object stream: `Get(ref, false)` is refused as malformed
  deriving Inhabited

abbrev Graph := List (Ref × Entry)

/-- first match in an association list -/
def assoc {α : Type} (r : Ref) : List (Ref × α) → Option α
  | [] => none
  | (k, v) :: rest => if k = r then some v else assoc r rest

def kvLookup (k : Bytes) : KV → Option Obj
  | [] => none
  | (k', v) :: rest => if k' = k then some v else kvLookup k rest

/-- `res[key] = v` on a Go map: replace the entry, or add it -/
def kvSet (k : Bytes) (v : Obj) : KV → KV
  | [] => [(k, v)]
  | (k', v') :: rest => if k' = k then (k, v) :: rest else (k', v') :: kvSet k v rest

/-- `Getter.Get(ref, canObjStm)`; Go's `nil` object is `.obj .null` -/
def get (G : Graph) (r : Ref) (canObjStm : Bool) : Except CErr Val :=
  match assoc r G with
  | none => .ok (.obj .null)
  | some e =>
    match e.node with
    | .bad => .error .malformed
    | .ioErr => .error .read
    | .val v => if e.inStm && !canObjStm then .error .malformed else .ok v

/-- the loop of `resolvePath`; `d` = `MaxExtractDepth - depth(path)`: `CycleCheck.step` refuses a
    reference already on the path (ErrCycle) and a path longer than `MaxExtractDepth` (ErrDepth),
    both malformed. -/
def resolveLoop (G : Graph) (cs : Bool) : Nat → List Ref → Ref → Except CErr Val
  | 0, _, _ => .error .malformed
  | d+1, path, r =>
    if path.contains r then .error .malformed else
    match get G r cs with
    | .error e => .error e
    | .ok (.obj (.ref n g)) => resolveLoop G cs d (r :: path) (n, g)
    | .ok v => .ok v

/-- `resolve(r, obj, canObjStm)` -/
def resolve (G : Graph) (cs : Bool) : Obj → Except CErr Val
  | .ref n g => resolveLoop G cs Gen.cpy_MaxExtractDepth [] (n, g)
  | o => .ok (.obj o)

/-! ### names used by the copier (Go string literals in copier.go / container.go / filter.go) -/
def keyFilter : Bytes := [70, 105, 108, 116, 101, 114]                              -- "Filter"
def keyDecodeParms : Bytes := [68, 101, 99, 111, 100, 101, 80, 97, 114, 109, 115]   -- "DecodeParms"
def nameCrypt : Bytes := [67, 114, 121, 112, 116]                                   -- "Crypt"
def nameIdentity : Bytes := [73, 100, 101, 110, 116, 105, 116, 121]                 -- "Identity"
def keyName : Bytes := [78, 97, 109, 101]                                           -- "Name"
def nameJBIG2 : Bytes := [74, 66, 73, 71, 50, 68, 101, 99, 111, 100, 101]           -- "JBIG2Decode"

/-- element loop of `inlineFilterRefs`; a stream in element position is refused as a defect of
    the source file -/
def resolveElems (G : Graph) : List Obj → Except CErr (List Obj)
  | [] => .ok []
  | x :: xs =>
    match resolve G true x with
    | .error e => .error e
    | .ok (.stream _ _ _) => .error .malformed
    | .ok (.obj o) =>
      match resolveElems G xs with
      | .error e => .error e
      | .ok os => .ok (o :: os)

/-- `inlineFilterRefs` -/
def inlineFilterRefs (G : Graph) (val : Obj) : Except CErr Val :=
  match resolve G true val with
  | .error e => .error e
  | .ok (.obj (.arr xs)) =>
    match resolveElems G xs with
    | .error e => .error e
    | .ok os => .ok (.obj (.arr os))
  | .ok (.stream _ _ _) => .error .malformed   -- "stream object in /Filter or /DecodeParms"
  | .ok v => .ok v

/-- `filterChainStartsWithCrypt` -/
def startsWithCrypt (G : Graph) (filter : Obj) : Except CErr Bool :=
  match resolve G true filter with
  | .error e => .error e
  | .ok (.obj (.name f)) => .ok (f == nameCrypt)
  | .ok (.obj (.arr [])) => .ok false
  | .ok (.obj (.arr (x :: _))) =>
    match resolve G true x with
    | .error e => .error e
    | .ok (.obj (.name f)) => .ok (f == nameCrypt)
    | .ok _ => .ok false
  | .ok _ => .ok false

/-- what `streamCryptRecipe` needs to know about a filter -/
inductive FKind where
  | cryptId | cryptCF | plain
  deriving DecidableEq, Repr

/-- `parseCrypt` -/
def parseCryptKind (param : Option KV) : Except CErr FKind :=
  match param.bind (kvLookup keyName) with
  | none => .ok .cryptId
  | some (.name n) => if n = [] ∨ n = nameIdentity then .ok .cryptId else .ok .cryptCF
  | some _ => .error .malformed

/-- `MakeFilter`, reduced to the kind; JBIG2Decode (which makes `GetFilters` read the globals
    stream) is outside the model -/
def makeFilterKind (name : Bytes) (param : Option KV) : Except CErr FKind :=
  if name = nameCrypt then parseCryptKind param
  else if name = nameJBIG2 then .error .gap
  else .ok .plain

/-- a resolved /DecodeParms value that must be a dictionary or null -/
def asParamDict : Val → Except CErr (Option KV)
  | .obj .null => .ok none
  | .obj (.dict kv) => .ok (some kv)
  | _ => .error .other

/-- the loop over the /Filter array in `GetFilters` -/
def filterKindsLoop (G : Graph) : List Obj → List Obj → Except CErr (List FKind)
  | [], _ => .ok []
  | fi :: fs, pa =>
    match resolve G false fi with
    | .error e => .error e
    | .ok (.obj (.name name)) =>
      let pd : Except CErr (Option KV) :=
        match pa with
        | [] => .ok none
        | p :: _ =>
          match resolve G false p with
          | .error e => .error e
          | .ok v => asParamDict v
      match pd with
      | .error e => .error e
      | .ok pDict =>
        match makeFilterKind name pDict with
        | .error e => .error e
        | .ok k =>
          match filterKindsLoop G fs pa.tail with
          | .error e => .error e
          | .ok ks => .ok (k :: ks)
    | .ok _ => .error .other

def cryptNotFirst : List FKind → Bool
  | [] => false
  | _ :: rest => rest.any fun k => k != .plain

/-- the `switch f := filter.(type)` of `GetFilters` -/
def kindsOf (G : Graph) (dp f : Val) : Except CErr (List FKind) :=
  match f with
  | .obj .null => .ok []
  | .obj .nilArr => .ok []
  | .obj (.name n) =>
    (match asParamDict dp with
     | .error e => .error e
     | .ok pDict =>
       match makeFilterKind n pDict with
       | .error e => .error e
       | .ok k => .ok [k])
  | .obj (.arr fs) =>
    if fs.length > Gen.cpy_maxFilterChainLength then .error .malformed else
    (match dp with
     | .obj (.arr pa) => filterKindsLoop G fs pa
     | .obj .nilArr => filterKindsLoop G fs []
     | .obj .null => filterKindsLoop G fs []
     | _ => .error .other)
  | _ => .error .malformed

/-- `GetFilters`, reduced to the kinds of the filters -/
def getFilterKinds (G : Graph) (dict : KV) : Except CErr (List FKind) :=
  match resolve G false ((kvLookup keyDecodeParms dict).getD .null) with
  | .error e => .error e
  | .ok dp =>
    match resolve G false ((kvLookup keyFilter dict).getD .null) with
    | .error e => .error e
    | .ok f =>
      match kindsOf G dp f with
      | .error e => .error e
      | .ok ks => if cryptNotFirst ks then .error .malformed else .ok ks

inductive Recipe where
  | none | dflt | identity | unsupportedCF
  deriving DecidableEq, Repr

/-- the Go constants, so that a renumbering shows up in the regenerated facts -/
def Recipe.code : Recipe → Nat
  | .none => Gen.cpy_cryptNone | .dflt => Gen.cpy_cryptDefault
  | .identity => Gen.cpy_cryptIdentity | .unsupportedCF => Gen.cpy_cryptUnsupportedCF

/-- `streamCryptRecipe` -/
def streamCryptRecipe (G : Graph) (dict : KV) (enc : Bool) : Except CErr Recipe :=
  if !enc then .ok .none else
  match startsWithCrypt G ((kvLookup keyFilter dict).getD .null) with
  | .error e => .error e
  | .ok false => .ok .dflt
  | .ok true =>
    match getFilterKinds G dict with
    | .error e => .error e
    | .ok [] => .error .gap          -- Go would index filters[0]; unreachable after the probe
    | .ok (.cryptId :: _) => .ok .identity
    | .ok (.cryptCF :: _) => .ok .unsupportedCF
    | .ok (.plain :: _) => .ok .dflt

end PdfVerif.CPY

import PdfVerif.Model.CNTBuf
/-!
# The whole token reader of the content scanner over the 512-byte window

`Model/CNTScan.lean` is the scanner on the whole remaining input, `Model/CNTBuf.lean` the window
operations (`refill`, `Peek`, `PeekN`, `ReadByte`, `SkipWhiteSpace`, `tryHex`, `checkEI`, the `EI`
search).  Here the **whole** reader of `graphics/content/stream.go` — `ScanToken` (`ReadName`,
`ReadString`, `ReadHexString`, the regular-token loop), `ReadComment`,
`skipWhiteSpaceExceptComments`, `readValueDepth`/`readDictBody` (`LookingAt`), `readInlineImage`
(`SkipString`), the token loop of `Scan` and `pumpScanner` — is written **once**, as a program
(`Prog`) whose only access to the input are the window operations:

* `rd` — `ReadByte`; `pk` — `Peek`; `pkN n` — `PeekN(n)` (`n ≤ 3`: `PeekN(2)` in `ScanToken`,
  `LookingAt("]")`, `LookingAt(">>")`/`LookingAt("ID")`, `SkipString("EI")`, `PeekN(1)` in `Scan`);
* `ws` — `SkipWhiteSpace`; `hx` — `tryHex`; `ei` — the `EI` search loop (the loops of
  `Model/CNTBuf.lean`).

The program is interpreted in two ways: `runB` executes every operation on the buffer state `BS`
(window 512, one `Read` per `refill`, any chunking), `runL` on the whole remaining input.
`Props/C15cnty.lean` proves `runB = runL` on `view` for every program and every chunking, and
that the `runL` interpretation of the programs below **is** `Model/CNTScan.lean`
(`scanToken`, `readValue`, `readInlineImage`, `scanOne`, `scan`).

Conventions
* control flow through the window operations is as in the Go code (which byte is peeked, which is
  read, when); accumulators are as in `Model/CNTScan.lean`: `ReadName`, `ReadComment` and the
  regular-token loop collect the uncapped byte string and compare its length with the cap at
  the end (the Go code stops appending at the cap and sets `overflow` — the same verdict);
* **fuel is ghost**: the Go code has no fuel.  The whole-input model takes its recursion fuel from
  the length of the remaining input; `len` hands the program that same number (`runB`: the
  length of `view`), so that both sides run with identical fuel.  It influences no window
  operation.
-/
namespace PdfVerif.CNTB
open PdfVerif PdfVerif.CNT

/-- head of the remaining input as `Peek`/`ReadByte` report it -/
def hdRes (l : Bytes) : PeekRes :=
  match l with
  | [] => .eof
  | c :: _ => .byte c

def iiB : IIRes → IIB
  | .found d _ => .found d
  | .eof => .eof
  | .capped _ => .capped

def iiRest : IIRes → Bytes
  | .found _ r => r
  | .capped r => r
  | .eof => []

/-- programs over the window operations -/
inductive Prog (α : Type) : Type where
  | ret (a : α)
  | rd (k : PeekRes → Prog α)            -- `ReadByte`
  | pk (k : PeekRes → Prog α)            -- `Peek`
  | pkN (n : Fin 4) (k : Bytes → Prog α) -- `PeekN(n)`
  | ws (k : Bool → Prog α)               -- `SkipWhiteSpace`; `true` = it returned `io.EOF`
  | hx (k : Option Nat → Prog α)         -- `tryHex`
  | ei (n prev : Nat) (k : IIB → Prog α) -- the `EI` search of `readInlineImage`
  | len (k : Nat → Prog α)               -- ghost: length of the remaining input (recursion fuel)

def Prog.bind {α β : Type} : Prog α → (α → Prog β) → Prog β
  | .ret a, g => g a
  | .rd k, g => .rd fun r => (k r).bind g
  | .pk k, g => .pk fun r => (k r).bind g
  | .pkN n k, g => .pkN n fun w => (k w).bind g
  | .ws k, g => .ws fun e => (k e).bind g
  | .hx k, g => .hx fun h => (k h).bind g
  | .ei n prev k, g => .ei n prev fun r => (k r).bind g
  | .len k, g => .len fun n => (k n).bind g

def Prog.map {α β : Type} (f : α → β) (p : Prog α) : Prog β := p.bind fun a => .ret (f a)

/-- the program on the 512-byte window; `none` = a loop of a window operation ran out of its
    fuel (proved unreachable) -/
def runB {α : Type} (ch : Chunking) : Prog α → BS → BS × Option α
  | .ret a, s => (s, some a)
  | .rd k, s =>
    match (readByte ch s).2 with
    | .hang => ((readByte ch s).1, none)
    | x => runB ch (k x) (readByte ch s).1
  | .pk k, s =>
    match (peek ch 2 s).2 with
    | .hang => ((peek ch 2 s).1, none)
    | x => runB ch (k x) (peek ch 2 s).1
  | .pkN n k, s =>
    match (peekN ch n.val 4 s).2 with
    | none => ((peekN ch n.val 4 s).1, none)
    | some w => runB ch (k w) (peekN ch n.val 4 s).1
  | .ws k, s =>
    match (skipWhiteSpace ch ((view s).length + 2) s).2 with
    | none => ((skipWhiteSpace ch ((view s).length + 2) s).1, none)
    | some e => runB ch (k e) (skipWhiteSpace ch ((view s).length + 2) s).1
  | .hx k, s => runB ch (k (tryHex ch s).2) (tryHex ch s).1
  | .ei n prev k, s =>
    match (iiLoopB ch ((view s).length + 1) n prev s).2 with
    | .hang => ((iiLoopB ch ((view s).length + 1) n prev s).1, none)
    | x => runB ch (k x) (iiLoopB ch ((view s).length + 1) n prev s).1
  | .len k, s => runB ch (k (view s).length) s

/-- the program on the whole remaining input -/
def runL {α : Type} : Prog α → Bytes → α × Bytes
  | .ret a, l => (a, l)
  | .rd k, l => runL (k (hdRes l)) l.tail
  | .pk k, l => runL (k (hdRes l)) l
  | .pkN n k, l => runL (k (l.take n.val)) l
  | .ws k, l => runL (k (CNT.skipWS l).isEmpty) (CNT.skipWS l)
  | .hx k, l => runL (k (hex2 l.tail)) (match hex2 l.tail with | some _ => l.drop 3 | none => l)
  | .ei n prev k, l => runL (k (iiB (iiLoop n prev l))) (iiRest (iiLoop n prev l))
  | .len k, l => runL (k l.length) l

/-! ## results -/

inductive R (α : Type) where
  | ok (a : α)
  | eof
  | perr
  | fuel
  deriving Repr

def R.map {α β : Type} (f : α → β) : R α → R β
  | .ok a => .ok (f a)
  | .eof => .eof
  | .perr => .perr
  | .fuel => .fuel

/-- result and remaining input as the whole-input model reports them -/
def toRes {α : Type} (x : R α × Bytes) : Res α :=
  match x.1 with
  | .ok a => .ok a x.2
  | .eof => .eof
  | .perr => .perr x.2
  | .fuel => .fuel

def consR (x : Nat) (p : Prog (R Bytes)) : Prog (R Bytes) := p.map (R.map (x :: ·))

/-! ## the byte loops -/

/-- `skipWhiteSpaceExceptComments`; `true` = `io.EOF` -/
def skipSpP : Nat → Prog Bool
  | 0 => .ret true
  | f+1 => .pk fun r =>
    match r with
    | .byte b => if cSpace b then .rd fun _ => skipSpP f else .ret false
    | _ => .ret true

/-- `ReadComment` (the scanner stands at `%`) -/
def cmtP : Nat → Prog Bytes
  | 0 => .ret []
  | f+1 => .pk fun r =>
    match r with
    | .byte b => if b == 10 || b == 13 then .ret [] else .rd fun _ => (cmtP f).map (b :: ·)
    | _ => .ret []

/-- `ReadName` (after the slash) -/
def nameP : Nat → Prog Bytes
  | 0 => .ret []
  | f+1 => .pk fun r =>
    match r with
    | .byte b =>
      if !cReg b then .ret []
      else if b == 35 then .hx fun h =>
        match h with
        | some v => (nameP f).map (v :: ·)
        | none => .rd fun _ => (nameP f).map (35 :: ·)
      else .rd fun _ => (nameP f).map (b :: ·)
    | _ => .ret []

/-- the loop of the default branch of `ScanToken` (after the first byte) -/
def regP : Nat → Prog Bytes
  | 0 => .ret []
  | f+1 => .pk fun r =>
    match r with
    | .byte b => if cReg b then .rd fun _ => (regP f).map (b :: ·) else .ret []
    | _ => .ret []

/-- `ReadString` (after the opening parenthesis) -/
def strP : Nat → (level : Nat) → (ignoreLF : Bool) → (len : Nat) → Prog (R Bytes)
  | 0, _, _, _ => .ret .fuel
  | f+1, level, ign, len =>
    if len ≥ Gen.content_maxStringBytes then .ret .perr
    else .rd fun r =>
      match r with
      | .byte b =>
        if ign && b == 10 then strP f level false len
        else if b == 40 then consR b (strP f (level + 1) false (len + 1))
        else if b == 41 then
          if level == 1 then .ret (.ok []) else consR b (strP f (level - 1) false (len + 1))
        else if b == 92 then .rd fun r2 =>
          match r2 with
          | .byte e =>
            if e == 110 then consR 10 (strP f level false (len + 1))
            else if e == 114 then consR 13 (strP f level false (len + 1))
            else if e == 116 then consR 9 (strP f level false (len + 1))
            else if e == 98 then consR 8 (strP f level false (len + 1))
            else if e == 102 then consR 12 (strP f level false (len + 1))
            else if e == 10 then strP f level false len
            else if e == 13 then strP f level true len
            else if isOct e then .pk fun p2 =>
              match p2 with
              | .byte d2 =>
                if isOct d2 then .rd fun _ => .pk fun p3 =>
                  match p3 with
                  | .byte d3 =>
                    if isOct d3 then .rd fun _ =>
                      consR ((((e - 48) * 8 + (d2 - 48)) * 8 + (d3 - 48)) % 256) (strP f level false (len + 1))
                    else consR ((e - 48) * 8 + (d2 - 48)) (strP f level false (len + 1))
                  | _ => consR ((e - 48) * 8 + (d2 - 48)) (strP f level false (len + 1))
                else consR (e - 48) (strP f level false (len + 1))
              | _ => consR (e - 48) (strP f level false (len + 1))
            else consR e (strP f level false (len + 1))
          | _ => .ret .eof
        else if b == 13 then consR 10 (strP f level true (len + 1))
        else consR b (strP f level false (len + 1))
      | _ => .ret .eof

/-- `ReadHexString` (after `<`) -/
def hexP : Nat → (hi : Option Nat) → (len : Nat) → Prog (R Bytes)
  | 0, _, _ => .ret .fuel
  | f+1, hi, len => .rd fun r =>
    match r with
    | .byte b =>
      if b == 62 then
        .ret (.ok (match hi with | some h => [h * 16] | none => []))
      else if cSpace b then hexP f hi len
      else match hexVal b with
        | none => .ret .perr
        | some lo =>
          match hi with
          | none => hexP f (some lo) len
          | some h =>
            if len ≥ Gen.content_maxStringBytes then .ret .perr
            else consR (h * 16 + lo) (hexP f none (len + 1))
    | _ => .ret .eof

/-- `ScanToken` -/
def tokP : Prog (R Obj) :=
  .ws fun e =>
    if e then .ret .eof
    else .pkN 2 fun bb =>
      match bb with
      | [] => .ret .eof
      | c :: t =>
        if c == 47 then .rd fun _ => .len fun n => (nameP (n + 1)).bind fun nm =>
          .ret (if nm.length > Gen.content_maxNameBytes then .perr else .ok (.name nm))
        else if c == 40 then .rd fun _ => .len fun n => (strP (n + 1) 1 false 0).map (R.map .str)
        else if c == 60 then
          if t == [60] then .rd fun _ => .rd fun _ => .ret (.ok (.op [60, 60]))
          else .rd fun _ => .len fun n => (hexP (n + 1) none 0).map (R.map .str)
        else if c == 62 && t == [62] then .rd fun _ => .rd fun _ => .ret (.ok (.op [62, 62]))
        else .rd fun _ =>
          if cReg c then .len fun n => (regP (n + 1)).bind fun run =>
            .ret (if run.length + 1 > Gen.content_maxNameBytes then .perr else .ok (classify (c :: run)))
          else .ret (.ok (classify [c]))

/-! ## `readValueDepth` / `readDictBody` -/

mutual
/-- `readValueDepth` -/
def valueP : Nat → (depth : Nat) → Prog (R Obj)
  | 0, _ => .ret .fuel
  | f+1, depth => tokP.bind fun r =>
    match r with
    | .ok (.op o) =>
      if o == [91] then
        if depth ≥ Gen.content_maxValueDepth then .ret .perr else arrP f (depth + 1) []
      else if o == [60, 60] then
        if depth ≥ Gen.content_maxValueDepth then .ret .perr
        else (dictP f [62, 62] (depth + 1) []).map (R.map .dict)
      else .ret (.ok (.op o))
    | r => .ret r
/-- the array loop: `SkipWhiteSpace`, `LookingAt("]")`, `SkipByte` -/
def arrP : Nat → (depth : Nat) → List Obj → Prog (R Obj)
  | 0, _, _ => .ret .fuel
  | f+1, depth, acc => .ws fun e =>
    if e then .ret .eof
    else .pkN 1 fun w =>
      if w == [93] then .rd fun _ => .ret (.ok (.arr acc))
      else if acc.length ≥ Gen.content_maxArrayLen then .ret .perr
      else (valueP f depth).bind fun r =>
        match r with
        | .ok e => arrP f depth (acc ++ [e])
        | .eof => .ret .eof
        | .perr => .ret .perr
        | .fuel => .ret .fuel
/-- `readDictBody` for a terminator of two bytes (`>>`, `ID`): `SkipWhiteSpace`,
    `LookingAt(term)`, `SkipN(2)` -/
def dictP : Nat → (term : Bytes) → (valueDepth : Nat) → List (Bytes × Obj) → Prog (R (List (Bytes × Obj)))
  | 0, _, _, _ => .ret .fuel
  | f+1, term, vd, acc => .ws fun e =>
    if e then .ret .eof
    else .pkN 2 fun w =>
      if w == term then .rd fun _ => .rd fun _ => .ret (.ok acc)
      else (valueP f vd).bind fun rk =>
        match rk with
        | .ok (.name key) => (valueP f vd).bind fun rv =>
          (match rv with
           | .ok .null => dictP f term vd acc
           | .ok val =>
             if !(acc.any fun e => e.1 == key) && acc.length ≥ Gen.content_maxDictLen then .ret .perr
             else dictP f term vd (dictInsert key val acc)
           | .eof => .ret .eof
           | .perr => .ret .perr
           | .fuel => .ret .fuel)
        | .ok _ => .ret .perr
        | .eof => .ret .eof
        | .perr => .ret .perr
        | .fuel => .ret .fuel
end

/-! ## `readInlineImage` -/

/-- `length` times `ReadByte`; `none` = a `ReadByte` reported `io.EOF` -/
def readNP : Nat → Prog (Option Bytes)
  | 0 => .ret (some [])
  | n+1 => .rd fun r =>
    match r with
    | .byte b => (readNP n).map (Option.map (b :: ·))
    | _ => .ret none

/-- `SkipString("EI")` and the check of the byte behind it -/
def finP (kv : List (Bytes × Obj)) (data : Bytes) : Prog (R (Bytes × List Obj)) :=
  .pkN 2 fun w =>
    if w == kwEI then .rd fun _ => .rd fun _ => .pk fun p =>
      match p with
      | .byte c =>
        if cReg c then .ret .perr else .ret (.ok (Gen.content_OpInlineImage, [.dict kv, .str data]))
      | _ => .ret (.ok (Gen.content_OpInlineImage, [.dict kv, .str data]))
    else if w.length < 2 then .ret .eof
    else .ret .perr

/-- the data: `Length` bytes, or the `EI` search -/
def dataP (kv : List (Bytes × Obj)) : Prog (R (Bytes × List Obj)) :=
  let length := iiInt kv nmL nmLength
  if length > 0 then
    if length > Gen.content_maxInlineImageBytes then .ret .perr
    else (readNP length.toNat).bind fun d =>
      match d with
      | none => .ret .eof
      | some data => .ws fun e => if e then .ret .eof else finP kv data
  else .ei 0 0 fun r =>
    match r with
    | .found d => finP kv d.dropLast
    | .eof => .ret .eof
    | .capped => .ret .perr
    | .hang => .ret .fuel

/-- for ASCII filters without a `Length`: `SkipWhiteSpace` (its error ends the call), then the data -/
def goP (kv : List (Bytes × Obj)) : Prog (R (Bytes × List Obj)) :=
  if skipsWS kv then .ws fun e => if e then .ret .eof else dataP kv else dataP kv

/-- behind `ID`: `b, _ := s.Peek(); if class[b] == space { s.ReadByte() }` -/
def afterIDP (kv : List (Bytes × Obj)) : Prog (R (Bytes × List Obj)) :=
  .pk fun p =>
    match p with
    | .byte c => if cSpace c then .rd fun _ => goP kv else goP kv
    | _ => goP kv

/-- `readInlineImage` (after the `BI` token) -/
def imageP : Prog (R (Bytes × List Obj)) :=
  .len fun n => (dictP (2 * n + 2) kwID 0 []).bind fun r =>
    match r with
    | .ok kv =>
      let width := iiInt kv nmW nmWidth
      let height := iiInt kv nmH nmHeight
      if width ≤ 0 || height ≤ 0 || width > Gen.content_maxInlineImageDim || height > Gen.content_maxInlineImageDim then .ret .perr
      else if width * height > Gen.content_maxInlineImagePixels then .ret .perr
      else afterIDP kv
    | .eof => .ret .eof
    | .perr => .ret .perr
    | .fuel => .ret .fuel

/-! ## `Scan` and `pumpScanner` -/

/-- the token loop of `Scan` -/
def scanLoopP : Nat → List Frame → List Obj → Prog (R (Bytes × List Obj))
  | 0, _, _ => .ret .fuel
  | f+1, stk, args => tokP.bind fun r =>
    match r with
    | .ok tok =>
      (match step stk args tok with
       | .cont stk' args' => scanLoopP f stk' args'
       | .emit name args' => .ret (.ok (name, args'))
       | .image => imageP
       | .perr => .ret .perr)
    | .eof => .ret .eof
    | .perr => .ret .perr
    | .fuel => .ret .fuel

/-- `Scan` (composite stack empty): `skipWhiteSpaceExceptComments`, `PeekN(1)`, `ReadComment` or
    the token loop -/
def scanOneP : Prog (R (Bytes × List Obj)) :=
  .len fun n => (skipSpP (n + 1)).bind fun e =>
    if e then .ret .eof
    else .pkN 1 fun bb =>
      if bb == [37] then .len fun m => (cmtP (m + 1)).bind fun cm =>
        .ret (if cm.length > Gen.content_maxNameBytes then .perr else .ok (Gen.content_OpRawContent, [.str cm]))
      else .len fun m => scanLoopP (m + 1) [] []

/-- `pumpScanner` -/
def scanAllP : Nat → Prog (Option (List (Bytes × List Obj)))
  | 0 => .ret none
  | f+1 => scanOneP.bind fun r =>
    match r with
    | .ok op => (scanAllP f).map (Option.map (op :: ·))
    | .eof => .ret (some [])
    | .perr => scanAllP f
    | .fuel => .ret none

/-- what `NewScanner(…).NewIter().All()` yields — as a program over the window operations -/
def scanP : Prog (Option (List (Bytes × List Obj))) := .len fun n => scanAllP (n + 2)

/-- **the buffered scanner**: `scanP` on the 512-byte window over a reader with chunking `ch`;
    `none` = a window loop hung -/
def scanBuf (ch : Chunking) (data : Bytes) : Option (Option (List (Bytes × List Obj))) :=
  (runB ch scanP (BS.init data)).2

end PdfVerif.CNTB

import PdfVerif.Model.CPYGraph
/-!
C11 — model of `copier.go` (`Copier.Copy`, `CopyDict`, `CopyArray`, `copyStreamDict`,
`CopyReference`, `Redirect`) over the part of `writer.go` the copier uses (`Writer.Alloc`,
`Writer.Put` with the duplicate check of `setXRef`).

State: `trans` (the map `Copier.trans`), `next` (`Writer.nextRef`), `puts` (the objects handed to
`Writer.Put`, in order).  The recursion mirrors the Go recursion; every call consumes one unit of
`fuel`, and `Props/C11cpy.lean` proves that a fuel computed from the source graph always suffices
(this is the argument that cycles terminate: `trans` is entered before recursing).

A failing call returns only the error: the state a failed `Copy` leaves behind in the real
`Copier`/`Writer` is not modelled (the harness stops a program at the first error).
-/
namespace PdfVerif.CPY

structure St where
  trans : List (Ref × Ref)
  next : Nat
  puts : List (Ref × Val)
  /-- /V of the target's encryption dictionary; 0 for an unencrypted target.  Never changes. -/
  tgtV : Nat
  deriving Inhabited

/-- `Writer.Alloc`: panics at `maxXRefSize` -/
def alloc (s : St) : Except CErr (Ref × St) :=
  if s.next ≥ Gen.cpy_maxXRefSize then .error .overflow
  else .ok ((s.next, 0), { s with next := s.next + 1 })

/-- `dictCryptFilter` (writer.go) on a direct stream dictionary: the kind of a /Crypt filter at
    position 0 of /Filter.  A /Crypt name at a later position is an error; the parameters of the
    leading one are /DecodeParms itself or the first element of the /DecodeParms array. -/
def isCryptName : Obj → Bool
  | .name f => f == nameCrypt
  | _ => false

def dictCryptKind (d : KV) : Except CErr (Option FKind) :=
  let names : List Obj :=
    match kvLookup keyFilter d with
    | some (.name f) => [.name f]
    | some (.arr xs) => xs
    | _ => []
  let parms : Option KV :=
    match kvLookup keyDecodeParms d with
    | some (.dict p) => some p
    | some (.arr (.dict p :: _)) => some p
    | _ => none
  match names with
  | [] => .ok none
  | x :: rest =>
    if isCryptName x then
      match parseCryptKind parms with
      | .error e => .error e
      | .ok k => if rest.any isCryptName then .error .other else .ok (some k)
    else if rest.any isCryptName then .error .other else .ok none

/-- What `Writer.OpenStream` (called by `Writer.Put` for a stream) refuses because of /Crypt
    filters named in the stream dictionary: a malformed parameter dictionary, a /Crypt entry that
    is not the first filter, a leading /Crypt filter other than Identity ("encoding is not yet
    supported"), and any leading /Crypt filter when the target is encrypted with /V < 4 (crypt
    filters do not exist there: a reader would decrypt the stream, 5f1fc4f). -/
def putRefusal (tgtV : Nat) : Val → Option CErr
  | .obj _ => none
  | .stream d _ _ =>
    match dictCryptKind d with
    | .error e => some e
    | .ok none => none
    | .ok (some .cryptCF) => some .other
    | .ok (some _) => if tgtV ≠ 0 ∧ tgtV < 4 then some .other else none

/-- `Writer.Put` as far as the copier can observe it: `setXRef` refuses an object number that
    already has an entry (`errDuplicateRef`) and moves `nextRef` past the number; a stream whose
    dictionary names a /Crypt filter the target cannot take is refused (`putRefusal`; the
    cross-reference entry made by `setXRef` is removed again, nothing is written). -/
def put (s : St) (r : Ref) (v : Val) : Except CErr St :=
  if s.puts.any (fun p => p.1.1 == r.1) then .error .other
  else match putRefusal s.tgtV v with
    | some e => .error e
    | none => .ok { s with puts := s.puts ++ [(r, v)],
                           next := if s.next ≤ r.1 then r.1 + 1 else s.next }

/-- `c.trans[orig] = new` -/
def setTrans (orig new : Ref) (tr : List (Ref × Ref)) : List (Ref × Ref) :=
  (orig, new) :: tr.filter (fun p => p.1 ≠ orig)

/-- `Copier.Redirect` -/
def redirect (s : St) (orig new : Ref) : St := { s with trans := setTrans orig new s.trans }

/-- What a source reference stands for: `Resolve`, with a malformed or undefined object (also a
    reference loop or an over-deep chain) read as null, a read error passed on.  `CopyReference`
    computes it link by link (`walkChain`), looking every link up in `trans`;
    `Props/C11cpy.walkFrom_out` shows that the walk ends at this value. -/
def resolveOrNull (G : Graph) (r : Ref) : Except CErr Val :=
  match resolve G true (.ref r.1 r.2) with
  | .error .malformed => .ok (.obj .null)
  | .error e => .error e
  | .ok v => .ok v

/-- the outcome of following the chain "N 0 obj M 0 R endobj" link by link in `CopyReference` -/
inductive Walk where
  | known (t : Ref) (chain : List Ref)   -- a link is translated already: the links before it get `t`
  | ends (v : Val) (chain : List Ref)    -- the chain ends at the value `v`; `chain` are all its links
  | dead                                 -- malformed link, reference loop, over-deep chain: null
  | fails (e : CErr)                     -- the Getter failed (not a malformed object)
  deriving Inhabited

/-- The loop at the head of `CopyReference`.  `chain` are the links met so far (`cur` is the last
    one), `d` the number of further links `limits.MaxExtractDepth` still admits. -/
def walkChain (G : Graph) (tr : List (Ref × Ref)) : Nat → List Ref → Ref → Walk
  | d, chain, cur =>
    match get G cur true with
    | .error .malformed => .dead
    | .error e => .fails e
    | .ok (.obj (.ref n g)) =>
      match assoc (n, g) tr with
      | some t => .known t chain
      | none =>
        if chain.contains (n, g) then .dead else
        match d with
        | 0 => .dead
        | d'+1 => walkChain G tr d' (chain ++ [(n, g)]) (n, g)
    | .ok v => .ends v chain

/-- `c.trans[key] = t` for every link of the chain -/
def enter (chain : List Ref) (t : Ref) (tr : List (Ref × Ref)) : List (Ref × Ref) :=
  chain.map (fun k => (k, t)) ++ tr

/-- the walk of `CopyReference(r)`.  A malformed link, a reference loop and an over-deep chain
    resolve to null, and then only `r` itself is entered into `trans` (`chain = chain[:1]`). -/
def walkFrom (G : Graph) (tr : List (Ref × Ref)) (r : Ref) : Walk :=
  match walkChain G tr (Gen.cpy_MaxExtractDepth - 1) [r] r with
  | .dead => .ends (.obj .null) [r]
  | w => w

mutual
/-- `Copier.Copy` on a non-stream object -/
def copyObj : Nat → Graph → St → Obj → Except CErr (Obj × St)
  | 0, _, _, _ => .error .fuel
  | f+1, G, s, .dict kv =>
    match copyKV f G s (sortedEntries kv) with
    | .error e => .error e
    | .ok (kv', s') => .ok (.dict kv', s')
  | f+1, G, s, .arr xs =>
    match copyList f G s xs with
    | .error e => .error e
    | .ok (ys, s') => .ok (.arr ys, s')
  | f+1, G, s, .ref n g =>
    match copyRef f G s (n, g) with
    | .error e => .error e
    | .ok (t, s') => .ok (.ref t.1 t.2, s')
  | _+1, _, s, o => .ok (o, s)     -- scalars; `CopyArray(nil)` returns the nil array

/-- the loop of `CopyArray` -/
def copyList : Nat → Graph → St → List Obj → Except CErr (List Obj × St)
  | 0, _, _, _ => .error .fuel
  | _+1, _, s, [] => .ok ([], s)
  | f+1, G, s, x :: xs =>
    match copyObj f G s x with
    | .error e => .error e
    | .ok (y, s1) =>
      match copyList f G s1 xs with
      | .error e => .error e
      | .ok (ys, s2) => .ok (y :: ys, s2)

/-- the loop of `CopyDict` over the keys in `SortedKeys` order -/
def copyKV : Nat → Graph → St → KV → Except CErr (KV × St)
  | 0, _, _, _ => .error .fuel
  | _+1, _, s, [] => .ok ([], s)
  | f+1, G, s, (k, .null) :: rest =>          -- `val == nil`: the entry stays null
    match copyKV f G s rest with
    | .error e => .error e
    | .ok (rest', s') => .ok ((k, .null) :: rest', s')
  | f+1, G, s, (k, v) :: rest =>
    match copyObj f G s v with
    | .error e => .error e
    | .ok (v', s1) =>
      match copyKV f G s1 rest with
      | .error e => .error e
      | .ok (rest', s2) => .ok ((k, v') :: rest', s2)

/-- one round of the loop in `copyStreamDict`: inline and copy `src[key]`, store it in `res` -/
def inlineKey : Nat → Graph → St → KV → KV → Bytes → Except CErr (KV × St)
  | 0, _, _, _, _, _ => .error .fuel
  | f+1, G, s, src, res, key =>
    match kvLookup key src with
    | none => .ok (res, s)
    | some val =>
      match inlineFilterRefs G val with
      | .error e => .error e
      | .ok (.stream _ _ _) => .error .other   -- a stream as /Filter: Put cannot write it
      | .ok (.obj inl) =>
        match copyObj f G s inl with
        | .error e => .error e
        | .ok (repl, s') => .ok (kvSet key repl res, s')

/-- `copyStreamDict` -/
def copyStreamDict : Nat → Graph → St → KV → Except CErr (KV × St)
  | 0, _, _, _ => .error .fuel
  | f+1, G, s, src =>
    match copyKV f G s (sortedEntries src) with
    | .error e => .error e
    | .ok (res, s1) =>
      match inlineKey f G s1 src res keyFilter with
      | .error e => .error e
      | .ok (res2, s2) => inlineKey f G s2 src res2 keyDecodeParms

/-- `Copier.Copy` -/
def copyVal : Nat → Graph → St → Val → Except CErr (Val × St)
  | 0, _, _, _ => .error .fuel
  | f+1, G, s, .obj o =>
    match copyObj f G s o with
    | .error e => .error e
    | .ok (o', s') => .ok (.obj o', s')
  | f+1, G, s, .stream dict data enc =>
    match copyStreamDict f G s dict with
    | .error e => .error e
    | .ok (dict', s1) =>
      match streamCryptRecipe G dict enc with
      | .error e => .error e
      | .ok .unsupportedCF => .error .other
      | .ok _ => .ok (.stream dict' data false, s1)   -- bytes after decryption; `crypt` unset

/-- `Copier.CopyReference`: every link of a chain of references gets the same translation, so
    an object reached directly and through alias objects is copied once -/
def copyRef : Nat → Graph → St → Ref → Except CErr (Ref × St)
  | 0, _, _, _ => .error .fuel
  | f+1, G, s, r =>
    match assoc r s.trans with
    | some t => .ok (t, s)
    | none =>
      match walkFrom G s.trans r with
      | .fails e => .error e
      | .dead => .error .gap            -- `walkFrom` never answers `dead`
      | .known t chain => .ok (t, { s with trans := enter chain t s.trans })
      | .ends v chain =>
        match alloc s with
        | .error e => .error e
        | .ok (n, s1) =>
          let s2 : St := { s1 with trans := enter chain n s1.trans }
          match copyVal f G s2 v with
          | .error e => .error e
          | .ok (v', s3) =>
            match put s3 n v' with
            | .error e => .error e
            | .ok s4 => .ok (n, s4)
end

/-! ### programs: what the harness does with a `Copier` -/

inductive Op where
  | copyRef (r : Ref)                     -- `t, err := c.CopyReference(r)`
  | copyGet (r : Ref)                     -- `v := src.Get(r); o := c.Copy(v); n := w.Alloc(); w.Put(n, o)`
  | copyObj (o : Obj)                     -- `o' := c.Copy(o); n := w.Alloc(); w.Put(n, o')`
  | redirectNew (r : Ref) (marker : Obj)  -- `n := w.Alloc(); w.Put(n, marker); c.Redirect(r, n)`
  | redirectTo (r : Ref) (k : Nat)        -- `c.Redirect(r, <result of operation k>)`
  deriving Inhabited

def allocPut (s : St) (v : Val) : Except CErr (Ref × St) :=
  match alloc s with
  | .error e => .error e
  | .ok (n, s1) =>
    match put s1 n v with
    | .error e => .error e
    | .ok s2 => .ok (n, s2)

/-- one operation; `roots` are the results of the earlier operations -/
def stepOp (fuel : Nat) (G : Graph) (s : St) (roots : List Ref) : Op → Except CErr (Ref × St)
  | .copyRef r => copyRef fuel G s r
  | .copyGet r =>
    match get G r true with
    | .error e => .error e
    | .ok v =>
      match copyVal fuel G s v with
      | .error e => .error e
      | .ok (v', s1) => allocPut s1 v'
  | .copyObj o =>
    match copyObj fuel G s o with
    | .error e => .error e
    | .ok (o', s1) => allocPut s1 (.obj o')
  | .redirectNew r marker =>
    match allocPut s (.obj marker) with
    | .error e => .error e
    | .ok (n, s1) => .ok (n, redirect s1 r n)
  | .redirectTo r k =>
    match roots[k]? with
    | none => .error .gap
    | some t => .ok (t, redirect s r t)

/-- run a program; stops at the first error (index of the failing operation, error) -/
def runOps (fuel : Nat) (G : Graph) : St → List Ref → List Op → Except (Nat × CErr) (List Ref × St)
  | s, roots, [] => .ok (roots, s)
  | s, roots, op :: ops =>
    match stepOp fuel G s roots op with
    | .error e => .error (roots.length, e)
    | .ok (t, s') => runOps fuel G s' (roots ++ [t]) ops

/-! ### the same functions with the state a *failed* call leaves behind

`copyObj` … `copyRef` above return only the error of a failing call.  The `…E` versions below
return the state in both cases.  A failing `CopyReference` has already allocated a number and
entered it into `trans`, and the copies nested in it may have entered and written more.  On each
of its three error returns it removes every entry made since it started (`fail` in
`CopyReference`: the keys logged in `c.added[mark:]`, fixes d320179 + bdb0240).  The entries made
since the call started are exactly the entries that were not there when it started (they are new
keys, `copy_main`), so the model restores `trans` to its value at entry; `next` and the objects
already written stay.  `Props/C11cpyd.lean` proves that the two versions agree on the result, so
every theorem about the plain versions is a theorem about these. -/

/-- the rollback of `CopyReference`: `trans` as it was when the call started (`s0`) -/
def restoreTrans (s0 s : St) : St := { s with trans := s0.trans }

mutual
def copyObjE : Nat → Graph → St → Obj → Except CErr Obj × St
  | 0, _, s, _ => (.error .fuel, s)
  | f+1, G, s, .dict kv =>
    match copyKVE f G s (sortedEntries kv) with
    | (.error e, s') => (.error e, s')
    | (.ok kv', s') => (.ok (.dict kv'), s')
  | f+1, G, s, .arr xs =>
    match copyListE f G s xs with
    | (.error e, s') => (.error e, s')
    | (.ok ys, s') => (.ok (.arr ys), s')
  | f+1, G, s, .ref n g =>
    match copyRefE f G s (n, g) with
    | (.error e, s') => (.error e, s')
    | (.ok t, s') => (.ok (.ref t.1 t.2), s')
  | _+1, _, s, o => (.ok o, s)

def copyListE : Nat → Graph → St → List Obj → Except CErr (List Obj) × St
  | 0, _, s, _ => (.error .fuel, s)
  | _+1, _, s, [] => (.ok [], s)
  | f+1, G, s, x :: xs =>
    match copyObjE f G s x with
    | (.error e, s1) => (.error e, s1)
    | (.ok y, s1) =>
      match copyListE f G s1 xs with
      | (.error e, s2) => (.error e, s2)
      | (.ok ys, s2) => (.ok (y :: ys), s2)

def copyKVE : Nat → Graph → St → KV → Except CErr KV × St
  | 0, _, s, _ => (.error .fuel, s)
  | _+1, _, s, [] => (.ok [], s)
  | f+1, G, s, (k, .null) :: rest =>
    match copyKVE f G s rest with
    | (.error e, s') => (.error e, s')
    | (.ok rest', s') => (.ok ((k, .null) :: rest'), s')
  | f+1, G, s, (k, v) :: rest =>
    match copyObjE f G s v with
    | (.error e, s1) => (.error e, s1)
    | (.ok v', s1) =>
      match copyKVE f G s1 rest with
      | (.error e, s2) => (.error e, s2)
      | (.ok rest', s2) => (.ok ((k, v') :: rest'), s2)

def inlineKeyE : Nat → Graph → St → KV → KV → Bytes → Except CErr KV × St
  | 0, _, s, _, _, _ => (.error .fuel, s)
  | f+1, G, s, src, res, key =>
    match kvLookup key src with
    | none => (.ok res, s)
    | some val =>
      match inlineFilterRefs G val with
      | .error e => (.error e, s)
      | .ok (.stream _ _ _) => (.error .other, s)
      | .ok (.obj inl) =>
        match copyObjE f G s inl with
        | (.error e, s') => (.error e, s')
        | (.ok repl, s') => (.ok (kvSet key repl res), s')

def copyStreamDictE : Nat → Graph → St → KV → Except CErr KV × St
  | 0, _, s, _ => (.error .fuel, s)
  | f+1, G, s, src =>
    match copyKVE f G s (sortedEntries src) with
    | (.error e, s1) => (.error e, s1)
    | (.ok res, s1) =>
      match inlineKeyE f G s1 src res keyFilter with
      | (.error e, s2) => (.error e, s2)
      | (.ok res2, s2) => inlineKeyE f G s2 src res2 keyDecodeParms

def copyValE : Nat → Graph → St → Val → Except CErr Val × St
  | 0, _, s, _ => (.error .fuel, s)
  | f+1, G, s, .obj o =>
    match copyObjE f G s o with
    | (.error e, s') => (.error e, s')
    | (.ok o', s') => (.ok (.obj o'), s')
  | f+1, G, s, .stream dict data enc =>
    match copyStreamDictE f G s dict with
    | (.error e, s1) => (.error e, s1)
    | (.ok dict', s1) =>
      match streamCryptRecipe G dict enc with
      | .error e => (.error e, s1)
      | .ok .unsupportedCF => (.error .other, s1)
      | .ok _ => (.ok (.stream dict' data false), s1)

def copyRefE : Nat → Graph → St → Ref → Except CErr Ref × St
  | 0, _, s, _ => (.error .fuel, s)
  | f+1, G, s, r =>
    match assoc r s.trans with
    | some t => (.ok t, s)
    | none =>
      match walkFrom G s.trans r with
      | .fails e => (.error e, s)
      | .dead => (.error .gap, s)
      | .known t chain => (.ok t, { s with trans := enter chain t s.trans })
      | .ends v chain =>
        match alloc s with
        | .error e => (.error e, s)
        | .ok (n, s1) =>
          let s2 : St := { s1 with trans := enter chain n s1.trans }
          match copyValE f G s2 v with
          | (.error e, s3) => (.error e, restoreTrans s s3)
          | (.ok v', s3) =>
            match put s3 n v' with
            | .error e => (.error e, restoreTrans s s3)
            | .ok s4 => (.ok n, s4)
end

def allocPutE (s : St) (v : Val) : Except CErr Ref × St :=
  match alloc s with
  | .error e => (.error e, s)
  | .ok (n, s1) =>
    match put s1 n v with
    | .error e => (.error e, s1)
    | .ok s2 => (.ok n, s2)

/-- one operation; `roots` are the outcomes of the earlier operations.  A caller goes on using
    the `Copier` after a failed call. -/
def stepOpE (fuel : Nat) (G : Graph) (s : St) (roots : List (Except CErr Ref)) : Op → Except CErr Ref × St
  | .copyRef r => copyRefE fuel G s r
  | .copyGet r =>
    match get G r true with
    | .error e => (.error e, s)
    | .ok v =>
      match copyValE fuel G s v with
      | (.error e, s1) => (.error e, s1)
      | (.ok v', s1) => allocPutE s1 v'
  | .copyObj o =>
    match copyObjE fuel G s o with
    | (.error e, s1) => (.error e, s1)
    | (.ok o', s1) => allocPutE s1 (.obj o')
  | .redirectNew r marker =>
    match allocPutE s (.obj marker) with
    | (.error e, s1) => (.error e, s1)
    | (.ok n, s1) => (.ok n, redirect s1 r n)
  | .redirectTo r k =>
    match roots[k]? with
    | some (.ok t) => (.ok t, redirect s r t)
    | _ => (.error .gap, s)       -- the harness skips a Redirect to the result of a failed call

/-- run a whole program, going on after failures -/
def runOpsE (fuel : Nat) (G : Graph) : St → List (Except CErr Ref) → List Op → List (Except CErr Ref) × St
  | s, roots, [] => (roots, s)
  | s, roots, op :: ops =>
    match stepOpE fuel G s roots op with
    | (r, s') => runOpsE fuel G s' (roots ++ [r]) ops

/-! ### the recursion budget: sizes and references of the source graph -/

mutual
def osize : Obj → Nat
  | .arr xs => 1 + lsize xs
  | .dict kv => 1 + kvsize kv
  | _ => 1
def lsize : List Obj → Nat
  | [] => 1
  | x :: xs => 1 + osize x + lsize xs
def kvsize : KV → Nat
  | [] => 1
  | (_, v) :: rest => 1 + osize v + kvsize rest
end

mutual
def orefs : Obj → List Ref
  | .ref n g => [(n, g)]
  | .arr xs => lrefs xs
  | .dict kv => kvrefs kv
  | _ => []
def lrefs : List Obj → List Ref
  | [] => []
  | x :: xs => orefs x ++ lrefs xs
def kvrefs : KV → List Ref
  | [] => []
  | (_, v) :: rest => orefs v ++ kvrefs rest
end

/-- size of what `inlineFilterRefs` makes of `dict[key]` (0 if absent or not an object) -/
def inlSize (G : Graph) (dict : KV) (key : Bytes) : Nat :=
  match kvLookup key dict with
  | none => 0
  | some v =>
    match inlineFilterRefs G v with
    | .ok (.obj inl) => osize inl
    | _ => 0

def valWeight (G : Graph) : Val → Nat
  | .obj o => osize o
  | .stream dict _ _ => kvsize dict + inlSize G dict keyFilter + inlSize G dict keyDecodeParms

def valRefs : Val → List Ref
  | .obj o => orefs o
  | .stream dict _ _ => kvrefs dict

def nodeWeight (G : Graph) : Node → Nat
  | .val v => valWeight G v
  | _ => 1

/-- the references in what `inlineFilterRefs` makes of `dict[key]` -/
def inlRefs (G : Graph) (dict : KV) (key : Bytes) : List Ref :=
  match kvLookup key dict with
  | none => []
  | some v =>
    match inlineFilterRefs G v with
    | .ok (.obj inl) => orefs inl
    | _ => []

def valAllRefs (G : Graph) : Val → List Ref
  | .obj o => orefs o
  | .stream dict _ _ => kvrefs dict ++ inlRefs G dict keyFilter ++ inlRefs G dict keyDecodeParms

def nodeRefs (G : Graph) : Node → List Ref
  | .val v => valAllRefs G v
  | _ => []

def opWeight : Op → Nat
  | .copyObj o => osize o
  | _ => 1

def opRefs : Op → List Ref
  | .copyRef r => [r]
  | .copyGet r => [r]
  | .copyObj o => orefs o
  | .redirectNew r _ => [r]
  | .redirectTo r _ => [r]

/-- an upper bound for the weight of every value the copier is handed -/
def maxWeight (G : Graph) (ops : List Op) : Nat :=
  (G.map fun e => nodeWeight G e.2.node).foldr max ((ops.map opWeight).foldr max 1)

/-- every reference the copier can meet -/
def allRefs (G : Graph) (ops : List Op) : List Ref :=
  (G.flatMap fun e => nodeRefs G e.2.node) ++ ops.flatMap opRefs

/-- the fuel the driver runs the model with; `Props/C11cpy.fuel_suffices` shows that no call
    runs out of it: each new reference costs at most `maxWeight + 6` nested calls, and a
    reference is new at most once because it is entered into `trans` before the recursion. -/
def fuelFor (G : Graph) (ops : List Op) : Nat :=
  ((allRefs G ops).length + 2) * (maxWeight G ops + 6)

end PdfVerif.CPY

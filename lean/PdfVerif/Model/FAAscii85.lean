import PdfVerif.Model.FACommon
import PdfVerif.Generated.FactsFA
/-!
Model of `internal/filter/ascii85/ascii85.go` as wired by `filter.go`
(`FilterASCII85.Encode` = `ascii85.Encode(w, 79)`).

Encoder state: `(v, k, buf)` = the 32-bit accumulator, the number of bytes in it, and the
line buffer (capacity `width+1`).  Decoder state: `(v, k, isEnd)`; `v` is a Go `uint32`, the
decoder does not check for overflow of a 5-digit group, so the model reduces modulo `2^32`
exactly where Go wraps.

The decoder model is a function of the encoded bytes only; that the Go reader delivers the same
bytes for every sequence of caller buffer sizes (`leftover` handling) is checked on the
implementation by the C06 read-chunking oracle.  (Before fix 6d51b4e a caller buffer that
filled up inside the *final partial* group lost the rest of that group — D14, see notes/C06.md.)
-/
namespace PdfVerif.FA.Ascii85
open PdfVerif PdfVerif.FA

def base : Nat := Gen.a85_ascii85Writer_Write_base
def bang : Nat := Gen.a85_ascii85Writer_Write_bang

/-! ### encoder -/

def cap : Nat := Gen.filter_FilterASCII85_Encode_width + 1

structure W where
  v : Nat
  k : Nat
  buf : Bytes
  deriving Repr, DecidableEq

def W.init : W := ⟨0, 0, []⟩

/-- the five digits `c0 … c4` of `v` (most significant first), each `byte(v%85) + '!'` -/
def digits5 (v : Nat) : Bytes :=
  [v / base / base / base / base % base + bang, v / base / base / base % base + bang,
   v / base / base % base + bang, v / base % base + bang, v % base + bang]

/-- one input byte: `v = v<<8 | b; k++`; a full group is written as `z` or five digits after
    making room (`if cap(buf) < len(buf)+8 { buf = append(buf,'\n'); flush }`) -/
def step (w : W) (b : Nat) : W × Bytes :=
  let v := w.v * 2 ^ Gen.a85_ascii85Writer_Write_byteBits + b
  let k := w.k + 1
  if k == Gen.a85_ascii85Writer_Write_groupBytes then
    let grp := if v == 0 then [Gen.a85_ascii85Writer_Write_z] else digits5 v
    if cap < w.buf.length + Gen.a85_ascii85Writer_Write_reserve then
      (⟨0, 0, grp⟩, w.buf ++ [Gen.a85_ascii85Writer_Write_nl])
    else (⟨0, 0, w.buf ++ grp⟩, [])
  else (⟨v, k, w.buf⟩, [])

/-- `Close`: a partial group of `k` bytes is shifted up (`v << ((4-k)*8)`) and written as its
    first `k+1` digits; then `~>` and flush -/
def close (w : W) : Bytes :=
  let tail := if w.k != 0 then
      (digits5 (w.v * 2 ^ ((Gen.a85_ascii85Writer_Write_groupBytes - w.k) * Gen.a85_ascii85Writer_Write_byteBits))).take (w.k + 1)
    else []
  w.buf ++ tail ++ [Gen.a85_ascii85Writer_Close_tilde, Gen.a85_ascii85Writer_Close_gt]

def run (w : W) : Bytes → Bytes
  | [] => close w
  | b :: bs => let (w', e) := step w b; e ++ run w' bs

def encode (x : Bytes) : Bytes := run W.init x

/-! ### decoder -/

def isSpace (c : Nat) : Bool := Gen.a85_isSpace_lits.contains c

/-- `byte(v>>24), byte(v>>16), byte(v>>8), byte(v)` -/
def bytes4 (v : Nat) : Bytes := [v / 2 ^ 24 % 256, v / 2 ^ 16 % 256, v / 2 ^ 8 % 256, v % 256]

def u32 : Nat := 2 ^ 32

/-- `for i := k; i < 5; i++ { v = v*85 + 84 }` in `uint32` arithmetic -/
def padV : Nat → Nat → Nat
  | 0, v => v
  | n + 1, v => padV n ((v * Gen.a85_ascii85Reader_Read_base + Gen.a85_ascii85Reader_Read_pad) % u32)

/-- the reader; `isEnd` is handled by `decEnd` -/
def decEnd : Bytes → DecRes
  | [] => ([], some .malformed)      -- io.ErrUnexpectedEOF
  | c :: _ => if c == Gen.a85_ascii85Reader_Read_gt then ([], none) else ([], some .malformed)

def dec (v k : Nat) : Bytes → DecRes
  | [] => ([], some .malformed)      -- io.ErrUnexpectedEOF
  | c :: cs =>
    if Gen.a85_ascii85Reader_Read_bang ≤ c ∧ c < Gen.a85_ascii85Reader_Read_bang + Gen.a85_ascii85Reader_Read_span then
      let v' := (v * Gen.a85_ascii85Reader_Read_base + (c - Gen.a85_ascii85Reader_Read_bang)) % u32
      if k + 1 == Gen.a85_ascii85Reader_Read_group then DecRes.pre (bytes4 v') (dec 0 0 cs)
      else dec v' (k + 1) cs
    else if k == 0 ∧ c == Gen.a85_ascii85Reader_Read_z then DecRes.pre (bytes4 0) (dec 0 0 cs)
    else if isSpace c then dec v k cs
    else if c == Gen.a85_ascii85Reader_Read_tilde then
      if k == 0 then decEnd cs
      else if k == 1 then ([], some .malformed)   -- "unexpected end marker"
      else DecRes.pre ((bytes4 (padV (Gen.a85_ascii85Reader_Read_group - k) v)).take (k - 1)) (decEnd cs)
    else ([], some .malformed)                    -- "invalid character"

def decode (bs : Bytes) : DecRes := dec 0 0 bs

end PdfVerif.FA.Ascii85

import PdfVerif.Model.Obj
import PdfVerif.Model.FNTMap
import PdfVerif.Model.FNTConsts
import PdfVerif.Generated.FNTFacts
/-!
# Width arrays: `font/dict/metrics.go` (writers) and `graphics/extract/font-metrics.go` (readers)

Widths are integers here (`pdf.Number(w)` writes an integral float as a PDF Integer; every
embedder rounds glyph widths with `math.Round`).  A `real` object inside a width array is outside
the domain of this model (the driver answers `unsupported`, the harness generates none).
-/
namespace PdfVerif.FNT

/-! ## composite fonts: the W array -/

inductive WItem where
  | range (c0 c1 : Nat) (w : Int)        -- `c0 c1 w`
  | list (c0 : Nat) (ws : List Int)      -- `c0 [w …]`
  deriving DecidableEq, Repr

/-- "flush previous run" -/
def flushRun (rs re : Nat) (run : List Int) (allEqual : Bool) : List WItem :=
  match run with
  | [] => []
  | w0 :: _ => if allEqual && run.length > 1 then [.range rs re w0] else [.list rs run]

/-- the loop of `encodeCompositeWidths` over the CIDs in ascending order;
    state: runStart, runEnd, run, allEqual -/
def encLoop : List (Nat × Int) → Nat → Nat → List Int → Bool → List WItem
  | [], rs, re, run, ae => flushRun rs re run ae
  | (cid, w) :: rest, _, _, [], _ => encLoop rest cid cid [w] true
  | (cid, w) :: rest, rs, re, w0 :: run', ae =>
    if cid != re + 1 || ((w0 :: run').length > 2 && ae && w != w0) then
      flushRun rs re (w0 :: run') ae ++ encLoop rest cid cid [w] true
    else encLoop rest rs cid (w0 :: run' ++ [w]) (ae && w == w0)

/-- `encodeCompositeWidths` applied to a width map given as its entries in ascending CID order
    (`slices.Sorted(maps.Keys(widthMap))`) -/
def encodeW (entries : List (Nat × Int)) : List WItem := encLoop entries 0 0 [] false

def WItem.toObjs : WItem → List Obj
  | .range c0 c1 w => [.int c0, .int c1, .int w]
  | .list c0 ws => [.int c0, .arr (ws.map fun w => .int w)]

/-- the flat PDF array -/
def flattenW (items : List WItem) : List Obj := items.flatMap WItem.toObjs

/-- `Cursor.Integer` / `Cursor.Number` on direct objects with integral values: null ↦ 0 -/
def asInt : Obj → Except Err Int
  | .null => .ok 0
  | .nilArr => .error .malformed
  | .int i => .ok i
  | _ => .error .malformed

/-- `Cursor.Array`: null ↦ nil (no elements) -/
def asArr : Obj → Except Err (List Obj)
  | .null => .ok []
  | .nilArr => .ok []
  | .arr xs => .ok xs
  | _ => .error .malformed

/-- `for c := c0; c <= c1; c++ { count++; check; res[c] = wi }` : the assignments in order -/
def assignRange (wi : Int) : Nat → Nat → Nat → List (Nat × Int) → Except Err (Nat × List (Nat × Int))
  | 0, _, count, log => .ok (count, log)
  | n + 1, c, count, log =>
    if count + 1 > K.maxWEntries then .error .malformed
    else assignRange wi n (c + 1) (count + 1) ((c, wi) :: log)

/-- the loop over `c0 [w1 … wn]` -/
def assignList : List Obj → Int → Nat → List (Nat × Int) → Except Err (Nat × List (Nat × Int))
  | [], _, count, log => .ok (count, log)
  | o :: rest, c0, count, log =>
    match asInt o with
    | .error e => .error e
    | .ok wi =>
      if c0 > K.maxCID then .error .malformed
      else if count + 1 > K.maxWEntries then .error .malformed
      else assignList rest (c0 + 1) (count + 1) ((c0.toNat, wi) :: log)

/-- `decodeCompositeWidths` on a (non-nil) array: the map assignments `res[cid] = w` in
    reverse order of execution (a later assignment to the same CID wins) -/
def decodeWAux : Nat → List Obj → Nat → List (Nat × Int) → Except Err (List (Nat × Int))
  | 0, _, _, _ => .error .other
  | _ + 1, [], _, log => .ok log
  | _ + 1, [_], _, _ => .error .malformed          -- `len(w) != 0` after the loop
  | fuel + 1, o0 :: o1 :: rest, count, log =>
    match asInt o0 with
    | .error e => .error e
    | .ok c0 =>
      match o1 with
      | .int c1 =>
        match rest with
        | [] => .error .malformed
        | o2 :: rest' =>
          if c0 < 0 || c1 < c0 || c1 > K.maxCID then .error .malformed
          else
            match asInt o2 with
            | .error e => .error e
            | .ok wi =>
              match assignRange wi (c1 - c0 + 1).toNat c0.toNat count log with
              | .error e => .error e
              | .ok (count', log') => decodeWAux fuel rest' count' log'
      | _ =>
        match asArr o1 with
        | .error e => .error e
        | .ok ws =>
          if c0 < 0 then .error .malformed
          else
            match assignList ws c0 count log with
            | .error e => .error e
            | .ok (count', log') => decodeWAux fuel rest count' log'

def decodeW (w : List Obj) : Except Err (List (Nat × Int)) :=
  (decodeWAux (w.length + 1) w 0 []).map List.reverse

/-- the Go map after the assignments: last assignment to a key wins -/
def logGet (log : List (Nat × Int)) (cid : Nat) : Option Int := Map.get log.reverse cid

/-- reader side: `Width[cid]`, else DW -/
def cidWidth (log : List (Nat × Int)) (dw : Int) (cid : Nat) : Int :=
  match logGet log cid with
  | some w => w
  | none => dw

/-- `dict.DefaultWidthDefault` -/
def defaultDW : Int := ((Gen.fntdict_DefaultWidthDefault : Nat) : Int)

/-! ## simple fonts: FirstChar / LastChar / Widths with MissingWidth -/

/-- `for lastChar > 0 && skip(lastChar) { lastChar-- }` from `n` -/
def lastCharFrom (skip : Nat → Bool) : Nat → Nat
  | 0 => 0
  | n + 1 => if skip (n + 1) then lastCharFrom skip n else n + 1

/-- `for firstChar < lastChar && skip(firstChar) { firstChar++ }` -/
def firstCharFrom (skip : Nat → Bool) (last : Nat) : Nat → Nat → Nat
  | 0, f => f
  | fuel + 1, f => if f < last && skip f then firstCharFrom skip last fuel (f + 1) else f

structure SimpleW where
  firstChar : Nat
  lastChar : Nat
  widths : List Int
  deriving DecidableEq, Repr

/-- `setSimpleWidths`: `mapped c` is `enc(c) != ""` -/
def encodeSimpleW (ww : Nat → Int) (mapped : Nat → Bool) (dw : Int) : SimpleW :=
  let skip := fun c => !mapped c || ww c == dw
  let last := lastCharFrom skip 255
  let first := firstCharFrom skip last 256 0
  { firstChar := first, lastChar := last, widths := (List.range' first (last - first + 1)).map ww }

/-- the assignment loop of `getSimpleWidths` -/
def assignSimple : List Obj → Int → (Nat → Int) → (Nat → Int)
  | [], _, ww => ww
  | o :: rest, code, ww =>
    match asInt o with
    | .error _ => assignSimple rest (code + 1) ww        -- `continue`
    | .ok w =>
      if code < 256 then assignSimple rest (code + 1) (fun c => if c = code.toNat then w else ww c)
      else assignSimple rest (code + 1) ww

/-- `getSimpleWidths`; `widths = none` is the nil array (entry absent / null) -/
def decodeSimpleW (firstChar : Int) (widths : Option (List Obj)) (dw : Int) : Bool × (Nat → Int) :=
  match widths with
  | none => (false, fun _ => dw)
  | some ws =>
    if ws.length > 256 || firstChar < 0 || firstChar ≥ 256 then (false, fun _ => dw)
    else (true, assignSimple ws firstChar (fun _ => dw))

end PdfVerif.FNT

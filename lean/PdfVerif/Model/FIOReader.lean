import PdfVerif.Model.FIOXRef
/-!
Model of the reader side of `reader.go` / `scanner.go` needed for C02 (work package FIO):
`ReadStreamData` (`endstreamAt`, the `[\r\n]endstream` recovery scan, `trimTrailingEOL`),
`ReadIndirectObject` with streams, `getObjStm` (the `/N`, `/First` header), `getFromObjStm`
and the free/generation test of `Reader.get`.

The file is a byte list; a scanner position is the remaining input together with its offset.
`inflate` (Flate, after decryption) is a parameter.  An indirect `/Length` is resolved by
reading the integer object the reference points to (`resolve` follows longer chains of
references; the writer never produces them and the model stops after one step).
-/
namespace PdfVerif.FIO
open PdfVerif

/-- what `ReadIndirectObject` returns: a plain object or a stream (dictionary without
    `/Length`, absolute offset and length of the raw data) -/
inductive RObj where
  | plain (o : Obj)
  | stream (dict : List (Bytes × Obj)) (start len : Nat)
  deriving Repr, Inhabited

def kwEndstream : Bytes := [101, 110, 100, 115, 116, 114, 101, 97, 109]
def kwEndobj : Bytes := [101, 110, 100, 111, 98, 106]
def kwObj : Bytes := [111, 98, 106]

def dropSpace : Bytes → Bytes
  | [] => []
  | c :: cs => if isSpace c then dropSpace cs else c :: cs

/-- `endstreamAt`: after any run of white space the keyword follows (`false` at end of data) -/
def endstreamAt (data : Bytes) : Bool := isPrefixOf kwEndstream (dropSpace data)

/-- first position of `[\r\n]endstream` in the input (`scanner.Find(endstreamPat)`) -/
def findEndstream : Bytes → Nat → Option Nat
  | [], _ => none
  | c :: cs, i =>
    if (c == 13 || c == 10) && isPrefixOf kwEndstream cs then some i else findEndstream cs (i + 1)

/-- `trimTrailingEOL` on the `length` bytes of stream data -/
def trimTrailingEOL (data : Bytes) (length : Nat) : Nat :=
  if length == 0 then 0 else
  let last := data.getD (length - 1) 0
  if last == 10 then
    if length ≥ 2 && data.getD (length - 2) 0 == 13 then length - 2 else length - 1
  else if last == 13 then length - 1
  else length

/-- `ReadStreamData` with the scanner at the `stream` keyword.  `off` = absolute offset of
    `inp`; `declared` = the resolved non-negative `/Length`, if any.  Returns the extent and the
    input after `endstream`. -/
def readStreamData (inp : Bytes) (off : Nat) (declared : Option Nat) : Except Err (Nat × Nat × Bytes) :=
  if !isPrefixOf kw_stream inp then .error .malformed else
  let r0 := inp.drop 6
  let eol : Option Nat := match r0 with
    | 10 :: _ => some 1
    | 13 :: 10 :: _ => some 2
    | 13 :: _ => some 1
    | _ => none
  match eol with
  | none => .error .malformed
  | some e =>
    let data := r0.drop e
    let start := off + 6 + e
    -- `declared <= math.MaxInt64-start`: a length whose end overflows int64 is a broken length
    -- (the extent is recovered by the search for `endstream`)
    let declared := match declared with
      | some d => if start + d ≥ 9223372036854775808 then none else some d
      | none => none
    let useDeclared := match declared with
      | some d => endstreamAt (data.drop d)
      | none => false
    match declared, useDeclared with
    | some d, true =>
      -- Discard(l); SkipWhiteSpace; SkipString("endstream")
      (match skipWS (data.drop d) with
       | (_, true) => .error .malformed
       | (r1, false) =>
         if isPrefixOf kwEndstream r1 then .ok (start, d, r1.drop 9) else .error .malformed)
    | _, _ =>
      match findEndstream data 0 with
      | none => .error .malformed
      -- `p` is (the last byte of) the EOL marker in front of `endstream`: it belongs to the range
      -- handed to `trimTrailingEOL`, so exactly this one marker (LF, CR or CR LF) is removed and an
      -- EOL which ends the data itself is kept (library fix D100)
      | some p => .ok (start, trimTrailingEOL data (p + 1), data.drop (p + 10))

def kLen : Bytes := [76, 101, 110, 103, 116, 104]

/-- `ReadObject` at the top level of an indirect object: like `readObject`, but a dictionary
    followed by `stream` becomes a stream.  `getInt` resolves `/Length`.  (`endstreamAt` and
    `trimTrailingEOL` read the file, which is held in memory here: their read errors do not arise.) -/
def readTopObject (inp : Bytes) (off : Nat) (getInt : Obj → Except Err Int) : Except Err (RObj × Bytes) :=
  match inp with
  | 60 :: 60 :: _ =>
    (match readDict (scanFuel inp) 0 inp with
     | .error e => .error e
     | .ok (d, r) =>
       let (r', _) := skipWS r
       if startsWith r' kw_stream then
         -- `getInt`: a malformed-file error or the end of the data means "length unknown" (the
         -- extent is recovered by the search for `endstream`); any other error is returned
         let declared : Except Err (Option Nat) :=
           match dictGet d kLen with
           | some l => (match getInt l with
                        | .ok n => .ok (if n ≥ 0 then some n.toNat else none)
                        | .error .malformed => .ok none
                        | .error .eof => .ok none      -- `isEndOfData`: the length object is cut off
                        | .error e => .error e)
           | none => .ok none
         match declared with
         | .error e => .error e
         | .ok declared =>
           match readStreamData r' (off + (inp.length - r'.length)) declared with
           | .error e => .error e
           | .ok (start, len, rest) => .ok (.stream (d.filter fun e => e.1 != kLen) start len, rest)
       else .ok (.plain (.dict d), r'))
  | _ => (readObject (scanFuel inp) 0 inp).map fun (o, r) => (.plain o, r)

/-- `ReadIndirectObject`: object, reference (number, generation) and the rest of the input -/
def readIndirectObject (inp : Bytes) (off : Nat) (getInt : Obj → Except Err Int) :
    Except Err (RObj × Nat × Nat × Bytes) :=
  match readIntegerE inp with
  | .error e => .error e
  | .ok (number, r1) =>
    match readIntegerE r1 with
    | .error e => .error e
    | .ok (generation, r2) =>
      match skipWS r2 with
      | (_, true) => .error .eof
      | (r3, false) =>
        if !isPrefixOf kwObj r3 then .error .malformed else
        match skipWS (r3.drop 3) with
        | (_, true) => .error .eof
        | (r4, false) =>
          if number < 0 || number ≥ Gen.fio_maxXRefSize || generation < 0 || generation > Gen.fio_maxGeneration then
            .error .malformed
          else
            match readTopObject r4 (off + (inp.length - r4.length)) getInt with
            | .error e => .error e
            | .ok (obj, r5) =>
              match skipWS r5 with
              | (_, true) => .error .eof
              | (r6, false) =>
                let fin (o : RObj) (r : Bytes) : Except Err (RObj × Nat × Nat × Bytes) :=
                  if isPrefixOf kwEndobj r then .ok (o, number.toNat, generation.toNat, r.drop 6)
                  else .error .malformed
                match obj with
                | .plain (.int a) =>
                  if isPrefixOf kwEndobj r6 then fin obj r6 else
                  (match readIntegerE r6 with
                   | .error e => .error e
                   | .ok (b, r7) =>
                     match skipWS r7 with
                     | (_, true) => .error .eof
                     | (r8, false) =>
                       match r8 with
                       | 82 :: r9 =>
                         (match skipWS r9 with
                          | (_, true) => .error .eof
                          | (r10, false) =>
                            if a < 0 || a ≥ Gen.fio_maxXRefSize || b < 0 || b > Gen.fio_maxGeneration then .error .malformed
                            else fin (.plain (.ref a.toNat b.toNat)) r10)
                       | _ => .error .malformed)
                | _ => fin obj r6

/-! ### object streams -/

def readPairs : Nat → Bytes → Except Err (List (Nat × Nat) × Bytes)
  | 0, inp => .ok ([], inp)
  | k+1, inp =>
    match readIntegerE inp with
    | .error e => .error e
    | .ok (no, r1) =>
      match readIntegerE r1 with
      | .error e => .error e
      | .ok (offs, r2) =>
        if no < 0 || no > 4294967295 || offs < 0 then .error .malformed else
        match readPairs k r2 with
        | .error e => .error e
        | .ok (ps, r3) => .ok ((no.toNat, offs.toNat) :: ps, r3)

def kNkey : Bytes := [78]
def kFirstKey : Bytes := [70, 105, 114, 115, 116]

/-- `getObjStm` on the decoded content: the index `(number, absolute offset)` and the
    position after the header -/
def getObjStm (dict : List (Bytes × Obj)) (content : Bytes) : Except Err (List (Nat × Nat) × Nat) :=
  match dictGet dict kNkey with
  | some (.int n) =>
    if n < 0 || n > Gen.fio_maxObjStmObjects then .error .malformed else
    (match readPairs n.toNat content with
     | .error e => .error e
     | .ok (ps, rest) =>
       let pos := content.length - rest.length
       match dictGet dict kFirstKey with
       | some (.int first) =>
         if first < (pos : Int) then .error .malformed
         else .ok (ps.map fun (no, o) => (no, o + first.toNat), pos)
       | _ => .error .malformed)
  | _ => .error .malformed

/-- `scanner.readReferenceTail(a, end)` behind the integer `a` of an object-stream member: white
    space (comments included), an integer, white space, `R`; the reference must end at or before
    `end` (the next member's offset, if any); unless it ends exactly there, the `R` must not be
    followed by a regular byte; `a` and `g` within the limits of references.  Malformed input or
    the end of the data mean "not a reference" (read errors do not arise in the model). -/
def readReferenceTail (content : Bytes) (a : Int) (rest : Bytes) (end_ : Option Nat) : Option (Nat × Nat) :=
  match skipWS rest with
  | (_, true) => none
  | (r1, false) =>
    match readInteger r1 with
    | .error _ => none
    | .ok (b, r2) =>
      match skipWS r2 with
      | (_, true) => none
      | (r3, false) =>
        match r3 with
        | 82 :: r4 =>
          let pos := content.length - r4.length
          let tooFar := match end_ with | some e => decide (pos > e) | none => false
          if tooFar then none else
          let peek := match end_ with | some e => decide (pos < e) | none => true
          let regularNext := peek && (match r4 with | c :: _ => isRegular c | [] => false)
          if regularNext then none
          else if a < 0 || a ≥ Gen.fio_maxXRefSize || b < 0 || b > Gen.fio_maxGeneration then none
          else some (a.toNat, b.toNat)
        | _ => none

/-- `getFromObjStm` after `getObjStm`: find the number, skip to its offset, read one object.
    `none` = the object is reported as absent (offset before the end of the header).
    A member that reads as an integer is completed to a reference when `g R` follows within the
    member (`readReferenceTail`, up to the next member's offset). -/
def getFromObjStm (idx : List (Nat × Nat)) (headEnd : Nat) (content : Bytes) (number : Nat) :
    Except Err (Option Obj) :=
  match idx.find? (fun p => p.1 == number) with
  | none => .error .malformed
  | some (_, offs) =>
    if offs < headEnd then .ok none
    else if content.length < offs then .error .eof      -- Discard past the end
    else
      let inp := content.drop offs
      match readObject (scanFuel inp) 0 inp with
      | .error e => .error e
      | .ok (.int a, rest) =>
        let later := (idx.filter fun p => p.2 > offs).map (·.2)
        let end_ := match later with
          | [] => none
          | e :: es => some (es.foldl min e)
        (match readReferenceTail content a rest end_ with
         | some (n, g) => .ok (some (.ref n g))
         | none => .ok (some (.int a)))
      | .ok (o, _) => .ok (some o)

/-- the free/generation test at the start of `Reader.get` -/
def entryUsable (e : Option XEntry) (gen : Nat) : Bool :=
  !isFree e && (match e with | some x => x.gen == gen | none => false)


/-! ### `Reader.get` -/

def kFilterKey : Bytes := [70, 105, 108, 116, 101, 114]
def kDecodeParmsKey : Bytes := [68, 101, 99, 111, 100, 101, 80, 97, 114, 109, 115]
def nFlateDecode : Bytes := [70, 108, 97, 116, 101, 68, 101, 99, 111, 100, 101]

/-- `DecodeStream` for the streams the writer makes itself (object streams): no filter, or
    `/FlateDecode` without parameters; `inflate` is the zlib parameter.  Other filter chains are
    outside this model (`Err.other`). -/
def decodeSimple (inflate : Bytes → Option Bytes) (dict : List (Bytes × Obj)) (raw : Bytes) : Except Err Bytes :=
  match dictGet dict kFilterKey, dictGet dict kDecodeParmsKey with
  | none, _ => .ok raw
  | some (.name f), none =>
    if f == nFlateDecode then (match inflate raw with | some d => .ok d | none => .error .malformed)
    else .error .other
  | _, _ => .error .other

/-- `Reader.get(ref, canObjStm = true)` for a file held in memory: the free/generation test, the
    object at its offset (with the check that the file agrees with the reference), or the member
    of an object stream.  `hdrOff` = offset of `%PDF-`. -/
def readerGet (file : Bytes) (m : XMap) (hdrOff : Nat) (inflate : Bytes → Option Bytes)
    (getInt : Obj → Except Err Int) (num gen : Nat) : Except Err (Option RObj) :=
  if !entryUsable (m.get num) gen then .ok none else
  match m.get num with
  | none => .ok none
  | some x =>
    if x.inStream != 0 then
      -- resolve(r, sRef, canObjStm = false)
      let c := m.get x.inStream
      if !entryUsable c 0 then .error .malformed        -- "got <nil> instead object stream"
      else match c with
        | none => .error .malformed
        | some cx =>
          if cx.inStream != 0 then .error .malformed    -- "object in object stream"
          else
            let p := cx.pos.toNat + hdrOff
            match readIndirectObject (file.drop p) p getInt with
            | .error e => .error e
            | .ok (.plain _, _, _, _) => .error .malformed
            | .ok (.stream d start len, n', g', _) =>
              if n' != x.inStream || g' != 0 then .error .malformed   -- "xref corrupted"
              else
                match decodeSimple inflate d ((file.drop start).take len) with
                | .error e => .error e
                | .ok content =>
                  match getObjStm d content with
                  | .error e => .error e
                  | .ok (idx, headEnd) =>
                    match getFromObjStm idx headEnd content num with
                    | .error e => .error e
                    | .ok none => .ok none
                    | .ok (some o) => .ok (some (.plain o))
    else
      let p := x.pos.toNat + hdrOff
      match readIndirectObject (file.drop p) p getInt with
      | .error e => .error e
      | .ok (o, n', g', _) =>
        if n' != num || g' != gen then .error .malformed          -- "xref corrupted"
        else .ok (some o)


/-! ### finding the cross-reference section (`findHeaderOffset`, `lastOccurence`, `findXRef`) -/

/-- first index of `pat` in the input, counted from `i` -/
def firstIdx (pat : Bytes) : Bytes → Nat → Option Nat
  | [], _ => none
  | c :: cs, i => if isPrefixOf pat (c :: cs) then some i else firstIdx pat cs (i + 1)

/-- `Reader.lastOccurence`: the chunked backward search returns the last occurrence in the file -/
def lastOccurrence (pat : Bytes) (data : Bytes) : Option Nat :=
  (firstIdx pat.reverse data.reverse 0).map fun j => data.length - j - pat.length

def kwStartxrefR : Bytes := [115, 116, 97, 114, 116, 120, 114, 101, 102]   -- "startxref"
def kwPdfR : Bytes := [37, 80, 68, 70, 45]                                   -- "%PDF-"

/-- `findHeaderOffset`: `%PDF-` within the first 1024 bytes -/
def findHeaderOffset (file : Bytes) : Option Nat := firstIdx kwPdfR (file.take 1024) 0

/-- `Reader.findXRef`: the number after the last `startxref`, checked against the file size -/
def findXRef (file : Bytes) (hdrOff : Nat) : Except Err Nat :=
  match lastOccurrence kwStartxrefR file with
  | none => .error .malformed
  | some pos =>
    match readIntegerE (file.drop (pos + 9)) with
    | .error e => .error e
    | .ok (x, _) =>
      if x ≤ 0 || x ≥ (file.length : Int) - hdrOff then .error .malformed
      else .ok (x.toNat + hdrOff)

/-- `Reader.readXRef` for a file with a single classic table (what the Writer produces without
    object streams): the table and the trailer dictionary.  Files with `/Prev`, `/XRefStm` or a
    cross-reference stream are outside this function (`Err.other`). -/
def openTable (file : Bytes) : Except Err (XMap × List (Bytes × Obj)) :=
  match findHeaderOffset file with
  | none => .error .malformed
  | some hdrOff =>
    match findXRef file hdrOff with
    | .error e => .error e
    | .ok start =>
      let sec := file.drop start
      if !isPrefixOf kwXref sec then .error .other else
      match readXRefTable [] sec with
      | .error e => .error e
      | .ok (m, tr, _) =>
        if (tr.any fun e => e.1 == [80, 114, 101, 118] || e.1 == [88, 82, 101, 102, 83, 116, 109]) then .error .other
        else .ok (m, tr)

/-! ### the effective version of a file (`NewReader`) -/

/-- `MetaInfo.Version` after `NewReader`: the header version, raised by a catalog `/Version`
    which is larger (`if Catalog.Version > Version { Version = Catalog.Version }`); `c = 0` stands
    for a catalog without `/Version`.  Versions are numbered as in `meta.go` (`Gen.fio_V1_0` …). -/
def effectiveVersion (header catalog : Nat) : Nat :=
  if catalog > header then catalog else header

end PdfVerif.FIO

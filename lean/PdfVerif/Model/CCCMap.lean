import PdfVerif.Model.CCCodec
/-!
# Model of `font/cmap/{file.go,mapping.go,range.go,tounicode.go,tu-mapping.go}` (property C13)

`File.SetMapping`, `File.LookupCID`, `File.LookupNotdefCID`, `rangeIndex`, `rangeIsValid`,
`codesInRange`, `File.All`; `NewToUnicodeFile`, `ToUnicodeFile.Lookup`, `ToUnicodeFile.All`,
`nextString`; parent (`usecmap`) chains.

A file with its parents is a list (`Chain`): the file itself first, then `Parent`,
`Parent.Parent`, ….  CIDs are `uint32` (arithmetic modulo 2^32).  Go strings that hold text are
modelled by their rune sequence `[]rune(s)` (the harness generates valid UTF-8 only, for which
this is a bijection); `string(rune)` of a surrogate or out-of-range value is U+FFFD.
-/
namespace PdfVerif.CC
open PdfVerif

/-! ## ranges of codes: `rangeIsValid`, `rangeIndex`, `codesInRange` -/

/-- `rangeIsValid` -/
def rangeIsValid (first last : Bytes) : Bool :=
  if first.length != last.length || first.length == 0 then false else leAll first last

/-- `math.MaxInt32` (a constant of the Go language, not of the repository) -/
def maxInt32 : Nat := 2147483647

/-- the loop of `rangeIndex` (`acc` is an `int64`; it never exceeds 2^31·256 before the cap is
tested) -/
def rangeIndexLoop : Bytes → Bytes → Bytes → (acc : Nat) → Option Nat
  | f :: fs, l :: ls, b :: bs, acc =>
    if b < f || b > l then none
    else
      let span := l - f + 1
      let acc := acc * span + (b - f)
      if acc > maxInt32 then none else rangeIndexLoop fs ls bs acc
  | _, _, _, acc => some acc

/-- `rangeIndex(first, last, code)`; `none` = `ok == false` -/
def rangeIndex (first last code : Bytes) : Option Nat :=
  if first.length != code.length || last.length != code.length then none
  else rangeIndexLoop first last code 0

/-- one step of the odometer in `codesInRange`: the next code after `buf`, `none` after the
last one (`pos < 0`) -/
def nextCode : Bytes → Bytes → Bytes → Option Bytes
  | _ :: fs, l :: ls, b :: bs =>
    match nextCode fs ls bs with
    | some bs' => some (b :: bs')
    | none => if b < l then some ((b + 1) :: fs) else none
  | _, _, _ => none

/-- the first `n` items `(idx, code)` yielded by `codesInRange(first, last)` starting at `buf` -/
def codesFrom (first last : Bytes) : (n : Nat) → (idx : Nat) → (buf : Bytes) → List (Nat × Bytes)
  | 0, _, _ => []
  | n + 1, idx, buf =>
    (idx, buf) :: (match nextCode first last buf with
                   | some buf' => codesFrom first last n (idx + 1) buf'
                   | none => [])

/-- `codesInRange(first, last)`, cut off after `n` items (callers stop at a budget) -/
def codesInRange (first last : Bytes) (n : Nat) : List (Nat × Bytes) :=
  if !rangeIsValid first last then [] else codesFrom first last n 0 first

/-! ## CID CMaps -/

structure Single where
  code : Bytes
  value : Nat
  deriving DecidableEq, Repr, Inhabited

structure CRange where
  first : Bytes
  last : Bytes
  value : Nat
  deriving DecidableEq, Repr, Inhabited

/-- `cmap.File` without the `Parent` pointer (and without name, ROS, WMode) -/
structure CMapFile where
  csr : CSR
  singles : List Single
  ranges : List CRange
  ndSingles : List Single
  ndRanges : List CRange
  deriving Repr, Inhabited

/-- a file followed by its parents -/
abbrev Chain := List CMapFile

def u32 (n : Nat) : Nat := n % 4294967296

def findSingle (code : Bytes) : List Single → Option Nat
  | [] => none
  | s :: rest => if s.code == code then some s.value else findSingle code rest

def findRange (code : Bytes) : List CRange → Option Nat
  | [] => none
  | r :: rest =>
    match rangeIndex r.first r.last code with
    | some index => some (u32 (r.value + index))
    | none => findRange code rest

/-- the box test of `LookupNotdefCID` -/
def inBox : Bytes → Bytes → Bytes → Bool
  | f :: fs, l :: ls, b :: bs => if b < f || b > l then false else inBox fs ls bs
  | _, _, _ => true

def findNotdefRange (code : Bytes) : List CRange → Option Nat
  | [] => none
  | r :: rest =>
    if r.first.length != code.length || r.last.length != code.length then findNotdefRange code rest
    else if inBox r.first r.last code then some r.value
    else findNotdefRange code rest

/-- `File.LookupNotdefCID` -/
def lookupNotdef : Chain → Bytes → Nat
  | [], _ => 0
  | f :: parents, code =>
    match findSingle code f.ndSingles with
    | some v => v
    | none =>
      match findNotdefRange code f.ndRanges with
      | some v => v
      | none => lookupNotdef parents code

/-- the loop of `File.LookupCID`: a mapping in the file or, failing that, in its ancestors -/
def lookupMapped : Chain → Bytes → Option Nat
  | [], _ => none
  | f :: parents, code =>
    match findSingle code f.singles with
    | some v => some v
    | none =>
      match findRange code f.ranges with
      | some v => some v
      | none => lookupMapped parents code

/-- `File.LookupCID` (as of the fix 5f29395): mapped entries of the whole chain first, then the
notdef entries starting with the file's own -/
def lookupCID (chain : Chain) (code : Bytes) : Nat :=
  match lookupMapped chain code with
  | some v => v
  | none => lookupNotdef chain code

/-! ### `SetMapping` -/

/-- one element of `ranges[key]` together with its key and value: `(key, x, value)` -/
structure Entry (α : Type) where
  key : Bytes
  x : Nat
  val : α
  deriving Repr

/-- insertion into a list sorted by a strict order (stable position does not matter: the real
code uses `sort.Slice` on distinct keys) -/
def insertBy {α : Type} (lt : α → α → Bool) (a : α) : List α → List α
  | [] => [a]
  | b :: bs => if lt a b then a :: b :: bs else b :: insertBy lt a bs

def sortBy {α : Type} (lt : α → α → Bool) : List α → List α
  | [] => []
  | a :: as => insertBy lt a (sortBy lt as)

/-- sorted, duplicate-free list of keys (`slices.SortedFunc(maps.Keys(ranges), slices.Compare)`) -/
def dedupSorted : List Bytes → List Bytes
  | a :: b :: rest => if a == b then dedupSorted (b :: rest) else a :: dedupSorted (b :: rest)
  | l => l

def sortedKeys {α : Type} (es : List (Entry α)) : List Bytes :=
  dedupSorted (sortBy bytesLt (es.map (·.key)))

/-- the entries of one key, sorted by their last byte -/
def groupOf {α : Type} (es : List (Entry α)) (key : Bytes) : List (Entry α) :=
  sortBy (fun a b => a.x < b.x) (es.filter fun e => e.key == key)

/-- run detection of `SetMapping` over one group `info` (sorted by `x`): the pending run is
`start :: …` (reversed in `run`), `prev` its last element.  Returns singles and ranges in the
order in which the Go loop appends them. -/
def cidRuns (key : Bytes) : (start : Entry Nat) → (prev : Entry Nat) → (len : Nat) → List (Entry Nat) →
    List (Sum Single CRange)
  | start, prev, len, [] =>
    [if len > 1 then .inr ⟨key ++ [start.x], key ++ [prev.x], start.val⟩
     else .inl ⟨key ++ [start.x], start.val⟩]
  | start, prev, len, e :: rest =>
    if e.x != (prev.x + 1) % 256 || e.val != u32 (prev.val + 1) then
      (if len > 1 then .inr ⟨key ++ [start.x], key ++ [prev.x], start.val⟩
       else .inl ⟨key ++ [start.x], start.val⟩) :: cidRuns key e e 1 rest
    else cidRuns key start e (len + 1) rest

def cidRunsOfGroup (key : Bytes) : List (Entry Nat) → List (Sum Single CRange)
  | [] => []
  | e :: rest => cidRuns key e e 1 rest

def lefts {α β : Type} : List (Sum α β) → List α
  | [] => []
  | .inl a :: r => a :: lefts r
  | .inr _ :: r => lefts r

def rights {α β : Type} : List (Sum α β) → List β
  | [] => []
  | .inl _ :: r => rights r
  | .inr b :: r => b :: rights r

/-- split `buf` into all-but-last and last byte -/
def splitLast : Bytes → Option (Bytes × Nat)
  | [] => none
  | [b] => some ([], b)
  | b :: bs => (splitLast bs).map fun p => (b :: p.1, p.2)

/-- the first loop of `SetMapping`: encode, skip what a parent has a *mapping* for (as of the fix
e336336: `f.Parent.lookupMapped`, notdef entries are not consulted), split -/
def cidEntries (codec : Codec) (parents : Chain) : List (Nat × Nat) → Except CErr (List (Entry Nat))
  | [] => .ok []
  | (code, cid) :: rest =>
    match codec.appendCode code with
    | .error e => .error e
    | .ok buf =>
      match cidEntries codec parents rest with
      | .error e => .error e
      | .ok es =>
        if !parents.isEmpty && lookupMapped parents buf == some cid then .ok es
        else
          match splitLast buf with
          | none => .error .panic
          | some (key, x) => .ok (⟨key, x, cid⟩ :: es)

/-- `File.SetMapping(codec, data)`; `data` is the Go map as a list with distinct codes -/
def setMapping (f : CMapFile) (parents : Chain) (codec : Codec) (data : List (Nat × Nat)) :
    Except CErr CMapFile :=
  match codec.codeSpaceRange with
  | .error e => .error e
  | .ok csr =>
    match cidEntries codec parents data with
    | .error e => .error e
    | .ok es =>
      let out := (sortedKeys es).flatMap fun key => cidRunsOfGroup key (groupOf es key)
      .ok { f with csr := csr, singles := lefts out, ranges := rights out }

/-! ### `File.All` -/

/-- items of the ranges of one file in the order of `All`, as `(codeBytes, value)`; every item
costs one unit of `budget` (with the budget used up nothing more is yielded).  Returns the
items and the remaining budget. -/
def allItemsRanges : List CRange → (budget : Nat) → List (Bytes × Nat) × Nat
  | [], budget => ([], budget)
  | r :: rest, budget =>
    let items := (codesInRange r.first r.last budget).map fun p => (p.2, u32 (r.value + p.1))
    let p := allItemsRanges rest (budget - items.length)
    (items ++ p.1, p.2)

def allItemsSingles : List Single → (budget : Nat) → List (Bytes × Nat) × Nat
  | [], budget => ([], budget)
  | _ :: _, 0 => ([], 0)
  | s :: rest, budget + 1 =>
    let p := allItemsSingles rest budget
    ((s.code, s.value) :: p.1, p.2)

/-- all items of a list of files (root first) -/
def allItemsFiles : List CMapFile → (budget : Nat) → List (Bytes × Nat)
  | [], _ => []
  | g :: rest, budget =>
    let a := allItemsRanges g.ranges budget
    let b := allItemsSingles g.singles a.2
    a.1 ++ b.1 ++ allItemsFiles rest b.2

/-- the `Decode` filter of `All`: keep an item when its bytes are exactly one valid code -/
def decodeItems {α : Type} (codec : Codec) : List (Bytes × α) → Except CErr (List (Nat × α))
  | [] => .ok []
  | (bs, v) :: rest =>
    match codec.decode bs with
    | .error e => .error e
    | .ok (code, k, valid) =>
      match decodeItems codec rest with
      | .error e => .error e
      | .ok out => if !valid || k != bs.length then .ok out else .ok ((code, v) :: out)

/-- `File.All(codec)`: the sequence of yielded pairs -/
def cmapAll (chain : Chain) (codec : Codec) : Except CErr (List (Nat × Nat)) :=
  decodeItems codec (allItemsFiles chain.reverse Gen.limits_MaxCMapMappings)

/-! ## `File.Codec`: the code space of a chain -/

/-- the ranges `File.Codec()` collects: the file's own, then its parent's, … (`cs = append(cs,
f.CodeSpaceRange...)` along the `Parent` pointers) -/
def chainCodeSpace (chain : Chain) : CSR := chain.flatMap (·.csr)

/-- `File.Codec()` -/
def chainCodec (chain : Chain) : Except CErr Codec := newCodec (chainCodeSpace chain)

/-! ## `Extract`: which parent a CMap stream gets (`usecmap`) -/

/-- the `/UseCMap` entry of the stream dictionary: absent, a name (which is or is not the name of
a predefined CMap), or a reference to an embedded CMap stream -/
inductive UseCMapEntry where
  | absent
  | name (predefined : Bool)
  | stream
  deriving DecidableEq, Repr

/-- the parent `Extract` installs -/
inductive ParentRes where
  | none        -- no parent (also: a name that is not a predefined CMap, in the PostScript body or
                -- in the dictionary: since 34bbc85 `Extract` of an unknown name is a
                -- MalformedFileError, which the caller tolerates — only read errors are propagated)
  | predefined  -- `Predefined(name)`
  | embedded    -- the CMap extracted from the referenced stream
  deriving DecidableEq, Repr

/-- `Extract` (font/cmap/file.go): `if useCMap := dict["UseCMap"]; useCMap != nil { Decode(useCMap,
Extract) } else if parentName != "" { Predefined(parentName) }`; `psName` says whether the
PostScript body has a `usecmap` operator and whether its operand names a predefined CMap. -/
def resolveParent (dict : UseCMapEntry) (psName : Option Bool) : ParentRes :=
  match dict with
  | .stream => .embedded
  | .name true => .predefined
  | .name false => .none
  | .absent =>
    match psName with
    | some true => .predefined
    | _ => .none

/-! ## ToUnicode CMaps -/

/-- text as `[]rune(s)` -/
abbrev Text := List Nat

structure TUSingle where
  code : Bytes
  value : Text
  deriving DecidableEq, Repr, Inhabited

structure TURange where
  first : Bytes
  last : Bytes
  values : List Text
  deriving DecidableEq, Repr, Inhabited

structure TUFile where
  csr : CSR
  singles : List TUSingle
  ranges : List TURange
  deriving Repr, Inhabited

abbrev TUChain := List TUFile

/-- `rune` is `int32`: conversion of a wide integer and wrap-around of `+=` -/
def wrapInt32 (i : Int) : Int := (i + 2147483648) % 4294967296 - 2147483648

/-- `string(rune)`: surrogates and values outside `0..0x10FFFF` become U+FFFD (Go language
specification, "Conversions to and from a string type") -/
def runeToText (r : Int) : Nat :=
  if r < 0 || r > 0x10FFFF || (0xD800 ≤ r && r ≤ 0xDFFF) then 0xFFFD else r.toNat

/-- replace the last rune -/
def bumpLast (inc : Nat) : Text → Text
  | [] => []
  | [r] => [runeToText (wrapInt32 ((r : Int) + wrapInt32 (inc : Int)))]
  | r :: rs => r :: bumpLast inc rs

/-- `nextString(s, inc)` -/
def nextString (s : Text) (inc : Nat) : Text := bumpLast inc s

def findTUSingle (code : Bytes) : List TUSingle → Option Text
  | [] => none
  | s :: rest => if s.code == code then some s.value else findTUSingle code rest

def findTURange (code : Bytes) : List TURange → Option Text
  | [] => none
  | r :: rest =>
    match r.values with
    | [] => findTURange code rest
    | v0 :: _ =>
      match rangeIndex r.first r.last code with
      | none => findTURange code rest
      | some index =>
        match r.values[index]? with
        | some v => some v
        | none => some (nextString v0 index)

/-- `ToUnicodeFile.Lookup` (`none` = `("", false)`) -/
def tuLookup : TUChain → Bytes → Option Text
  | [], _ => none
  | f :: parents, code =>
    match findTUSingle code f.singles with
    | some v => some v
    | none =>
      match findTURange code f.ranges with
      | some v => some v
      | none => tuLookup parents code

/-- `needsList`: some value of the run differs from what readers compute from the first one;
`vals` are the values after the first, `j` the offset of the first of them -/
def tuNeedsList (v0 : Text) : (j : Nat) → List Text → Bool
  | _, [] => false
  | j, v :: vs => if v != nextString v0 j then true else tuNeedsList v0 (j + 1) vs

/-- `utf16.Encode` of one rune (a rune that is not a scalar value is encoded as U+FFFD) -/
def utf16Rune (r : Nat) : List Nat :=
  if r < 0x10000 then (if 0xD800 ≤ r && r ≤ 0xDFFF then [0xFFFD] else [r])
  else if r ≤ 0x10FFFF then [0xD800 + (r - 0x10000) / 0x400, 0xDC00 + (r - 0x10000) % 0x400]
  else [0xFFFD]

/-- `utf16.Encode([]rune(s))` -/
def utf16Text (t : Text) : List Nat := t.flatMap utf16Rune

/-- the guard added by the fix D-C13-2: the compact bfrange form increments the LAST BYTE of the
UTF-16BE destination (ISO 32000-2, 9.10.3), which must not overflow:
`len(u) == 0 || int(u[len(u)-1]&0xff)+(i-start-1) > 255` -/
def tuLastByteOverflows (v0 : Text) (n : Nat) : Bool :=
  match (utf16Text v0).getLast? with
  | none => true
  | some u => decide (u % 256 + (n - 1) > 255)

/-- close a run: `start` its first entry, `lastX` the last byte of its last code, `more` the
values after the first (in order) -/
def tuEmit (key : Bytes) (start : Entry Text) (lastX : Nat) (more : List Text) : Sum TUSingle TURange :=
  match more with
  | [] => .inl ⟨key ++ [start.x], start.val⟩
  | _ :: _ =>
    .inr ⟨key ++ [start.x], key ++ [lastX],
          if tuLastByteOverflows start.val (more.length + 1) || tuNeedsList start.val 1 more
          then start.val :: more else [start.val]⟩

/-- run detection of `NewToUnicodeFile` over one group (sorted by `x`); `moreRev` holds the
values of the pending run after the first, in reverse order -/
def tuRuns (key : Bytes) : (start : Entry Text) → (prevX : Nat) → (moreRev : List Text) → List (Entry Text) →
    List (Sum TUSingle TURange)
  | start, prevX, moreRev, [] => [tuEmit key start prevX moreRev.reverse]
  | start, prevX, moreRev, e :: rest =>
    if e.x != (prevX + 1) % 256 then tuEmit key start prevX moreRev.reverse :: tuRuns key e e.x [] rest
    else tuRuns key start e.x (e.val :: moreRev) rest

def tuRunsOfGroup (key : Bytes) : List (Entry Text) → List (Sum TUSingle TURange)
  | [] => []
  | e :: rest => tuRuns key e e.x [] rest

def tuEntries (codec : Codec) : List (Nat × Text) → Except CErr (List (Entry Text))
  | [] => .ok []
  | (code, t) :: rest =>
    match codec.appendCode code with
    | .error e => .error e
    | .ok buf =>
      match tuEntries codec rest with
      | .error e => .error e
      | .ok es =>
        match splitLast buf with
        | none => .error .panic
        | some (key, x) => .ok (⟨key, x, t⟩ :: es)

/-- `NewToUnicodeFile(csr, data)` -/
def newToUnicodeFile (csr : CSR) (data : List (Nat × Text)) : Except CErr TUFile :=
  match newCodec csr with
  | .error e => .error e
  | .ok codec =>
    match tuEntries codec data with
    | .error e => .error e
    | .ok es =>
      let out := (sortedKeys es).flatMap fun key => tuRunsOfGroup key (groupOf es key)
      .ok { csr := csr, singles := lefts out, ranges := rights out }

/-- items of `ToUnicodeFile.All` for the ranges of one file -/
def tuItemsRanges : List TURange → (budget : Nat) → List (Bytes × Text) × Nat
  | [], budget => ([], budget)
  | r :: rest, budget =>
    match r.values with
    | [] => tuItemsRanges rest budget
    | v0 :: _ =>
      let items := (codesInRange r.first r.last budget).map fun p =>
        (p.2, match r.values[p.1]? with
              | some v => v
              | none => nextString v0 p.1)
      let q := tuItemsRanges rest (budget - items.length)
      (items ++ q.1, q.2)

def tuItemsSingles : List TUSingle → (budget : Nat) → List (Bytes × Text) × Nat
  | [], budget => ([], budget)
  | _ :: _, 0 => ([], 0)
  | s :: rest, budget + 1 =>
    let p := tuItemsSingles rest budget
    ((s.code, s.value) :: p.1, p.2)

def tuItemsFiles : List TUFile → (budget : Nat) → List (Bytes × Text)
  | [], _ => []
  | g :: rest, budget =>
    let a := tuItemsRanges g.ranges budget
    let b := tuItemsSingles g.singles a.2
    a.1 ++ b.1 ++ tuItemsFiles rest b.2

/-- `ToUnicodeFile.All(codec)` -/
def tuAll (chain : TUChain) (codec : Codec) : Except CErr (List (Nat × Text)) :=
  decodeItems codec (tuItemsFiles chain.reverse Gen.limits_MaxCMapMappings)

/-! ## the writers: blocks of at most `chunkSize` entries (`chunks`, `tuRangeChunks`) -/

/-- `chunks[T]`: `for len(x) >= chunkSize { res = append(res, x[:chunkSize]); x = x[chunkSize:] }`,
then the non-empty rest -/
def chunksFuel {α : Type} : (fuel : Nat) → List α → List (List α)
  | 0, _ => []
  | fuel + 1, x =>
    if x.length ≥ Gen.cmap_chunkSize then x.take Gen.cmap_chunkSize :: chunksFuel fuel (x.drop Gen.cmap_chunkSize)
    else if x.isEmpty then [] else [x]

def chunks {α : Type} (x : List α) : List (List α) := chunksFuel (x.length + 1) x

/-- `tuRangeChunks` (fix D-C13-3): a new block also starts when the PostScript operand stack of a
reader would grow beyond `maxDepth` = 400 (three objects per pending entry plus the array being
built).  `lens` are the lengths of the value lists; `cur` is the current block (reversed). -/
def tuRangeChunksLoop : List Nat → (cur : List Nat) → List (List Nat)
  | [], cur => if cur.isEmpty then [] else [cur.reverse]
  | m :: rest, cur =>
    if cur.length > 0 && (cur.length ≥ Gen.cmap_chunkSize || 3 * cur.length + 3 + m > 400) then
      cur.reverse :: tuRangeChunksLoop rest [m]
    else tuRangeChunksLoop rest (m :: cur)

def tuRangeChunks (lens : List Nat) : List (List Nat) := tuRangeChunksLoop lens []

/-- the sizes of the `begin… end…` blocks the CMap template writes (as of the fix D-C13-1 the code
space ranges are chunked like every other list): code space, cidchar, cidrange, notdefchar,
notdefrange -/
def cmapBlockSizes (nCSR nSingles nRanges nNdSingles nNdRanges : Nat) : List (List Nat) :=
  [nCSR, nSingles, nRanges, nNdSingles, nNdRanges].map fun n =>
    (chunks (List.replicate n ())).map List.length

/-- the same for the ToUnicode template: code space, bfchar, bfrange (lengths of the value lists) -/
def tuBlockSizes (nCSR nSingles : Nat) (valueLens : List Nat) : List (List Nat) :=
  [(chunks (List.replicate nCSR ())).map List.length, (chunks (List.replicate nSingles ())).map List.length,
   (tuRangeChunks valueLens).map List.length]

/-! ## `ToUnicodeFile.GetMapping` -/

/-- the code space `GetMapping` uses (fix D-C13-5: the whole `usecmap` chain, like `File.Codec`) -/
def tuChainCodeSpace (chain : TUChain) : CSR := chain.flatMap (·.csr)

/-- `ToUnicodeFile.GetMapping`: `maps.Collect(tu.All(codec))` as the sequence of pairs -/
def tuGetMapping (chain : TUChain) : Except CErr (List (Nat × Text)) :=
  match newCodec (tuChainCodeSpace chain) with
  | .error e => .error e
  | .ok codec => tuAll chain codec

end PdfVerif.CC

import PdfVerif.Model.Obj
import PdfVerif.Generated.Facts
/-!
Model of `types.go`: `Format`, `doFormat`, `formatName`, `formatString`, `formatDict`,
`Dict.SortedKeys`.  Hand-written, tied to the code by the correspondence run of C01
(identical output bytes for every generated object tree and option set).
-/
namespace PdfVerif

/-- class table lookup (generated from `scanner.go:class`) -/
def classOf (c : Nat) : Nat := Gen.scanner_class.getD c 0
def isRegular (c : Nat) : Bool := classOf c == Gen.scanner_regular
def isSpace (c : Nat) : Bool := classOf c == Gen.scanner_space

def hexLower (n : Nat) : Nat := if n < 10 then 48 + n else 87 + n

/-- `formatName`'s escape test: `class[c] != regular || c < 0x21 || c > 0x7e || c == '#'` -/
def nameNeedsEsc (c : Nat) : Bool := !isRegular c || c < 0x21 || c > 0x7e || c == 35

def fmtNameBody : Bytes → Bytes
  | [] => []
  | c :: cs => (if nameNeedsEsc c then [35, hexLower (c / 16), hexLower (c % 16)] else [c]) ++ fmtNameBody cs

/-- `formatName`: slash followed by the escaped bytes -/
def fmtName (n : Bytes) : Bytes := 47 :: fmtNameBody n

def countClose : Bytes → Nat
  | [] => 0
  | c :: cs => (if c == 41 then 1 else 0) + countClose cs

/-- the main loop of `formatString`; `prev` is the previous input byte (if any),
    `level` = parenthesisLevel, `closing` = numClosingParentheses (remaining) -/
def fmtStrLoop (prev : Option Nat) (level closing : Nat) : Bytes → Bytes
  | [] => []
  | c :: cs =>
    if c == 13 then [92, 114] ++ fmtStrLoop (some c) level closing cs
    else if c == 10 then
      (if prev == some 13 || cs.head? == some 13 then [92, 110] else [10])
        ++ fmtStrLoop (some c) level closing cs
    else if c == 40 then
      if level < closing then [40] ++ fmtStrLoop (some c) (level + 1) closing cs
      else [92, 40] ++ fmtStrLoop (some c) level closing cs
    else if c == 41 then
      if level > 0 then [41] ++ fmtStrLoop (some c) (level - 1) (closing - 1) cs
      else [92, 41] ++ fmtStrLoop (some c) level (closing - 1) cs
    else if c == 92 then [92, 92] ++ fmtStrLoop (some c) level closing cs
    else [c] ++ fmtStrLoop (some c) level closing cs

def fmtStrLiteral (s : Bytes) : Bytes := [40] ++ fmtStrLoop none 0 (countClose s) s ++ [41]

def fmtStrHex (s : Bytes) : Bytes :=
  [60] ++ s.flatMap (fun b => [hexLower (b / 16), hexLower (b % 16)]) ++ [62]

def isPrintByte (c : Nat) : Bool := (c ≥ 0x20 && c ≤ 0x7e) || c == 10 || c == 13 || c == 9

/-- `formatString` without encryption -/
def fmtString (pretty : Bool) (s : Bytes) : Bytes :=
  let good := (s.filter isPrintByte).length
  let bad := s.length - good
  if pretty && good < 9 * bad then fmtStrHex s else fmtStrLiteral s

structure FmtOpt where
  pretty : Bool
  content : Bool
  deriving Repr, DecidableEq

/-- insertion of a key into a list sorted by Go string order -/
def insertKey (k : Bytes × Obj) : List (Bytes × Obj) → List (Bytes × Obj)
  | [] => [k]
  | x :: xs => if bytesLt k.1 x.1 then k :: x :: xs else x :: insertKey k xs

def sortKV : List (Bytes × Obj) → List (Bytes × Obj)
  | [] => []
  | x :: xs => insertKey x (sortKV xs)

def keyType : Bytes := [84, 121, 112, 101]
def keySubtype : Bytes := [83, 117, 98, 116, 121, 112, 101]

/-- `Dict.SortedKeys`: Type, Subtype first, the rest ascending -/
def sortedEntries (kv : List (Bytes × Obj)) : List (Bytes × Obj) :=
  kv.filter (fun e => e.1 == keyType) ++ kv.filter (fun e => e.1 == keySubtype) ++
  sortKV (kv.filter fun e => e.1 != keyType && e.1 != keySubtype)

def sep (needSep : Bool) : Bytes := if needSep then [32] else []

/-- decimal digits of `n`, most significant first (`strconv.FormatInt`, `%d`): recursion on
    `n / 10`; the first argument is fuel (`n` itself always suffices) so that the definition is
    structural and reduces in the kernel -/
def natDecAux : Nat → Nat → Bytes
  | 0, n => [48 + n]
  | fuel+1, n => if n < 10 then [48 + n] else natDecAux fuel (n / 10) ++ [48 + n % 10]

def natDec (n : Nat) : Bytes := natDecAux n n

/-- `strconv.FormatInt(i, 10)` -/
def intDec : Int → Bytes
  | .ofNat n => natDec n
  | .negSucc n => 45 :: natDec (n + 1)

def realToken (tok : Bytes) : Bytes := if tok.contains 46 then tok else tok ++ [46]

/-- last non-nil value of the entries is the operator `>` -/
def lastIsGtOp (kv : List (Bytes × Obj)) : Bool :=
  match (kv.filter fun e => match e.2 with | .null => false | _ => true).getLast? with
  | some (_, .op [62]) => true
  | _ => false

mutual
/-- `doFormat` on an object whose dictionaries are already in `SortedKeys` order
    (see `Obj.canon`); `none` = the error "operator outside content stream" -/
def fmtObj (opt : FmtOpt) (needSep : Bool) : Obj → Option (Bytes × Bool)
  | .null => some (sep needSep ++ [110, 117, 108, 108], true)
  | .nilArr => some (sep needSep ++ [110, 117, 108, 108], true)
  | .bool true => some (sep needSep ++ [116, 114, 117, 101], true)
  | .bool false => some (sep needSep ++ [102, 97, 108, 115, 101], true)
  | .int i => some (sep needSep ++ intDec i, true)
  | .real t => some (sep needSep ++ realToken t, true)
  | .name n => some (fmtName n, true)
  | .str s => some (fmtString opt.pretty s, false)
  | .op o => if opt.content then some (sep needSep ++ o, true) else none
  | .ref n g => some (sep needSep ++ natDec n ++ [32] ++ natDec g ++ [32, 82], true)
  | .arr xs => do
      let body ← if opt.pretty then fmtSeqPretty opt true xs else fmtSeq opt false xs
      pure ([91] ++ body ++ [93], false)
  | .dict kv => do
      let body ← if opt.pretty then fmtDictPretty opt kv else fmtDictPlain opt kv
      pure ([60, 60] ++ (if opt.pretty then [10] else []) ++ body ++
            (if !opt.pretty && lastIsGtOp kv then [32] else []) ++ [62, 62], false)
/-- `Format` without OptPretty: thread needSep -/
def fmtSeq (opt : FmtOpt) (needSep : Bool) : List Obj → Option Bytes
  | [] => some []
  | x :: xs => do
      let (a, ns) ← fmtObj opt needSep x
      let b ← fmtSeq opt ns xs
      pure (a ++ b)
/-- `Format` with OptPretty: single spaces between objects -/
def fmtSeqPretty (opt : FmtOpt) (first : Bool) : List Obj → Option Bytes
  | [] => some []
  | x :: xs => do
      let (a, _) ← fmtObj opt false x
      let b ← fmtSeqPretty opt false xs
      pure ((if first then [] else [32]) ++ a ++ b)
def fmtDictPretty (opt : FmtOpt) : List (Bytes × Obj) → Option Bytes
  | [] => some []
  | (k, v) :: rest => do
      let b ← fmtDictPretty opt rest
      match v with
      | .null => pure b
      | v => do
        let (a, _) ← fmtObj opt false v
        pure (fmtName k ++ [32] ++ a ++ [10] ++ b)
/-- non-pretty dictionary body, including the space after a final `>` operator -/
def fmtDictPlain (opt : FmtOpt) : List (Bytes × Obj) → Option Bytes
  | [] => some []
  | (k, v) :: rest => do
      let b ← fmtDictPlain opt rest
      match v with
      | .null => pure b
      | v => do
        let (a, _) ← fmtObj opt true v
        pure (fmtName k ++ a ++ b)
end

mutual
/-- put every dictionary into `SortedKeys` order (the only place Go's map order could enter) -/
def Obj.canon : Obj → Obj
  | .arr xs => .arr (canonList xs)
  | .dict kv => .dict (sortedEntries (canonKV kv))
  | o => o
def canonList : List Obj → List Obj
  | [] => []
  | x :: xs => x.canon :: canonList xs
def canonKV : List (Bytes × Obj) → List (Bytes × Obj)
  | [] => []
  | (k, v) :: rest => (k, v.canon) :: canonKV rest
end

/-- `Format(w, opt, objs...)` -/
def format (opt : FmtOpt) (objs : List Obj) : Option Bytes :=
  if opt.pretty then fmtSeqPretty opt true (canonList objs) else fmtSeq opt false (canonList objs)

end PdfVerif

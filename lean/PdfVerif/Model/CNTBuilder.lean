import PdfVerif.Model.CNTState
/-!
# The Builder's state machine surface (`graphics/content/builder/builder.go`)

The typed methods of `builder.Builder` are thin wrappers around `emit`, which is modelled here
together with `Harvest`, `Close` and `Reset`:

* `emit` — sticky error; the checks in front of `ApplyOperator`: finite operands (D-C15-4) and
  `CheckOperatorVersion` (abstract predicate `verOK` on name and operands: the theorems hold for
  every version table), then `State.ApplyOperator`; the operator is appended to `Stream` in all
  three cases, the state changes only when it was accepted;
* a method may refuse its arguments without emitting (`fail`: `b.Err = …`), may emit nothing
  (value unchanged), and a few methods touch graphics parameters of `State` directly before they
  emit (`SetExtGState`: `gs.ApplyTo(b.State.GState)`, the text-matrix updates of `TextShow*`);
  these are `adjust` actions, restricted to the non-structural fields (`AdjustOK`);
* `Harvest` hands out `Stream` and clears it (the state goes on), `Reset` starts a new stream,
  `Close` = `State.CanClose()` — it does **not** append anything; consumers that want a balanced
  stream append `State.ClosingOperators()` (as `reader.ProcessIter` does).

`done` is a ghost field: the operators harvested since `New`/`Reset`, so that `done ++ stream` is
everything emitted in the current session.
-/
namespace PdfVerif.CNT
open PdfVerif

structure Bld where
  st : St
  stream : List (Bytes × List Obj)
  done : List (Bytes × List Obj)
  err : Bool

def Bld.new (ct : Nat) (strict ver : Bool) : Bld := ⟨initSt ct strict ver, [], [], false⟩

/-- `emit` -/
def Bld.emit (verOK : Bytes → List Obj → Bool) (b : Bld) (name : Bytes) (args : List Obj) : Bld :=
  if b.err then b
  else if !verOK name args then { b with err := true, stream := b.stream ++ [(name, args)] }
  else
    match applyOperator b.st name args with
    | .error _ => { b with err := true, stream := b.stream ++ [(name, args)] }
    | .ok st' => { b with st := st', stream := b.stream ++ [(name, args)] }

/-- a change of `State` which leaves the structure alone (graphics parameters only) -/
def AdjustOK (s s1 : St) : Prop :=
  s1.obj = s.obj ∧ s1.nesting = s.nesting ∧ s1.stack = s.stack ∧ s1.strict = s.strict ∧ s1.ver = s.ver

inductive BAct where
  | emit (name : Bytes) (args : List Obj)
  | fail                                   -- a method rejects its arguments: `b.Err = …`
  | adjust (f : St → St)                   -- direct update of graphics parameters
  | harvest
  | reset (ct : Nat) (strict ver : Bool)

/-- one action; `adjust f` is only performed if it respects `AdjustOK` (decided by the caller of
    the model: the theorems quantify over all `f` with that property) -/
def Bld.act (verOK : Bytes → List Obj → Bool) (b : Bld) : BAct → Bld
  | .emit n a => b.emit verOK n a
  | .fail => { b with err := true }
  | .adjust f => if b.err then b else { b with st := f b.st }
  | .harvest => if b.err then b else { b with stream := [], done := b.done ++ b.stream }
  | .reset ct strict ver => Bld.new ct strict ver

def Bld.runActs (verOK : Bytes → List Obj → Bool) (b : Bld) : List BAct → Bld
  | [] => b
  | a :: rest => (b.act verOK a).runActs verOK rest

/-- `Close() == nil` -/
def Bld.close (b : Bld) : Bool := !b.err && canClose b.st

end PdfVerif.CNT

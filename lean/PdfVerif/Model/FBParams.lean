import PdfVerif.Basic
import PdfVerif.Model.Obj
import PdfVerif.Model.FBPredict
import PdfVerif.Model.FBCCITT
import PdfVerif.Generated.FactsFB
/-!
Model of the filter parameter plumbing of `filter.go` / `container.go`:
`FlatePredictor.isValid`, `validateFlateLZW`, `FilterFlate/LZW/Compress/CCITTFax` `.validate`,
`.toDict`/`.Info`, `parseFlate`, `parseLZW`, `parseCCITTFax`, `parseDCT`, `parseCrypt`,
`MakeFilter`, `predictParams`, `FilterCCITTFax.toParams` and the geometry clamp of
`FilterCCITTFax.Decode`, `appendFilter`, and `GetFilters` (for direct objects: `resolve` is the
identity on them) with the 8-entry cap and the Crypt-position rule.

Go `int`/`pdf.Integer` values are `Int` here; the theorems carry the `int64` range as a
hypothesis where it matters.  Dictionaries are association lists `List (Bytes × Obj)`.
-/
namespace PdfVerif.FB
open PdfVerif

abbrev Dict := List (Bytes × Obj)

def dlookup (key : Bytes) : Dict → Option Obj
  | [] => none
  | (k, v) :: rest => if k = key then some v else dlookup key rest

/-- `d[key].(Integer)` -/
def getInt (d : Dict) (key : Bytes) : Option Int :=
  match dlookup key d with | some (.int i) => some i | _ => none
/-- `d[key].(Boolean)` -/
def getBool (d : Dict) (key : Bytes) : Option Bool :=
  match dlookup key d with | some (.bool b) => some b | _ => none

/-! key names (ASCII) -/
def kPredictor : Bytes := [80, 114, 101, 100, 105, 99, 116, 111, 114]
def kColors : Bytes := [67, 111, 108, 111, 114, 115]
def kBitsPerComponent : Bytes := [66, 105, 116, 115, 80, 101, 114, 67, 111, 109, 112, 111, 110, 101, 110, 116]
def kColumns : Bytes := [67, 111, 108, 117, 109, 110, 115]
def kEarlyChange : Bytes := [69, 97, 114, 108, 121, 67, 104, 97, 110, 103, 101]
def kK : Bytes := [75]
def kEndOfLine : Bytes := [69, 110, 100, 79, 102, 76, 105, 110, 101]
def kEncodedByteAlign : Bytes := [69, 110, 99, 111, 100, 101, 100, 66, 121, 116, 101, 65, 108, 105, 103, 110]
def kRows : Bytes := [82, 111, 119, 115]
def kEndOfBlock : Bytes := [69, 110, 100, 79, 102, 66, 108, 111, 99, 107]
def kBlackIs1 : Bytes := [66, 108, 97, 99, 107, 73, 115, 49]
def kDamaged : Bytes := [68, 97, 109, 97, 103, 101, 100, 82, 111, 119, 115, 66, 101, 102, 111, 114, 101, 69, 114, 114, 111, 114]
def kColorTransform : Bytes := [67, 111, 108, 111, 114, 84, 114, 97, 110, 115, 102, 111, 114, 109]
def kName : Bytes := [78, 97, 109, 101]
def kFilter : Bytes := [70, 105, 108, 116, 101, 114]
def kDecodeParms : Bytes := [68, 101, 99, 111, 100, 101, 80, 97, 114, 109, 115]

def maxInt : Int := Gen.filter_maxInt

/-! ### Flate / LZW -/

structure FFlate where
  predictor : Int
  colors : Int
  bpc : Int
  columns : Int
  deriving Repr, DecidableEq

structure FLZW where
  predictor : Int
  colors : Int
  bpc : Int
  columns : Int
  offByOne : Bool
  deriving Repr, DecidableEq

/-- `FlatePredictor.isValid` -/
def predictorValid (p : Int) : Bool :=
  p == 0 || p == Gen.filter_FlatePredictorNone || p == Gen.filter_FlatePredictorTIFF ||
  p == Gen.filter_FlatePredictorPNGNone || p == Gen.filter_FlatePredictorPNGSub ||
  p == Gen.filter_FlatePredictorPNGUp || p == Gen.filter_FlatePredictorPNGAverage ||
  p == Gen.filter_FlatePredictorPNGPaeth || p == Gen.filter_FlatePredictorPNGOptimum

def usingPredictor (p : Int) : Bool := p != 0 && p != Gen.filter_FlatePredictorNone

/-- `predictParams(p, colors, bpc, columns)`: the defaults applied before the predictor is built -/
def predictParams (p colors bpc columns : Int) : PParams :=
  { colors := if colors = 0 then 1 else colors, bpc := if bpc = 0 then 8 else bpc,
    columns := if columns = 0 then 1 else columns, predictor := if p = 0 then 1 else p }

/-- the checks of `validateFlateLZW` that precede the predictor's own validation (the whole
function before library commit 879cf71); `true` = no error so far -/
def validateFlateLZWBase (v : Nat) (p colors bpc columns : Int) : Bool :=
  if !predictorValid p then false
  else if !usingPredictor p ∧ colors ≠ 0 then false
  else if !usingPredictor p ∧ bpc ≠ 0 then false
  else if !usingPredictor p ∧ columns ≠ 0 then false
  else if usingPredictor p then
    if colors ≠ 0 ∧ (colors < 1 ∨ (v < Gen.meta_V1_3 ∧ colors > 4)) then false
    else if bpc ≠ 0 ∧ !(bpc == 1 || bpc == 2 || bpc == 4 || bpc == 8 || (bpc == 16 && decide (v ≥ Gen.meta_V1_5))) then false
    else if columns ≠ 0 ∧ (columns < 1 ∨ columns > 1048576) then false
    else true
  else true

/-- `validateFlateLZW(v, p, colors, bpc, columns)`; `true` = nil.  Since 879cf71 the function ends,
inside `if usingPredictor`, with `predictParams(p, colors, bpc, columns).Validate()`: parameters that
pass validation are accepted by the predictor (and hence by `Encode`). -/
def validateFlateLZW (v : Nat) (p colors bpc columns : Int) : Bool :=
  validateFlateLZWBase v p colors bpc columns &&
    (!usingPredictor p || (predictParams p colors bpc columns).validate)

def FFlate.validateBase (f : FFlate) (v : Nat) : Bool :=
  if v < Gen.meta_V1_2 then false else validateFlateLZWBase v f.predictor f.colors f.bpc f.columns

def FFlate.validate (f : FFlate) (v : Nat) : Bool :=
  if v < Gen.meta_V1_2 then false else validateFlateLZW v f.predictor f.colors f.bpc f.columns

def FLZW.validateBase (f : FLZW) (v : Nat) : Bool := validateFlateLZWBase v f.predictor f.colors f.bpc f.columns

def FLZW.validate (f : FLZW) (v : Nat) : Bool := validateFlateLZW v f.predictor f.colors f.bpc f.columns

/-- `FilterFlate.toDict` (entries in insertion order; `[]` stands for the nil dictionary) -/
def FFlate.toDict (f : FFlate) : Dict :=
  if usingPredictor f.predictor then
    [(kPredictor, Obj.int f.predictor)]
    ++ (if f.colors ≠ 0 ∧ f.colors ≠ 1 then [(kColors, Obj.int f.colors)] else [])
    ++ (if f.bpc ≠ 0 ∧ f.bpc ≠ 8 then [(kBitsPerComponent, Obj.int f.bpc)] else [])
    ++ (if f.columns ≠ 0 ∧ f.columns ≠ 1 then [(kColumns, Obj.int f.columns)] else [])
  else []

def FLZW.toFlate (f : FLZW) : FFlate := ⟨f.predictor, f.colors, f.bpc, f.columns⟩

/-- the dictionary of `FilterLZW.Info` -/
def FLZW.toDict (f : FLZW) : Dict :=
  f.toFlate.toDict ++ (if !f.offByOne then [(kEarlyChange, Obj.int 0)] else [])

/-- `d["Predictor"].(Integer)`, kept if `isValid() && p != 0`, else `FlatePredictorNone` -/
def parsePredictor (d : Dict) : Int :=
  match getInt d kPredictor with
  | some p => if predictorValid p ∧ p ≠ 0 then p else Gen.filter_FlatePredictorNone
  | none => Gen.filter_FlatePredictorNone

/-- `val >= 1 && val <= Integer(maxInt)`, default 1 -/
def parseColors (d : Dict) : Int :=
  match getInt d kColors with
  | some c => if c ≥ 1 ∧ c ≤ maxInt then c else 1
  | none => 1

/-- `switch val { case 1, 2, 4, 8, 16 }`, default 8 -/
def parseBpc (d : Dict) : Int :=
  match getInt d kBitsPerComponent with
  | some b => if b = 1 ∨ b = 2 ∨ b = 4 ∨ b = 8 ∨ b = 16 then b else 8
  | none => 8

/-- `val >= 1 && val <= 1<<20`, default 1 -/
def parseColumns (d : Dict) : Int :=
  match getInt d kColumns with
  | some c => if c ≥ 1 ∧ c ≤ 1048576 then c else 1
  | none => 1

/-- `parseFlate` -/
def parseFlate (d : Dict) : FFlate :=
  if parsePredictor d ≠ Gen.filter_FlatePredictorNone then
    ⟨parsePredictor d, parseColors d, parseBpc d, parseColumns d⟩
  else ⟨parsePredictor d, 0, 0, 0⟩

/-- `parseLZW` -/
def parseLZW (d : Dict) : FLZW :=
  let f := parseFlate d
  let obo := match getInt d kEarlyChange with | some 0 => false | _ => true
  ⟨f.predictor, f.colors, f.bpc, f.columns, obo⟩

def FFlate.pparams (f : FFlate) : PParams := predictParams f.predictor f.colors f.bpc f.columns

/-! ### CCITTFax -/

structure FCCITT where
  k : Int
  endOfLine : Bool
  byteAlign : Bool
  columns : Int
  rows : Int
  ignoreEOB : Bool
  blackIs1 : Bool
  damaged : Int
  deriving Repr, DecidableEq

def maxDimV : Int := Gen.filter_FilterCCITTFax_validate_maxDim
def maxDimP : Int := Gen.filter_parseCCITTFax_maxDim

/-- `toParams`: Columns 0 → 1728 -/
def FCCITT.cols (f : FCCITT) : Int := if f.columns = 0 then 1728 else f.columns

/-- `ccittMaxRows(columns) = max(1, min(MaxImageHeight, MaxImagePixels/max(columns,1)))`: the
largest number of rows `validate`, `Encode`, `parseCCITTFax` and `Decode` admit for a width -/
def geoMax (cols : Int) : Int :=
  max 1 (min (Gen.limits_MaxImageHeight : Int) (Int.tdiv (Gen.limits_MaxImagePixels : Int) (max cols 1)))

/-- `FilterCCITTFax.validate` -/
def FCCITT.validate (f : FCCITT) : Bool :=
  if f.columns < 0 ∨ f.columns > maxDimV then false
  else if f.rows < 0 ∨ f.rows > geoMax f.cols then false
  else if f.damaged < 0 ∨ f.damaged > maxDimV then false
  else true

/-- `if cond { res[key] = value }` -/
def optEntry (c : Bool) (k : Bytes) (v : Obj) : Dict := if c then [(k, v)] else []

/-- the dictionary of `FilterCCITTFax.Info` -/
def FCCITT.toDict (f : FCCITT) : Dict :=
  optEntry (f.k != 0) kK (Obj.int f.k)
  ++ optEntry f.endOfLine kEndOfLine (Obj.bool true)
  ++ optEntry f.byteAlign kEncodedByteAlign (Obj.bool true)
  ++ optEntry (f.columns != 0 && f.columns != 1728) kColumns (Obj.int f.columns)
  ++ optEntry (decide (f.rows > 0)) kRows (Obj.int f.rows)
  ++ optEntry f.ignoreEOB kEndOfBlock (Obj.bool false)
  ++ optEntry f.blackIs1 kBlackIs1 (Obj.bool true)
  ++ optEntry (decide (f.damaged > 0)) kDamaged (Obj.int f.damaged)

/-- `val < 0 → -1`, `val > maxInt → maxInt` -/
def parseK (d : Dict) : Int :=
  match getInt d kK with
  | some v => if v < 0 then -1 else if v > maxInt then maxInt else v
  | none => 0

/-- `val > 0 && val <= maxDim`, else `dflt` -/
def parseDim (d : Dict) (key : Bytes) (dflt : Int) : Int :=
  match getInt d key with
  | some v => if v > 0 ∧ v ≤ maxDimP then v else dflt
  | none => dflt

def parseFlag (d : Dict) (key : Bytes) : Bool :=
  match getBool d key with | some b => b | none => false

/-- `d["EndOfBlock"].(Boolean); ok && !val` -/
def parseIgnoreEOB (d : Dict) : Bool :=
  match getBool d kEndOfBlock with | some b => !b | none => false

/-- `parseCCITTFax` -/
def parseCCITTFax (d : Dict) : FCCITT :=
  ⟨parseK d, parseFlag d kEndOfLine, parseFlag d kEncodedByteAlign, parseDim d kColumns 1728,
   min (parseDim d kRows 0) (geoMax (parseDim d kColumns 1728)),   -- `min(int(val), ccittMaxRows(res.Columns))`
   parseIgnoreEOB d, parseFlag d kBlackIs1, parseDim d kDamaged 0⟩

/-- the row clamp shared by `Encode` and `Decode`: `MaxRows` replaced by
`ccittMaxRows(Columns)` when it is `<= 0` or larger -/
def FCCITT.decodeMaxRows (f : FCCITT) : Int :=
  let g := geoMax f.cols
  if f.rows ≤ 0 ∨ f.rows > g then g else f.rows

/-- the parameters `Encode` hands to the writer: never more rows than `Decode` reads back -/
def FCCITT.encParams (f : FCCITT) : CParams :=
  { columns := f.cols.toNat, k := f.k, maxRows := f.decodeMaxRows.toNat, endOfLine := f.endOfLine,
    byteAlign := f.byteAlign, blackIs1 := f.blackIs1, ignoreEOB := f.ignoreEOB }

def FCCITT.decParams (f : FCCITT) : CParams :=
  { f.encParams with maxRows := f.decodeMaxRows.toNat }

/-- `limits.StreamBudget(rawLen)` for `rawLen ≥ 0` -/
def streamBudget (rawLen : Nat) : Nat :=
  Gen.limits_StreamBudgetBase +
    (if rawLen > Gen.limits_StreamBudgetHardCap / Gen.limits_StreamBudgetMultiplier then Gen.limits_StreamBudgetHardCap
     else Gen.limits_StreamBudgetMultiplier * rawLen)

/-- `FilterCCITTFax.Decode` charges `BufferBytes` to the budget before the reader is built;
`false` = the charge fails and the decode ends with a malformed error -/
def FCCITT.budgetOk (f : FCCITT) (rawLen : Nat) : Bool := bufferBytes f.decParams ≤ streamBudget rawLen

/-! ### MakeFilter -/

inductive Filter where
  | ascii85 | asciiHex | runLength
  | flate (f : FFlate)
  | lzw (f : FLZW)
  | ccitt (f : FCCITT)
  | dct (colorTransform : Nat)        -- 0 auto, 1 none, 2 YCbCr (Go enum order: Auto, None, YCbCr)
  | jbig2
  | jpx
  | cryptIdentity | cryptStandard | cryptNamed (n : Bytes)
  | notImplemented (name : Bytes)
  deriving Repr

def Filter.isCrypt : Filter → Bool
  | .cryptIdentity | .cryptStandard | .cryptNamed _ => true
  | _ => false

def nm (s : String) : Bytes := bytesOfString s

/-! filter names (ASCII); `Props.C06fb.names_spelled` checks the spelling -/
def nASCII85 : Bytes := [65, 83, 67, 73, 73, 56, 53, 68, 101, 99, 111, 100, 101]
def nASCIIHex : Bytes := [65, 83, 67, 73, 73, 72, 101, 120, 68, 101, 99, 111, 100, 101]
def nRunLength : Bytes := [82, 117, 110, 76, 101, 110, 103, 116, 104, 68, 101, 99, 111, 100, 101]
def nFlate : Bytes := [70, 108, 97, 116, 101, 68, 101, 99, 111, 100, 101]
def nLZW : Bytes := [76, 90, 87, 68, 101, 99, 111, 100, 101]
def nCCITT : Bytes := [67, 67, 73, 84, 84, 70, 97, 120, 68, 101, 99, 111, 100, 101]
def nDCT : Bytes := [68, 67, 84, 68, 101, 99, 111, 100, 101]
def nJBIG2 : Bytes := [74, 66, 73, 71, 50, 68, 101, 99, 111, 100, 101]
def nJPX : Bytes := [74, 80, 88, 68, 101, 99, 111, 100, 101]
def nCrypt : Bytes := [67, 114, 121, 112, 116]
def nIdentity : Bytes := [73, 100, 101, 110, 116, 105, 116, 121]
def nStdCF : Bytes := [83, 116, 100, 67, 70]

/-- `MakeFilter(filter, param)`; the only error is the malformed `/Name` of a Crypt filter -/
def makeFilter (name : Bytes) (d : Dict) : Except Err Filter :=
  if name = nASCII85 then .ok .ascii85
  else if name = nASCIIHex then .ok .asciiHex
  else if name = nRunLength then .ok .runLength
  else if name = nFlate then .ok (.flate (parseFlate d))
  else if name = nLZW then .ok (.lzw (parseLZW d))
  else if name = nCCITT then .ok (.ccitt (parseCCITTFax d))
  else if name = nDCT then
    .ok (.dct (match getInt d kColorTransform with | some 0 => 1 | some 1 => 2 | _ => 0))
  else if name = nJBIG2 then .ok .jbig2
  else if name = nJPX then .ok .jpx
  else if name = nCrypt then
    match dlookup kName d with
    | none => .ok .cryptIdentity
    | some (.name n) =>
      if n = [] ∨ n = nIdentity then .ok .cryptIdentity
      else if n = nStdCF then .ok .cryptStandard
      else .ok (.cryptNamed n)
    | some _ => .error .malformed
  else .ok (.notImplemented name)

/-! ### GetFilters (direct objects) -/

def cryptPositionsOk : (i : Nat) → List Filter → Bool
  | _, [] => true
  | i, f :: rest => (!(f.isCrypt && i != 0)) && cryptPositionsOk (i + 1) rest

/-- `pa[i]` of the `Array` case: absent or null → nil dictionary, a dictionary → itself,
anything else → "wrong type, expected Dict" (a malformed-file error since fix D20) -/
def parmDictAt : List Obj → Except Err Dict
  | [] => .ok []
  | .null :: _ => .ok []
  | .dict d :: _ => .ok d
  | _ :: _ => .error .malformed

/-- the per-entry loop of the `Array` case -/
def getFiltersArr : (names : List Obj) → (parms : List Obj) → Except Err (List Filter)
  | [], _ => .ok []
  | .name n :: rest, parms =>
    match parmDictAt parms with
    | .error e => .error e
    | .ok d =>
      match makeFilter n d with
      | .error e => .error e
      | .ok f =>
        match getFiltersArr rest parms.tail with
        | .error e => .error e
        | .ok fs => .ok (f :: fs)
  | _ :: _, _ => .error .malformed

def single (r : Except Err Filter) : Except Err (List Filter) :=
  match r with
  | .error e => .error e
  | .ok f => .ok [f]

/-- the `switch f := filter.(type)` of `GetFilters` (before the Crypt-position check) -/
def getFiltersRaw (filter parms : Obj) : Except Err (List Filter) :=
  match filter with
  | .null => .ok []
  | .name n =>
    match parms with
    | .null => single (makeFilter n [])
    | .dict d => single (makeFilter n d)
    | _ => .error .malformed
  | .arr names =>
    if names.length > Gen.container_maxFilterChainLength then .error .malformed
    else match parms with
      | .null => getFiltersArr names []
      | .arr pa => getFiltersArr names pa
      | _ => .error .malformed
  | _ => .error .malformed

/-- `GetFilters` on a stream dictionary whose `/Filter` and `/DecodeParms` are direct objects
(`.null` = entry absent or null).  Errors: `malformed` for the chain-length cap, an invalid
`/Filter` type, a misplaced Crypt filter and (since fix D20) the wrong-type cases of
`/DecodeParms` and of array entries. -/
def getFilters (filter parms : Obj) : Except Err (List Filter) :=
  match getFiltersRaw filter parms with
  | .error e => .error e
  | .ok fs => if cryptPositionsOk 0 fs then .ok fs else .error .malformed

/-! ### appendFilter -/

def dictLen : Obj → Nat
  | .dict d => d.length
  | _ => 0

def asDictOrNull : Obj → Obj
  | .dict d => .dict d
  | _ => .null

/-- `appendFilter(streamDict, name, parms)` on the two entries it touches:
`(filter, decodeParms) ↦ (filter', decodeParms')`; `.null` = absent.  `parms = []` is the nil
dictionary. -/
def appendFilter (filter dparms : Obj) (name : Bytes) (parms : Dict) : Obj × Obj :=
  let pobj : Obj := if parms.isEmpty then .null else .dict parms
  match filter with
  | .name f =>
    let p0 := asDictOrNull dparms
    if dictLen p0 + parms.length > 0 then (.arr [.name f, .name name], .arr [p0, pobj])
    else (.arr [.name f, .name name], dparms)
  | .arr fs =>
    let pp : List Obj := match dparms with | .arr pp => pp | _ => []
    let needs := parms.length > 0 || pp.any fun x => dictLen x > 0
    if needs then
      let pp := (pp ++ List.replicate (fs.length - pp.length) Obj.null).take fs.length
      (.arr (fs ++ [.name name]), .arr (pp ++ [pobj]))
    else (.arr (fs ++ [.name name]), dparms)
  | _ =>
    (.name name, if parms.length > 0 then .dict parms else dparms)

end PdfVerif.FB

import PdfVerif.Generated.FactsCONC

/-!
# /JBIG2Globals chains (work package FB, C08)

`resolveJBIG2Globals` (container.go) follows the `/JBIG2Globals` reference of a JBIG2Decode
stream; the globals stream may itself be a JBIG2Decode stream with `/JBIG2Globals`, and so on.
Every reference is entered through `CycleCheck.step` (resolve.go), which refuses a path longer
than `limits.MaxExtractDepth`.
-/

namespace PdfVerif.FB

/-- objects fetched by `DecodeStream` for a chain of `depth` streams in which stream `k` names
stream `k+1` as its `/JBIG2Globals` (the last one names nothing): one per reference, and
`path.step` admits `MaxExtractDepth` references -/
def globalsChainFetches (depth : Nat) : Nat := min (depth - 1) Gen.limits_MaxExtractDepth

end PdfVerif.FB

import PdfVerif.Model.Format
/-!
Model of `scanner.go` on the *whole remaining input* (the 1024-byte buffer is modelled
separately in `Model/ScanBuf.lean`): `SkipWhiteSpace`, `ReadName`, `ReadNumber`, `ReadInteger`,
`ReadString`, `ReadHexString`, `ReadArray`, `ReadDict`, `ReadObject`.

Conventions: a reader takes the remaining input and returns the value and the new remaining
input, or an error class.  `Err.eof` is the bare `io.EOF` of the Go code; `ReadArray`/`ReadDict`
turn it into `malformed` exactly as their deferred handlers do.
-/
namespace PdfVerif



mutual
/-- `SkipWhiteSpace`: rest of input, and `true` when the end of input was reached
    (the Go function returns `io.EOF` then). -/
def skipWS : Bytes → Bytes × Bool
  | [] => ([], true)
  | c :: cs => if c == 37 then skipComment cs
               else if isSpace c then skipWS cs else (c :: cs, false)
def skipComment : Bytes → Bytes × Bool
  | [] => ([], true)
  | c :: cs => if c == 13 || c == 10 then skipWS cs else skipComment cs
end

/-- prepend a byte to the value of a successful result -/
def consRes (x : Nat) : Except Err (Bytes × Bytes) → Except Err (Bytes × Bytes)
  | .ok (s, r) => .ok (x :: s, r)
  | .error e => .error e
@[simp] theorem consRes_ok (x : Nat) (s r : Bytes) : consRes x (.ok (s, r)) = .ok (x :: s, r) := rfl
@[simp] theorem consRes_error (x : Nat) (e : Err) : consRes x (.error e) = .error e := rfl

def hexVal (c : Nat) : Option Nat :=
  if 48 ≤ c ∧ c ≤ 57 then some (c - 48)
  else if 65 ≤ c ∧ c ≤ 70 then some (c - 55)
  else if 97 ≤ c ∧ c ≤ 102 then some (c - 87)
  else none

/-- `ReadName` after the slash.  `len` = bytes collected so far (for `maxNameBytes`). -/
def readNameBody : Nat → Nat → Bytes → Except Err (Bytes × Bytes)
  | 0, _, inp => .ok ([], inp)
  | _+1, _, [] => .ok ([], [])
  | fuel+1, len, c :: rest =>
    -- the byte that terminates the name is classified first: the limit applies to the bytes of
    -- the name, not to the terminator
    if c != 35 && !isRegular c then .ok ([], c :: rest)
    else if len ≥ Gen.scanner_maxNameBytes then .error .malformed
    else if c == 35 then
      match rest with
      | h :: l :: rest' =>
        match hexVal h, hexVal l with
        | some a, some b => consRes (a * 16 + b) (readNameBody fuel (len + 1) rest')
        | _, _ => consRes 35 (readNameBody fuel (len + 1) rest)
      | _ => consRes 35 (readNameBody fuel (len + 1) rest)
    else consRes c (readNameBody fuel (len + 1) rest)

/-- `ReadName`: `SkipString("/")` then the body -/
def readName (inp : Bytes) : Except Err (Bytes × Bytes) :=
  match inp with
  | 47 :: rest => readNameBody (rest.length + 1) 0 rest
  | _ => .error .malformed

def isDigit (c : Nat) : Bool := 48 ≤ c && c ≤ 57

/-- the accept function of `ReadNumber` (`allowDot = true`) and `ReadInteger` (`false`):
    returns the token and the rest -/
def scanNumTok (allowDot : Bool) : (hasDot first : Bool) → Bytes → Bytes × Bytes
  | _, _, [] => ([], [])
  | hasDot, first, c :: cs =>
    if allowDot && !hasDot && c == 46 then
      let (t, r) := scanNumTok allowDot true false cs; (c :: t, r)
    else if first && (c == 43 || c == 45) then
      let (t, r) := scanNumTok allowDot hasDot false cs; (c :: t, r)
    else if isDigit c then
      let (t, r) := scanNumTok allowDot hasDot false cs; (c :: t, r)
    else ([], c :: cs)

def digitsVal : Bytes → Nat → Nat
  | [], acc => acc
  | c :: cs, acc => digitsVal cs (acc * 10 + (c - 48))

/-- `strconv.ParseInt(tok, 10, 64)` on a token of sign and digits -/
def parseInt64 (tok : Bytes) : Option Int :=
  let (neg, ds) := match tok with
    | 45 :: ds => (true, ds)
    | 43 :: ds => (false, ds)
    | ds => (false, ds)
  if ds.isEmpty || !ds.all isDigit then none else
  let v : Int := digitsVal ds 0
  let v := if neg then -v else v
  if v < -9223372036854775808 || v > 9223372036854775807 then none else some v

/-- `ReadNumber` -/
def readNumber (inp : Bytes) : Except Err (Obj × Bytes) :=
  let (tok, rest) := scanNumTok true false true inp
  if tok.length > Gen.scanner_maxNameBytes then .error .malformed else
  let hasDot := tok.contains 46
  match (if hasDot then none else parseInt64 tok) with
  | some i => .ok (.int i, rest)
  | none =>
    -- strconv.ParseFloat on sign/digits/dot: succeeds iff there is at least one digit
    -- (range overflow is outside the model: harness tokens stay below 300 digits)
    if tok.any isDigit then .ok (.real tok, rest) else .error .malformed

/-- `ReadInteger`: skip white space, then sign and digits -/
def readInteger (inp : Bytes) : Except Err (Int × Bytes) :=
  let (inp, _) := skipWS inp
  let (tok, rest) := scanNumTok false false true inp
  if tok.length > Gen.scanner_maxNameBytes then .error .malformed else
  match parseInt64 tok with
  | some i => .ok (i, rest)
  | none => .error .malformed

def isOct (c : Nat) : Bool := 48 ≤ c && c ≤ 55

/-- up to two further octal digits (`for range 2 { PeekN(1) … }`), byte arithmetic mod 256 -/
def readOctTail (oct : Nat) : Nat → Bytes → Nat × Bytes
  | 0, inp => (oct, inp)
  | _+1, [] => (oct, [])
  | k+1, c :: cs => if isOct c then readOctTail ((oct * 8 + (c - 48)) % 256) k cs else (oct, c :: cs)

/-- `ReadString` after the opening parenthesis; `len` counts result bytes -/
def readStringBody : Nat → (level : Nat) → (ignoreLF : Bool) → (len : Nat) → Bytes → Except Err (Bytes × Bytes)
  | 0, _, _, _, _ => .error .other
  | fuel+1, level, ignoreLF, len, inp =>
    -- a string of exactly maxStringBytes bytes is allowed: the limit is only exceeded once a
    -- further byte has been added
    if len > Gen.scanner_maxStringBytes then .error .malformed else
    match inp with
    | [] => .error .eof
    | b :: rest =>
      if ignoreLF && b == 10 then readStringBody fuel level false len rest
      else if b == 40 then consRes b (readStringBody fuel (level + 1) false (len + 1) rest)
      else if b == 41 then
        if level == 1 then .ok ([], rest)
        else consRes b (readStringBody fuel (level - 1) false (len + 1) rest)
      else if b == 92 then
        match rest with
        | [] => .error .eof
        | esc :: rest' =>
          let lit (x : Nat) : Except Err (Bytes × Bytes) := consRes x (readStringBody fuel level false (len + 1) rest')
          if esc == 110 then lit 10
          else if esc == 114 then lit 13
          else if esc == 116 then lit 9
          else if esc == 98 then lit 8
          else if esc == 102 then lit 12
          else if esc == 10 then readStringBody fuel level false len rest'
          else if esc == 13 then readStringBody fuel level true len rest'
          else if isOct esc then
            let (v, r2) := readOctTail (esc - 48) 2 rest'
            consRes v (readStringBody fuel level false (len + 1) r2)
          else lit esc
      else if b == 13 then consRes 10 (readStringBody fuel level true (len + 1) rest)
      else consRes b (readStringBody fuel level false (len + 1) rest)

def readString (inp : Bytes) : Except Err (Bytes × Bytes) := readStringBody (inp.length + 1) 1 false 0 inp

/-- `ReadHexString` after `<`: hex digits in pairs, every other byte ignored, until `>` -/
def readHexBody : (pending : Option Nat) → (len : Nat) → Bytes → Except Err (Bytes × Bytes)
  | _, _, [] => .error .eof
  | pending, len, c :: cs =>
    if c == 62 then
      match pending with
      | some h =>
        -- the final unpaired digit is subject to the cap as well
        if len ≥ Gen.scanner_maxStringBytes then .error .malformed else .ok ([16 * h], cs)
      | none => .ok ([], cs)
    else match hexVal c with
      | none => readHexBody pending len cs
      | some d =>
        match pending with
        | none => readHexBody (some d) len cs
        | some h =>
          if len ≥ Gen.scanner_maxStringBytes then .error .malformed
          else consRes (16 * h + d) (readHexBody none (len + 1) cs)

def readHexString (inp : Bytes) : Except Err (Bytes × Bytes) := readHexBody none 0 inp

def startsWith (inp pat : Bytes) : Bool := isPrefixOf pat inp

/-- errors leaving `ReadArray`/`ReadDict`/`ReadStreamData`: EOF becomes malformed -/
def Err.inComposite : Err → Err
  | .eof => .malformed
  | e => e

def validRef (a b : Int) : Bool :=
  !(a < 0 || a ≥ Gen.xref_maxXRefSize || b < 0 || b > Gen.xref_maxGeneration)

def dictInsert (k : Bytes) (v : Obj) : List (Bytes × Obj) → List (Bytes × Obj)
  | [] => [(k, v)]
  | (k', v') :: rest => if k' == k then (k, v) :: rest else (k', v') :: dictInsert k v rest

def kw_null : Bytes := [110, 117, 108, 108]
def kw_true : Bytes := [116, 114, 117, 101]
def kw_false : Bytes := [102, 97, 108, 115, 101]
def kw_stream : Bytes := [115, 116, 114, 101, 97, 109]

mutual
/-- `ReadObject`.  `depth` = `nestDepth`.  A dictionary followed by `stream` is reported as
    malformed (the syntax models have no `fileReader`, exactly like a scanner made by
    `newScanner` on a plain reader). -/
def readObject : Nat → Nat → Bytes → Except Err (Obj × Bytes)
  | 0, _, _ => .error .other
  | fuel+1, depth, inp =>
    match inp with
    | [] => .error .malformed
    | c :: rest =>
      if startsWith inp kw_null then .ok (.null, inp.drop 4)
      else if startsWith inp kw_true then .ok (.bool true, inp.drop 4)
      else if startsWith inp kw_false then .ok (.bool false, inp.drop 5)
      else if c == 47 then (readName inp).map fun (n, r) => (.name n, r)
      else if isDigit c || c == 43 || c == 45 || c == 46 then readNumber inp
      else if c == 60 && rest.head? == some 60 then
        match readDict fuel depth inp with
        | .error e => .error e
        | .ok (d, r) =>
          let (r', _) := skipWS r
          if startsWith r' kw_stream then .error .malformed else .ok (.dict d, r')
      else if c == 40 then (readString rest).map fun (s, r) => (.str s, r)
      else if c == 60 then (readHexString rest).map fun (s, r) => (.str s, r)
      else if c == 91 then (readArray fuel depth rest).map fun (xs, r) => (.arr xs, r)
      else .error .malformed
/-- `ReadArray` after `[` -/
def readArray : Nat → Nat → Bytes → Except Err (List Obj × Bytes)
  | 0, _, _ => .error .other
  | fuel+1, depth, inp =>
    if depth ≥ Gen.scanner_maxScannerNestDepth then .error .malformed
    else (readArrayLoop fuel (depth + 1) [] 0 inp).mapError Err.inComposite
/-- the loop of `ReadArray`; `acc` is the array so far in reverse -/
def readArrayLoop : Nat → Nat → List Obj → Nat → Bytes → Except Err (List Obj × Bytes)
  | 0, _, _, _, _ => .error .other
  | fuel+1, depth, acc, ints, inp =>
    match skipWS inp with
    | (_, true) => .error .eof
    | ([], false) => .error .eof
    | (c :: rest, false) =>
      if c == 93 then
        -- the limit itself is enforced when the closing bracket is reached
        if acc.length > Gen.scanner_maxArrayLen then .error .malformed else .ok (acc.reverse, rest)
      else if ints ≥ 2 && c == 82 then
        match acc with
        | .int b :: .int a :: acc' =>
          let v := if validRef a b then Obj.ref a.toNat b.toNat else Obj.null
          readArrayLoop fuel depth (v :: acc') 0 rest
        | _ => .error .other  -- unreachable: the last `ints` elements are integers
      else
        match readObject fuel depth (c :: rest) with
        | .error e => .error e
        | .ok (o, r) =>
          let ints' := match o with | .int _ => ints + 1 | _ => 0
          -- a trailing `a b R` temporarily occupies two elements: one more than the limit is
          -- allowed here
          if acc.length > Gen.scanner_maxArrayLen then .error .malformed
          else readArrayLoop fuel depth (o :: acc) ints' r
/-- `ReadDict` at `<<` -/
def readDict : Nat → Nat → Bytes → Except Err (List (Bytes × Obj) × Bytes)
  | 0, _, _ => .error .other
  | fuel+1, depth, inp =>
    if depth ≥ Gen.scanner_maxScannerNestDepth then .error .malformed
    else match inp with
      | 60 :: 60 :: rest =>
        match skipWS rest with
        | (_, true) => .error .malformed
        | (r, false) => (readDictLoop fuel (depth + 1) [] r).mapError Err.inComposite
      | _ => .error .malformed
def readDictLoop : Nat → Nat → List (Bytes × Obj) → Bytes → Except Err (List (Bytes × Obj) × Bytes)
  | 0, _, _, _ => .error .other
  | fuel+1, depth, acc, inp =>
    match readName inp with
    | .error _ =>  -- ReadName only fails with a malformed error here: leave the loop
      (match inp with
       | 62 :: 62 :: rest => .ok (acc, rest)
       | _ => .error .malformed)
    | .ok (key, r) =>
      match skipWS r with
      | (_, true) => .error .eof
      | (r, false) =>
        match readObject fuel depth r with
        | .error e => .error e
        | .ok (val, r) =>
          match skipWS r with
          | (_, true) => .error .eof
          | (r, false) =>
            let cont (val : Obj) (r : Bytes) : Except Err (List (Bytes × Obj) × Bytes) :=
              if !(acc.any fun e => e.1 == key) && acc.length ≥ Gen.scanner_maxDictLen then .error .malformed
              else readDictLoop fuel depth (dictInsert key val acc) r
            match val, r with
            | .int a, c :: _ =>
              if c != 47 && c != 62 then
                match readInteger r with
                | .error e => .error e
                | .ok (b, r) =>
                  match skipWS r with
                  | (_, true) => .error .eof
                  | (82 :: r, false) =>
                    (match skipWS r with
                     | (_, true) => .error .eof
                     | (r, false) => cont (if validRef a b then .ref a.toNat b.toNat else .null) r)
                  | _ => .error .malformed
              else cont val r
            | _, _ => cont val r
end

/-- fuel that always suffices: one level of nesting costs three calls
    (`readObject → readArray → readArrayLoop → readObject`) and at least one input byte -/
def scanFuel (inp : Bytes) : Nat := 3 * inp.length + 8

/-- parse one object at the start of `inp` (what `ReadObject` on a fresh scanner does) -/
def parseObject (inp : Bytes) : Except Err (Obj × Bytes) := readObject (scanFuel inp) 0 inp

end PdfVerif

import PdfVerif.Model.Scan
/-!
# The scanner's buffer as an explicit state machine (`scanner.go`)

`Model/Scan.lean` describes the scanner on the *whole remaining input*.  The real scanner reads
through a `scannerBufSize`-byte window that `refill` slides over an `io.Reader`, and it latches
the first non-EOF error of that reader in `scanner.err`.  This file models exactly that:

* `Source` — the `io.Reader` below the scanner: the answer of the `k`-th `Read` call, made at
  stream offset `off` for at most `want` bytes, is a pair *(data, optional error)*; **both** may be
  present (the `io.Reader` contract).  `Err.eof` stands for `io.EOF`, every other `Err` value is a
  fault of the source.
* `readFull` — `io.ReadFull(src, buf[used:])` (`io.ReadAtLeast`'s loop and its error rewriting).
* `SB` — `scanner.{buf[0:used], pos, filePos, err}` plus the bookkeeping of the source
  (`srcOff`, `calls`) and two flags that make the functions total: `hang` (a loop of the Go code
  would not have ended: fuel ran out) and `panicked` (`PeekN` with a window above the buffer size).
* `refill`, `peekN`, `readByte`, `skipString`, `scanBytes`, `skipWhiteSpace` — line by line.

`Props/C05rob.lean` proves that on a fault-free source these functions compute what
`Model/Scan.lean` computes on the whole input (refinement), that `scanBytes` terminates
(`hang` is never set: this is where defect D8 lived), and `Props/C19rob.lean` proves
`scanner_fault`.
-/
namespace PdfVerif.ROB
open PdfVerif

/-- the `io.Reader` below the scanner: call index, stream offset, bytes wanted ↦ data, error -/
abbrev Source := Nat → Nat → Nat → Bytes × Option Err

def bufSize : Nat := Gen.scanner_scannerBufSize

/-- result of `io.ReadFull`: the bytes delivered, the error *as `ReadFull` reports it*
    (`eof` stands for both `io.EOF` and `io.ErrUnexpectedEOF`, which `refill` treats alike),
    the number of `Read` calls made so far, and whether the loop ran out of fuel -/
structure RF where
  data : Bytes
  err : Option Err
  calls : Nat
  hang : Bool

/-- `io.ReadAtLeast(src, p, len(p))`:
    `for n < min && err == nil { nn, err = r.Read(buf[n:]); n += nn }`, then
    `if n >= min { err = nil } else if n > 0 && err == EOF { err = ErrUnexpectedEOF }`. -/
def readFull (src : Source) : (fuel calls off want : Nat) → (acc : Bytes) → RF
  | 0, calls, _, want, acc => ⟨acc, none, calls, want != 0⟩
  | fuel+1, calls, off, want, acc =>
    if want = 0 then ⟨acc, none, calls, false⟩
    else
      let r := src calls off want
      let d := r.1.take want            -- a `Read` never delivers more than `len(p)` bytes
      match r.2 with
      | none => readFull src fuel (calls + 1) (off + d.length) (want - d.length) (acc ++ d)
      | some e =>
        if d.length ≥ want then ⟨acc ++ d, none, calls + 1, false⟩
        else ⟨acc ++ d, some e, calls + 1, false⟩

/-- scanner state; `buf` is `s.buf[0:s.used]` (so `used = buf.length`) -/
structure SB where
  buf : Bytes
  pos : Nat
  filePos : Nat
  srcOff : Nat            -- stream offset of the next `Read`
  calls : Nat             -- `Read` calls made so far
  err : Option Err        -- `scanner.err`: latched first non-EOF error
  hang : Bool
  panicked : Bool
  deriving Repr

def SB.init (filePos : Nat) : SB := ⟨[], 0, filePos, 0, 0, none, false, false⟩

/-- `CurrentPos` -/
def SB.currentPos (s : SB) : Nat := s.filePos + s.pos

/-- `refill`: returns the latched error without touching anything; otherwise moves the unread
    bytes to the front, fills the rest of the window with `io.ReadFull`, maps (unexpected) EOF to
    nil, latches any other error and reports it only when no byte was added. -/
def refill (src : Source) (s : SB) : SB × Option Err :=
  match s.err with
  | some e => (s, some e)
  | none =>
    let keep := s.buf.drop s.pos
    let want := bufSize - keep.length
    let r := readFull src (want + 1) s.calls s.srcOff want []
    let s' : SB := { s with buf := keep ++ r.data, pos := 0, filePos := s.filePos + s.pos,
                            srcOff := s.srcOff + r.data.length, calls := r.calls,
                            hang := s.hang || r.hang }
    match r.err with
    | none => (s', none)
    | some e =>
      if e = .eof then (s', none)
      else ({ s' with err := some e }, if r.data.length > 0 then none else some e)

/-- `PeekN(n)`: window of the next `n` bytes (fewer at the end of the input, then together with
    whatever `refill` reported or has latched) -/
def peekN (src : Source) (n : Nat) (s : SB) : SB × Bytes × Option Err :=
  if n > bufSize then ({ s with panicked := true }, [], none)
  else
    let (s1, err) := if s.pos + n > s.buf.length then refill src s else (s, none)
    if s1.pos + n > s1.buf.length then
      -- `if err == nil { err = s.err }` (fix D33): a window that is short because of a read error
      -- which `refill` has only latched is reported with that error, not as the end of the input
      (s1, s1.buf.drop s1.pos, match err with | none => s1.err | some e => some e)
    else (s1, (s1.buf.drop s1.pos).take n, none)

/-- `ReadByte` -/
def readByte (src : Source) (s : SB) : SB × Except Err Nat :=
  let (s1, buf, err) := peekN src 1 s
  match err with
  | some e => if e = .eof then
      (match buf with
       | [] => (s1, .error .eof)
       | c :: _ => ({ s1 with pos := s1.pos + 1 }, .ok c))
    else (s1, .error e)
  | none =>
    match buf with
    | [] => (s1, .error .eof)
    | c :: _ => ({ s1 with pos := s1.pos + 1 }, .ok c)

/-- `SkipString(pat)`: `nil`, the error of `PeekN`, or a malformed-file error on a mismatch -/
def skipString (src : Source) (pat : Bytes) (s : SB) : SB × Option Err :=
  let (s1, buf, err) := peekN src pat.length s
  match err with
  | some e => (s1, some e)
  | none => if buf == pat then ({ s1 with pos := s1.pos + pat.length }, none) else (s1, some .malformed)

/-- the inner loop of `ScanBytes` over the unread part of the window:
    `for s.pos < s.used { if !accept(s.buf[s.pos]) { return nil }; s.pos++; empty = false }`.
    `acc st b = none` is `accept` returning false; the acceptor's captured variables are `st`.
    Result: acceptor state, bytes consumed, and whether `accept` said stop. -/
def scanInner {σ : Type} (acc : σ → Nat → Option σ) : σ → Bytes → σ × Nat × Bool
  | st, [] => (st, 0, false)
  | st, b :: bs =>
    match acc st b with
    | none => (st, 0, true)
    | some st' => let (st'', n, stop) := scanInner acc st' bs; (st'', n + 1, stop)

/-- `ScanBytes(accept)`; out of fuel sets `hang`.  `empty` is the Go variable of that name. -/
def scanBytes {σ : Type} (src : Source) (acc : σ → Nat → Option σ) :
    (fuel : Nat) → (empty : Bool) → σ → SB → SB × σ × Option Err
  | 0, _, st, s => ({ s with hang := true }, st, none)
  | fuel+1, empty, st, s =>
    let (st1, n, stop) := scanInner acc st (s.buf.drop s.pos)
    let s1 := { s with pos := s.pos + n }
    let empty1 := empty && n == 0
    if stop then (s1, st1, none)
    else
      let (s2, err) := refill src s1
      if err = some .eof && !empty1 then (s2, st1, none)
      else if s2.buf.length = 0 then (s2, st1, some (match err with | none => .eof | some e => e))
      else if err.isSome && s2.pos ≥ s2.buf.length then
        -- refill failed without adding data (latched read error): the fix of D8
        (s2, st1, err)
      else scanBytes src acc fuel empty1 st1 s2

/-- the acceptor of `SkipWhiteSpace`; its state is `isComment` -/
def wsAcc (isComment : Bool) (b : Nat) : Option Bool :=
  if isComment then (if b == 13 || b == 10 then some false else some true)
  else if b == 37 then some true
  else if isSpace b then some false else none

/-- fuel for `ScanBytes` when at most `size` bytes are still to come from the source -/
def scanBytesFuel (size : Nat) : Nat := size + 2

/-- `SkipWhiteSpace` -/
def skipWhiteSpace (src : Source) (fuel : Nat) (s : SB) : SB × Option Err :=
  let (s', _, e) := scanBytes src wsAcc fuel true false s
  (s', e)

/-- acceptor of `ReadInteger`/`ReadNumber` (`allowDot`): state = (hasDot, first, token so far
    reversed, overflow) -/
structure NumSt where
  hasDot : Bool
  first : Bool
  tok : Bytes
  overflow : Bool

def numAcc (allowDot : Bool) (st : NumSt) (b : Nat) : Option NumSt :=
  let push (hasDot : Bool) : Option NumSt :=
    if st.tok.length < Gen.scanner_maxNameBytes then some ⟨hasDot, false, b :: st.tok, st.overflow⟩
    else some ⟨hasDot, false, st.tok, true⟩
  if allowDot && !st.hasDot && b == 46 then push true
  else if st.first && (b == 43 || b == 45) then push st.hasDot
  else if isDigit b then push st.hasDot
  else none

/-- `ReadInteger`: `SkipWhiteSpace`, `ScanBytes(sign/digits)`, `strconv.ParseInt` -/
def readIntegerBuf (src : Source) (fuel : Nat) (s : SB) : SB × Except Err Int :=
  let (s1, e1) := skipWhiteSpace src fuel s
  match e1 with
  | some e => (s1, .error e)
  | none =>
    let (s2, st, e2) := scanBytes src (numAcc false) fuel true ⟨false, true, [], false⟩ s1
    match (match e2 with | some .eof => none | e => e) with
    | some e => (s2, .error e)
    | none =>
      if st.overflow then (s2, .error .malformed)
      else match parseInt64 st.tok.reverse with
        | some i => (s2, .ok i)
        | none => (s2, .error .malformed)

/-! ### sources used by the driver and the theorems -/

/-- the fault-free reader over the bytes `d` that hands out at most `chunk` bytes per call
    (`chunk = 0`: no limit — `io.SectionReader` over a `bytes.Reader`) -/
def goodSrc (d : Bytes) (chunk : Nat) : Source := fun _ off want =>
  if off ≥ d.length then ([], some .eof)
  else
    let w := if chunk = 0 then want else min want chunk
    ((d.drop off).take w, none)

/-- fault injection: what the `k`-th call (counted from 0) of the reader does -/
inductive FaultMode where
  | none
  | fromK (k : Nat) (short : Nat)    -- every call with index ≥ k fails, delivering `short` bytes first
  | onlyK (k : Nat) (short : Nat)    -- only call k fails
  deriving Repr

def faultySrc (d : Bytes) (chunk : Nat) (m : FaultMode) (e : Err) : Source := fun k off want =>
  let g := goodSrc d chunk k off want
  let fail (short : Nat) : Bytes × Option Err := ((g.1.take short), some e)
  match m with
  | .none => g
  | .fromK k0 short => if k ≥ k0 then fail short else g
  | .onlyK k0 short => if k = k0 then fail short else g

/-- an `io.ReaderAt`: answer of the `k`-th call `ReadAt(p, off)` with `len p = n` -/
abbrev ReaderAtFn := Nat → Nat → Nat → Bytes × Option Err

/-- `io.NewSectionReader(ra, 0, size)` as the scanner's reader (`Reader.scannerFrom`): at or
    beyond the limit `Read` answers `io.EOF` without calling `ra`; otherwise `p` is clamped to the
    limit and passed to `ra.ReadAt` -/
def sectionSrc (ra : ReaderAtFn) (size : Nat) : Source := fun k off want =>
  if off ≥ size then ([], some .eof) else ra k off (min want (size - off))

end PdfVerif.ROB

import PdfVerif.Basic
import PdfVerif.Generated.FactsROB
/-!
# The error algebra of `error.go`, `reader.go:shouldExit`, `container.go:sourceErrChecker`

Go error values are modelled as far as `errors.Is`, `errors.As(*MalformedFileError)`, `Wrap`
and `Optional` can tell them apart:

* `sentinel id` — a comparable leaf (`io.EOF` = 0, `io.ErrUnexpectedEOF` = 1, anything else:
  the injected error of a byte source or sink, `ErrCycle`, …),
* `malformed inner loc` — `&MalformedFileError{Err: inner, Loc: loc}` (its `Unwrap` returns
  `inner`, so `errors.Is` looks *through* it),
* `wrapf msg inner` — `fmt.Errorf("%s: %w", msg, inner)`,
* `other msg` — `errors.New`/`fmt.Errorf` without `%w`, `*AuthenticationError`, …

`Option GoErr` is Go's `error` (`none` = `nil`).
-/
namespace PdfVerif.ROB
open PdfVerif

inductive GoErr where
  | sentinel (id : Nat)
  | malformed (inner : GoErr) (loc : List String)
  | wrapf (msg : String) (inner : GoErr)
  | other (msg : String)
  deriving DecidableEq, Repr, Inhabited

def idEOF : Nat := 0
def idUnexpectedEOF : Nat := 1

/-- `IsMalformed`: `errors.As(err, &*MalformedFileError)` along the `Unwrap` chain -/
def GoErr.isMalformed : GoErr → Bool
  | .sentinel _ => false
  | .malformed _ _ => true
  | .wrapf _ e => e.isMalformed
  | .other _ => false

/-- `errors.Is(err, target)` for a sentinel target -/
def GoErr.is (target : Nat) : GoErr → Bool
  | .sentinel id => id == target
  | .malformed e _ => e.is target
  | .wrapf _ e => e.is target
  | .other _ => false

/-- `e.Loc = append(e.Loc, loc)` on the first `*MalformedFileError` of the chain -/
def GoErr.appendLoc (loc : String) : GoErr → GoErr
  | .malformed e l => .malformed e (l ++ [loc])
  | .wrapf m e => .wrapf m (e.appendLoc loc)
  | e => e

/-- the `Loc` of the first `*MalformedFileError` of the chain -/
def GoErr.loc : GoErr → List String
  | .malformed _ l => l
  | .wrapf _ e => e.loc
  | _ => []

/-- `Wrap(err, loc)` -/
def wrap (err : Option GoErr) (loc : String) : Option GoErr :=
  match err with
  | none => none
  | some e => if e.isMalformed then some (e.appendLoc loc) else some (.wrapf loc e)

def isMalformed : Option GoErr → Bool
  | none => false
  | some e => e.isMalformed

/-- `IsReadError` -/
def isReadError (err : Option GoErr) : Bool := err.isSome && !isMalformed err

/-- `Optional(value, err)`; `zero` is the zero value of the type -/
def optionalGo {α : Type} (zero : α) (value : α) (err : Option GoErr) : α × Option GoErr :=
  if isMalformed err then (zero, none)
  else match err with
    | some e => (zero, some e)
    | none => (value, none)

/-- the innermost error of the chain -/
def GoErr.leaf : GoErr → GoErr
  | .malformed e _ => e.leaf
  | .wrapf _ e => e.leaf
  | e => e

/-- canonical class of the correspondence protocol -/
def errClass : Option GoErr → String
  | none => "ok"
  | some e =>
    if e.isMalformed then "malformed"
    else match e.leaf with
      | .sentinel id => if id = idEOF then "eof" else if id = idUnexpectedEOF then "ueof" else "io"
      | _ => "other"

/-- the closure `shouldExit` of `NewReader` and `MakeReader` (after fix D7).
    `mode` is the `ReaderErrorHandling` value.  Returns the decision and the error appended to
    `r.Errors` (Report mode). -/
def shouldExit (mode : Nat) (err : Option GoErr) : Bool × Option GoErr :=
  match err with
  | none => (false, none)
  | some e =>
    if !e.isMalformed then (true, none)          -- real failures are propagated in every mode
    else if mode = Gen.rob_reader_ErrorHandlingReport then (false, some e)
    else (mode != Gen.rob_reader_ErrorHandlingRecover, none)


/-- the error `NewReader`/`MakeReader` make up when the catalog has no usable `/Pages` -/
def errNoPages : GoErr := .malformed (.other "no pages in PDF document catalog") []

/-- The step after `DecodeCatalog` in `NewReader` (`seq = false`) and in `FileInfo.MakeReader`
    (`seq = true`, after fix D32): `err` is the error of the decode, `hasPages` says whether
    `r.meta.Catalog != nil && r.meta.Catalog.Pages != 0`.  Result: (the function returns now with a
    nil `*Reader`, the error it returns, an error was appended to `r.Errors`). -/
def catalogStep (seq : Bool) (mode : Nat) (err : Option GoErr) (hasPages : Bool) : Bool × Option GoErr × Bool :=
  let (ex, rep) := shouldExit mode err
  if ex then (true, err, false)
  else if !hasPages then
    if seq then
      -- `if err == nil { err = &MalformedFileError{…} }; return nil, err`
      (true, some (match err with | some e => e | none => errNoPages), rep.isSome)
    else if mode = Gen.rob_reader_ErrorHandlingReport then (false, none, true)
    else (true, some errNoPages, rep.isSome)
  else (false, none, rep.isSome)

/-! ## `sourceErrChecker` / `sourceAwareReader` under arbitrary filter layers -/

/-- the raw reader `x.NewReader()` below the checker: answer of its `k`-th `Read(p)`, `len p = want` -/
abbrev RawSrc := Nat → Nat → Bytes × Option GoErr

/-- what the layers above the checker may do during one call: any finite sequence of `Read`s on
    the checker, each continuation depending on what came back, then an answer.  Every
    deterministic filter stack (and every constructor that reads a header) is of this form. -/
inductive Prog (α : Type) where
  | ret (a : α)
  | read (want : Nat) (k : Bytes × Option GoErr → Prog α)

/-- state of the `sourceErrChecker`: number of `Read`s passed down, sticky `srcErr` -/
structure Chk where
  calls : Nat
  srcErr : Option GoErr
  deriving Repr

/-- `sourceErrChecker.Read`: record the first error that is not `io.EOF` -/
def Chk.observe (c : Chk) (err : Option GoErr) : Chk :=
  match err with
  | some e => if !e.is idEOF && c.srcErr.isNone then ⟨c.calls + 1, some e⟩ else ⟨c.calls + 1, c.srcErr⟩
  | none => ⟨c.calls + 1, c.srcErr⟩

/-- run the layers' program against the checker and the raw reader -/
def Prog.run {α : Type} (src : RawSrc) : Prog α → Chk → α × Chk
  | .ret a, c => (a, c)
  | .read want k, c =>
    let r := src c.calls want
    (k r).run src (c.observe r.2)

/-- `sourceErrChecker.promote` -/
def Chk.promote (c : Chk) (err : Option GoErr) : Option GoErr :=
  match c.srcErr with
  | some s => some s
  | none => err

/-- a filter stack: its state and what one `Read(p)` of its top does -/
structure Layers (σ : Type) where
  read : σ → Nat → Prog ((Bytes × Option GoErr) × σ)

/-- `sourceAwareReader.Read` -/
def topRead {σ : Type} (L : Layers σ) (src : RawSrc) (st : σ × Chk) (want : Nat) :
    (Bytes × Option GoErr) × (σ × Chk) :=
  let ((out, st'), c') := (L.read st.1 want).run src st.2
  let err := match out.2, c'.srcErr with
    | some _, some s => some s
    | e, _ => e
  ((out.1, err), (st', c'))

/-- the part of `DecodeStream` that builds the chain: a constructor program (the `Decode`
    methods of the crypt and filter layers, which may read headers) returning an error or the
    initial state of the stack; on error `src.promote(err)` is returned -/
def construct {σ : Type} (ctor : Prog (Except GoErr σ)) (src : RawSrc) : Except GoErr (σ × Chk) :=
  let (r, c) := ctor.run src ⟨0, none⟩
  match r with
  | .error e => .error ((c.promote (some e)).getD e)
  | .ok st => .ok (st, c)

/-- a sequence of `Read` calls on the reader returned by `DecodeStream` -/
def topReads {σ : Type} (L : Layers σ) (src : RawSrc) :
    (σ × Chk) → List Nat → List (Bytes × Option GoErr) × (σ × Chk)
  | st, [] => ([], st)
  | st, w :: ws =>
    let (o, st1) := topRead L src st w
    let (os, st2) := topReads L src st1 ws
    (o :: os, st2)

/-! ## `resolvePath` / `CycleCheck.step` (resolve.go) and the `/Prev` walk of `readXRef` -/

/-- `CycleCheck.step`: the path is the list of references being resolved, newest first -/
def cycleStep (path : List Nat) (ref : Nat) : Except String (List Nat) :=
  if path.contains ref then .error "cycle"
  else if (ref :: path).length > Gen.rob_limits_MaxExtractDepth then .error "depth"
  else .ok (ref :: path)

/-- `resolvePath` for a reference: `get r` is `some (inl next)` when object `r` is again a
    reference, `some (inr v)` for any other value, `none` when `Get` fails.
    The fuel is the number of loop iterations allowed. -/
def resolveLoop (get : Nat → Option (Nat ⊕ Nat)) : Nat → List Nat → Nat → Except String (Nat × List Nat)
  | 0, _, _ => .error "fuel"
  | fuel+1, path, ref =>
    match cycleStep path ref with
    | .error e => .error e
    | .ok path' =>
      match get ref with
      | none => .error "get"
      | some (.inr v) => .ok (v, path')
      | some (.inl next) => resolveLoop get fuel path' next

/-- fuel that suffices for `resolveLoop` (proved in `Props/C05rob.lean`) -/
def resolveFuel : Nat := Gen.rob_limits_MaxExtractDepth + 2

/-- the `/Prev` walk of `readXRef`: `seen` is the set of section offsets already read,
    `next start` is what reading the section at `start` yields: `none` = stop (no `/Prev`, or an
    error), `some p` = the validated next offset (`0 < p < size`).  Returns the offsets visited
    in order; out of fuel is reported by `none`. -/
def prevWalk (next : Nat → Option Nat) (size : Nat) : Nat → List Nat → Nat → Option (List Nat)
  | 0, _, _ => none
  | fuel+1, seen, start =>
    if seen.contains start then some seen.reverse
    else
      let seen' := start :: seen
      match next start with
      | none => some seen'.reverse
      | some p => if p = 0 ∨ p ≥ size then some seen'.reverse else prevWalk next size fuel seen' p

end PdfVerif.ROB

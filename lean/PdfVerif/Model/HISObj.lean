import PdfVerif.Model.Scan
import PdfVerif.Generated.FactsHIS
/-!
# Model of `scanner.go`: `ReadStreamData`, `endstreamAt`, `trimTrailingEOL`, the top level of
`ReadObject` (dictionary followed by `stream`), `ReadIndirectObject`

Positions are absolute byte offsets into the whole file (`file : Bytes`); a scanner created by
`scannerFrom(pos)` / `doRead` sees `file.drop pos`.  The 1024-byte buffer is not modelled here
(`Find(endstreamPat)` is the first occurrence in the remaining input: the pattern is 10 bytes
long, shorter than the 64-byte overlap kept between buffer windows).
-/
namespace PdfVerif.HIS
open PdfVerif

def kwEndstream : Bytes := [101, 110, 100, 115, 116, 114, 101, 97, 109]
def kwEndobj : Bytes := [101, 110, 100, 111, 98, 106]
def kwObj : Bytes := [111, 98, 106]
def kwLength : Bytes := [76, 101, 110, 103, 116, 104]

def isEolByte (c : Nat) : Bool := c == 10 || c == 13

/-- `Find(endstreamPat)`: offset of the first `[\r\n]endstream` in the input -/
def findEolEndstream : Bytes → Option Nat
  | [] => none
  | c :: cs =>
    if isEolByte c && isPrefixOf kwEndstream cs then some 0
    else match findEolEndstream cs with
      | some i => some (i + 1)
      | none => none

/-- the white-space loop of `endstreamAt` (class `space` only, comments are not skipped) -/
def skipSpaces : Bytes → Bytes
  | [] => []
  | c :: cs => if isSpace c then skipSpaces cs else c :: cs

/-- `endstreamAt(r, pos)` -/
def endstreamAt (file : Bytes) (pos : Nat) : Bool :=
  isPrefixOf kwEndstream (skipSpaces (file.drop pos))

/-- `trimTrailingEOL` applied to the candidate body `data = file[start, start+length)`:
    the new length -/
def trimTrailingEOL (data : Bytes) : Nat :=
  match data.reverse with
  | 10 :: 13 :: _ => data.length - 2
  | 10 :: _ => data.length - 1
  | 13 :: _ => data.length - 1
  | _ => data.length

/-- extent of a stream: data is `file[start, start+len)`, the scanner continues at `after` -/
structure StreamExt where
  start : Nat
  len : Nat
  after : Nat
  deriving Repr, DecidableEq

/-- `declared <= math.MaxInt64-start` (bfd427f): a length whose end does not fit an `int64` is a
    broken length, not an offset to probe -/
def lengthFits (start d : Nat) : Bool := decide (start + d ≤ 9223372036854775807)

/-- the recovery path of `ReadStreamData` (missing or unusable `/Length`), the data starting at
    `start`: the extent ends at the FIRST EOL byte that is followed by `endstream`
    (`Find(endstreamPat)`; known finding `scan-stream-broken-by-endstream-line-in-data`: a line of
    the data that starts with `endstream` ends the extent).  The range handed to
    `trimTrailingEOL` includes the matched EOL byte (f33cd07, D-C20-1), so that exactly one EOL
    marker — LF, CR or CR LF — is taken off and an EOL which ends the data itself is kept. -/
def recoverExtent (file : Bytes) (start : Nat) (limit : Option Nat := none) : Except Err StreamExt :=
  match findEolEndstream (file.drop start) with
  | none => .error .malformed     -- io.EOF from Find, turned into "unexpected EOF while reading Stream"
  | some i =>
    -- 1430e5c (D121): `scanner.findLimit` — the sequential scan sets it to the start of the next
    -- located object; a match at or behind it is `io.EOF` (so is the end of a window at or behind
    -- it: everything in front of the limit has been searched then)
    if (match limit with | some l => decide (start + i ≥ l) | none => false) then .error .malformed else
    let l := trimTrailingEOL ((file.drop start).take (i + 1))
    .ok { start := start, len := l, after := start + i + 10 }

/-- `ReadStreamData` with the scanner at absolute position `pos` (at the keyword `stream`);
    `declared` is the usable value of `/Length` (`getInt` succeeded and gave `n ≥ 0`).
    Errors are those after the deferred handler (EOF has become `malformed`). -/
def readStreamData (file : Bytes) (pos : Nat) (declared : Option Nat) (limit : Option Nat := none) :
    Except Err StreamExt :=
  let inp := file.drop pos
  if !startsWith inp kw_stream then .error .malformed else
  let eolLen : Option Nat := match inp.drop 6 with
    | 10 :: _ => some 1
    | 13 :: 10 :: _ => some 2
    | 13 :: _ => some 1
    | _ => none
  match eolLen with
  | none => .error .malformed
  | some k =>
    let start := pos + 6 + k
    match declared with
    | none => recoverExtent file start limit
    | some d =>
      if lengthFits start d && endstreamAt file (start + d) then
        -- Discard(l); SkipWhiteSpace; SkipString("endstream")
        match skipWS (file.drop (start + d)) with
        | (_, true) => .error .malformed
        | (r, false) =>
          if startsWith r kwEndstream then .ok { start := start, len := d, after := file.length - r.length + 9 }
          else .error .malformed
      else recoverExtent file start limit

/-- what `ReadObject`/`ReadIndirectObject` return: a direct object or a stream -/
inductive Val where
  | obj (o : Obj)
  | stream (dict : List (Bytes × Obj)) (start len : Nat)
  deriving Repr, Inhabited

def dictLookup (k : Bytes) : List (Bytes × Obj) → Option Obj
  | [] => none
  | (k', v) :: rest => if k' == k then some v else dictLookup k rest

def dictErase (k : Bytes) : List (Bytes × Obj) → List (Bytes × Obj)
  | [] => []
  | (k', v) :: rest => if k' == k then dictErase k rest else (k', v) :: dictErase k rest

/-- fuel for the recursive object readers of `Model/Scan.lean`: a level of nesting costs three
    calls and at least one byte -/
def objFuel (inp : Bytes) : Nat := 3 * inp.length + 8

/-- the value of `/Length` as `ReadStreamData` sees it (library HEAD e76f630): `.ok none` = unknown
    (no entry, a negative value, or `getInt` failed with a malformed-file error or ran into the
    end of the data — `io.EOF`/`io.ErrUnexpectedEOF`, e.g. a `/Length` object cut off by a
    truncation: the extent is recovered by searching), `.ok (some n)`, or — when `getInt` fails with
    any other read error — that error (wrapped, it stays what it is). -/
def declaredOf (getInt : Obj → Except Err Int) (d : List (Bytes × Obj)) : Except Err (Option Nat) :=
  match dictLookup kwLength d with
  | none => .ok none
  | some o =>
    match getInt o with
    | .ok n => .ok (if n ≥ 0 then some n.toNat else none)
    | .error .malformed => .ok none
    | .error .eof => .ok none
    | .error _ => .error .other

/-- `ReadObject` on a scanner with a `fileReader`, at absolute position `pos`.  `getInt` is the
    scanner's `getInt`; `scalarOnly` refuses composites.
    Returns the value and the absolute position after it. -/
def readObjectTop (file : Bytes) (pos : Nat) (getInt : Obj → Except Err Int) (scalarOnly : Bool)
    (limit : Option Nat := none) : Except Err (Val × Nat) :=
  let inp := file.drop pos
  match inp with
  | 60 :: 60 :: _ =>
    if scalarOnly then .error .malformed else
    match readDict (objFuel inp) 0 inp with
    | .error e => .error e
    | .ok (d, r) =>
      let (r', _) := skipWS r
      let p := file.length - r'.length
      if startsWith r' kw_stream then
        match declaredOf getInt d with
        | .error e => .error e
        | .ok declared =>
          match readStreamData file p declared limit with
          | .error e => .error e
          | .ok ext => .ok (.stream (dictErase kwLength d) ext.start ext.len, ext.after)
      else .ok (.obj (.dict d), p)
  | 91 :: _ =>
    if scalarOnly then .error .malformed else
    match readObject (objFuel inp) 0 inp with
    | .error e => .error e
    | .ok (o, r) => .ok (.obj o, file.length - r.length)
  | _ =>
    match readObject (objFuel inp) 0 inp with
    | .error e => .error e
    | .ok (o, r) => .ok (.obj o, file.length - r.length)

/-- `ReadInteger` as used at the top level: white space running into the end of the input is
    the bare `io.EOF` of `SkipWhiteSpace` -/
def readInt (inp : Bytes) : Except Err (Int × Bytes) :=
  match skipWS inp with
  | (_, true) => .error .eof
  | (inp, false) =>
    let (tok, rest) := scanNumTok false false true inp
    if tok.length > Gen.his_scanner_maxNameBytes then .error .malformed else
    match parseInt64 tok with
    | some i => .ok (i, rest)
    | none => .error .malformed

/-- result of `ReadIndirectObject` -/
structure Indirect where
  val : Val
  num : Nat
  gen : Nat
  endPos : Nat
  deriving Repr, Inhabited

/-- `ReadIndirectObject` on a scanner positioned at absolute `pos` -/
def readIndirect (file : Bytes) (pos : Nat) (getInt : Obj → Except Err Int) (scalarOnly : Bool)
    (limit : Option Nat := none) : Except Err Indirect :=
  match readInt (file.drop pos) with
  | .error e => .error e
  | .ok (number, r) =>
  match readInt r with
  | .error e => .error e
  | .ok (generation, r) =>
  match skipWS r with
  | (_, true) => .error .eof
  | (r, false) =>
  if !startsWith r kwObj then .error .malformed else
  match skipWS (r.drop 3) with
  | (_, true) => .error .eof
  | (r, false) =>
  if number < 0 || number ≥ Gen.his_xref_maxXRefSize || generation < 0 || generation > Gen.his_xref_maxGeneration then
    .error .malformed
  else
  match readObjectTop file (file.length - r.length) getInt scalarOnly limit with
  | .error e => .error e
  | .ok (v, p) =>
  match skipWS (file.drop p) with
  | (_, true) => .error .eof
  | (r, false) =>
  let finish (v : Val) (r : Bytes) : Except Err Indirect :=
    if startsWith r kwEndobj then
      .ok { val := v, num := number.toNat, gen := generation.toNat, endPos := file.length - r.length + 6 }
    else .error .malformed
  match v with
  | .obj (.int a) =>
    if startsWith r kwEndobj then finish v r else
    match readInt r with
    | .error e => .error e
    | .ok (b, r) =>
    match skipWS r with
    | (_, true) => .error .eof
    | (r, false) =>
    match r with
    | 82 :: r =>
      (match skipWS r with
       | (_, true) => .error .eof
       | (r, false) =>
         if a < 0 || a ≥ Gen.his_xref_maxXRefSize || b < 0 || b > Gen.his_xref_maxGeneration then .error .malformed
         else finish (.obj (.ref a.toNat b.toNat)) r)
    | _ => .error .malformed
  | _ => finish v r

end PdfVerif.HIS

import PdfVerif.Basic
/-!
Go maps as the C14 models see them: an association list in which every key occurs at most
once.  `insert` overwrites (Go: `m[k] = v`), `size` is `len(m)`, `get` is the comma-ok lookup.
Core Lean only.
-/
namespace PdfVerif.FNT

abbrev Map (α β : Type) := List (α × β)

namespace Map
variable {α β : Type} [DecidableEq α]

def get : Map α β → α → Option β
  | [], _ => none
  | (k', v) :: r, k => if k' = k then some v else get r k

def erase (m : Map α β) (k : α) : Map α β := m.filter (fun p => !decide (p.1 = k))

/-- Go `m[k] = v` -/
def insert (m : Map α β) (k : α) (v : β) : Map α β := (k, v) :: erase m k

/-- Go `len(m)` -/
def size (m : Map α β) : Nat := m.length

def contains (m : Map α β) (k : α) : Bool := (get m k).isSome

def keys (m : Map α β) : List α := m.map (·.1)

end Map
end PdfVerif.FNT

import PdfVerif.Model.FNTSimple
import PdfVerif.Model.FNTCodec
/-!
# Models of `font/encoding/cidenc/{utf8,fixed,identity}.go`

`Utf8Enc` — `compositeUTF8`: a code is the UTF-8 encoding of the text's single NFC rune if that
code is free, otherwise the next free private-use code point (`nextPrivate`, three areas).
`FixedEnc` — `fixed` (`NewFromCMap`, `NewCompositeIdentity`): the code of a CID is given by the
CMap; the encoder only records width per CID and text per code.

`norm.NFC` (golang.org/x/text) is external: the operation carries `single`, the single rune of
`NFC(text)` if there is exactly one.  `rune` is `int32` in Go; the model uses `Nat` (no
wrap-around: reaching 2³¹ needs 2³¹ iterations of the private-use loop).
-/
namespace PdfVerif.FNT

/-- `[]byte(string(rune(r)))`: UTF-8, surrogates and values above U+10FFFF become U+FFFD -/
def utf8Bytes (r : Nat) : Bytes :=
  if r < 0x80 then [r]
  else if r < 0x800 then [0xC0 + r / 64, 0x80 + r % 64]
  else if 0xD800 ≤ r && r ≤ 0xDFFF then [0xEF, 0xBF, 0xBD]
  else if r < 0x10000 then [0xE0 + r / 4096, 0x80 + r / 64 % 64, 0x80 + r % 64]
  else if r < 0x110000 then [0xF0 + r / 262144, 0x80 + r / 4096 % 64, 0x80 + r / 64 % 64, 0x80 + r % 64]
  else [0xEF, 0xBF, 0xBD]

/-- `runeToCode` -/
def runeToCode (r : Nat) : Nat := packLE (utf8Bytes r)

structure CInfo where
  cid : Nat
  width : Int
  text : Bytes
  deriving DecidableEq, Repr, Inhabited

structure Utf8Enc where
  info : Map Nat CInfo := []
  code : Map Key Nat := []
  cid0Width : Int := 0
  nextPrivate : Nat := K.privStart
  deriving Repr, Inhabited

inductive MkRes where
  | ok (c : Nat)
  | overflow
  | nofuel
  deriving DecidableEq, Repr

/-- the `for { … }` loop of `makeCode`: (result, new nextPrivate) -/
def privLoop (info : Map Nat CInfo) : Nat → Nat → MkRes × Nat
  | 0, next => (.nofuel, next)
  | fuel + 1, next =>
    let r := next
    let n1 := next + 1
    if n1 == K.privEnd3 then (.overflow, n1)
    else
      let n2 := if n1 == K.privEnd1 then K.privStart2 else if n1 == K.privEnd2 then K.privStart3 else n1
      let code := runeToCode r
      if info.contains code then privLoop info fuel n2 else (.ok code, n2)

def privFuel : Nat := 0x120000

/-- `makeCode` -/
def Utf8Enc.makeCode (e : Utf8Enc) (single : Option Nat) : MkRes × Nat :=
  let direct : Option Nat :=
    match single with
    | some r => let c := runeToCode r; if e.info.contains c then none else some c
    | none => none
  match direct with
  | some c => (.ok c, e.nextPrivate)
  | none => privLoop e.info privFuel e.nextPrivate

inductive CidRes where
  | ok (c : Nat)
  | dup
  | overflow
  | notInCMap
  | widthDiffers
  | textDiffers
  | nofuel
  deriving DecidableEq, Repr

/-- `(*compositeUTF8).Encode` -/
def Utf8Enc.encode (e : Utf8Enc) (cid : Nat) (text : Bytes) (width : Int) (single : Option Nat) :
    Utf8Enc × CidRes :=
  if (e.code.get (cid, text)).isSome then (e, .dup)
  else
    match e.makeCode single with
    | (.ok c, next) =>
      ({ e with info := e.info.insert c ⟨cid, width, text⟩
                code := e.code.insert (cid, text) c
                nextPrivate := next }, .ok c)
    | (.overflow, next) => ({ e with nextPrivate := next }, .overflow)
    | (.nofuel, next) => ({ e with nextPrivate := next }, .nofuel)

def Utf8Enc.getCode (e : Utf8Enc) (cid : Nat) (text : Bytes) : Option Nat := e.code.get (cid, text)

/-- one step of `Codes`: the decoded entry and the number of bytes consumed -/
def Utf8Enc.codeStep (e : Utf8Enc) (s : Bytes) : CodeOut × Nat :=
  let (c, k, valid) := decode csrUTF8 s
  let ws := k == 1 && c == K.spaceCode
  if valid then
    match e.info.get c with
    | some i => (⟨i.cid, i.width, i.text, ws⟩, k)
    | none => (⟨0, e.cid0Width, [], ws⟩, k)
  else (⟨0, e.cid0Width, [], ws⟩, k)

/-- `(*compositeUTF8).Codes` -/
def Utf8Enc.codesAux (e : Utf8Enc) : Nat → Bytes → List CodeOut
  | 0, _ => []
  | _ + 1, [] => []
  | fuel + 1, s@(_ :: _) =>
    let (o, k) := e.codeStep s
    o :: codesAux e fuel (s.drop k)

def Utf8Enc.codes (e : Utf8Enc) (s : Bytes) : List CodeOut := e.codesAux s.length s

def Utf8Enc.width (e : Utf8Enc) (c : Nat) : Int :=
  match e.info.get c with
  | some i => i.width
  | none => e.cid0Width

/-! ### fixed CMap encoder -/

structure FixedEnc where
  all : Nat → Option Nat      -- CID ↦ code   (Go map `all`)
  rev : Nat → Option Nat      -- code ↦ CID   (Go map `rev`)
  csr : CSR
  text : Map Nat Bytes := []
  width : Map Nat Int := []

/-- `NewFromCMap` for a CMap given by its (code, CID) pairs in the order of `cmap.All` -/
def FixedEnc.ofPairs (csr : CSR) (pairs : List (Nat × Nat)) (cid0Width : Int) : FixedEnc :=
  { all := fun cid => (pairs.reverse.find? (fun p => p.2 == cid)).map (·.1)
    rev := fun code => (pairs.reverse.find? (fun p => p.1 == code)).map (·.2)
    csr := csr
    width := [(0, cid0Width)] }

/-- the two-byte code of a CID under Identity-H/V, packed little-endian -/
def identityCode (cid : Nat) : Nat := cid / 256 + 256 * (cid % 256)

/-- `NewCompositeIdentity` -/
def FixedEnc.identity (cid0Width : Int) : FixedEnc :=
  { all := fun cid => if cid < 65536 then some (identityCode cid) else none
    rev := fun code => if code < 65536 then some (identityCode code) else none
    csr := csrUCS2
    width := [(0, cid0Width)] }

/-- second half of `(*fixed).Encode`: compare or store the text of the code -/
def FixedEnc.setText (f : FixedEnc) (code : Nat) (text : Bytes) : FixedEnc × CidRes :=
  match f.text.get code with
  | some t0 => if t0 != text then (f, .textDiffers) else (f, .ok code)
  | none => ({ f with text := f.text.insert code text }, .ok code)

/-- `(*fixed).Encode`: the width is compared or stored first (and stays stored when the text
    comparison then fails) -/
def FixedEnc.encode (f : FixedEnc) (cid : Nat) (text : Bytes) (width : Int) : FixedEnc × CidRes :=
  match f.all cid with
  | none => (f, .notInCMap)
  | some code =>
    match f.width.get cid with
    | some w0 => if w0 != width then (f, .widthDiffers) else f.setText code text
    | none => ({ f with width := f.width.insert cid width }).setText code text

/-- `(*fixed).GetCode`: the text argument is not looked at; a CID without a code in the CMap
    (possible for CID 0, whose width is preset) is unmapped (fix 6288f11), and so is a CID for
    whose code no text has been recorded yet (D-C14-7: the preset width of CID 0 does not mean
    that CID 0 has been encoded; the caller must go through `Encode`, which stores the text) -/
def FixedEnc.getCode (f : FixedEnc) (cid : Nat) (_text : Bytes) : Option Nat :=
  match f.width.get cid with
  | none => none
  | some _ =>
    match f.all cid with
    | none => none
    | some c => if (f.text.get c).isSome then some c else none

def FixedEnc.codeStep (f : FixedEnc) (s : Bytes) : CodeOut × Nat :=
  let (c, k, valid) := decode f.csr s
  if valid then
    let cid := match f.rev c with | some x => x | none => 0
    let w := match f.width.get cid with | some w => w | none => 0
    let t := match f.text.get c with | some t => t | none => []
    (⟨cid, w, t, k == 1 && c == K.spaceCode⟩, k)
  else
    -- `k = 1; c = 0`
    let w := match f.width.get 0 with | some w => w | none => 0
    let t := match f.text.get 0 with | some t => t | none => []
    (⟨0, w, t, false⟩, 1)

def FixedEnc.codesAux (f : FixedEnc) : Nat → Bytes → List CodeOut
  | 0, _ => []
  | _ + 1, [] => []
  | fuel + 1, s@(_ :: _) =>
    let (o, k) := f.codeStep s
    o :: codesAux f fuel (s.drop k)

def FixedEnc.codes (f : FixedEnc) (s : Bytes) : List CodeOut := f.codesAux s.length s

end PdfVerif.FNT

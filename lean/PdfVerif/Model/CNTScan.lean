import PdfVerif.Model.Scan
import PdfVerif.Generated.FactsCNT
/-!
Model of the content-stream scanner `graphics/content/stream.go` on the *whole remaining
input* (the 512-byte buffer with `refill` is not modelled; the harness feeds inputs longer than
the buffer and token positions straddling its edge):

`SkipWhiteSpace`, `skipWhiteSpaceExceptComments`, `ReadComment`, `ReadName`/`tryHex`,
`ReadString`, `ReadHexString`, `ScanToken`, `parseNumber`, `Scan` with its explicit composite
stack, `readValueDepth`/`readDictBody`, `readInlineImage`, `checkEI` and the resynchronising
loop `pumpScanner`.

A reader takes the remaining input and returns a value and the new remaining input (`Res.ok`),
the end of the input (`Res.eof`, Go: the sticky `io.EOF`), or a scanner-level `parseError`
together with the position where scanning resumes (`Res.perr`).  `Res.fuel` is the exhaustion
of the recursion fuel of the model (never produced for the fuel the entry points supply).

The character class table is the package's own copy (`Gen.content_class`); `Props/C15cnt` proves
that it equals the table of `scanner.go`.
-/
namespace PdfVerif.CNT
open PdfVerif

inductive Res (α : Type) where
  | ok (a : α) (rest : Bytes)
  | eof
  | perr (rest : Bytes)
  | fuel
  deriving Repr

def Res.map {α β : Type} (f : α → β) : Res α → Res β
  | .ok a r => .ok (f a) r
  | .eof => .eof
  | .perr r => .perr r
  | .fuel => .fuel

@[simp] theorem Res.map_ok {α β : Type} (f : α → β) (a : α) (r : Bytes) : (Res.ok a r).map f = .ok (f a) r := rfl
@[simp] theorem Res.map_eof {α β : Type} (f : α → β) : (Res.eof : Res α).map f = .eof := rfl
@[simp] theorem Res.map_perr {α β : Type} (f : α → β) (r : Bytes) : (Res.perr r : Res α).map f = .perr r := rfl
@[simp] theorem Res.map_fuel {α β : Type} (f : α → β) : (Res.fuel : Res α).map f = .fuel := rfl

/-- prepend a byte to a successfully read byte string -/
def consB (x : Nat) (r : Res Bytes) : Res Bytes := r.map (x :: ·)

@[simp] theorem consB_ok (x : Nat) (s r : Bytes) : consB x (.ok s r) = .ok (x :: s) r := rfl

/-! ### character classes (`class`, the content package's own table) -/

def cclass (c : Nat) : Nat := Gen.content_class.getD c 0
def cReg (c : Nat) : Bool := cclass c == Gen.content_regular
def cSpace (c : Nat) : Bool := cclass c == Gen.content_space

mutual
/-- `SkipWhiteSpace`: white space and comments; `[]` = end of input reached (Go: `io.EOF`) -/
def skipWS : Bytes → Bytes
  | [] => []
  | c :: cs => if cSpace c then skipWS cs else if c == 37 then skipCmt cs else c :: cs
/-- `SkipToEOL` followed by the continuation of the `SkipWhiteSpace` loop -/
def skipCmt : Bytes → Bytes
  | [] => []
  | c :: cs => if c == 10 || c == 13 then (if cSpace c then skipWS cs else c :: cs) else skipCmt cs
end

/-- `skipWhiteSpaceExceptComments` -/
def skipSp : Bytes → Bytes
  | [] => []
  | c :: cs => if cSpace c then skipSp cs else c :: cs

/-- the bytes up to (not including) the next CR or LF, and the rest (`ReadComment`, uncapped) -/
def spanCmt : Bytes → Bytes × Bytes
  | [] => ([], [])
  | c :: cs => if c == 10 || c == 13 then ([], c :: cs) else
      let (a, r) := spanCmt cs; (c :: a, r)

/-- the maximal run of regular bytes and the rest -/
def spanReg : Bytes → Bytes × Bytes
  | [] => ([], [])
  | c :: cs => if cReg c then let (a, r) := spanReg cs; (c :: a, r) else ([], c :: cs)

/-- `tryHex` seen from the byte after `#`: the value of the two hex digits, if both are there -/
def hex2 : Bytes → Option Nat
  | h :: l :: _ =>
    match hexVal h, hexVal l with
    | some a, some b => some (a * 16 + b)
    | _, _ => none
  | _ => none

/-- `ReadName` after the slash, without the length cap: decoded name and rest.
    `#` followed by two hex digits (`tryHex`: all three bytes must be available) is decoded,
    any other `#` is literal.  `skip` = bytes already consumed by `tryHex`. -/
def nameBodyS : (skip : Nat) → Bytes → Bytes × Bytes
  | _, [] => ([], [])
  | skip+1, _ :: rest => nameBodyS skip rest
  | 0, c :: rest =>
    if !cReg c then ([], c :: rest)
    else if c == 35 then
      match hex2 rest with
      | some v => let (n, r) := nameBodyS 2 rest; (v :: n, r)
      | none => let (n, r) := nameBodyS 0 rest; (35 :: n, r)
    else let (n, r) := nameBodyS 0 rest; (c :: n, r)

def nameBody (inp : Bytes) : Bytes × Bytes := nameBodyS 0 inp

/-- `ReadString` after the opening parenthesis.  `level` = `bracketLevel`, `len` = bytes of
    the result so far.  Unescaped CR and CR LF are normalised to LF. -/
def readStr : (level : Nat) → (ignoreLF : Bool) → (len : Nat) → Bytes → Res Bytes
  | _, _, len, [] => if len ≥ Gen.content_maxStringBytes then .perr [] else .eof
  | level, ign, len, b :: rest =>
    if len ≥ Gen.content_maxStringBytes then .perr (b :: rest)
    else if ign && b == 10 then readStr level false len rest
    else if b == 40 then consB b (readStr (level + 1) false (len + 1) rest)
    else if b == 41 then
      if level == 1 then .ok [] rest else consB b (readStr (level - 1) false (len + 1) rest)
    else if b == 92 then
      match rest with
      | [] => .eof
      | e :: rest' =>
        if e == 110 then consB 10 (readStr level false (len + 1) rest')
        else if e == 114 then consB 13 (readStr level false (len + 1) rest')
        else if e == 116 then consB 9 (readStr level false (len + 1) rest')
        else if e == 98 then consB 8 (readStr level false (len + 1) rest')
        else if e == 102 then consB 12 (readStr level false (len + 1) rest')
        else if e == 10 then readStr level false len rest'
        else if e == 13 then readStr level true len rest'
        else if isOct e then
          match rest' with
          | [] => consB (e - 48) (readStr level false (len + 1) [])
          | d2 :: r2 =>
            if isOct d2 then
              match r2 with
              | [] => consB ((e - 48) * 8 + (d2 - 48)) (readStr level false (len + 1) [])
              | d3 :: r3 =>
                if isOct d3 then
                  consB ((((e - 48) * 8 + (d2 - 48)) * 8 + (d3 - 48)) % 256) (readStr level false (len + 1) r3)
                else consB ((e - 48) * 8 + (d2 - 48)) (readStr level false (len + 1) (d3 :: r3))
            else consB (e - 48) (readStr level false (len + 1) (d2 :: r2))
        else consB e (readStr level false (len + 1) rest')
    else if b == 13 then consB 10 (readStr level true (len + 1) rest)
    else consB b (readStr level false (len + 1) rest)

/-- `ReadHexString` after `<` -/
def readHex : (hi : Option Nat) → (len : Nat) → Bytes → Res Bytes
  | _, _, [] => .eof
  | hi, len, b :: rest =>
    if b == 62 then
      match hi with
      | some h => .ok [h * 16] rest
      | none => .ok [] rest
    else if cSpace b then readHex hi len rest
    else match hexVal b with
      | none => .perr rest
      | some lo =>
        match hi with
        | none => readHex (some lo) len rest
        | some h =>
          if len ≥ Gen.content_maxStringBytes then .perr rest
          else consB (h * 16 + lo) (readHex none (len + 1) rest)

/-! ### `parseNumber` -/

/-- `strconv.ParseFloat` overflows to ±Inf (and reports a range error) exactly when the
    integer part is at least 2^1024 − 2^970 (IEEE 754 binary64, round to nearest even) -/
def floatOverflows (intDigits : Bytes) : Bool := digitsVal intDigits 0 ≥ 2 ^ 1024 - 2 ^ 970

/-- the token without its sign -/
def numBody (tok : Bytes) : Bytes :=
  match tok with
  | c :: r => if c == 43 || c == 45 then r else tok
  | [] => []

/-- `strconv.ParseFloat` on a token of sign, digits and dots: succeeds iff there is a digit, at
    most one dot, and the value is finite -/
def asFloat (tok body : Bytes) : Option Obj :=
  if body.any isDigit && (body.filter (· == 46)).length ≤ 1 && !floatOverflows (body.takeWhile isDigit) then
    some (.real tok)
  else none

/-- `parseNumber`: `none` = not a number (the token is then a keyword or an operator) -/
def parseNumber (tok : Bytes) : Option Obj :=
  let body := numBody tok
  if !(body.all fun c => c == 46 || isDigit c) then none
  else if (body.filter (· == 46)).length == 0 then
    match parseInt64 tok with
    | some i => some (.int i)
    | none => asFloat tok body
  else asFloat tok body

def isNumStart (c : Nat) : Bool := isDigit c || c == 46 || c == 45 || c == 43

/-- what `ScanToken` makes of a token of the default branch -/
def classify (tok : Bytes) : Obj :=
  let num := match tok with
    | c :: _ => if isNumStart c then parseNumber tok else none
    | [] => none
  match num with
  | some o => o
  | none =>
    if tok == kw_false then .bool false
    else if tok == kw_true then .bool true
    else if tok == kw_null then .null
    else .op tok   -- `operatorTable` maps every key to itself (`Props/C15cnt.operatorTable_id`)

/-- `ScanToken`.  Operators, `<<`, `>>` and single delimiter bytes are returned as `.op`,
    the `null` keyword as `.null`. -/
def scanToken (inp : Bytes) : Res Obj :=
  match skipWS inp with
  | [] => .eof
  | c :: r =>
    if c == 47 then
      let (n, rest) := nameBody r
      if n.length > Gen.content_maxNameBytes then .perr rest else .ok (.name n) rest
    else if c == 40 then (readStr 1 false 0 r).map .str
    else if c == 60 then
      match r with
      | d :: r' => if d == 60 then .ok (.op [60, 60]) r' else (readHex none 0 r).map .str
      | [] => (readHex none 0 r).map .str
    else if c == 62 && r.head? == some 62 then .ok (.op [62, 62]) r.tail
    else if cReg c then
      let (run, rest) := spanReg r
      if run.length + 1 > Gen.content_maxNameBytes then .perr rest else .ok (classify (c :: run)) rest
    else .ok (classify [c]) r

/-! ### `Scan`: the composite stack machine -/

structure Frame where
  isDict : Bool
  data : List Obj
  deriving Repr

/-- the dictionary built at `>>`: pairs whose key is not a name or whose value is `null` are
    skipped, later entries overwrite earlier ones -/
def mkDict : List Obj → List (Bytes × Obj) → List (Bytes × Obj)
  | k :: v :: rest, acc =>
    match k, v with
    | .name _, .null => mkDict rest acc
    | .name n, v => mkDict rest (dictInsert n v acc)
    | _, _ => mkDict rest acc
  | _, acc => acc

inductive Step where
  | cont (stk : List Frame) (args : List Obj)
  | emit (name : Bytes) (args : List Obj)
  | image
  | perr
  deriving Repr

/-- hand a completed object (or an operator token) to the innermost open composite, or to the
    argument list / the caller -/
def deliver (stk : List Frame) (args : List Obj) (o : Obj) : Step :=
  match stk with
  | top :: below =>
    let limit := if top.isDict then 2 * Gen.content_maxDictLen else Gen.content_maxArrayLen
    if top.data.length ≥ limit then .perr
    else .cont ({ top with data := top.data ++ [o] } :: below) args
  | [] =>
    match o with
    | .op name =>
      if args.length ≥ Gen.content_maxOperatorArgs then .cont [] []
      else if name == Gen.content_opBeginInlineImage then .image
      else .emit name args
    | o => .cont [] (if args.length < Gen.content_maxOperatorArgs then args ++ [o] else args)

/-- one iteration of the token loop of `Scan` -/
def step (stk : List Frame) (args : List Obj) (tok : Obj) : Step :=
  match tok with
  | .op name =>
    if name == [60, 60] then
      if stk.length ≥ Gen.content_maxContentNestDepth then .perr
      else .cont ({ isDict := true, data := [] } :: stk) args
    else if name == [62, 62] then
      match stk with
      | top :: below =>
        if !top.isDict then .cont stk args
        else if top.data.length % 2 != 0 then .cont below args
        else deliver below args (.dict (mkDict top.data []))
      | [] => .cont stk args
    else if name == [91] then
      if stk.length ≥ Gen.content_maxContentNestDepth then .perr
      else .cont ({ isDict := false, data := [] } :: stk) args
    else if name == [93] then
      match stk with
      | top :: below =>
        if top.isDict then .cont stk args
        else deliver below args (.arr top.data)
      | [] => .cont stk args
    else deliver stk args tok
  | tok => deliver stk args tok

/-! ### inline images -/

mutual
/-- `readValueDepth` -/
def readValue : Nat → (depth : Nat) → Bytes → Res Obj
  | 0, _, _ => .fuel
  | f+1, depth, inp =>
    match scanToken inp with
    | .ok (.op o) rest =>
      if o == [91] then
        if depth ≥ Gen.content_maxValueDepth then .perr rest else readArr f (depth + 1) [] rest
      else if o == [60, 60] then
        if depth ≥ Gen.content_maxValueDepth then .perr rest
        else (readDictBody f [62, 62] (depth + 1) [] rest).map .dict
      else .ok (.op o) rest
    | r => r
/-- the array loop of `readValueDepth`; `depth` is the depth of the elements
    (`arr := pdf.Array{}`: an empty array is an array, not the nil slice) -/
def readArr : Nat → (depth : Nat) → List Obj → Bytes → Res Obj
  | 0, _, _, _ => .fuel
  | f+1, depth, acc, inp =>
    match skipWS inp with
    | [] => .eof
    | c :: r =>
      if c == 93 then .ok (.arr acc) r
      else if acc.length ≥ Gen.content_maxArrayLen then .perr (c :: r)
      else match readValue f depth (c :: r) with
        | .ok e rest => readArr f depth (acc ++ [e]) rest
        | .eof => .eof
        | .perr r => .perr r
        | .fuel => .fuel
/-- `readDictBody` -/
def readDictBody : Nat → (term : Bytes) → (valueDepth : Nat) → List (Bytes × Obj) → Bytes → Res (List (Bytes × Obj))
  | 0, _, _, _, _ => .fuel
  | f+1, term, vd, acc, inp =>
    match skipWS inp with
    | [] => .eof
    | c :: r =>
      if isPrefixOf term (c :: r) then .ok acc ((c :: r).drop term.length)
      else match readValue f vd (c :: r) with
        | .ok (.name key) rest =>
          (match readValue f vd rest with
           | .ok .null rest' => readDictBody f term vd acc rest'
           | .ok val rest' =>
             if !(acc.any fun e => e.1 == key) && acc.length ≥ Gen.content_maxDictLen then .perr rest'
             else readDictBody f term vd (dictInsert key val acc) rest'
           | .eof => .eof
           | .perr r => .perr r
           | .fuel => .fuel)
        | .ok _ rest => .perr rest
        | .eof => .eof
        | .perr r => .perr r
        | .fuel => .fuel
end

def dictGet (kv : List (Bytes × Obj)) (k : Bytes) : Option Obj :=
  match kv.find? (fun e => e.1 == k) with
  | some e => some e.2
  | none => none

/-- Go's `int(float64)` on amd64 for the value of a real token: truncation toward zero,
    `math.MinInt64` when out of range.  Exact for tokens produced by `strconv.FormatFloat`. -/
def realToInt (tok : Bytes) : Int :=
  let (neg, body) := match tok with
    | 45 :: r => (true, r)
    | 43 :: r => (false, r)
    | r => (false, r)
  let v : Nat := digitsVal (body.takeWhile isDigit) 0
  if v ≥ 2 ^ 63 then -(2 ^ 63 : Int) else if neg then -(v : Int) else (v : Int)

/-- `getInlineImageInt` -/
def iiInt (kv : List (Bytes × Obj)) (short full : Bytes) : Int :=
  let val := match dictGet kv short with
    | some v => some v
    | none => dictGet kv full
  match val with
  | some (.int i) => i
  | some (.real t) => realToInt t
  | _ => -1

def nmF : Bytes := [70]
def nmFilter : Bytes := [70, 105, 108, 116, 101, 114]
def nmW : Bytes := [87]
def nmWidth : Bytes := [87, 105, 100, 116, 104]
def nmH : Bytes := [72]
def nmHeight : Bytes := [72, 101, 105, 103, 104, 116]
def nmL : Bytes := [76]
def nmLength : Bytes := [76, 101, 110, 103, 116, 104]
def kwID : Bytes := [73, 68]
def kwEI : Bytes := [69, 73]

/-- `getInlineImageFilter` -/
def iiFilter (kv : List (Bytes × Obj)) : Bytes :=
  let val := match dictGet kv nmF with
    | some v => some v
    | none => dictGet kv nmFilter
  match val with
  | some (.name n) => n
  | some (.arr xs) =>
    match xs.getLast? with
    | some (.name n) => n
    | _ => []
  | _ => []

def isASCIIFilter (n : Bytes) : Bool := Gen.content_cases_isASCIIFilter.contains n

/-- `checkEI`: the next bytes are `EI` followed by a non-regular byte or the end of input -/
def checkEI : Bytes → Bool
  | a :: b :: rest =>
    a == 69 && b == 73 &&
      (match rest with
       | [] => true
       | c :: _ => !cReg c)
  | _ => false

inductive IIRes where
  | found (data rest : Bytes)   -- `data` still includes the EOL before `EI`
  | eof
  | capped (rest : Bytes)
  deriving Repr

def IIRes.cons (b : Nat) : IIRes → IIRes
  | .found d r => .found (b :: d) r
  | r => r

/-- the search loop of `readInlineImage` (no `Length` key); `n` = bytes collected so far,
    including the end-of-line byte before `EI`.  The `EI` test comes first, the cap is tested
    afterwards and is `n > maxInlineImageBytes`: data of up to `maxInlineImageBytes` bytes is
    found, the limit of the `Length` branch (`noL_cap_eq_L_cap` in Props/C15cnti.lean; D-C15-2:
    the loop `for len(imageData) < maxInlineImageBytes` found at most `maxInlineImageBytes - 2`). -/
def iiLoop : (n : Nat) → (prev : Nat) → Bytes → IIRes
  | n, prev, [] =>
    if (prev == 13 || prev == 10) && checkEI [] then .found [] []
    else if n > Gen.content_maxInlineImageBytes then .capped []
    else .eof
  | n, prev, b :: r =>
    if (prev == 13 || prev == 10) && checkEI (b :: r) then .found [] (b :: r)
    else if n > Gen.content_maxInlineImageBytes then .capped (b :: r)
    else (iiLoop (n + 1) b r).cons b

/-- `SkipString("EI")` and the check of the following byte -/
def iiFinish (kv : List (Bytes × Obj)) (data : Bytes) (inp : Bytes) : Res (Bytes × List Obj) :=
  match inp with
  | 69 :: 73 :: rest =>
    (match rest with
     | c :: _ => if cReg c then .perr rest else .ok (Gen.content_OpInlineImage, [.dict kv, .str data]) rest
     | [] => .ok (Gen.content_OpInlineImage, [.dict kv, .str data]) rest)
  | [_] => .eof
  | [] => .eof
  | _ => .perr inp

/-- ASCII filter and no positive `Length`: white space and comments before the data are skipped -/
def skipsWS (kv : List (Bytes × Obj)) : Bool :=
  isASCIIFilter (iiFilter kv) && decide (iiInt kv nmL nmLength ≤ 0)

/-- the input after `ID`: one white-space byte is skipped, and for ASCII filters without a
    positive `Length` all further white space and comments (`SkipWhiteSpace`; with a `Length`
    the data starts right here, D-C15-9) -/
def afterID (kv : List (Bytes × Obj)) (rest : Bytes) : Bytes :=
  let rest := match rest with
    | c :: r => if cSpace c then r else c :: r
    | [] => []
  if skipsWS kv then skipWS rest else rest

/-- the data of an inline image and the `EI` behind it; `rest` = `afterID …` -/
def imageData (kv : List (Bytes × Obj)) (rest : Bytes) : Res (Bytes × List Obj) :=
  let length := iiInt kv nmL nmLength
  if skipsWS kv && rest.isEmpty then .eof
  else if length > 0 then
    if length > Gen.content_maxInlineImageBytes then .perr rest
    else if rest.length < length.toNat then .eof
    else
      match skipWS (rest.drop length.toNat) with
      | [] => .eof
      | r => iiFinish kv (rest.take length.toNat) r
  else
    match iiLoop 0 0 rest with
    | .eof => .eof
    | .capped r => .perr r
    | .found d r => iiFinish kv d.dropLast r

/-- `readInlineImage` (after the `BI` token) -/
def readInlineImage (inp : Bytes) : Res (Bytes × List Obj) :=
  match readDictBody (2 * inp.length + 2) kwID 0 [] inp with
  | .eof => .eof
  | .perr r => .perr r
  | .fuel => .fuel
  | .ok kv rest =>
    let width := iiInt kv nmW nmWidth
    let height := iiInt kv nmH nmHeight
    if width ≤ 0 || height ≤ 0 || width > Gen.content_maxInlineImageDim || height > Gen.content_maxInlineImageDim then .perr rest
    else if width * height > Gen.content_maxInlineImagePixels then .perr rest
    else imageData kv (afterID kv rest)

/-- the token loop of `Scan` -/
def scanLoop : Nat → List Frame → List Obj → Bytes → Res (Bytes × List Obj)
  | 0, _, _, _ => .fuel
  | f+1, stk, args, inp =>
    match scanToken inp with
    | .eof => .eof
    | .perr r => .perr r
    | .fuel => .fuel
    | .ok tok rest =>
      match step stk args tok with
      | .cont stk' args' => scanLoop f stk' args' rest
      | .emit name args' => .ok (name, args') rest
      | .image => readInlineImage rest
      | .perr => .perr rest

/-- `Scan` on a scanner whose composite stack is empty (which `pumpScanner` guarantees):
    a comment at the start is returned as the pseudo-operator `%raw%` -/
def scanOne (inp : Bytes) : Res (Bytes × List Obj) :=
  match skipSp inp with
  | [] => .eof
  | c :: r =>
    if c == 37 then
      let (cm, rest) := spanCmt (c :: r)
      if cm.length > Gen.content_maxNameBytes then .perr rest
      else .ok (Gen.content_OpRawContent, [.str cm]) rest
    else scanLoop ((c :: r).length + 1) [] [] (c :: r)

/-- `pumpScanner`: all operators of the stream; a `parseError` skips the offending token
    and rescans with an empty composite stack.  `none` = fuel of the model exhausted. -/
def scanAll : Nat → Bytes → Option (List (Bytes × List Obj))
  | 0, _ => none
  | f+1, inp =>
    match scanOne inp with
    | .ok op rest => (scanAll f rest).map (op :: ·)
    | .eof => some []
    | .perr rest => scanAll f rest
    | .fuel => none

/-- what `NewScanner(…).NewIter().All()` yields on an in-memory stream -/
def scan (inp : Bytes) : Option (List (Bytes × List Obj)) := scanAll (inp.length + 2) inp

end PdfVerif.CNT

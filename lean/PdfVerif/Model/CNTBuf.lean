import PdfVerif.Model.CNTScan
/-!
# The 512-byte buffer of the content scanner (`graphics/content/stream.go`)

`Model/CNTScan.lean` describes the scanner on the *whole remaining input*.  The real scanner
reads through a 512-byte window (`scannerIter.All`: `buf: make([]byte, 512)`) which `refill`
slides over an `io.Reader` with **one** `Read` call per refill, latching the reader's error in
`scanner.err`.  This file models exactly that for fault-free readers with arbitrary chunking:

* `srcRead` — one `Read(p)` of a fault-free reader over the unread bytes `rem`: it delivers
  between 1 and `len(p)` bytes (`chunk k` bytes for the `k`-th call, clipped), `(0, io.EOF)` when
  nothing is left, `(0, nil)` for an empty `p`; the chunk which exhausts the data may or may not
  come together with `io.EOF` (`eofWithData`, both are allowed by the `io.Reader` contract);
* `BS` — `scanner.{buf[0:used], pos, err}` and the reader's state;
* `refill`, `peek`, `peekN`, `readByte`, `skipN`, `skipWhiteSpace` (with `SkipToEOL`), `tryHex`,
  `checkEI` and the search loop of `readInlineImage` — line by line; loops carry fuel and report
  its exhaustion as `hang` (proved unreachable in `Props/C15cntu.lean`).

`Props/C15cntu.lean` proves that these buffered operations compute what the whole-input model
computes on `view s = buf[pos:] ++ rem` (refinement), for every chunking.
-/
namespace PdfVerif.CNTB
open PdfVerif PdfVerif.CNT

/-- `len(s.buf)` in `scannerIter.All` -/
def bufSize : Nat := 512

/-- chunking of a fault-free reader -/
structure Chunking where
  chunk : Nat → Nat          -- size offered by the `k`-th `Read` call (0 counts as 1)
  eofWithData : Bool         -- the last chunk is returned together with `io.EOF`

/-- one `Read(p)` with `len(p) = want`: data, whether `io.EOF` is returned, the unread rest -/
def srcRead (ch : Chunking) (calls : Nat) (rem : Bytes) (want : Nat) : Bytes × Bool × Bytes :=
  if rem.isEmpty then ([], true, [])
  else if want = 0 then ([], false, rem)
  else
    let n := min (max 1 (ch.chunk calls)) want
    (rem.take n, ch.eofWithData && (rem.drop n).isEmpty, rem.drop n)

/-- scanner state; `buf` is `s.buf[0:s.used]` -/
structure BS where
  buf : Bytes
  pos : Nat
  rem : Bytes        -- bytes the reader has not delivered yet
  calls : Nat        -- `Read` calls made so far
  eof : Bool         -- `s.err == io.EOF` (the only error of a fault-free reader)
  deriving Repr

def BS.init (data : Bytes) : BS := ⟨[], 0, data, 0, false⟩

/-- the whole remaining input as the scanner will see it -/
def view (s : BS) : Bytes := s.buf.drop s.pos ++ s.rem

/-- `refill`: returns the latched error; otherwise moves the unread bytes to the front, reads
    once, latches the reader's error, and reports it only when no byte was added.
    Second component: the returned error is `io.EOF` (`false` = nil). -/
def refill (ch : Chunking) (s : BS) : BS × Bool :=
  if s.eof then (s, true)
  else
    let keep := s.buf.drop s.pos
    let r := srcRead ch s.calls s.rem (bufSize - keep.length)
    ({ buf := keep ++ r.1, pos := 0, rem := r.2.2, calls := s.calls + 1, eof := r.2.1 },
     r.1.isEmpty && r.2.1)

inductive PeekRes where
  | byte (c : Nat)
  | eof
  | hang
  deriving Repr, DecidableEq

/-- `Peek`: `for s.pos >= s.used { if err := s.refill(); err != nil { return 0, err } }` -/
def peek (ch : Chunking) : Nat → BS → BS × PeekRes
  | 0, s => (s, .hang)
  | fuel+1, s =>
    match s.buf[s.pos]? with
    | some c => (s, .byte c)
    | none =>
      let (s', err) := refill ch s
      if err then (s', .eof) else peek ch fuel s'

/-- `PeekN(n)`: `for s.pos+n > s.used { if err := s.refill(); err != nil { break } }`, then the
    window `buf[pos : min(pos+n, used)]`; `none` = fuel exhausted -/
def peekN (ch : Chunking) (n : Nat) : Nat → BS → BS × Option Bytes
  | 0, s => (s, none)
  | fuel+1, s =>
    if s.pos + n > s.buf.length then
      let (s', err) := refill ch s
      if err then (s', some ((s'.buf.drop s'.pos).take n)) else peekN ch n fuel s'
    else (s, some ((s.buf.drop s.pos).take n))

/-- `ReadByte`: `Peek`, then `s.pos++` -/
def readByte (ch : Chunking) (s : BS) : BS × PeekRes :=
  match peek ch 2 s with
  | (s', .byte c) => ({ s' with pos := s'.pos + 1 }, .byte c)
  | r => r

/-- `SkipN(n)`: `n` times `ReadByte`, errors ignored -/
def skipN (ch : Chunking) : Nat → BS → BS
  | 0, s => s
  | n+1, s => skipN ch n (readByte ch s).1

/-- `SkipToEOL`: `for { b, err := s.Peek(); if b == 10 || b == 13 || err != nil { break }; s.ReadByte() }`;
    second component: fuel exhausted -/
def skipToEOL (ch : Chunking) : Nat → BS → BS × Bool
  | 0, s => (s, true)
  | fuel+1, s =>
    match peek ch 2 s with
    | (s', .byte b) =>
      if b == 10 || b == 13 then (s', false)
      else skipToEOL ch fuel (readByte ch s').1
    | (s', .eof) => (s', false)
    | (s', .hang) => (s', true)

/-- `SkipWhiteSpace`; result `some true` = it returned `io.EOF`, `none` = fuel exhausted -/
def skipWhiteSpace (ch : Chunking) : Nat → BS → BS × Option Bool
  | 0, s => (s, none)
  | fuel+1, s =>
    match peek ch 2 s with
    | (s', .byte b) =>
      if cSpace b then skipWhiteSpace ch fuel (readByte ch s').1
      else if b == 37 then
        match skipToEOL ch fuel s' with
        | (s2, false) => skipWhiteSpace ch fuel s2
        | (s2, true) => (s2, none)
      else (s', some false)
    | (s', .eof) => (s', some true)
    | (s', .hang) => (s', none)

/-- `tryHex` (the scanner stands at `#`): `PeekN(3)`, two hex digits, `SkipN(3)` -/
def tryHex (ch : Chunking) (s : BS) : BS × Option Nat :=
  match peekN ch 3 4 s with
  | (s', some [_, h, l]) =>
    (match hexVal h, hexVal l with
     | some a, some b => (skipN ch 3 s', some (a * 16 + b))
     | _, _ => (s', none))
  | (s', _) => (s', none)

/-- `checkEI`: `PeekN(3)` -/
def checkEIB (ch : Chunking) (s : BS) : BS × Bool :=
  match peekN ch 3 4 s with
  | (s', some w) => (s', checkEI w)
  | (s', none) => (s', false)

inductive IIB where
  | found (data : Bytes)    -- still including the EOL before `EI`
  | eof
  | capped
  | hang
  deriving Repr

def IIB.cons (b : Nat) : IIB → IIB
  | .found d => .found (b :: d)
  | r => r

/-- the search loop of `readInlineImage` on the buffered scanner; `n` = bytes collected so far -/
def iiLoopB (ch : Chunking) : (fuel n prev : Nat) → BS → BS × IIB
  | 0, _, _, s => (s, .hang)
  | fuel+1, n, prev, s =>
    let (s1, isEI) := if prev == 13 || prev == 10 then checkEIB ch s else (s, false)
    if isEI then (s1, .found [])
    else if n > Gen.content_maxInlineImageBytes then (s1, .capped)
    else
      match readByte ch s1 with
      | (s2, .byte b) =>
        let (s3, r) := iiLoopB ch fuel (n + 1) b s2
        (s3, r.cons b)
      | (s2, .eof) => (s2, .eof)
      | (s2, .hang) => (s2, .hang)

end PdfVerif.CNTB

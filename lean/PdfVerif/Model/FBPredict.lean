import PdfVerif.Basic
import PdfVerif.Generated.FactsFB
/-!
Model of `internal/filter/predict` (params.go, write.go, read.go): `Params.Validate`, the derived
sizes, the PNG filters 0–4 (with `bytesPerPixel`), predictor 15 (the per-row tag is an input: the
real writer picks it by a floating point entropy score, the reader accepts any tag), the TIFF
predictor 2 for 1/2/4/8/16 bits per component, and the row framing of writer and reader
(the writer zero-pads a final partial row on `Close`, the reader reports `io.ErrUnexpectedEOF`
for a partial row after returning the complete rows).

Named constants come from `Generated.FactsFB`; the inline literals of `Params.Validate`
(60, 256, the bit depths, the predictor numbers) are pinned by `Props.C06fb.validate_lits_pinned`
over the regenerated literal lists of the Go functions.
-/
namespace PdfVerif.FB
open PdfVerif

/-- Go `int` on the supported (64-bit) platforms: two's complement wrap-around of a product -/
def wrap64 (x : Int) : Int := (x + 9223372036854775808) % 18446744073709551616 - 9223372036854775808

structure PParams where
  colors : Int
  bpc : Int
  columns : Int
  predictor : Int
  deriving Repr, DecidableEq

def isBpc (b : Int) : Bool := b == 1 || b == 2 || b == 4 || b == 8 || b == 16

/-- `Params.Validate` (params.go), branch by branch; `true` = nil error.
The product is computed in `int64` as in Go (`wrap64`); `Props.C08fb.validate_product_no_overflow`
shows the wrap never happens when this line is reached. -/
def PParams.validate (p : PParams) : Bool :=
  if p.predictor = 1 then true                                                     -- case 1: return nil
  else if p.predictor = 2 ∧ (p.colors < 1 ∨ p.colors > 60) then false              -- case 2
  else if (10 ≤ p.predictor ∧ p.predictor ≤ 15) ∧ (p.colors < 1 ∨ p.colors > 256) then false   -- case 10..15
  else if ¬ (p.predictor = 2 ∨ (10 ≤ p.predictor ∧ p.predictor ≤ 15)) then false  -- default
  else if isBpc p.bpc = false then false
  else if p.columns < 1 ∨ p.columns > (Gen.limits_MaxImageWidth : Int) then false
  else if Int.tdiv (wrap64 (wrap64 (p.colors * p.bpc) * p.columns) + 7) 8 > (Gen.predict_maxBytesPerRow : Int) then false
  else true

def PParams.bitsPerPixel (p : PParams) : Int := wrap64 (p.colors * p.bpc)
def PParams.bitsPerRow (p : PParams) : Int := wrap64 (p.bitsPerPixel * p.columns)
def PParams.bytesPerRow (p : PParams) : Int := Int.tdiv (p.bitsPerRow + 7) 8
def PParams.bytesPerPixel (p : PParams) : Int := Int.tdiv (p.bitsPerPixel + 7) 8

/-- list access with the Go index guard made explicit at every call site (the guard is always
true where the Go code indexes; see the call sites) -/
def nth (l : List Nat) (i : Nat) : Nat := l.getD i 0

/-! ### PNG -/

/-- `paethPredictor(a, b, c)` (write.go): a = left, b = above, c = upper left -/
def paeth (a b c : Nat) : Nat :=
  let p : Int := (a : Int) + b - c
  let pa := (p - a).natAbs
  let pb := (p - b).natAbs
  let pc := (p - c).natAbs
  if pa ≤ pb ∧ pa ≤ pc then a
  else if pb ≤ pc then b
  else c

/-- the `switch algorithm` of `filterRow`/`decodePNGRow`: an unknown tag leaves `predictor = 0` -/
def pngPredict (alg left up ul : Nat) : Nat :=
  match alg with
  | 0 => 0
  | 1 => left
  | 2 => up
  | 3 => (left + up) / 2
  | 4 => paeth left up ul
  | _ => 0

/-- neighbours of byte `i`: `seenRev` are the bytes of the current (unfiltered) row before `i` in
reverse order, `prevSeenRev` those of the previous row, `prevRest` the previous row from `i` on.
Go: `left = rowData[i-bpp]` if `i >= bpp`; `up = prevRow[bpp+i]` if `len(prevRow) > bpp+i`;
`upperLeft = prevRow[i]` if `i >= bpp && len(prevRow) > i` (prevRow has `bpp` leading zeros). -/
def pngNeighbours (bpp : Nat) (seenRev prevSeenRev prevRest : Bytes) : Nat × Nat × Nat :=
  let left := if bpp ≤ seenRev.length then nth seenRev (bpp - 1) else 0
  let up := match prevRest with | [] => 0 | u :: _ => u
  let ul := if bpp ≤ seenRev.length ∧ bpp ≤ prevSeenRev.length then nth prevSeenRev (bpp - 1) else 0
  (left, up, ul)

/-- `writer.filterRow`: `out[i] = byte(int(rowData[i]) - int(predictor))` -/
def pngFilterGo (alg bpp : Nat) : (seenRev prevSeenRev prevRest : Bytes) → Bytes → Bytes
  | _, _, _, [] => []
  | s, ps, pr, c :: rest =>
    let (l, u, ul) := pngNeighbours bpp s ps pr
    ((c + 256 - pngPredict alg l u ul) % 256) ::
      pngFilterGo alg bpp (c :: s) ((match pr with | [] => 0 | x :: _ => x) :: ps) pr.tail rest

def pngFilterRow (alg bpp : Nat) (prev cur : Bytes) : Bytes := pngFilterGo alg bpp [] [] prev cur

/-- `reader.decodePNGRow`: `result[i] = byte(int(rowData[i]) + int(predictor))`, neighbours taken
from the already decoded part of the row -/
def pngUnfilterGo (alg bpp : Nat) : (seenRev prevSeenRev prevRest : Bytes) → Bytes → Bytes
  | _, _, _, [] => []
  | s, ps, pr, e :: rest =>
    let (l, u, ul) := pngNeighbours bpp s ps pr
    let c := (e + pngPredict alg l u ul) % 256
    c :: pngUnfilterGo alg bpp (c :: s) ((match pr with | [] => 0 | x :: _ => x) :: ps) pr.tail rest

def pngUnfilterRow (alg bpp : Nat) (prev enc : Bytes) : Bytes := pngUnfilterGo alg bpp [] [] prev enc

/-! ### TIFF predictor 2 -/

/-- split a byte into `8/bpc` components, most significant first (`(original >> shift) & mask`) -/
def unpackByte (bpc : Nat) (b : Nat) : List Nat :=
  match bpc with
  | 1 => [b / 128 % 2, b / 64 % 2, b / 32 % 2, b / 16 % 2, b / 8 % 2, b / 4 % 2, b / 2 % 2, b % 2]
  | 2 => [b / 64 % 4, b / 16 % 4, b / 4 % 4, b % 4]
  | 4 => [b / 16 % 16, b % 16]
  | _ => [b]

/-- `result&^(compMask<<shift) | value<<shift` for every fragment of the byte -/
def packByte (bpc : Nat) (cs : List Nat) : Nat :=
  match bpc, cs with
  | 1, [a, b, c, d, e, f, g, h] => a * 128 + b * 64 + c * 32 + d * 16 + e * 8 + f * 4 + g * 2 + h
  | 2, [a, b, c, d] => a * 64 + b * 16 + c * 4 + d
  | 4, [a, b] => a * 16 + b
  | _, [a] => a
  | _, _ => 0

def compsPerByte (bpc : Nat) : Nat := match bpc with | 1 => 8 | 2 => 4 | 4 => 2 | _ => 1

/-- `applyTIFF*Bit` on consecutive components starting at `componentIdx = idx`: components at or
beyond `n = Colors*Columns` are padding and stay as they are (`break`); the first pixel
(`componentIdx < Colors`) is copied; later ones are `current - prevValues[colorIdx]` in `bpc`
bits (`m = 2^bpc`; XOR for one bit, see `Props.C06fb.xor_is_sub_mod2`); `prevValues[colorIdx]` is
set to the unfiltered value.  Returns the filtered components and the new `prevValues`. -/
def tiffEncC (m colors n : Nat) : (idx : Nat) → (pv : List Nat) → List Nat → List Nat × List Nat
  | _, pv, [] => ([], pv)
  | idx, pv, c :: rest =>
    if n ≤ idx then
      let (out, pv') := tiffEncC m colors n (idx + 1) pv rest
      (c :: out, pv')
    else
      let k := idx % colors
      let o := if idx < colors then c else (c + m - nth pv k % m) % m
      let (out, pv') := tiffEncC m colors n (idx + 1) (pv.set k c) rest
      (o :: out, pv')

/-- `decodeTIFF*Bit`: `current = encoded + prevValues[colorIdx]` in `bpc` bits -/
def tiffDecC (m colors n : Nat) : (idx : Nat) → (pv : List Nat) → List Nat → List Nat × List Nat
  | _, pv, [] => ([], pv)
  | idx, pv, e :: rest =>
    if n ≤ idx then
      let (out, pv') := tiffDecC m colors n (idx + 1) pv rest
      (e :: out, pv')
    else
      let k := idx % colors
      let cur := if idx < colors then e else (e + nth pv k) % m
      let (out, pv') := tiffDecC m colors n (idx + 1) (pv.set k cur) rest
      (cur :: out, pv')

/-- the byte loop of `applyTIFF{1,2,4,8}Bit` / `decodeTIFF{1,2,4,8}Bit` (`dec = false/true`) -/
def tiffBytes (dec : Bool) (bpc colors n : Nat) : (idx : Nat) → (pv : List Nat) → Bytes → Bytes
  | _, _, [] => []
  | idx, pv, b :: rest =>
    let r := if dec then tiffDecC (2 ^ bpc) colors n idx pv (unpackByte bpc b)
             else tiffEncC (2 ^ bpc) colors n idx pv (unpackByte bpc b)
    packByte bpc r.1 :: tiffBytes dec bpc colors n (idx + compsPerByte bpc) r.2 rest

/-- `applyTIFF16Bit` / `decodeTIFF16Bit`: big-endian pairs, `byteIdx+1 < len(data)` (a trailing
odd byte is left alone) -/
def tiffBytes16 (dec : Bool) (colors n : Nat) : (idx : Nat) → (pv : List Nat) → Bytes → Bytes
  | _, _, [] => []
  | _, _, [b] => [b]
  | idx, pv, hi :: lo :: rest =>
    let r := if dec then tiffDecC 65536 colors n idx pv [hi * 256 + lo]
             else tiffEncC 65536 colors n idx pv [hi * 256 + lo]
    match r.1 with
    | [c] => c / 256 :: c % 256 :: tiffBytes16 dec colors n (idx + 1) r.2 rest
    | _ => []   -- unreachable: one component in, one out (`Props.C06fb.tiffC_length`)

/-- one row through `applyTIFFPredictor` (`dec = false`) or `decodeTIFFRow` (`dec = true`).
`pv` is the `prevValues` array on entry: the writer never clears it, the reader zeroes it after
every row; it is overwritten by the first pixel before it is read (`tiff_row_rt` holds for any
two initial arrays). -/
def tiffRow (dec : Bool) (bpc colors columns : Nat) (pv : List Nat) (row : Bytes) : Bytes :=
  if bpc = 16 then tiffBytes16 dec colors (colors * columns) 0 pv row
  else tiffBytes dec bpc colors (colors * columns) 0 pv row

/-! ### row framing -/

/-- geometry of a validated parameter set as naturals -/
structure Geo where
  colors : Nat
  bpc : Nat
  columns : Nat
  predictor : Nat
  rowBytes : Nat
  bpp : Nat
  deriving Repr

def PParams.geo (p : PParams) : Geo :=
  { colors := p.colors.toNat, bpc := p.bpc.toNat, columns := p.columns.toNat, predictor := p.predictor.toNat,
    rowBytes := p.bytesPerRow.toNat, bpp := p.bytesPerPixel.toNat }

/-- `processRow` for one complete row; `tag` is only used by predictor 15 (the real writer's
choice is passed in). Result: encoded row and the new previous-row buffer contents. -/
def encRow (g : Geo) (tag : Nat) (prev row : Bytes) : Bytes :=
  if g.predictor = 2 then tiffRow false g.bpc g.colors g.columns (List.replicate g.colors 0) row
  else
    let alg := if g.predictor = 15 then tag else g.predictor - 10
    alg :: pngFilterRow alg g.bpp prev row

/-- the writer: complete rows as they arrive, a final partial row zero-padded on `Close` -/
def encRows (g : Geo) : (fuel : Nat) → (tags : List Nat) → (prev : Bytes) → Bytes → Bytes
  | 0, _, _, _ => []
  | fuel + 1, tags, prev, data =>
    if data.isEmpty then []
    else
      let row := data.take g.rowBytes
      let row := row ++ List.replicate (g.rowBytes - row.length) 0
      let tag := match tags with | [] => 0 | t :: _ => t
      encRow g tag prev row ++ encRows g fuel tags.tail row (data.drop g.rowBytes)

def encodeStream (g : Geo) (tags : List Nat) (data : Bytes) : Bytes :=
  if g.predictor = 1 then data
  else encRows g (data.length + 1) tags (List.replicate g.rowBytes 0) data

/-- the reader: rows of `rowBytes` (+1 tag byte for PNG); a partial row ends the data with
`unexpectedEOF` (reported as malformed by the filter layer) -/
def decRows (g : Geo) : (fuel : Nat) → (prev : Bytes) → Bytes → Bytes × Bool
  | 0, _, _ => ([], true)
  | fuel + 1, prev, data =>
    let need := if g.predictor = 2 then g.rowBytes else g.rowBytes + 1
    if data.isEmpty then ([], true)
    else if data.length < need then ([], false)
    else
      let enc := data.take need
      let row :=
        if g.predictor = 2 then tiffRow true g.bpc g.colors g.columns (List.replicate g.colors 0) enc
        else match enc with
          | [] => []
          | tag :: body => pngUnfilterRow tag g.bpp prev body
      let (more, ok) := decRows g fuel row (data.drop need)
      (row ++ more, ok)

/-- decoded bytes and `true` for a clean end of data, `false` for a truncated final row -/
def decodeStream (g : Geo) (data : Bytes) : Bytes × Bool :=
  if g.predictor = 1 then (data, true)
  else decRows g (data.length + 1) (List.replicate g.rowBytes 0) data

end PdfVerif.FB

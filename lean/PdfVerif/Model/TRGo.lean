/-
Go semantics prelude for the functions that `tools/extract/translate_impl.go` translates from
the Go sources into `PdfVerif/Generated/Fn*.lean` (DESIGN.md 2.1 (a2)).  Core Lean only.

This file is hand-written and part of the trusted base ("Go's own semantics for the constructs
the translator handles").  Conventions of the generated code:

* Go `bool` ↦ `Bool`; `uint8/byte, uint16, uint32, uint64` ↦ `UInt8 … UInt64` (wrap-around is
  Lean's); `uint` ↦ `UInt64` (64-bit platform).
* Go `int`, `int64` ↦ `Int` **kept in the range −2⁶³ ≤ x < 2⁶³ by an explicit wrap** `Go.i64`
  after every `+ - * unary- <<` and narrowing conversion; `int32`/`rune` ↦ `Int` wrapped by
  `Go.i32`.  Bit operations on signed values go through `Int64`.
* `[]T`, `string` (as bytes) ↦ `List T`, read only; `nil` slice ↦ `[]`.
* Go `error` ↦ `Option String` (`none` = `nil`; the string is only a tag naming the error
  expression in the source, never the formatted message).
* a function that contains an operation that can panic in Go (index, slice, division by a
  non-constant, shift by a signed count, explicit `panic`) is generated in the `Option` monad
  and `none` **means "Go panics"**; all other functions are generated as `Id.run do`.
-/
namespace PdfVerif.Go

/-- wrap to the range of Go's `int64` (and `int` on 64-bit platforms): the representative of
`x` modulo 2⁶⁴ in −2⁶³ … 2⁶³−1.  (Written with `%` only — equal to `Int.bmod x (2^64)`, see
`i64_eq_bmod` — because the kernel's defeq check runs into deep recursion when it meets
`Int.bmod`'s comparison against a huge literal on a term built from `Nat` casts.) -/
def i64 (x : Int) : Int := (x + 9223372036854775808) % 18446744073709551616 - 9223372036854775808
/-- wrap to the range of Go's `int32` / `rune` -/
def i32 (x : Int) : Int := (x + 2147483648) % 4294967296 - 2147483648

theorem i64_eq_bmod (x : Int) : i64 x = Int.bmod x 18446744073709551616 := by
  unfold i64; simp only [Int.bmod_def]; omega
theorem i32_eq_bmod (x : Int) : i32 x = Int.bmod x 4294967296 := by
  unfold i32; simp only [Int.bmod_def]; omega

/-- `x` is a value of Go's `int`/`int64` -/
def IsI64 (x : Int) : Prop := -9223372036854775808 ≤ x ∧ x < 9223372036854775808
instance (x : Int) : Decidable (IsI64 x) := by unfold IsI64; infer_instance

/-! ### signed bit operations (two's complement, 64 bit) -/
def and64 (a b : Int) : Int := (a.toInt64 &&& b.toInt64).toInt
def or64 (a b : Int) : Int := (a.toInt64 ||| b.toInt64).toInt
def xor64 (a b : Int) : Int := (a.toInt64 ^^^ b.toInt64).toInt
def not64 (a : Int) : Int := (~~~ a.toInt64).toInt
/-- Go's `a &^ b` -/
def andNot64 (a b : Int) : Int := (a.toInt64 &&& ~~~ b.toInt64).toInt

/-! ### division: Go truncates toward zero and panics on a zero divisor -/
def quo64 (a b : Int) : Option Int := if b = 0 then none else some (i64 (Int.tdiv a b))
def rem64 (a b : Int) : Option Int := if b = 0 then none else some (Int.tmod a b)
/-- division by a non-zero constant (the translator has checked `k ≠ 0`) -/
def quoK (a k : Int) : Int := i64 (Int.tdiv a k)
def remK (a k : Int) : Int := Int.tmod a k

/-! ### shifts: a count ≥ width gives 0 (Lean's `<<<` on `UIntN` would reduce the count mod N);
a negative signed count panics -/
def cnt (s : Int) : Option Nat := if s < 0 then none else some s.toNat
def shl8 (x : UInt8) (n : Nat) : UInt8 := if n ≥ 8 then 0 else x <<< n.toUInt8
def shr8 (x : UInt8) (n : Nat) : UInt8 := if n ≥ 8 then 0 else x >>> n.toUInt8
def shl16 (x : UInt16) (n : Nat) : UInt16 := if n ≥ 16 then 0 else x <<< n.toUInt16
def shr16 (x : UInt16) (n : Nat) : UInt16 := if n ≥ 16 then 0 else x >>> n.toUInt16
def shl32 (x : UInt32) (n : Nat) : UInt32 := if n ≥ 32 then 0 else x <<< n.toUInt32
def shr32 (x : UInt32) (n : Nat) : UInt32 := if n ≥ 32 then 0 else x >>> n.toUInt32
def shl64 (x : UInt64) (n : Nat) : UInt64 := if n ≥ 64 then 0 else x <<< n.toUInt64
def shr64 (x : UInt64) (n : Nat) : UInt64 := if n ≥ 64 then 0 else x >>> n.toUInt64
/-- signed left shift (wraps) -/
def shlI64 (x : Int) (n : Nat) : Int := if n ≥ 64 then 0 else i64 (x * (2 ^ n : Nat))
/-- signed (arithmetic) right shift -/
def shrI64 (x : Int) (n : Nat) : Int := if n ≥ 64 then (if x < 0 then -1 else 0) else x >>> n

/-! ### conversions from signed to unsigned (two's complement truncation) -/
def toU8 (x : Int) : UInt8 := UInt8.ofNat (x % 256).toNat
def toU16 (x : Int) : UInt16 := UInt16.ofNat (x % 65536).toNat
def toU32 (x : Int) : UInt32 := UInt32.ofNat (x % 4294967296).toNat
def toU64 (x : Int) : UInt64 := UInt64.ofNat (x % 18446744073709551616).toNat

/-! ### slices and strings (read only) -/
def len {α} (xs : List α) : Int := (xs.length : Int)
/-- `xs[i]`; `none` = index out of range (Go panics) -/
def idx {α} (xs : List α) (i : Int) : Option α := if i < 0 then none else xs[i.toNat]?
/-- `xs[lo:hi]`; `none` = bounds out of range (Go panics).  The capacity of a slice is not
modelled: `hi` must not exceed the length. -/
def slice {α} (xs : List α) (lo hi : Int) : Option (List α) :=
  if 0 ≤ lo ∧ lo ≤ hi ∧ hi ≤ (xs.length : Int) then some ((xs.take hi.toNat).drop lo.toNat) else none

/-- `xs[i] = v` on a local slice; `none` = index out of range (Go panics) -/
def set {α} (xs : List α) (i : Int) (v : α) : Option (List α) :=
  if 0 ≤ i ∧ i < (xs.length : Int) then some (xs.set i.toNat v) else none

/-! ### strings and runes (Go language specification, "Conversions to and from a string type";
package unicode/utf8): `[]rune(s)` decodes UTF-8 and yields U+FFFD for every byte that does not
start a well-formed sequence; `string(rr)` encodes, with U+FFFD for surrogates and values outside
0…0x10FFFF.  Runes are `int32` values, represented as `Int`. -/

def isCont (b : Nat) : Bool := 128 ≤ b && b ≤ 191

/-- first rune of a non-empty byte string and the number of bytes it occupies (≥ 1) -/
def decodeRune : List UInt8 → Int × Nat
  | [] => (65533, 0)
  | b0 :: rest =>
    let c0 := b0.toNat
    let b (i : Nat) : Nat := (rest.getD i 0).toNat
    let have_ (n : Nat) : Bool := n ≤ rest.length
    if c0 < 128 then (c0, 1)
    else if 194 ≤ c0 && c0 ≤ 223 then
      if have_ 1 && isCont (b 0) then (((c0 % 32) * 64 + b 0 % 64 : Nat), 2) else (65533, 1)
    else if 224 ≤ c0 && c0 ≤ 239 then
      let lo := if c0 == 224 then 160 else 128
      let hi := if c0 == 237 then 159 else 191
      if have_ 2 && lo ≤ b 0 && b 0 ≤ hi && isCont (b 1) then
        (((c0 % 16) * 4096 + (b 0 % 64) * 64 + b 1 % 64 : Nat), 3)
      else (65533, 1)
    else if 240 ≤ c0 && c0 ≤ 244 then
      let lo := if c0 == 240 then 144 else 128
      let hi := if c0 == 244 then 143 else 191
      if have_ 3 && lo ≤ b 0 && b 0 ≤ hi && isCont (b 1) && isCont (b 2) then
        (((c0 % 8) * 262144 + (b 0 % 64) * 4096 + (b 1 % 64) * 64 + b 2 % 64 : Nat), 4)
      else (65533, 1)
    else (65533, 1)

def runesFuel : Nat → List UInt8 → List Int
  | 0, _ => []
  | _, [] => []
  | fuel + 1, bs =>
    let (r, w) := decodeRune bs
    r :: runesFuel fuel (bs.drop (max w 1))

/-- `[]rune(s)` -/
def runes (s : List UInt8) : List Int := runesFuel s.length s

/-- UTF-8 encoding of one rune (`utf8.AppendRune`) -/
def encodeRune (r : Int) : List UInt8 :=
  if r < 0 ∨ r > 1114111 ∨ (55296 ≤ r ∧ r ≤ 57343) then [239, 191, 189]
  else
    let n := r.toNat
    if n < 128 then [UInt8.ofNat n]
    else if n < 2048 then [UInt8.ofNat (192 + n / 64), UInt8.ofNat (128 + n % 64)]
    else if n < 65536 then [UInt8.ofNat (224 + n / 4096), UInt8.ofNat (128 + n / 64 % 64), UInt8.ofNat (128 + n % 64)]
    else [UInt8.ofNat (240 + n / 262144), UInt8.ofNat (128 + n / 4096 % 64), UInt8.ofNat (128 + n / 64 % 64),
      UInt8.ofNat (128 + n % 64)]

/-- `string(rr)` for a `[]rune` -/
def stringOfRunes (rr : List Int) : List UInt8 := rr.flatMap encodeRune

/-- explicit `panic(…)` -/
def panic {α} : Option α := none

/-! ### crypto/subtle (documented behaviour of the standard library) -/
/-- `subtle.ConstantTimeLessOrEq(x, y)`: 1 if `x ≤ y`, else 0 (defined for 0 ≤ x, y < 2³¹) -/
def ctLessOrEq (x y : Int) : Int := if x ≤ y then 1 else 0
/-- `subtle.ConstantTimeByteEq(x, y)`: 1 if `x = y`, else 0 -/
def ctByteEq (x y : UInt8) : Int := if x = y then 1 else 0
/-- `subtle.ConstantTimeEq(x, y)` on int32 -/
def ctEq (x y : Int) : Int := if x = y then 1 else 0
/-- `subtle.ConstantTimeSelect(v, x, y)`: x if v = 1, y if v = 0 -/
def ctSelect (v x y : Int) : Int := if v = 1 then x else y

end PdfVerif.Go

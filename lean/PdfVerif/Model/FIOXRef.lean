import PdfVerif.Model.Scan
import PdfVerif.Generated.FIOFacts
/-!
Model of the cross-reference code of `xref.go` (work package FIO, properties C02/C03).

Writer side: `setXRef`, the line format of `writeXRefTable`, the field sizing (`bits.Len64`),
`encodeInt64`, the rows of `writeXRefStream` and the PNG-Up predictor rows they are wrapped in.
Reader side: `readXRefTable`, `decodeXRefSection` (with the 19-byte-line, `65536` and
off-by-one repairs), `checkXRefStreamDict`, `decodeXRefStream`, `decodeInt`.

Conventions.  `XEntry` mirrors the Go struct `xRefEntry` field by field (`inStream = 0` is
the zero `Reference`).  A table is an association list; `set` conses, `get` takes the first
match, i.e. `set` overwrites exactly like a Go map assignment.  `int64`/`uint32`/`uint64`
conversions which can wrap in the Go code are explicit (`i64`, `u32`, `u64`).
-/
namespace PdfVerif.FIO
open PdfVerif

structure XEntry where
  inStream : Nat
  pos : Int
  gen : Nat
  deriving DecidableEq, Repr, Inhabited

abbrev XMap := List (Nat × XEntry)

def XMap.get (m : XMap) (n : Nat) : Option XEntry := List.lookup n m
def XMap.set (m : XMap) (n : Nat) (e : XEntry) : XMap := (n, e) :: m

/-- `(*xRefEntry).IsFree`: nil or negative position -/
def isFree : Option XEntry → Bool
  | none => true
  | some e => decide (e.pos < 0)

/-! ### integer conversions of the Go code -/

def two64 : Nat := 18446744073709551616
def two63 : Nat := 9223372036854775808
def two32 : Nat := 4294967296
/-- `uint64(x)` for an `int64` x -/
def u64 (i : Int) : Nat := (i % (two64 : Int)).toNat
/-- `uint32(x)` -/
def u32 (i : Int) : Nat := (i % (two32 : Int)).toNat
/-- wrap-around of `int64` addition -/
def i64 (i : Int) : Int := (i + (two63 : Int)) % (two64 : Int) - (two63 : Int)

/-! ### decimal output (`%010d`, `%05d`, `%d`) -/

/-- the `w` low decimal digits of `n`, most significant first -/
def fixDec : Nat → Nat → Bytes
  | 0, _ => []
  | w+1, n => fixDec w (n / 10) ++ [48 + n % 10]

/-- decimal digits, most significant first (`fuel` ≥ number of digits) -/
def decDigits : Nat → Nat → Bytes
  | 0, _ => []
  | f+1, n => if n < 10 then [48 + n] else decDigits f (n / 10) ++ [48 + n % 10]

/-- `strconv.Itoa` / `%d` for a non-negative number -/
def decOf (n : Nat) : Bytes := decDigits (n + 1) n

/-- `fmt.Sprintf("%0<w>d", n)` for `n ≥ 0`: at least `w` digits -/
def fmtPad (w n : Nat) : Bytes := if n < 10 ^ w then fixDec w n else decOf n

/-! ### `setXRef` -/

/-- `Writer.setXRef`: duplicate rejection, `nextRef` is pushed past the number -/
def setXRef (m : XMap) (nextRef : Nat) (num : Nat) (e : XEntry) : Option (XMap × Nat) :=
  match m.get num with
  | some _ => none                           -- errDuplicateRef
  | none => some (m.set num e, if nextRef ≤ num then num + 1 else nextRef)

/-! ### `writeXRefTable` -/

/-- `"0000000000 65535 f\r\n"` -/
def freeLine : Bytes := [48, 48, 48, 48, 48, 48, 48, 48, 48, 48, 32, 54, 53, 53, 51, 53, 32, 102, 13, 10]

/-- one line of the table: `"%010d %05d n\r\n"` or the fixed free line -/
def xrefLine : Option XEntry → Bytes
  | some e =>
    if e.pos ≥ 0 then fmtPad 10 e.pos.toNat ++ [32] ++ fmtPad 5 e.gen ++ [32, 110, 13, 10]
    else freeLine
  | none => freeLine

def xrefLines (m : XMap) : Nat → Nat → Bytes
  | _, 0 => []
  | i, k+1 => xrefLine (m.get i) ++ xrefLines m (i + 1) k

/-- the objects below `n` that live in an object stream (the table form cannot express them) -/
def hasInStream (m : XMap) (n : Nat) : Bool :=
  (List.range n).any fun i => match m.get i with | some e => e.inStream != 0 | none => false

def kwXref : Bytes := [120, 114, 101, 102]                       -- "xref"
def kwTrailer : Bytes := [116, 114, 97, 105, 108, 101, 114]      -- "trailer"

/-- `"xref\n0 %d\n"` followed by `nextRef` lines (`writeXRefTable` up to the trailer keyword);
    `none` = "cannot use xref tables with object streams" -/
def xrefTableBody (m : XMap) (nextRef : Nat) : Option Bytes :=
  if hasInStream m nextRef then none
  else if m.any (fun ne => ne.2.inStream == 0 && decide (ne.2.pos > 9999999999)) then none
  else some (kwXref ++ [10, 48, 32] ++ decOf nextRef ++ [10] ++ xrefLines m 0 nextRef)

/-! ### `writeXRefStream`: field sizing and rows -/

/-- `bits.Len64` -/
def len64 (n : Nat) : Nat := if n = 0 then 0 else Nat.log2 n + 1

/-- `(bits.Len64(x) + 7) / 8` -/
def fieldWidth (n : Nat) : Nat := (len64 n + 7) / 8

/-- the two fields the sizing loop looks at (first loop of `writeXRefStream`) -/
def sizingFields : Option XEntry → Nat × Nat
  | none => (0, 0)
  | some e =>
    if e.inStream != 0 then (e.inStream, u64 e.pos)
    else if e.pos ≥ 0 then (u64 e.pos, e.gen)
    else (0, e.gen)   -- a free entry carries its generation (65535 for object 0: two bytes)

def maxFields (m : XMap) : Nat → Nat → Nat × Nat
  | _, 0 => (0, 0)
  | i, k+1 =>
    let (a, b) := sizingFields (m.get i)
    let (x, y) := maxFields m (i + 1) k
    (max a x, max b y)

/-- `encodeInt64`: the `w` low bytes of `x`, big endian -/
def encodeInt64 (x : Nat) : Nat → Bytes
  | 0 => []
  | w+1 => (x / 256 ^ w) % 256 :: encodeInt64 x w

/-- the three fields written for an entry (second loop of `writeXRefStream`) -/
def rowFields : Option XEntry → Nat × Nat × Nat
  | none => (0, 0, 0)
  | some e =>
    if e.pos < 0 then (0, 0, e.gen)
    else if e.inStream == 0 then (1, u64 e.pos, e.gen)
    else (2, e.inStream, u64 e.pos)

def xrefRow (w2 w3 : Nat) (e : Option XEntry) : Bytes :=
  let (t, a, b) := rowFields e
  [t] ++ encodeInt64 a w2 ++ encodeInt64 b w3

def xrefRows (m : XMap) (w2 w3 : Nat) : Nat → Nat → List Bytes
  | _, 0 => []
  | i, k+1 => xrefRow w2 w3 (m.get i) :: xrefRows m w2 w3 (i + 1) k

/-- PNG "Up" rows as `predict.writer` emits them for Predictor 12: tag 2, byte differences to
    the previous row (initially zero) -/
def upRow (prev row : Bytes) : Bytes :=
  2 :: List.zipWith (fun x p => (x + 256 - p % 256) % 256) row prev

def pngUpEnc (prev : Bytes) : List Bytes → Bytes
  | [] => []
  | row :: rest => upRow prev row ++ pngUpEnc row rest

/-- what `writeXRefStream` hands to zlib: widths and the predicted rows -/
def xrefStreamPayload (m : XMap) (nextRef : Nat) : Nat × Nat × Bytes :=
  let (f2, f3) := maxFields m 0 nextRef
  let w2 := fieldWidth f2
  let w3 := fieldWidth f3
  (w2, w3, pngUpEnc (List.replicate (1 + w2 + w3) 0) (xrefRows m w2 w3 0 nextRef))

/-! ### reader side: `decodeInt`, predictor undo, `decodeXRefStream` -/

def beVal : Bytes → Nat → Nat
  | [], acc => acc
  | b :: bs, acc => beVal bs (acc * 256 + b)

/-- `decodeInt`: `none` when the value exceeds `math.MaxInt64` -/
def decodeInt (buf : Bytes) : Option Nat :=
  let r := beVal buf 0 % two64
  if r ≥ two63 then none else some r

def paeth (a b c : Nat) : Nat :=
  let p : Int := (a : Int) + b - c
  let pa := (p - a).natAbs
  let pb := (p - b).natAbs
  let pc := (p - c).natAbs
  if pa ≤ pb && pa ≤ pc then a else if pb ≤ pc then b else c

/-- one PNG row with one byte per pixel (`decodePNGRow`); `left`, `ul` start at 0 -/
def pngRowDec (tag : Nat) : (left ul : Nat) → (row prev : Bytes) → Bytes
  | _, _, [], _ => []
  | left, ul, d :: ds, prev =>
    let up := prev.headD 0
    let pr :=
      if tag == 1 then left
      else if tag == 2 then up
      else if tag == 3 then (left + up) / 2
      else if tag == 4 then paeth left up ul
      else 0
    let v := (d + pr) % 256
    v :: pngRowDec tag v up ds prev.tail

/-- undo the PNG predictor on `cols`-byte rows; a partial last row is an error -/
def pngDec (cols : Nat) : Nat → (prev data : Bytes) → Except Err Bytes
  | 0, _, _ => .error .other
  | fuel+1, prev, data =>
    match data with
    | [] => .ok []
    | tag :: rest =>
      if rest.length < cols then .error .malformed
      else
        let row := pngRowDec tag 0 0 (rest.take cols) prev
        match pngDec cols fuel row (rest.drop cols) with
        | .ok out => .ok (row ++ out)
        | .error e => .error e

def pngUndo (cols : Nat) (data : Bytes) : Except Err Bytes :=
  pngDec cols (data.length + 1) (List.replicate cols 0) data

/-- one entry of `decodeXRefStream` after the bytes have been read and `xref[i] == nil` -/
def decodeRowEntry (w0 w1 w2 : Nat) (buf : Bytes) : Option XEntry :=
  match decodeInt (buf.take w0), decodeInt ((buf.drop w0).take w1), decodeInt ((buf.drop (w0 + w1)).take w2) with
  | some tp0, some a, some b =>
    let tp := if w0 == 0 then 1 else tp0
    if tp == 0 then
      if b > Gen.fio_maxGeneration then none else some { inStream := 0, pos := -1, gen := b }
    else if tp == 1 then
      if b > Gen.fio_maxGeneration then none else some { inStream := 0, pos := a, gen := b }
    else if tp == 2 then
      if a ≥ Gen.fio_maxXRefSize then none else some { inStream := a, pos := b, gen := 0 }
    else none
  | _, _, _ => none

/-- the inner loop of `decodeXRefStream` over one subsection -/
def decodeXRefRows (w0 w1 w2 : Nat) : (m : XMap) → (data : Bytes) → (i count : Nat) → Except Err (XMap × Bytes)
  | m, data, _, 0 => .ok (m, data)
  | m, data, i, k+1 =>
    let wT := w0 + w1 + w2
    if data.length < wT then (if data.isEmpty then .error .eof else .error .other)   -- io.ReadFull
    else
      let buf := data.take wT
      let rest := data.drop wT
      match m.get i with
      | some _ => decodeXRefRows w0 w1 w2 m rest (i + 1) k
      | none =>
        match decodeRowEntry w0 w1 w2 buf with
        | some e => decodeXRefRows w0 w1 w2 (m.set i e) rest (i + 1) k
        | none => decodeXRefRows w0 w1 w2 m rest (i + 1) k

/-- `decodeXRefStream` -/
def decodeXRefStream (w0 w1 w2 : Nat) : (m : XMap) → (data : Bytes) → List (Nat × Nat) → Except Err XMap
  | m, _, [] => .ok m
  | m, data, (start, size) :: ss =>
    match decodeXRefRows w0 w1 w2 m data start size with
    | .error e => .error e
    | .ok (m', rest) => decodeXRefStream w0 w1 w2 m' rest ss

/-! ### `checkXRefStreamDict` -/

def dictGet (kv : List (Bytes × Obj)) (k : Bytes) : Option Obj :=
  match kv.find? (fun e => e.1 == k) with
  | some (_, .null) => none     -- a Go map entry holding nil reads as nil
  | some (_, v) => some v
  | none => none

def kSize : Bytes := [83, 105, 122, 101]
def kW : Bytes := [87]
def kIndex : Bytes := [73, 110, 100, 101, 120]

def widthsOf : List Obj → Option (List Nat)
  | [] => some []
  | .int w :: rest =>
    if w < 0 || w > 8 then none else (widthsOf rest).map fun ws => w.toNat :: ws
  | _ => none

def indexPairs (size : Int) : List Obj → Option (List (Nat × Nat))
  | [] => some []
  | .int s :: .int n :: rest =>
    if s < 0 || n ≤ 0 || s > size || n > size - s then none
    else (indexPairs size rest).map fun ps => (s.toNat, n.toNat) :: ps
  | _ => none

/-- `checkXRefStreamDict`: widths and subsections, or malformed -/
def checkXRefStreamDict (dict : List (Bytes × Obj)) (rawLen : Int) : Except Err (List Nat × List (Nat × Nat)) :=
  match dictGet dict kSize with
  | some (.int size) =>
    if size < 0 || size > Gen.fio_maxXRefSize then .error .malformed else
    match dictGet dict kW with
    | some (.arr W) =>
      if W.length != 3 then .error .malformed else
      match widthsOf W with
      | none => .error .malformed
      | some ws =>
        if ws.foldl (· + ·) 0 == 0 then .error .malformed else
        let ssOpt : Option (List (Nat × Nat)) :=
          match dictGet dict kIndex with
          | none => some [(0, size.toNat)]
          | some (.arr ind) => if ind.length % 2 != 0 then none else indexPairs size ind
          | some _ => none
        match ssOpt with
        | none => .error .malformed
        | some ss =>
          let raw := if rawLen < 0 then 0 else rawLen.toNat
          let maxEntries := min Gen.fio_maxXRefSize (Gen.fio_XRefEntriesBase + Gen.fio_XRefEntriesPerByte * raw)
          let total := ss.foldl (fun acc p => acc + p.2) 0
          if total > maxEntries then .error .malformed else .ok (ws, ss)
    | _ => .error .malformed
  | _ => .error .malformed

/-! ### `readXRefTable` / `decodeXRefSection` -/

/-- `ReadInteger` with the end-of-input behaviour of the Go scanner -/
def readIntegerE (inp : Bytes) : Except Err (Int × Bytes) :=
  match skipWS inp with
  | (_, true) => .error .eof
  | (inp, false) =>
    let (tok, rest) := scanNumTok false false true inp
    if tok.length > Gen.scanner_maxNameBytes then .error .malformed else
    match parseInt64 tok with
    | some i => .ok (i, rest)
    | none => .error .malformed

/-- `strconv.ParseUint(s, 10, 16)` -/
def parseUint16 (s : Bytes) : Option Nat :=
  if s.isEmpty || !s.all isDigit then none
  else let v := digitsVal s 0; if v > 65535 then none else some v

/-- `"0000000000 65536 "` -/
def pat65536 : Bytes := [48, 48, 48, 48, 48, 48, 48, 48, 48, 48, 32, 54, 53, 53, 51, 54, 32]

/-- `decodeXRefSection`: `count` entries starting at object number `i`; `start` is the first
    number of the subsection, `off` the off-by-one repair found at its first entry -/
def decodeXRefSection (start : Nat) : (m : XMap) → (inp : Bytes) → (i off count : Nat) → Except Err (XMap × Bytes)
  | m, inp, _, _, 0 => .ok (m, inp)
  | m, inp, i, off, k+1 =>
    match m.get i with
    | some _ =>
      if inp.length < 20 then .error .eof                -- Discard(20) past the end
      else decodeXRefSection start m (inp.drop 20) (i + 1) off k
    | none =>
      let buf := inp.take 20
      if buf.length < 20 then .error .malformed else
      match parseInt64 (buf.take 10) with
      | none => .error .other                             -- strconv error, returned as is
      | some a =>
        let genTok := (buf.drop 11).take 5
        let fixed : Option (Nat × Nat) :=
          match parseUint16 genTok with
          | some b => some (b, buf.getD 17 0)
          | none => if isPrefixOf pat65536 buf then some (Gen.fio_maxGeneration, 102) else none
        match fixed with
        | none => .error .other
        | some (b, c) =>
          let off' := if i == start && start == 1 && a == 0 && b == Gen.fio_maxGeneration then 1 else off
          let adv := if buf.getD 19 0 == 10 || buf.getD 19 0 == 13 then 20 else 19
          if c == 102 then
            decodeXRefSection start (m.set (i - off') { inStream := 0, pos := -1, gen := b }) (inp.drop adv) (i + 1) off' k
          else if c == 110 then
            decodeXRefSection start (m.set (i - off') { inStream := 0, pos := a, gen := b }) (inp.drop adv) (i + 1) off' k
          else .error .malformed

/-- the subsection loop of `readXRefTable` -/
def readXRefSubsections : Nat → XMap → Bytes → Except Err (XMap × Bytes)
  | 0, _, _ => .error .other
  | fuel+1, m, inp =>
    match inp with
    | [] => .ok (m, inp)
    | c :: _ =>
      if !isDigit c then .ok (m, inp) else
      match readIntegerE inp with
      | .error e => .error e
      | .ok (start, r1) =>
        match readIntegerE r1 with
        | .error e => .error e
        | .ok (length, r2) =>
          if start < 0 || length < 0 || start ≥ Gen.fio_maxXRefSize || i64 (start + length) > Gen.fio_maxXRefSize then
            .error .malformed
          else
            match skipWS r2 with
            | (_, true) => .error .eof
            | (r3, false) =>
              let s := u32 start
              let e := u32 (i64 (start + length))
              match decodeXRefSection s m r3 s 0 (e - s) with
              | .error e => .error e
              | .ok (m', r4) =>
                match skipWS r4 with
                | (_, true) => .error .eof
                | (r5, false) => readXRefSubsections fuel m' r5

/-- `readXRefTable`: the table, the trailer dictionary and the rest of the input -/
def readXRefTable (m : XMap) (inp : Bytes) : Except Err (XMap × List (Bytes × Obj) × Bytes) :=
  if !isPrefixOf kwXref inp then .error .malformed else
  match skipWS (inp.drop 4) with
  | (_, true) => .error .eof
  | (r0, false) =>
    match readXRefSubsections (r0.length + 1) m r0 with
    | .error e => .error e
    | .ok (m', r1) =>
      match skipWS r1 with
      | (_, true) => .error .eof
      | (r2, false) =>
        if !isPrefixOf kwTrailer r2 then .error .malformed else
        match skipWS (r2.drop 7) with
        | (_, true) => .error .eof
        | (r3, false) =>
          match readDict (scanFuel r3) 0 r3 with
          | .error e => .error e
          | .ok (d, r4) => .ok (m', d, r4)

end PdfVerif.FIO

import PdfVerif.Model.FACommon
import PdfVerif.Generated.FactsFA
/-!
Model of `internal/filter/lzw/{writer,reader}.go` as used by `FilterLZW` without predictor
(`encodeFlateLZW`/`decodeFlateLZW`: `predict.NewWriter/NewReader` return the LZW
writer/reader itself for predictor 1).

* The code-level state machines mirror the Go fields: writer `(currentWidth, hi, overflow,
  savedCode, table, earlyChange)`, reader `(currentWidth, hi, overflow, last, prefix/suffix,
  earlyChange)`.  The writer's open-addressing hash table is a finite map from
  `key = code<<8|byte` to a code; it is modelled as an association list (newest first).
  The reader's `prefix`/`suffix` arrays are one array of pairs that — like the Go arrays —
  survives a clear code.
* The bit registers `bits/nBits` of both sides are a first-in-first-out queue of bits: the
  writer appends the `currentWidth` bits of a code most significant bit first and the byte
  stream is that bit string cut into bytes (the last one zero-padded, `Close`); the reader
  consumes the bits of the bytes in order, `currentWidth` at a time.  This is what
  `w.bits |= c << (32 - width - nBits)` / `r.bits |= x << (24 - nBits)` implement.
-/
namespace PdfVerif.FA.LZW
open PdfVerif PdfVerif.FA

abbrev Bits := List Bool

def clear : Nat := Gen.lzw_clear
def eof : Nat := Gen.lzw_eof
def maxWidth : Nat := Gen.lzw_maxWidth
def maxCode : Nat := Gen.lzw_maxCode
def initWidth : Nat := Gen.lzw_litWidth + 1

/-! ### bits -/

/-- the `w` low bits of `n`, most significant first -/
def toBits : Nat → Nat → Bits
  | 0, _ => []
  | w + 1, n => (n / 2 ^ w % 2 == 1) :: toBits w n

/-- value of a bit string, most significant first -/
def ofBits (bs : Bits) : Nat := bs.foldl (fun a b => 2 * a + (if b then 1 else 0)) 0

def bytesToBits : Bytes → Bits
  | [] => []
  | b :: bs => toBits 8 b ++ bytesToBits bs

/-- cut into bytes; a final partial byte is padded with zero bits (Go `Close`: `bits >>= 24`) -/
def bitsToBytes : Bits → Bytes
  | [] => []
  | b0 :: b1 :: b2 :: b3 :: b4 :: b5 :: b6 :: b7 :: rest =>
    ofBits [b0, b1, b2, b3, b4, b5, b6, b7] :: bitsToBytes rest
  | short => [ofBits (short ++ List.replicate (8 - short.length) false)]

/-! ### encoder (`writer.go`) -/

structure W where
  width : Nat
  hi : Nat
  overflow : Nat
  /-- `savedCode`; `none` = `invalidCode` -/
  saved : Option Nat
  /-- hash table contents: `(key, code)`, newest first -/
  table : List (Nat × Nat)
  /-- `earlyChange` (0 or 1) -/
  ec : Nat
  deriving Repr

def W.init (early : Bool) : W :=
  { width := initWidth, hi := eof, overflow := 2 ^ initWidth, saved := none, table := [],
    ec := if early then 1 else 0 }

def lookup (key : Nat) : List (Nat × Nat) → Option Nat
  | [] => none
  | (k, c) :: rest => if k == key then some c else lookup key rest

/-- `incHi`: returns the new state, the bits of a clear code if one was sent, and whether
    the table was reset (`errOutOfCodes`) -/
def incHi (w : W) : W × Bits × Bool :=
  let hi := w.hi + 1
  let (width, overflow) :=
    if hi + w.ec == w.overflow then (w.width + 1, w.overflow * 2) else (w.width, w.overflow)
  if hi + w.ec == maxCode then
    ({ w with width := initWidth, hi := eof, overflow := clear * 2, table := [] },
      toBits width clear, true)
  else ({ w with width := width, hi := hi, overflow := overflow }, [], false)

/-- one input byte of `Write` -/
def step (w : W) (x : Nat) : W × Bits :=
  match w.saved with
  | none => ({ w with saved := some x }, [])
  | some code =>
    let key := code * 2 ^ 8 + x
    match lookup key w.table with
    | some c => ({ w with saved := some c }, [])
    | none =>
      let out := toBits w.width code
      match incHi w with
      | (w1, clr, true) => ({ w1 with saved := some x }, out ++ clr)
      | (w1, _, false) => ({ w1 with saved := some x, table := (key, w1.hi) :: w1.table }, out)

/-- `Close`: saved code, `incHi`, the eof code (padding is done by `bitsToBytes`) -/
def close (w : W) : Bits :=
  match w.saved with
  | none => toBits w.width eof
  | some code =>
    match incHi w with
    | (w1, clr, _) => toBits w.width code ++ clr ++ toBits w1.width eof

def run (w : W) : Bytes → Bits
  | [] => close w
  | b :: bs => let (w', e) := step w b; e ++ run w' bs

/-- the whole bit string: `NewWriter` sends a clear code first -/
def encodeBits (early : Bool) (x : Bytes) : Bits :=
  toBits initWidth clear ++ run (W.init early) x

def encode (early : Bool) (x : Bytes) : Bytes := bitsToBytes (encodeBits early x)

/-! ### decoder (`reader.go`) -/

structure R where
  width : Nat
  hi : Nat
  overflow : Nat
  /-- `last`; `none` = `decoderInvalidCode` -/
  last : Option Nat
  /-- `(prefix[c], suffix[c])` -/
  table : Array (Nat × Nat)
  ec : Nat

def tableSize : Nat := 2 ^ maxWidth

def R.init (early : Bool) : R :=
  { width := initWidth, hi := eof, overflow := 2 ^ initWidth, last := none,
    table := Array.replicate tableSize (0, 0), ec := if early then 1 else 0 }

/-- walk the prefix chain from `c`, prepending suffixes to `acc`
    (`for c >= clear { output[i] = suffix[c]; i--; c = prefix[c] }; output[i] = c`).
    `fuel` bounds the walk; the Go loop has no bound — that it terminates is the invariant
    `prefix[c] < c` (C08 obligation `expand_fuel`). -/
def expand (t : Array (Nat × Nat)) : Nat → Nat → Bytes → Option Bytes
  | 0, _, _ => none
  | fuel + 1, c, acc =>
    if c < clear then some (c :: acc)
    else match t[c]? with
      | some (p, s) => expand t fuel p (s :: acc)
      | none => none

inductive StepRes where
  | cont (r : R) (out : Bytes)
  | eof
  | bad (e : Err)

/-- the tail of the loop body: `last, hi = code, hi+1` and the width switch / table-full case -/
def advance (r : R) (code : Nat) (table : Array (Nat × Nat)) : R :=
  let hi := r.hi + 1
  if hi + r.ec ≥ r.overflow then
    if r.width ≥ maxWidth then { r with table := table, last := none, hi := hi - 1 }
    else { r with table := table, last := some code, hi := hi, width := r.width + 1, overflow := 2 ^ (r.width + 1) }
  else { r with table := table, last := some code, hi := hi }

/-- "Save what the hi code expands to" -/
def save (r : R) (first : Nat) : Array (Nat × Nat) :=
  match r.last with
  | some l => r.table.setIfInBounds r.hi (l, first)
  | none => r.table

/-- one code -/
def stepCode (r : R) (code : Nat) : StepRes :=
  if code < clear then .cont (advance r code (save r code)) [code]
  else if code == clear then
    .cont { r with width := initWidth, hi := eof, overflow := 2 ^ initWidth, last := none } []
  else if code == eof then .eof
  else if code ≤ r.hi then
    match (if code == r.hi then r.last else none) with
    | some l =>
      -- code == hi: the last expansion followed by its first byte
      match expand r.table tableSize l [] with
      | some (h :: t) => .cont (advance r code (save r h)) (h :: t ++ [h])
      | _ => .bad .other
    | none =>
      match expand r.table tableSize code [] with
      | some (h :: t) => .cont (advance r code (save r h)) (h :: t)
      | _ => .bad .other
  else .bad .malformed   -- "lzw: invalid code"

/-- bit-at-a-time reader: `need` bits are still missing for the current code, `acc` holds the
    bits read so far.  End of input before an eof code is `io.ErrUnexpectedEOF` → malformed. -/
def decBits (r : R) (need acc : Nat) : Bits → DecRes
  | [] => ([], some .malformed)
  | b :: bs =>
    let acc' := 2 * acc + (if b then 1 else 0)
    if need ≤ 1 then
      match stepCode r acc' with
      | .cont r' out => DecRes.pre out (decBits r' r'.width 0 bs)
      | .eof => ([], none)
      | .bad e => ([], some e)
    else decBits r (need - 1) acc' bs

def decode (early : Bool) (bs : Bytes) : DecRes :=
  decBits (R.init early) initWidth 0 (bytesToBits bs)

end PdfVerif.FA.LZW

import PdfVerif.Basic
import PdfVerif.Generated.FactsTRS
/-!
Name trees and number trees: model of `internal/pdftree/{write,streaming,memory}.go`
(`nametree` and `numtree` are thin instantiations of it).

The model is generic over the key type `K` with a comparison `KeyOrd.lt` (Go: `cmp.Ordered`,
instantiated with byte-wise string order for name trees and integer order for number trees).
Written objects are modelled as the tree they form (`NTree`): a node is either a leaf
(`/Names` or `/Nums` array) or an intermediate node (`/Kids`), each with an optional `/Limits`
entry.  References are not modelled: every node the writer creates is referenced exactly
once, so the `seen` sets of the readers never fire on written trees.
-/
namespace PdfVerif.TRSN

/-- the comparison the Go code uses on keys (`<` of `cmp.Ordered`) -/
class KeyOrd (K : Type) where
  lt : K → K → Bool

instance : KeyOrd Bytes := ⟨bytesLt⟩
instance : KeyOrd Int := ⟨fun a b => decide (a < b)⟩

/-- Go `a <= b` -/
@[inline] def kle {K} [KeyOrd K] (a b : K) : Bool := !(KeyOrd.lt b a)

/-- a tree node as written to the file -/
inductive NTree (K V : Type) where
  | leaf (entries : List (K × V)) (limits : Option (K × K))
  | inner (kids : List (NTree K V)) (limits : Option (K × K))
  deriving Inhabited

def NTree.limits {K V} : NTree K V → Option (K × K)
  | .leaf _ l => l
  | .inner _ l => l

/-- `nodeInfo[K]` of write.go (the node itself stands for `ref`) -/
structure Info (K V : Type) where
  node : NTree K V
  depth : Nat
  minKey : K
  maxKey : K

/-- `treeWriter` -/
structure TW (K V : Type) where
  tail : List (Info K V)
  pending : List (K × V)
  last : Option K          -- `hasEntries` / `lastKey`

inductive WErr where
  | unsorted        -- "keys must be in sorted order"
  | collapseFailed  -- "failed to collapse to single root"
  | panic           -- a slice expression out of range (unreachable, see Props)
  | fuel            -- the model's loop bound was too small (unreachable, see Props)
  deriving DecidableEq, Repr

def WErr.toString : WErr → String
  | .unsorted => "unsorted" | .collapseFailed => "collapse-failed" | .panic => "panic" | .fuel => "fuel"

variable {K V : Type} [KeyOrd K]

def TW.init : TW K V := { tail := [], pending := [], last := none }

/-- the intermediate node `mergeNodes` writes for `children` (first child `c0`, last `cl`) -/
def mkMerged (children : List (Info K V)) (c0 cl : Info K V) : Info K V :=
  { node := .inner (children.map (·.node)) (some (c0.minKey, cl.maxKey)),
    depth := c0.depth + 1, minKey := c0.minKey, maxKey := cl.maxKey }

/-- `mergeNodes(start, end)`: replace `tail[start:end]` by one intermediate node -/
def mergeNodes (tail : List (Info K V)) (start stop : Nat) : Except WErr (List (Info K V)) :=
  if start ≥ stop then .ok tail
  else if stop > tail.length then .error .panic
  else
    let children := (tail.drop start).take (stop - start)
    match children, children.getLast? with
    | c0 :: _, some cl => .ok (tail.take start ++ mkMerged children c0 cl :: tail.drop stop)
    | _, _ => .error .panic

/-- `mergeTail`: while the last `maxChildren` nodes have the same depth, merge them -/
def mergeTail : Nat → List (Info K V) → Except WErr (List (Info K V))
  | 0, _ => .error .fuel
  | fuel + 1, tail =>
    let n := tail.length
    if n < Gen.pdftree_maxChildren then .ok tail
    else
      match tail[n - 1]?, tail[n - Gen.pdftree_maxChildren]? with
      | some a, some b =>
        if a.depth != b.depth then .ok tail
        else
          match mergeNodes tail (n - Gen.pdftree_maxChildren) n with
          | .error e => .error e
          | .ok t' => mergeTail fuel t'
      | _, _ => .error .panic

/-- the leaf node `completePendingLeaf` writes -/
def leafInfo (pending : List (K × V)) (e0 el : K × V) : Info K V :=
  { node := .leaf pending (some (e0.1, el.1)), depth := 0, minKey := e0.1, maxKey := el.1 }

/-- `completePendingLeaf` -/
def completePendingLeaf (w : TW K V) : Except WErr (TW K V) :=
  match w.pending, w.pending.getLast? with
  | e0 :: _, some el =>
    match mergeTail (w.tail.length + 2) (w.tail ++ [leafInfo w.pending e0 el]) with
    | .error e => .error e
    | .ok t => .ok { w with tail := t, pending := [] }
  | _, _ => .ok w

/-- `w.hasEntries && key <= w.lastKey` -/
def keyNotAbove (last : Option K) (k : K) : Bool :=
  match last with
  | some l => kle k l
  | none => false

/-- `addEntry` -/
def addEntry (w : TW K V) (k : K) (v : V) : Except WErr (TW K V) :=
  if keyNotAbove w.last k then .error .unsorted
  else
    let w1 : TW K V := { w with last := some k, pending := w.pending ++ [(k, v)] }
    if w1.pending.length ≥ Gen.pdftree_maxChildren then completePendingLeaf w1 else .ok w1

/-- `collapse`: merge the trailing run of equal depth (at most `maxChildren` nodes) until one
    node is left -/
def trailingRunStart (tail : List (Info K V)) (depth : Nat) : Nat → Nat
  | 0 => 0
  | start + 1 =>
    match tail[start]? with
    | some x => if x.depth == depth then trailingRunStart tail depth start else start + 1
    | none => start + 1

def collapse : Nat → List (Info K V) → Except WErr (List (Info K V))
  | 0, _ => .error .fuel
  | fuel + 1, tail =>
    if tail.length ≤ 1 then .ok tail
    else
      let stop := tail.length
      match tail[stop - 1]? with
      | none => .error .panic
      | some lastN =>
        let start0 := trailingRunStart tail lastN.depth (stop - 1)
        let start := if stop - start0 > Gen.pdftree_maxChildren then stop - Gen.pdftree_maxChildren else start0
        match mergeNodes tail start stop with
        | .error e => .error e
        | .ok t' => collapse fuel t'

/-- upper bound for the number of `collapse` steps: each step shortens the tail or lifts the
    last node by one level -/
def collapseFuel (tail : List (Info K V)) : Nat :=
  tail.length + (tail.foldl (fun m i => max m i.depth) 0) * (tail.length + 1) + 2

/-- the part of `finish` after the pending leaf has been dealt with -/
def finishTail (t : List (Info K V)) : Except WErr (Option (NTree K V)) :=
  match t with
  | [] => .ok none                      -- empty tree: no entries means no root object
  | [i] =>
    if i.depth == 0 then .ok (some (.inner [i.node] none))       -- `writeRootFromSingleLeaf`
    else
      -- `collapse` does nothing on a single node; `writeRootWithKids`
      if i.depth > 0 then .ok (some (.inner [i.node] none)) else .ok (some i.node)
  | _ =>
    match collapse (collapseFuel t) t with
    | .error e => .error e
    | .ok [root] =>
      if root.depth > 0 then .ok (some (.inner [root.node] none))   -- `writeRootWithKids`
      else .ok (some root.node)
    | .ok _ => .error .collapseFailed

/-- `finish`: the three root shapes -/
def finish (w : TW K V) : Except WErr (Option (NTree K V)) :=
  if w.pending.length > 0 then
    -- special case: the only leaf becomes the root, with the pairs and without /Limits
    if w.tail.length == 0 then .ok (some (.leaf w.pending none))   -- `writeRootWithEntries`
    else
      match completePendingLeaf w with
      | .error e => .error e
      | .ok w' => finishTail w'.tail
  else finishTail w.tail

/-- `Write`: feed the entries, then finish -/
def addAll (w : TW K V) : List (K × V) → Except WErr (TW K V)
  | [] => .ok w
  | (k, v) :: rest =>
    match addEntry w k v with
    | .error e => .error e
    | .ok w' => addAll w' rest

def write (es : List (K × V)) : Except WErr (Option (NTree K V)) :=
  match addAll TW.init es with
  | .error e => .error e
  | .ok w => finish w

/-! ## readers (streaming.go, memory.go) -/

inductive LookupRes (V : Type) where
  | found (v : V)
  | notFound            -- ErrKeyNotFound
  | tooDeep             -- MalformedFileError "tree nesting depth exceeded"
  deriving Repr

variable [DecidableEq K]

/-- the linear search through a leaf's key/value pairs -/
def lookupEntries (key : K) : List (K × V) → LookupRes V
  | [] => .notFound
  | (k, v) :: rest => if k = key then .found v else lookupEntries key rest

mutual
/-- `FromFile.lookupInNode` -/
def lookupNode (maxDepth : Nat) (key : K) : NTree K V → Nat → LookupRes V
  | .leaf es _, depth => if depth ≥ maxDepth then .tooDeep else lookupEntries key es
  | .inner kids _, depth => if depth ≥ maxDepth then .tooDeep else lookupKids maxDepth key kids depth
/-- the loop over `/Kids`: the first kid whose `/Limits` contain the key decides -/
def lookupKids (maxDepth : Nat) (key : K) : List (NTree K V) → Nat → LookupRes V
  | [], _ => .notFound
  | kid :: rest, depth =>
    match kid.limits with
    | none => lookupKids maxDepth key rest depth
    | some (lo, hi) =>
      if kle lo key && kle key hi then lookupNode maxDepth key kid (depth + 1)
      else lookupKids maxDepth key rest depth
end

/-- `FromFile.Lookup` -/
def lookup (maxDepth : Nat) (root : Option (NTree K V)) (key : K) : LookupRes V :=
  match root with
  | none => .notFound           -- `ExtractFromFile(r, nil)` is a nil tree
  | some t => lookupNode maxDepth key t 0

mutual
/-- `FromFile.yieldFromNode`: subtrees below the depth cap are silently skipped -/
def allNode (maxDepth : Nat) : NTree K V → Nat → List (K × V)
  | .leaf es _, depth => if depth ≥ maxDepth then [] else es
  | .inner kids _, depth => if depth ≥ maxDepth then [] else allKids maxDepth kids depth
def allKids (maxDepth : Nat) : List (NTree K V) → Nat → List (K × V)
  | [], _ => []
  | kid :: rest, depth => allNode maxDepth kid (depth + 1) ++ allKids maxDepth rest depth
end

/-- `FromFile.All` -/
def all (maxDepth : Nat) (root : Option (NTree K V)) : List (K × V) :=
  match root with
  | none => []
  | some t => allNode maxDepth t 0

/-- Go map assignment `data[key] = v` on an association list with unique keys -/
def mapSet (key : K) (v : V) : List (K × V) → List (K × V)
  | [] => [(key, v)]
  | (k, x) :: rest => if k = key then (k, v) :: rest else (k, x) :: mapSet key v rest

/-- Go `delete(data, key)` -/
def mapDel (key : K) : List (K × V) → List (K × V)
  | [] => []
  | (k, x) :: rest => if k = key then rest else (k, x) :: mapDel key rest

def mapGet (key : K) : List (K × V) → Option V
  | [] => none
  | (k, x) :: rest => if k = key then some x else mapGet key rest

/-- `extractFromNode` visits the same entries in the same order as `yieldFromNode` and assigns
    them to the map one by one -/
def extractInMemory (maxDepth : Nat) (root : Option (NTree K V)) : List (K × V) :=
  (all maxDepth root).foldl (fun m e => mapSet e.1 e.2 m) []

/-- `InMemory.Lookup` -/
def memLookup (m : List (K × V)) (key : K) : LookupRes V :=
  match mapGet key m with
  | some v => .found v
  | none => .notFound

/-- `slices.Sort(keys)` then look the values up: insertion sort by key -/
def insertSorted (e : K × V) : List (K × V) → List (K × V)
  | [] => [e]
  | x :: rest => if KeyOrd.lt x.1 e.1 then x :: insertSorted e rest else e :: x :: rest

def sortByKey (m : List (K × V)) : List (K × V) := m.foldr insertSorted []

/-- `InMemory.All` -/
def memAll (m : List (K × V)) : List (K × V) := sortByKey m

end PdfVerif.TRSN

import PdfVerif.Basic
/-!
# The Writer's sink path: `bufio.Writer` over a sink that may fail (C19, `sink_fault`)

`writer.go` writes everything through `posWriter → bufio.Writer → sink`; `Writer.Close` ends with
`w.w.w.Flush()` and returns its error.  The model is Go's `bufio.Writer` (`Write`, `Flush`, the
sticky `err` field) over a sink given as *(call index, bytes offered) ↦ (bytes accepted, optional
error)*.  Go's standard library is trusted; the model is validated against the real
`bufio.Writer` by the correspondence lines `ROB sink`.
-/
namespace PdfVerif.ROB
open PdfVerif

/-- an `io.Writer`: the `k`-th `Write(p)` accepts `n ≤ len p` bytes and may fail -/
abbrev Sink := Nat → Bytes → Nat × Option Err

/-- `bufio.Writer`: buffered bytes (`buf[0:n]`), sticky error, bookkeeping of the sink -/
structure BW where
  size : Nat            -- len(b.buf)
  buf : Bytes           -- b.buf[0:b.n]
  err : Option Err      -- b.err
  calls : Nat           -- Write calls made on the sink
  out : Bytes           -- bytes the sink has accepted
  failed : Bool         -- ghost: some sink call returned an error or wrote short (not Go state)
  deriving Repr

def BW.new (size : Nat) : BW := ⟨size, [], none, 0, [], false⟩

/-- `(*Writer).Flush` -/
def BW.flush (sink : Sink) (b : BW) : BW × Option Err :=
  match b.err with
  | some e => (b, some e)
  | none =>
    if b.buf.length = 0 then (b, none)
    else
      let r := sink b.calls b.buf
      let n := min r.1 b.buf.length
      let err := match r.2 with
        | some e => some e
        | none => if n < b.buf.length then some .other else none   -- io.ErrShortWrite
      let b1 := { b with calls := b.calls + 1, out := b.out ++ b.buf.take n, failed := b.failed || err.isSome }
      match err with
      | some e => ({ b1 with buf := b.buf.drop n, err := some e }, some e)
      | none => ({ b1 with buf := [] }, none)

/-- `(*Writer).Write`; the fuel bounds the loop `for len(p) > b.Available() && b.err == nil` -/
def BW.write (sink : Sink) : (fuel : Nat) → BW → Bytes → BW × Option Err
  | 0, b, _ => (b, some .other)
  | fuel+1, b, p =>
    match b.err with
    | some e => (b, some e)
    | none =>
      if p.length > b.size - b.buf.length then
        if b.buf.length = 0 then
          -- large write, empty buffer: write directly from p to avoid the copy
          let r := sink b.calls p
          let n := min r.1 p.length
          let b1 := { b with calls := b.calls + 1, out := b.out ++ p.take n, err := r.2,
                             failed := b.failed || r.2.isSome }
          BW.write sink fuel b1 (p.drop n)
        else
          let n := b.size - b.buf.length
          let (b1, _) := BW.flush sink { b with buf := b.buf ++ p.take n }
          BW.write sink fuel b1 (p.drop n)
      else ({ b with buf := b.buf ++ p }, none)

/-- a Writer session as far as the sink is concerned: a list of `Write` calls, then the final
    `Flush` of `Writer.Close`; returns the error of every call and of the flush -/
def session (sink : Sink) (fuel : Nat) : BW → List Bytes → List (Option Err) × (BW × Option Err)
  | b, [] => ([], BW.flush sink b)
  | b, p :: ps =>
    let (b1, e) := BW.write sink fuel b p
    let (es, fin) := session sink fuel b1 ps
    (e :: es, fin)

/-! ### a sink used directly

`pdf.NewWriter` does not put its own `bufio.Writer` in front of a sink that has a method
`Flush() error` (interface `writeFlusher` in `writer.go`).  Then nothing is sticky: the Writer is a
sequence of sink calls, and what it reports depends on which results it looks at. -/

/-- a Writer session over a directly used sink: the calls `ps` are made in order, call `k` being
    the `k`-th call of the sink; `checked k` says whether the code looks at the error of call `k`
    (and returns it, ending the session).  Result: the error the Writer reports, and whether some
    call that was made has failed. -/
def directSession (sink : Sink) (checked : Nat → Bool) : Nat → List Bytes → Option Err × Bool
  | _, [] => (none, false)
  | k, p :: ps =>
    match (sink k p).2 with
    | some e =>
      if checked k then (some e, true)
      else ((directSession sink checked (k + 1) ps).1, true)
    | none => directSession sink checked (k + 1) ps

end PdfVerif.ROB

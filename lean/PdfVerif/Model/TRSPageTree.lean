import PdfVerif.Basic
import PdfVerif.Generated.FactsTRS
/-!
Page tree writer: model of `pagetree/{writer,subtree,future}.go`.

* `PTree` is the object graph that ends up in the file (`/Page` leaves, `/Pages` nodes with
  `/Kids`, `/Count`, `/Parent` and the inheritable attributes).  References are abstract
  identifiers: page identifiers come with the operation, `/Pages` identifiers from the
  allocation counter `G.alloc` (`w.Out.Alloc()`).
* Attribute values are represented by the byte string the code compares them by
  (`pdf.Format(val)` for MediaBox/CropBox/AA, `pdf.AsString(val)` for Rotate).
* `PW` is a `Writer` with its `children` (sub-ranges, and the `before` writers that `NewRange`
  splits off), its `tail`, the `futureInt` it counts pages with and its callback lists.
* Go iterates over a `map[string]int` when it picks the value to hoist (`inheritKey`,
  `inheritRotate`), so on ties the choice is not determined by the program.  The model takes
  the choice from a list of hints (one per `mergeNodes` call); a hint is used only when it
  names one of the values the code may pick.  Theorems quantify over all hint lists.
* Panics of the Go code are results here: `panicRange` (`mergeNodes`: "invalid subtree node
  range"), `panicIndex` (slice index out of range), `panicInv` (`checkInvariants`).
-/
namespace PdfVerif.TRSP

def maxDegree : Nat := Gen.pagetree_maxDegree

structure Attrs where
  mediaBox : Option Bytes := none
  cropBox : Option Bytes := none
  rotate : Option Bytes := none
  aa : Option Bytes := none
  deriving DecidableEq, Repr, Inhabited

inductive PTree where
  | page (id : Nat) (parent : Option Nat) (a : Attrs)
  | pages (id : Nat) (parent : Option Nat) (kids : List PTree) (count : Nat) (a : Attrs)
  deriving Repr, Inhabited

def PTree.attrs : PTree → Attrs
  | .page _ _ a => a
  | .pages _ _ _ _ a => a

def PTree.id : PTree → Nat
  | .page i _ _ => i
  | .pages i _ _ _ _ => i

/-- `node.dict["Parent"] = parentRef` and the attribute edits of `inherit` -/
def PTree.setTop (p : Nat) (a : Attrs) : PTree → PTree
  | .page i _ _ => .page i (some p) a
  | .pages i _ k c _ => .pages i (some p) k c a

/-- `nodeInfo` -/
structure PNode where
  tree : PTree
  count : Nat
  depth : Nat
  deriving Repr, Inhabited

inductive PErr where
  | closed        -- "page tree is closed"
  | noPages       -- "no pages in document"
  | panicRange | panicIndex | panicInv
  | fuel          -- a loop bound of the model was too small (never on reachable states)
  | dangling      -- a futureInt id outside the heap (never on reachable states)
  deriving DecidableEq, Repr

def PErr.toString : PErr → String
  | .closed => "closed" | .noPages => "nopages" | .panicRange => "panic-range"
  | .panicIndex => "panic-index" | .panicInv => "panic-inv" | .fuel => "fuel" | .dangling => "dangling"

/-! ## attribute hoisting (subtree.go: inherit, inheritKey, inheritRotate) -/

/-- number of occurrences -/
def countOf (r : Bytes) (rs : List Bytes) : Nat := (rs.filter (· == r)).length

/-- `diff` of `inheritKey`: file size change if `r` (used by `k` children) moves to the parent -/
def keyDiff (l : Nat) (r : Bytes) (k : Nat) : Int :=
  ((l + r.length : Nat) : Int) - (k : Int) * ((l + r.length : Nat) : Int)

def minInt : List Int → Option Int
  | [] => none
  | x :: xs => match minInt xs with
    | none => some x
    | some m => some (if x < m then x else m)

/-- pick `hint` if it is among the candidates, else the first candidate -/
def pickHint (hint : Option Bytes) (cands : List Bytes) : Option Bytes :=
  match hint with
  | some h => if cands.contains h then some h else cands.head?
  | none => cands.head?

def allSomeB : List (Option Bytes) → Option (List Bytes)
  | [] => some []
  | none :: _ => none
  | some x :: rest => match allSomeB rest with
    | none => none
    | some xs => some (x :: xs)

/-- `inheritKey(key, parentDict, childNodes)`; `l = len(key)+3`: the value that moves to the
    parent (`none`: nothing is inherited) -/
def inheritKeyChoice (l : Nat) (hint : Option Bytes) (vals : List (Option Bytes)) : Option Bytes :=
  match allSomeB vals with
  | none => none                         -- a child lacks the field: no inheritance
  | some reprs =>
    let diffs := reprs.map fun r => keyDiff l r (countOf r reprs)
    match minInt diffs with
    | none => none                       -- no children (bestRepr == "")
    | some m =>
      let cands := reprs.filter fun r => keyDiff l r (countOf r reprs) == m
      match pickHint hint cands with
      | none => none
      | some best => if best.isEmpty then none else some best   -- `if bestRepr == "" { return }`

/-- what `inheritKey` leaves in a child: `delete(child.dict, key)` where `repr[i] == bestRepr` -/
def childAfterKey (best : Option Bytes) (v : Option Bytes) : Option Bytes :=
  match best with
  | none => v
  | some b => if v == some b then none else v

def rotDefault : Bytes := [48]   -- pdf.AsString(pdf.Integer(0))

/-- `diff` of `inheritRotate` -/
def rotDiff (l : Nat) (r : Bytes) (k numDefault : Nat) : Int :=
  keyDiff l r k + ((numDefault * (l + rotDefault.length) : Nat) : Int)

/-- `repr[i]` of `inheritRotate`: a missing /Rotate counts as the default -/
def rotRepr (v : Option Bytes) : Bytes :=
  match v with
  | none => rotDefault
  | some r => r

/-- `inheritRotate(parentDict, childNodes)`: `bestRepr` and `numDefault` -/
def inheritRotateChoice (l : Nat) (hint : Option Bytes) (vals : List (Option Bytes)) : Bytes × Nat :=
  let reprs : List Bytes := vals.map rotRepr
  let numDefault := countOf rotDefault reprs
  let explicit : List Bytes := vals.filterMap id       -- the keys of `count`
  let nonDef := explicit.filter fun r => r != rotDefault
  let diffs := nonDef.map fun r => rotDiff l r (countOf r explicit) numDefault
  let best : Bytes :=
    match minInt diffs with
    | none => rotDefault
    | some m =>
      if m ≤ 0 then
        match pickHint hint (nonDef.filter fun r => rotDiff l r (countOf r explicit) numDefault == m) with
        | some b => b
        | none => rotDefault
      else rotDefault
  (best, numDefault)

/-- the parent's /Rotate -/
def parentRotate (best : Bytes) (numDefault : Nat) : Option Bytes :=
  if best == rotDefault then (if numDefault != 0 then some rotDefault else none) else some best

/-- what `inheritRotate` leaves in a child: explicit defaults are deleted in the first loop;
    if a non-default value moves to the parent, children with that value lose it and
    children that need the default get it explicitly -/
def childAfterRotate (best : Bytes) (v : Option Bytes) : Option Bytes :=
  let v1 := if v == some rotDefault then none else v
  if best == rotDefault then v1
  else if rotRepr v == best then none
  else if rotRepr v == rotDefault then some rotDefault
  else v1

/-- the value the implementation chose for each key of one `/Pages` node -/
structure Hint where
  mediaBox : Option Bytes := none
  cropBox : Option Bytes := none
  rotate : Option Bytes := none
  aa : Option Bytes := none
  deriving Repr, Inhabited

def lMediaBox : Nat := "MediaBox".length + 3
def lCropBox : Nat := "CropBox".length + 3
def lRotate : Nat := "Rotate".length + 3
def lAA : Nat := "AA".length + 3

/-- the decisions of one `inherit(parentDict, childNodes, v)` call -/
structure Choice where
  mediaBox : Option Bytes
  cropBox : Option Bytes
  rotBest : Bytes
  rotNumDefault : Nat
  aa : Option Bytes
  deriving Repr, Inhabited

/-- `inherit(parentDict, childNodes, v)`; `old` = version below PDF 1.3 -/
def inheritChoice (old : Bool) (hint : Hint) (kids : List Attrs) : Choice :=
  let rc := inheritRotateChoice lRotate hint.rotate (kids.map (·.rotate))
  { mediaBox := inheritKeyChoice lMediaBox hint.mediaBox (kids.map (·.mediaBox)),
    cropBox := inheritKeyChoice lCropBox hint.cropBox (kids.map (·.cropBox)),
    rotBest := rc.1, rotNumDefault := rc.2,
    aa := if old then inheritKeyChoice lAA hint.aa (kids.map (·.aa)) else none }

def parentAttrs (ch : Choice) : Attrs :=
  { mediaBox := ch.mediaBox, cropBox := ch.cropBox,
    rotate := parentRotate ch.rotBest ch.rotNumDefault, aa := ch.aa }

def childAttrs (ch : Choice) (a : Attrs) : Attrs :=
  { mediaBox := childAfterKey ch.mediaBox a.mediaBox, cropBox := childAfterKey ch.cropBox a.cropBox,
    rotate := childAfterRotate ch.rotBest a.rotate, aa := childAfterKey ch.aa a.aa }

/-! ## mergeNodes -/

/-- what `mergeNodes` needs from the surroundings: the allocation counter, the remaining
    hints, the file version -/
structure MCtx where
  alloc : Nat
  hints : List Hint
  old : Bool
  deriving Repr, Inhabited

def maxDepthOf : List PNode → Nat
  | [] => 0
  | n :: rest => max n.depth (maxDepthOf rest)

def sumCounts : List PNode → Nat
  | [] => 0
  | n :: rest => n.count + sumCounts rest

/-- the hint for this `mergeNodes` call; without one the model takes the first candidate -/
def nextHint (hs : List Hint) : Hint :=
  match hs with
  | [] => {}
  | h :: _ => h

/-- `mergeNodes(nodes, a, b)`: collapse nodes a, …, b-1 into a new internal node -/
def mergeNodes (nodes : List PNode) (a b : Nat) (c : MCtx) : Except PErr (List PNode × MCtx) :=
  if b > nodes.length ∨ b < a + 2 ∨ b > a + maxDegree then .error .panicRange
  else
    let childNodes := (nodes.drop a).take (b - a)
    let parentRef := c.alloc
    let hint := nextHint c.hints
    let ch := inheritChoice c.old hint (childNodes.map (·.tree.attrs))
    let pa := parentAttrs ch
    let kids := childNodes.map fun n => n.tree.setTop parentRef (childAttrs ch n.tree.attrs)
    let pageCount := sumCounts childNodes
    let parent : PNode :=
      { tree := .pages parentRef none kids pageCount pa, count := pageCount,
        depth := maxDepthOf childNodes + 1 }
    .ok (nodes.take a ++ parent :: nodes.drop b,
         { c with alloc := c.alloc + 1, hints := c.hints.drop 1 })

/-! ## the loops of AppendPage, merge and collapse -/

/-- AppendPage: `for { n := len(tail); if n < maxDegree || tail[n-1].depth != tail[n-maxDegree].depth
    { break }; tail = mergeNodes(tail, n-maxDegree, n) }` -/
def appendLoop : Nat → List PNode → MCtx → Except PErr (List PNode × MCtx)
  | 0, _, _ => .error .fuel
  | fuel + 1, tail, c =>
    let n := tail.length
    if n < maxDegree then .ok (tail, c)
    else
      match tail[n - 1]?, tail[n - maxDegree]? with
      | some x, some y =>
        if x.depth != y.depth then .ok (tail, c)
        else
          match mergeNodes tail (n - maxDegree) n c with
          | .error e => .error e
          | .ok (t', c') => appendLoop fuel t' c'
      | _, _ => .error .panicIndex

/-- `for start > 0 && a[start-1].depth == a[start].depth { start++ }` -/
def advanceStart (a : List PNode) : Nat → Nat → Except PErr Nat
  | 0, _ => .error .fuel
  | fuel + 1, start =>
    if start = 0 then .ok start
    else
      match a[start - 1]?, a[start]? with
      | some x, some y => if x.depth == y.depth then advanceStart a fuel (start + 1) else .ok start
      | _, _ => .error .panicIndex

/-- `for start > 0 && a[start-1].depth == d { start-- }` -/
def backStart (a : List PNode) (d : Nat) : Nat → Nat
  | 0 => 0
  | start + 1 =>
    match a[start]? with
    | some x => if x.depth == d then backStart a d start else start + 1
    | none => start + 1        -- not reachable: start ≤ len(a)

/-- `for end < len(a) && a[end].depth == d { end++ }` -/
def fwdEnd (a : List PNode) (d : Nat) : Nat → Nat → Nat
  | 0, stop => stop
  | fuel + 1, stop =>
    match a[stop]? with
    | some x => if x.depth == d then fwdEnd a d fuel (stop + 1) else stop
    | none => stop

/-- one step of `collapse` and of the first loop of `merge`: merge the trailing (at most
    `maxDegree`) nodes, not splitting a run of equal depth.
    (`irreducible` only keeps Lean's equation compiler from unfolding it when it processes the
    loops below; it is unfolded explicitly in the proofs.) -/
@[irreducible] def mergeTrailing (a : List PNode) (c : MCtx) : Except PErr (List PNode × MCtx) :=
  let start0 := a.length - maxDegree        -- max(len(a)-maxDegree, 0)
  match advanceStart a (a.length + 2) start0 with
  | .error e => .error e
  | .ok start => mergeNodes a start a.length c

/-- `collapse`: reduce the tail to (at most) one node -/
def collapse : Nat → List PNode → MCtx → Except PErr (List PNode × MCtx)
  | 0, _, _ => .error .fuel
  | fuel + 1, tail, c =>
    if tail.length ≤ 1 then .ok (tail, c)
    else
      match mergeTrailing tail c with
      | .error e => .error e
      | .ok (t', c') => collapse fuel t' c'

/-- first loop of `merge`: `for len(a) > 1 && a[len(a)-1].depth < nextDepth` -/
def mergeLoop1 : Nat → List PNode → Nat → MCtx → Except PErr (List PNode × MCtx)
  | 0, _, _, _ => .error .fuel
  | fuel + 1, a, nextDepth, c =>
    if a.length ≤ 1 then .ok (a, c)
    else
      match a[a.length - 1]? with
      | none => .error .panicIndex
      | some l =>
        if l.depth < nextDepth then
          match mergeTrailing a c with
          | .error e => .error e
          | .ok (a', c') => mergeLoop1 fuel a' nextDepth c'
        else .ok (a, c)

/-- inner loop of the last part of `merge`:
    `for end >= start+maxDegree { a = mergeNodes(a, start, start+maxDegree); start++; end -= maxDegree-1; changed = true }` -/
def mergeInner : Nat → List PNode → Nat → Nat → Bool → MCtx →
    Except PErr (List PNode × Nat × Nat × Bool × MCtx)
  | 0, _, _, _, _, _ => .error .fuel
  | fuel + 1, a, start, stop, changed, c =>
    if stop ≥ start + maxDegree then
      match mergeNodes a start (start + maxDegree) c with
      | .error e => .error e
      | .ok (a', c') => mergeInner fuel a' (start + 1) (stop - (maxDegree - 1)) true c'
    else .ok (a, start, stop, changed, c)

/-- `for depth := nextDepth; ; depth++ { … }` -/
def mergeDepthLoop : Nat → List PNode → Nat → Nat → Nat → Nat → MCtx → Except PErr (List PNode × MCtx)
  | 0, _, _, _, _, _, _ => .error .fuel
  | fuel + 1, a, start, stop, depth, prevDepth, c =>
    match mergeInner (a.length + 1) a start stop false c with
    | .error e => .error e
    | .ok (a', start', _, changed, c') =>
      -- `if depth > prevDepth && !changed || start == 0 { break }` (fix 3240063: a group of
      -- maxDegree nodes spanning two depths makes a node of depth prevDepth+1, so the level
      -- above prevDepth is examined, too)
      if (depth > prevDepth && !changed) || start' = 0 then .ok (a', c')
      else
        let stop'' := start'
        let start'' := backStart a' (depth + 1) start'
        mergeDepthLoop fuel a' start'' stop'' (depth + 1) prevDepth c'

/-- `if len(a) == 1 && a[0].depth < nextDepth { a[0].depth = nextDepth }` -/
def liftSingle (a : List PNode) (nextDepth : Nat) : List PNode :=
  match a with
  | [x] => if x.depth < nextDepth then [{ x with depth := nextDepth }] else [x]
  | _ => a

/-- the part of `merge` from `prevDepth := a[len(a)-1].depth` on -/
def mergeJoin (a b : List PNode) (nextDepth : Nat) (c : MCtx) : Except PErr (List PNode × MCtx) :=
  match a.getLast? with
  | none => .error .panicIndex
  | some l =>
    let prevDepth := l.depth
    let pos := a.length
    let a3 := a ++ b
    let start := backStart a3 prevDepth pos
    let stop := fwdEnd a3 nextDepth (a3.length + 1) (pos + 1)
    mergeDepthLoop (prevDepth + a3.length + 2) a3 start stop nextDepth prevDepth c

/-- `(w *Writer) merge(a, b)` -/
def merge (a b : List PNode) (c : MCtx) : Except PErr (List PNode × MCtx) :=
  match a, b with
  | [], _ => .ok (b, c)
  | _, [] => .ok (a, c)
  | _ :: _, b0 :: _ =>
    match mergeLoop1 (a.length + 1) a b0.depth c with
    | .error e => .error e
    | .ok (a1, c1) => mergeJoin (liftSingle a1 b0.depth) b b0.depth c1

/-! ## checkInvariants -/

/-- the depth sequence test of `checkInvariants`; `cur = (curDepth, numAtDepth)` -/
def depthsOK : Option (Nat × Nat) → List PNode → Bool
  | _, [] => true
  | none, n :: rest => depthsOK (some (n.depth, 1)) rest
  | some (cur, num), n :: rest =>
    if n.depth < cur then depthsOK (some (n.depth, 1)) rest
    else if n.depth > cur then false
    else if num + 1 > maxDegree then false
    else depthsOK (some (cur, num + 1)) rest

/-! ## futureInt (future.go) -/

/-- a callback: a user callback (logged) or the `Update` method of a futureInt -/
inductive FCb where
  | user (k : Nat)
  | update (f : Nat)
  deriving DecidableEq, Repr, Inhabited

structure Fut where
  val : Int
  numMissing : Int
  cb : List FCb
  deriving Repr, Inhabited

/-- the heap of futureInts and the log of user callback invocations `(callback, argument)` -/
structure Heap where
  futs : List Fut
  log : List (Nat × Int)
  deriving Repr, Inhabited

/-- `(f *futureInt) Update(n)` together with the callbacks it fires; fuel bounds the length of
    an `Update` chain (callbacks of a futureInt only update younger ones) -/
def updateFut : Nat → Nat → Int → Heap → Except PErr Heap
  | 0, _, _, _ => .error .fuel
  | fuel + 1, g, n, h =>
    match h.futs[g]? with
    | none => .error .dangling
    | some f =>
      let nm := f.numMissing - 1
      let val : Int := if n < 0 ∨ f.val < 0 then -1 else f.val + n
      if nm = 0 ∨ val < 0 then
        let h1 : Heap := { h with futs := h.futs.set g { val := val, numMissing := nm, cb := [] } }
        f.cb.foldl (fun acc cb =>
          match acc with
          | .error e => .error e
          | .ok h' =>
            match cb with
            | .user k => .ok { h' with log := h'.log ++ [(k, val)] }
            | .update g' => updateFut fuel g' val h') (.ok h1)
      else
        .ok { h with futs := h.futs.set g { f with val := val, numMissing := nm } }

/-- invoke one callback with argument `n` -/
def callCb (cb : FCb) (n : Int) (h : Heap) : Except PErr Heap :=
  match cb with
  | .user k => .ok { h with log := h.log ++ [(k, n)] }
  | .update g => updateFut (h.futs.length + 1) g n h

def callAll : List FCb → Int → Heap → Except PErr Heap
  | [], _, h => .ok h
  | cb :: rest, n, h =>
    match callCb cb n h with
    | .error e => .error e
    | .ok h' => callAll rest n h'

/-- `(f *futureInt) WhenAvailable(cb)` -/
def whenAvailable (f : Nat) (cb : FCb) (h : Heap) : Except PErr Heap :=
  match h.futs[f]? with
  | none => .error .dangling
  | some x =>
    if x.numMissing = 0 then callCb cb x.val h
    else .ok { h with futs := h.futs.set f { x with cb := x.cb ++ [cb] } }

def whenAvailableAll (f : Nat) : List FCb → Heap → Except PErr Heap
  | [], h => .ok h
  | cb :: rest, h =>
    match whenAvailable f cb h with
    | .error e => .error e
    | .ok h' => whenAvailableAll f rest h'

/-- `(f *futureInt) Inc()`: in place when nobody waits for `f`, else a new futureInt -/
def incFut (f : Nat) (h : Heap) : Except PErr (Nat × Heap) :=
  match h.futs[f]? with
  | none => .error .dangling
  | some x =>
    if x.cb.isEmpty then .ok (f, { h with futs := h.futs.set f { x with val := x.val + 1 } })
    else
      let res := h.futs.length
      let h1 : Heap := { h with futs := h.futs ++ [{ val := 1, numMissing := 1, cb := [] }] }
      match whenAvailable f (.update res) h1 with
      | .error e => .error e
      | .ok h2 => .ok (res, h2)

/-! ## Writer -/

/-- `Writer` (the fields that matter for the tree and the callbacks) -/
inductive PW where
  | mk (isBefore closed : Bool) (children : List PW) (tail : List PNode)
       (npn : Option Nat) (npnCb : List FCb) (numPagesCb : List FCb)
  deriving Repr, Inhabited

def PW.isBefore : PW → Bool | .mk b _ _ _ _ _ _ => b
def PW.closed : PW → Bool | .mk _ c _ _ _ _ _ => c
def PW.children : PW → List PW | .mk _ _ ch _ _ _ _ => ch
def PW.tail : PW → List PNode | .mk _ _ _ t _ _ _ => t
def PW.npn : PW → Option Nat | .mk _ _ _ _ n _ _ => n
def PW.npnCb : PW → List FCb | .mk _ _ _ _ _ cb _ => cb
def PW.numPagesCb : PW → List FCb | .mk _ _ _ _ _ _ cb => cb

/-- everything outside the writer tree -/
structure G where
  heap : Heap
  ctx : MCtx
  deriving Repr, Inhabited

mutual
/-- the depth part of `checkInvariants`, recursively over the children -/
def PW.invOK : PW → Bool
  | .mk _ _ children tail _ _ _ => invOKList children && depthsOK none tail
def invOKList : List PW → Bool
  | [] => true
  | c :: rest => c.invOK && invOKList rest
end

/-- the common part of AppendPage/AppendPageRef/AppendPageDict on the writer itself -/
def appendHere (id : Nat) (attrs : Attrs) (w : PW) (g : G) : Except PErr (PW × G) :=
  match w with
  | .mk isB closed children tail npn npnCb numPagesCb =>
    if closed then .error .closed
    else
      let node : PNode := { tree := .page id none attrs, count := 1, depth := 0 }
      let tail1 := tail ++ [node]
      match npn with
      | none => .error .dangling          -- a `before` writer is never appended to
      | some f =>
        match whenAvailableAll f npnCb g.heap with
        | .error e => .error e
        | .ok h1 =>
          match incFut f h1 with
          | .error e => .error e
          | .ok (f', h2) =>
            match appendLoop (tail1.length + 1) tail1 g.ctx with
            | .error e => .error e
            | .ok (tail2, ctx2) =>
              let w' := PW.mk isB closed children tail2 (some f') [] numPagesCb
              if w'.invOK then .ok (w', { heap := h2, ctx := ctx2 }) else .error .panicInv

/-- `NewRange` on the writer itself; the new sub-range is the last child -/
def newRangeHere (w : PW) (g : G) : Except PErr (PW × G) :=
  match w with
  | .mk isB closed children tail npn npnCb numPagesCb =>
    if closed then .error .closed
    else
      let children1 := if tail.length > 0 then children ++ [PW.mk true false [] tail none [] []] else children
      match npn with
      | none => .error .dangling
      | some f =>
        let gid := g.heap.futs.length
        let h1 : Heap := { g.heap with futs := g.heap.futs ++ [{ val := 0, numMissing := 2, cb := [] }] }
        match whenAvailable f (.update gid) h1 with
        | .error e => .error e
        | .ok h2 =>
          let sub := PW.mk false false [] [] (some f) [] [.update gid]
          .ok (PW.mk isB closed (children1 ++ [sub]) [] (some gid) npnCb numPagesCb, { g with heap := h2 })

/-- `NextPageNumber(cb)` on the writer itself -/
def nextPageNumberHere (k : Nat) (w : PW) (g : G) : Except PErr (PW × G) :=
  match w with
  | .mk isB closed children tail npn npnCb numPagesCb =>
    if closed then
      .ok (w, { g with heap := { g.heap with log := g.heap.log ++ [(k, -1)] } })
    else .ok (PW.mk isB closed children tail npn (npnCb ++ [.user k]) numPagesCb, g)

mutual
/-- `Close` up to and including the callbacks (the part shared by root and sub-ranges) -/
def PW.close : PW → G → Except PErr (PW × G)
  | .mk isB closed children tail npn npnCb numPagesCb, g =>
    if closed then .error .closed
    else
      match closeChildren children [] g with
      | .error e => .error e
      | .ok (nodes, g1) =>
        match merge nodes tail g1.ctx with
        | .error e => .error e
        | .ok (tail1, ctx2) =>
          if !depthsOK none tail1 then .error .panicInv
          else
            match callAll numPagesCb (sumCounts tail1 : Nat) g1.heap with
            | .error e => .error e
            | .ok h2 =>
              match callAll npnCb (-1) h2 with
              | .error e => .error e
              | .ok h3 =>
                .ok (PW.mk isB true [] tail1 npn [] numPagesCb, { heap := h3, ctx := ctx2 })
/-- `for _, child := range w.children { if !child.isClosed { child.Close() }; nodes = merge(nodes, child.tail) }` -/
def closeChildren : List PW → List PNode → G → Except PErr (List PNode × G)
  | [], nodes, g => .ok (nodes, g)
  | child :: rest, nodes, g =>
    if child.closed then
      match merge nodes child.tail g.ctx with
      | .error e => .error e
      | .ok (nodes', ctx') => closeChildren rest nodes' { g with ctx := ctx' }
    else
      match child.close g with
      | .error e => .error e
      | .ok (child', g1) =>
        match merge nodes child'.tail g1.ctx with
        | .error e => .error e
        | .ok (nodes', ctx') => closeChildren rest nodes' { g1 with ctx := ctx' }
end

/-- `wrapIfLeaf`: the root node cannot be a leaf -/
def wrapIfLeaf (n : PNode) (c : MCtx) : PTree × MCtx :=
  match n.tree with
  | .pages .. => (n.tree, c)
  | .page id _ a =>
    (.pages c.alloc none [.page id (some c.alloc) a] 1 {}, { c with alloc := c.alloc + 1 })

/-- `Close` of the root writer: the page tree that is written; `none` is the error "no pages
    in document" (the writer is closed all the same and the callbacks have fired) -/
def closeRoot (w : PW) (g : G) : Except PErr (PW × G × Option PTree) :=
  match w.close g with
  | .error e => .error e
  | .ok (w1, g1) =>
    match collapse (w1.tail.length + 1) w1.tail g1.ctx with
    | .error e => .error e
    | .ok (tail, ctx2) =>
      match w1 with
      | .mk isB cl ch _ npn cb np =>
        match tail with
        | [] => .ok (PW.mk isB cl ch [] npn cb np, { g1 with ctx := ctx2 }, none)
        | rootNode :: _ =>
          let (t, ctx3) := wrapIfLeaf rootNode ctx2
          .ok (PW.mk isB cl ch [] npn cb np, { g1 with ctx := ctx3 }, some t)

/-! ## addressing writers: a path selects, at each level, the i-th sub-range (the `before`
    writers split off by `NewRange` are not addressable: the caller never gets hold of them) -/

/-- position in `children` of the `i`-th child that is not a `before` writer -/
def subIndex : List PW → Nat → Option Nat
  | [], _ => none
  | c :: rest, i =>
    if c.isBefore then (subIndex rest i).map (· + 1)
    else match i with
      | 0 => some 0
      | i + 1 => (subIndex rest i).map (· + 1)

/-- number of addressable sub-ranges -/
def numSubs (children : List PW) : Nat := (children.filter (!·.isBefore)).length

/-- apply `f` to the writer at `path`; a path that no longer leads anywhere belongs to a
    writer below a closed one, which is closed itself -/
def PW.updateAt (f : PW → G → Except PErr (PW × G)) : List Nat → PW → G → Except PErr (PW × G)
  | [], w, g => f w g
  | i :: rest, .mk isB closed children tail npn npnCb numPagesCb, g =>
    match subIndex children i with
    | none => .error .closed
    | some j =>
      match children[j]? with
      | none => .error .closed
      | some child =>
        match PW.updateAt f rest child g with
        | .error e => .error e
        | .ok (child', g') => .ok (.mk isB closed (children.set j child') tail npn npnCb numPagesCb, g')

def PW.getAt : List Nat → PW → Option PW
  | [], w => some w
  | i :: rest, w =>
    match subIndex w.children i with
    | none => none
    | some j =>
      match w.children[j]? with
      | none => none
      | some child => PW.getAt rest child

/-! ## programs -/

inductive POp where
  | append (path : List Nat) (id : Nat) (attrs : Attrs)
  | newRange (path : List Nat)
  | close (path : List Nat)           -- a sub-range (non-empty path) or the root (empty path)
  | nextPageNumber (path : List Nat) (k : Nat)
  deriving Repr

structure PState where
  root : PW
  g : G
  result : Option PTree        -- set by a successful Close of the root
  deriving Repr, Inhabited

def PState.init (old : Bool) (hints : List Hint) : PState :=
  { root := PW.mk false false [] [] (some 0) [] [],
    g := { heap := { futs := [{ val := 0, numMissing := 0, cb := [] }], log := [] },
           ctx := { alloc := 0, hints := hints, old := old } },
    result := none }

/-- what the caller sees: success, or one of the two errors the Go methods return -/
inductive Outcome where
  | ok | closed | noPages
  deriving DecidableEq, Repr

def Outcome.toString : Outcome → String
  | .ok => "ok" | .closed => "closed" | .noPages => "nopages"

def logCb (s : PState) (k : Nat) (n : Int) : PState :=
  { s with g := { s.g with heap := { s.g.heap with log := s.g.heap.log ++ [(k, n)] } } }

/-- one operation.  `closed` leaves the state as it is (the Go methods test `isClosed` first);
    `.error` is a panic of the Go code (or an exhausted loop bound of the model), after which
    the run is over. -/
def step (s : PState) : POp → Except PErr (PState × Outcome)
  | .append path id attrs =>
    match s.root.updateAt (appendHere id attrs) path s.g with
    | .error .closed => .ok (s, .closed)
    | .error e => .error e
    | .ok (r, g) => .ok ({ s with root := r, g := g }, .ok)
  | .newRange path =>
    match s.root.updateAt newRangeHere path s.g with
    | .error .closed => .ok (s, .closed)
    | .error e => .error e
    | .ok (r, g) => .ok ({ s with root := r, g := g }, .ok)
  | .nextPageNumber path k =>
    match s.root.updateAt (nextPageNumberHere k) path s.g with
    | .error .closed => .ok (logCb s k (-1), .ok)   -- a writer below a closed one is closed: `cb(-1)`
    | .error e => .error e
    | .ok (r, g) => .ok ({ s with root := r, g := g }, .ok)
  | .close [] =>
    match closeRoot s.root s.g with
    | .error .closed => .ok (s, .closed)
    | .error e => .error e
    | .ok (r, g, some t) => .ok ({ root := r, g := g, result := some t }, .ok)
    | .ok (r, g, none) => .ok ({ s with root := r, g := g }, .noPages)
  | .close path =>
    match s.root.updateAt PW.close path s.g with
    | .error .closed => .ok (s, .closed)
    | .error e => .error e
    | .ok (r, g) => .ok ({ s with root := r, g := g }, .ok)

/-- run a program; the outcomes of the operations in order -/
def run : PState → List POp → Except PErr (PState × List Outcome)
  | s, [] => .ok (s, [])
  | s, op :: rest =>
    match step s op with
    | .error e => .error e
    | .ok (s', o) =>
      match run s' rest with
      | .error e => .error e
      | .ok (s'', os) => .ok (s'', o :: os)

end PdfVerif.TRSP

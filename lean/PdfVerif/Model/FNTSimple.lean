import PdfVerif.Model.FNTMap
import PdfVerif.Model.FNTConsts
/-!
# Model of `font/encoding/simpleenc/simple.go`

The allocation state machine of a simple font: `code : (gid,text) ↦ byte`,
`info : byte ↦ (gid,width,text)`, the glyph-name tables, and the sticky overflow error.

* `Simple.encodeAt` is `(*Simple).Encode` with the chosen code as a parameter (the theorems
  quantify over every choice of a free code).
* `chooseCode` is the score heuristic of `Encode` exactly (used by the correspondence).
* `makeGlyphName` mirrors the naming loop; `names.IsValid` (third-party) is transcribed as
  `isValidName`, `names.FromUnicode(text)` and the first rune `r` used by the score are
  inputs of the operation (external code as parameters, DESIGN 2.3).

Widths are `Int` (the embedders round to integers; the correspondence uses integers), text and
glyph names are byte strings.
-/
namespace PdfVerif.FNT

structure Info where
  gid : Nat
  width : Int
  text : Bytes
  deriving DecidableEq, Repr, Inhabited

abbrev Key := Nat × Bytes

structure Simple where
  code : Map Key Nat := []
  info : Map Nat Info := []
  notdefWidth : Int := 0
  glyphName : Map Nat Bytes := []
  glyphNameUsed : Map Bytes Bool := []
  err : Bool := false
  deriving Repr, Inhabited

def nameNotdef : Bytes := [46, 110, 111, 116, 100, 101, 102]   -- ".notdef"
def nameSpace : Bytes := [115, 112, 97, 99, 101]               -- "space"

/-- `NewSimple` -/
def Simple.init (notdefWidth : Int) : Simple :=
  { notdefWidth := notdefWidth
    glyphName := [(0, nameNotdef)]
    glyphNameUsed := [(nameNotdef, true)] }

/-! ### glyph names -/

def nameChar (c : Nat) : Bool :=
  (65 ≤ c && c ≤ 90) || (97 ≤ c && c ≤ 122) || (48 ≤ c && c ≤ 57) || c == 46 || c == 95

/-- transcription of `names.IsValid` (seehuhn.de/go/postscript, external; sampled by the
    correspondence line `FNT namevalid`) -/
def isValidName (s : Bytes) : Bool :=
  if s == nameNotdef then true
  else if s.length < 1 || s.length > K.maxNameLen then false
  else match s with
    | [] => false
    | c :: _ => if (48 ≤ c && c ≤ 57) || c == 46 then false else s.all nameChar

/-- Go: `glyphNameUsed[name]` (absent ↦ false) -/
def Simple.nameUsed (used : Map Bytes Bool) (n : Bytes) : Bool :=
  match used.get n with
  | some b => b
  | none => false

/-- decimal digits of `n` (`%d`), most significant first; fuel `n + 1` always suffices -/
def decAux : Nat → Nat → Bytes
  | 0, _ => []
  | fuel + 1, n => if n < 10 then [48 + n] else decAux fuel (n / 10) ++ [48 + n % 10]

def dec (n : Nat) : Bytes := decAux (n + 1) n

/-- `%03d` -/
def pad3 (n : Nat) : Bytes :=
  List.replicate (3 - (dec n).length) 48 ++ dec n

/-- `fmt.Sprintf("orn%03d", idx)` -/
def ornName (idx : Nat) : Bytes := [111, 114, 110] ++ pad3 idx

/-- `fmt.Sprintf("%s.alt%d", base, alt)` -/
def altName (base : Bytes) (alt : Nat) : Bytes := base ++ [46, 97, 108, 116] ++ dec alt

/-- inner loop `for idx := len(used); idx >= 0; idx--`: first unused `ornNNN`, counting down;
    `none` when the loop runs to its end (then Go leaves `glyphName = "orn000"`) -/
def ornSearch (used : Map Bytes Bool) : Nat → Option Bytes
  | 0 => if Simple.nameUsed used (ornName 0) then none else some (ornName 0)
  | idx + 1 =>
    if Simple.nameUsed used (ornName (idx + 1)) then ornSearch used idx else some (ornName (idx + 1))

/-- the `nameLoop` of `makeGlyphName` (state: base, glyphName, alt); `none` = fuel exhausted.
    After a new candidate `base.altN` has been formed, an invalid candidate clears `base`, so that
    the next round falls back to the generic `ornNNN` names (fix 2fa3edb). -/
def nameLoop (used : Map Bytes Bool) : Nat → Bytes → Bytes → Nat → Option Bytes
  | 0, _, _, _ => none
  | fuel + 1, base, glyphName, alt =>
    if !isValidName glyphName || Simple.nameUsed used glyphName then
      let next := altName base (alt + 1)
      let base' := if isValidName next then base else []
      if base.length == 0 || glyphName.length > K.maxNameLen then
        match ornSearch used used.size with
        | some n => some n
        | none => nameLoop used fuel base' next (alt + 1)
      else
        nameLoop used fuel base' next (alt + 1)
    else some glyphName

/-- legitimate inputs end the loop after at most `len(glyphNameUsed) + 2 ≤ 259` rounds -/
def nameFuel : Nat := 1024

/-- the name the loop starts from: the font's name for the glyph if valid, else the AGL name of the text -/
def startName (defaultName fromUni : Bytes) : Bytes :=
  if isValidName defaultName then defaultName else fromUni

/-- `(*Simple).makeGlyphName`; `fromUni` is `names.FromUnicode(text)` -/
def Simple.makeGlyphName (s : Simple) (gid : Nat) (defaultName fromUni : Bytes) : Option (Simple × Bytes) :=
  match s.glyphName.get gid with
  | some n => some (s, n)
  | none =>
    match nameLoop s.glyphNameUsed nameFuel (startName defaultName fromUni) (startName defaultName fromUni) 0 with
    | none => none
    | some n =>
      some ({ s with glyphName := s.glyphName.insert gid n
                     glyphNameUsed := s.glyphNameUsed.insert n true }, n)

/-! ### choice of the code -/

/-- `bits.TrailingZeros16(x)` for `x < 65536` -/
def tz16Aux : Nat → Nat → Nat
  | 0, _ => 0
  | fuel + 1, x => if x % 2 == 1 then 0 else 1 + tz16Aux fuel (x / 2)

def tz16 (x : Nat) : Nat :=
  let y := x % 65536
  if y == 0 then 16 else tz16Aux 16 y

structure Best where
  score : Int := -1
  code : Nat := 0
  done : Bool := false
  deriving Repr

/-- the score of a free code whose base-encoding name differs from the glyph name -/
def codeScore (base : Nat → Bytes) (glyphName : Bytes) (r : Nat) (code : Nat) : Nat :=
  let stdName := base code
  let s0 : Nat :=
    if stdName == nameNotdef || stdName == [] then K.scoreUnused
    else if !(code == K.spaceCode && glyphName != nameSpace) then K.scoreOther
    else 0
  s0 + tz16 (Nat.xor (r % 65536) code)

/-- one iteration of `for codeInt := range 256` in `Encode` -/
def scoreStep (base : Nat → Bytes) (glyphName : Bytes) (r : Nat) (used : Nat → Bool)
    (b : Best) (code : Nat) : Best :=
  if b.done then b
  else if used code then b
  else if base code == glyphName then { b with code := code, done := true }
  else if ((codeScore base glyphName r code : Nat) : Int) > b.score then
    { b with score := ((codeScore base glyphName r code : Nat) : Int), code := code }
  else b

/-- the code `Encode` picks: exact heuristic -/
def chooseCode (base : Nat → Bytes) (glyphName : Bytes) (r : Nat) (used : Nat → Bool) : Nat :=
  ((List.range K.simpleMaxCodes).foldl (scoreStep base glyphName r used) {}).code

/-! ### Encode / GetCode / Codes -/

inductive EncRes where
  | ok (c : Nat)
  | dup
  | overflow
  deriving DecidableEq, Repr

/-- `Encode` after the glyph name has been made, with the picked code as parameter -/
def Simple.encodeAt (s : Simple) (gid : Nat) (text : Bytes) (width : Int) (pick : Nat) : Simple × EncRes :=
  if (s.code.get (gid, text)).isSome then (s, .dup)
  else if s.info.size ≥ K.simpleMaxCodes then ({ s with err := true }, .overflow)
  else
    ({ s with info := s.info.insert pick ⟨gid, width, text⟩
              code := s.code.insert (gid, text) pick }, .ok pick)

structure EncArgs where
  gid : Nat
  baseName : Bytes     -- baseGlyphName argument
  fromUni : Bytes      -- names.FromUnicode(text)                       (external)
  r : Nat              -- first rune of names.ToUnicode(name) / NFD(text) (external)
  text : Bytes
  width : Int
  deriving Repr

/-- `(*Simple).Encode`, exact.  Returns the glyph name that was made (`none` when the early
    exits are taken before `makeGlyphName` or the naming loop ran out of fuel). -/
def Simple.encode (base : Nat → Bytes) (s : Simple) (a : EncArgs) : Simple × EncRes × Option Bytes :=
  if (s.code.get (a.gid, a.text)).isSome then (s, .dup, none)
  else if s.info.size ≥ K.simpleMaxCodes then ({ s with err := true }, .overflow, none)
  else
    match s.makeGlyphName a.gid a.baseName a.fromUni with
    | none => (s, .overflow, none)   -- never taken from a reachable state (Props: encode_names_total)
    | some (s1, name) =>
      let pick := chooseCode base name a.r (fun c => s1.info.contains c)
      let (s2, res) := s1.encodeAt a.gid a.text a.width pick
      (s2, res, some name)

def Simple.getCode (s : Simple) (gid : Nat) (text : Bytes) : Option Nat := s.code.get (gid, text)

/-- `(*Simple).get` -/
def Simple.getInfo (s : Simple) (c : Nat) : Info :=
  match s.info.get c with
  | some i => i
  | none => ⟨0, s.notdefWidth, []⟩

/-- one element of `Codes`: CID, width (glyph space units, i.e. ×1000 of `font.Code.Width`),
    text, UseWordSpacing -/
structure CodeOut where
  cid : Nat
  width : Int
  text : Bytes
  ws : Bool
  deriving DecidableEq, Repr

def Simple.codeOut (s : Simple) (c : Nat) : CodeOut :=
  let i := s.getInfo c
  { cid := if i.gid == 0 then 0 else c + 1, width := i.width, text := i.text, ws := c == K.spaceCode }

/-- `(*Simple).Codes` -/
def Simple.codes (s : Simple) (str : Bytes) : List CodeOut := str.map s.codeOut

def Simple.width (s : Simple) (c : Nat) : Int := (s.getInfo c).width

def Simple.codesRemaining (s : Simple) : Nat := K.simpleMaxCodes - s.info.size

/-- `(*Simple).DefaultWidth` -/
def Simple.defaultWidth (s : Simple) : Int :=
  let w1 := s.width 0
  let n1 := 1 + ((List.range' 1 255).takeWhile (fun c => s.width c == w1)).length
  let w2 := s.width 255
  let n2 := 1 + ((List.range 255).reverse.takeWhile (fun c => s.width c == w2)).length
  if max n1 n2 == 1 && w1 != w2 then 0
  else if n1 ≥ n2 then w1
  else w2

/-- `(*Simple).Encoding()` : code ↦ glyph name ("" when unmapped) -/
def Simple.encodingName (s : Simple) (c : Nat) : Bytes :=
  match s.info.get c with
  | none => []
  | some i => match s.glyphName.get i.gid with
    | some n => n
    | none => []

end PdfVerif.FNT

import PdfVerif.Model.ROBScanBuf
/-!
# The object parser of `scanner.go` over the buffer state machine

`Model/Scan.lean` is the parser on the whole remaining input; `Model/ROBScanBuf.lean` is the
1024-byte window with `refill`.  This file is the parser as `scanner.go` really runs it: every
function works on the buffer state `SB` through the window operations only — `PeekN(5)` in
`ReadObject`, `PeekN(1)` in the loops of `ReadName`, `ReadArray`, `ReadDict` and in the octal
escape of `ReadString`, `tryHex`'s `PeekN(3)`, `PeekN(6)` for the `stream` keyword, `ReadByte`,
`ScanBytes` with the acceptors of `ReadNumber`/`ReadInteger`/`ReadHexString`, `SkipString`,
`SkipWhiteSpace`, and the `s.pos++`/`s.pos += n` steps (`adv`).

Conventions
* a function returns the new state and `Except Err value`; the deferred error rewriting of
  `ReadArray`/`ReadDict` (`io.EOF` ↦ malformed, everything else keeps its class) is `mapErrB`;
* the mutual recursion takes the same `fuel`/`depth` arguments as `Model/Scan.lean`, so that the
  refinement theorem (`Props/C05robobj.lean`) holds fuel for fuel; the token loops (`ReadName`,
  `ReadString`) and `ScanBytes` take the fuel `sf` (any value ≥ input length + 2 is enough);
* an index expression or type assertion of the Go code that would panic sets `panicked`
  (`buf[0]` on an empty window in `ReadArray`/`ReadDict`, `array[k-1].(Integer)`); the refinement
  theorem shows that this never happens;
* as in `Model/Scan.lean` the scanner has no `fileReader`, no encryption and `scalarOnly = false`:
  a dictionary followed by `stream` enters `ReadStreamData` (`readStreamHeadBuf`), which ends with a
  malformed-file error on a fault-free reader;
* one simplification: `ReadHexString`'s flag `tooLong` is not a separate variable.  When `accept`
  refuses a digit because `len(res) >= maxStringBytes`, a digit is pending and the test
  `!first && len(res) >= maxStringBytes` that follows reports the same error class.
-/
namespace PdfVerif.ROB
open PdfVerif

/-- `s.pos += k` -/
def adv (k : Nat) (s : SB) : SB := { s with pos := s.pos + k }

/-- prepend a byte to a successful result -/
def consB (x : Nat) (r : SB × Except Err Bytes) : SB × Except Err Bytes :=
  (r.1, match r.2 with | .ok v => .ok (x :: v) | .error e => .error e)

/-- `err != nil && err != io.EOF` -/
def hardErr : Option Err → Option Err
  | some .eof => none
  | e => e

section
variable (src : Source) (sf : Nat)

/-- `tryHex`: `#` and two hex digits in the window → consume all three; a read error of the
    `PeekN(3)` is handed to `ReadName` (fix of finding ROB-7, library commit 325162a; `PeekN` reports no error at a true end of
    the input) -/
def tryHexBuf (s : SB) : SB × Except Err (Option Nat) :=
  let (s1, buf, err) := peekN src 3 s
  match err with
  | some e => (s1, .error e)
  | none =>
    match buf with
    | [_, h, l] =>
      match hexVal h, hexVal l with
      | some a, some b => (adv 3 s1, .ok (some (a * 16 + b)))
      | _, _ => (s1, .ok none)
    | _ => (s1, .ok none)

/-- the loop of `ReadName` (after the slash) -/
def readNameLoopBuf : Nat → Nat → SB → SB × Except Err Bytes
  | 0, _, s => (s, .ok [])
  | fuel+1, len, s =>
    let (s1, buf, err) := peekN src 1 s
    match hardErr err with
    | some e => (s1, .error e)
    | none =>
      match buf with
      | [] => (s1, .ok [])
      | b :: _ =>
        if b != 35 && !isRegular b then (s1, .ok [])
        else if len ≥ Gen.scanner_maxNameBytes then (s1, .error .malformed)
        else if b == 35 then
          match tryHexBuf src s1 with
          | (s2, .error e) => (s2, .error e)
          | (s2, .ok (some v)) => consB v (readNameLoopBuf fuel (len + 1) s2)
          | (s2, .ok none) => consB 35 (readNameLoopBuf fuel (len + 1) (adv 1 s2))
        else consB b (readNameLoopBuf fuel (len + 1) (adv 1 s1))

/-- `ReadName` -/
def readNameBuf (s : SB) : SB × Except Err Bytes :=
  let (s1, e) := skipString src [47] s
  match e with
  | some e => (s1, .error e)
  | none => readNameLoopBuf src sf 0 s1

/-- `ReadNumber` -/
def readNumberBuf (s : SB) : SB × Except Err Obj :=
  let (s1, st, e) := scanBytes src (numAcc true) sf true ⟨false, true, [], false⟩ s
  match hardErr e with
  | some e => (s1, .error e)
  | none =>
    if st.overflow then (s1, .error .malformed)
    else
      let tok := st.tok.reverse
      match (if st.hasDot then none else parseInt64 tok) with
      | some i => (s1, .ok (.int i))
      | none => if tok.any isDigit then (s1, .ok (.real tok)) else (s1, .error .malformed)

/-- the octal escape: `for range 2 { PeekN(1) … s.pos++ }` -/
def readOctTailBuf : Nat → Nat → SB → SB × Except Err Nat
  | oct, 0, s => (s, .ok oct)
  | oct, k+1, s =>
    let (s1, buf, err) := peekN src 1 s
    match hardErr err with
    | some e => (s1, .error e)
    | none =>
      match buf with
      | [] => (s1, .ok oct)
      | c :: _ => if isOct c then readOctTailBuf ((oct * 8 + (c - 48)) % 256) k (adv 1 s1) else (s1, .ok oct)

/-- the loop of `ReadString` (after the opening parenthesis) -/
def readStringLoopBuf : Nat → (level : Nat) → (ignoreLF : Bool) → (len : Nat) → SB → SB × Except Err Bytes
  | 0, _, _, _, s => (s, .error .other)
  | fuel+1, level, ignoreLF, len, s =>
    if len > Gen.scanner_maxStringBytes then (s, .error .malformed) else
    match readByte src s with
    | (s1, .error e) => (s1, .error e)
    | (s1, .ok b) =>
      if ignoreLF && b == 10 then readStringLoopBuf fuel level false len s1
      else if b == 40 then consB b (readStringLoopBuf fuel (level + 1) false (len + 1) s1)
      else if b == 41 then
        if level == 1 then (s1, .ok [])
        else consB b (readStringLoopBuf fuel (level - 1) false (len + 1) s1)
      else if b == 92 then
        match readByte src s1 with
        | (s2, .error e) => (s2, .error e)
        | (s2, .ok esc) =>
          let lit (x : Nat) : SB × Except Err Bytes := consB x (readStringLoopBuf fuel level false (len + 1) s2)
          if esc == 110 then lit 10
          else if esc == 114 then lit 13
          else if esc == 116 then lit 9
          else if esc == 98 then lit 8
          else if esc == 102 then lit 12
          else if esc == 10 then readStringLoopBuf fuel level false len s2
          else if esc == 13 then readStringLoopBuf fuel level true len s2
          else if isOct esc then
            match readOctTailBuf src (esc - 48) 2 s2 with
            | (s3, .error e) => (s3, .error e)
            | (s3, .ok v) => consB v (readStringLoopBuf fuel level false (len + 1) s3)
          else lit esc
      else if b == 13 then consB 10 (readStringLoopBuf fuel level true (len + 1) s1)
      else consB b (readStringLoopBuf fuel level false (len + 1) s1)

/-- `ReadString` -/
def readStringBuf (s : SB) : SB × Except Err Bytes := readStringLoopBuf src sf 1 false 0 s

/-- acceptor state of `ReadHexString`: the pending first digit (`!first` ⇔ `some`), the bytes so
    far in reverse -/
structure HexSt where
  pending : Option Nat
  res : Bytes

/-- the acceptor of `ReadHexString` -/
def hexAcc (st : HexSt) (b : Nat) : Option HexSt :=
  match hexVal b with
  | some d =>
    match st.pending with
    | none => some ⟨some d, st.res⟩
    | some h =>
      if st.res.length ≥ Gen.scanner_maxStringBytes then none    -- tooLong = true; return false
      else some ⟨none, (16 * h + d) :: st.res⟩
  | none => if b == 62 then none else some st

/-- `ReadHexString` (after the opening bracket) -/
def readHexStringBuf (s : SB) : SB × Except Err Bytes :=
  let (s1, st, e) := scanBytes src hexAcc sf true ⟨none, []⟩ s
  match e with
  | some e => (s1, .error e)
  | none =>
    match (match st.pending with
        | some h => if st.res.length ≥ Gen.scanner_maxStringBytes then none else some ((16 * h) :: st.res)
        | none => some st.res) with
    | none => (s1, .error .malformed)
    | some res =>
      let (s2, e2) := skipString src [62] s1
      match e2 with
      | some e => (s2, .error e)
      | none => (s2, .ok res.reverse)

/-- the part of `ReadStreamData` that runs on a scanner without a `fileReader` (the scanner the
    `ROB scan` lines drive): `SkipString("stream")`, `PeekN(2)` for the end of the keyword line, then
    the malformed-file error "cannot read stream data" (or "stream does not start with newline");
    the deferred function turns EOF into a malformed-file error and keeps every other error.
    (`getInt` on `/Length` has no effect on this path: the test scanner's `getInt` fails with
    malformed-file errors only, which `ReadStreamData` takes as "length unknown".) -/
def readStreamHeadBuf (s : SB) : SB × Except Err Obj :=
  let (s1, e1) := skipString src kw_stream s
  match e1 with
  | some e => (s1, .error e.inComposite)
  | none =>
    let (s2, _, e2) := peekN src 2 s1
    match e2 with
    | some e => (s2, .error e.inComposite)
    | none => (s2, .error .malformed)

/-- the deferred handlers of `ReadArray`/`ReadDict`: EOF becomes malformed -/
def mapErrB {α : Type} (r : SB × Except Err α) : SB × Except Err α :=
  (r.1, r.2.mapError Err.inComposite)

mutual
/-- `ReadObject` -/
def readObjectBuf : Nat → Nat → SB → SB × Except Err Obj
  | 0, _, s => (s, .error .other)
  | fuel+1, depth, s =>
    let (s1, buf, err) := peekN src 5 s
    match err with
    | some e => (s1, .error e)
    | none =>
      match buf with
      | [] => (s1, .error .malformed)
      | c :: _ =>
        if startsWith buf kw_null then (adv 4 s1, .ok .null)
        else if startsWith buf kw_true then (adv 4 s1, .ok (.bool true))
        else if startsWith buf kw_false then (adv 5 s1, .ok (.bool false))
        else if c == 47 then
          (match readNameBuf src sf s1 with
           | (s2, .ok n) => (s2, .ok (.name n))
           | (s2, .error e) => (s2, .error e))
        else if isDigit c || c == 43 || c == 45 || c == 46 then readNumberBuf src sf s1
        else if startsWith buf [60, 60] then
          match readDictBuf fuel depth s1 with
          | (s2, .error e) => (s2, .error e)
          | (s2, .ok d) =>
            let (s3, e3) := skipWhiteSpace src sf s2
            match hardErr e3 with
            | some e => (s3, .error e)
            | none =>
              let (s4, buf6, e6) := peekN src 6 s3
              match e6 with
              | some e => (s4, .error e)     -- a read error, not the end of the input (fix D35)
              | none =>
                if startsWith buf6 kw_stream then readStreamHeadBuf src s4
                else (s4, .ok (.dict d))
        else if c == 40 then
          (match readStringBuf src sf (adv 1 s1) with
           | (s2, .ok v) => (s2, .ok (.str v))
           | (s2, .error e) => (s2, .error e))
        else if c == 60 then
          (match readHexStringBuf src sf (adv 1 s1) with
           | (s2, .ok v) => (s2, .ok (.str v))
           | (s2, .error e) => (s2, .error e))
        else if c == 91 then
          (match readArrayBuf fuel depth (adv 1 s1) with
           | (s2, .ok xs) => (s2, .ok (.arr xs))
           | (s2, .error e) => (s2, .error e))
        else (s1, .error .malformed)
/-- `ReadArray` (after the opening bracket) -/
def readArrayBuf : Nat → Nat → SB → SB × Except Err (List Obj)
  | 0, _, s => (s, .error .other)
  | fuel+1, depth, s =>
    if depth ≥ Gen.scanner_maxScannerNestDepth then (s, .error .malformed)
    else mapErrB (readArrayLoopBuf fuel (depth + 1) [] 0 s)
/-- the loop of `ReadArray` -/
def readArrayLoopBuf : Nat → Nat → List Obj → Nat → SB → SB × Except Err (List Obj)
  | 0, _, _, _, s => (s, .error .other)
  | fuel+1, depth, acc, ints, s =>
    let (s1, e1) := skipWhiteSpace src sf s
    match e1 with
    | some e => (s1, .error e)
    | none =>
      let (s2, buf, e2) := peekN src 1 s1
      match e2 with
      | some e => (s2, .error e)
      | none =>
        match buf with
        | [] => ({ s2 with panicked := true }, .error .other)     -- buf[0] on an empty window
        | c :: _ =>
          if c == 93 then
            if acc.length > Gen.scanner_maxArrayLen then (s2, .error .malformed)
            else (adv 1 s2, .ok acc.reverse)
          else if ints ≥ 2 && c == 82 then
            match acc with
            | .int b :: .int a :: acc' =>
              let v := if validRef a b then Obj.ref a.toNat b.toNat else Obj.null
              readArrayLoopBuf fuel depth (v :: acc') 0 (adv 1 s2)
            | _ => ({ s2 with panicked := true }, .error .other)  -- array[k-1].(Integer) fails
          else
            match readObjectBuf fuel depth s2 with
            | (s3, .error e) => (s3, .error e)
            | (s3, .ok o) =>
              let ints' := match o with | .int _ => ints + 1 | _ => 0
              if acc.length > Gen.scanner_maxArrayLen then (s3, .error .malformed)
              else readArrayLoopBuf fuel depth (o :: acc) ints' s3
/-- `ReadDict` (at `<<`) -/
def readDictBuf : Nat → Nat → SB → SB × Except Err (List (Bytes × Obj))
  | 0, _, s => (s, .error .other)
  | fuel+1, depth, s =>
    if depth ≥ Gen.scanner_maxScannerNestDepth then (s, .error .malformed)
    else
      let (s1, e1) := skipString src [60, 60] s
      match e1 with
      | some e => (s1, .error e.inComposite)
      | none =>
        let (s2, e2) := skipWhiteSpace src sf s1
        match e2 with
        | some e => (s2, .error e.inComposite)
        | none => mapErrB (readDictLoopBuf fuel (depth + 1) [] s2)
/-- the loop of `ReadDict` followed by `SkipString(">>")` -/
def readDictLoopBuf : Nat → Nat → List (Bytes × Obj) → SB → SB × Except Err (List (Bytes × Obj))
  | 0, _, _, s => (s, .error .other)
  | fuel+1, depth, acc, s =>
    match readNameBuf src sf s with
    | (s1, .error e) =>
      if e == .malformed then
        -- `if IsMalformed(err) { break }`, then `SkipString(">>")`
        let (s2, e2) := skipString src [62, 62] s1
        match e2 with
        | some e => (s2, .error e)
        | none => (s2, .ok acc)
      else (s1, .error e)
    | (s1, .ok key) =>
      let (s2, e2) := skipWhiteSpace src sf s1
      match e2 with
      | some e => (s2, .error e)
      | none =>
        match readObjectBuf fuel depth s2 with
        | (s3, .error e) => (s3, .error e)
        | (s3, .ok val) =>
          let (s4, e4) := skipWhiteSpace src sf s3
          match e4 with
          | some e => (s4, .error e)
          | none =>
            let cont (val : Obj) (s : SB) : SB × Except Err (List (Bytes × Obj)) :=
              if !(acc.any fun e => e.1 == key) && acc.length ≥ Gen.scanner_maxDictLen then (s, .error .malformed)
              else readDictLoopBuf fuel depth (dictInsert key val acc) s
            match val with
            | .int a =>
              let (s5, buf, e5) := peekN src 1 s4
              match e5 with
              | some e => (s5, .error e)
              | none =>
                match buf with
                | [] => (s5, .error .malformed)
                | c :: _ =>
                  if c != 47 && c != 62 then
                    match readIntegerBuf src sf s5 with
                    | (s6, .error e) => (s6, .error e)
                    | (s6, .ok b) =>
                      let (s7, e7) := skipWhiteSpace src sf s6
                      match e7 with
                      | some e => (s7, .error e)
                      | none =>
                        let (s8, buf8, e8) := peekN src 1 s7
                        match e8 with
                        | some e => (s8, .error e)
                        | none =>
                          match buf8 with
                          | [] => ({ s8 with panicked := true }, .error .other)   -- buf[0] on an empty window
                          | c8 :: _ =>
                            if c8 != 82 then (s8, .error .malformed)
                            else
                              let (s9, e9) := skipWhiteSpace src sf (adv 1 s8)
                              match e9 with
                              | some e => (s9, .error e)
                              | none => cont (if validRef a b then .ref a.toNat b.toNat else .null) s9
                  else cont val s5
            | _ => cont val s4
end

end

end PdfVerif.ROB

import PdfVerif.Model.FACommon
import PdfVerif.Generated.FactsFA
/-!
Model of `internal/filter/asciihex/{write,read}.go` as wired by `filter.go`
(`FilterASCIIHex.Encode` = `asciihex.Encode(w, 79)`, `Decode` = `asMalformedFilter(asciihex.Decode(r))`).

Both directions are byte-at-a-time machines: the encoder state is the line buffer `buf`
(Go: `w.buf`, capacity `width+1`), one `step` per input byte returns the bytes handed to the
underlying writer at that byte; the decoder state is the pending high nibble.  A Go `Write(p)`
with any chunking runs exactly these steps (inside one chunk of `chunkSize` bytes the
`len(buf)+3 > cap` test is false by the choice of `chunkSize`), a Go `Read(p)` with any buffer
size consumes the same characters in the same order.

All numbers come from `Generated/FactsFA.lean` (literals of the Go functions, `alphabet`, the
width argument in `filter.go`).
-/
namespace PdfVerif.FA.AsciiHex
open PdfVerif PdfVerif.FA

/-! ### encoder (`write.go`) -/

/-- `cap(w.buf)` = `width + 1` with the width passed by `filter.go` -/
def cap : Nat := Gen.filter_FilterASCIIHex_Encode_width + 1

/-- `alphabet[n]` -/
def alpha (n : Nat) : Nat :=
  match Gen.ahex_alphabet[n]? with
  | some c => c
  | none => 0   -- unreachable for n < 16 (index is `b>>4` or `b&0x0f`)

/-- the two digits appended for one input byte: `alphabet[b>>4], alphabet[b&0x0f]` -/
def digits (b : Nat) : Bytes :=
  [alpha (b / 2 ^ Gen.ahex_writer_Write_shift), alpha (b % (Gen.ahex_writer_Write_mask + 1))]

/-- one input byte: `(new line buffer, bytes flushed to the underlying writer)`.
    Go: `if len(buf)+3 > cap { if len(buf) > 0 { buf = append(buf,'\n') }; flush }` then
    append the two digits. -/
def step (buf : Bytes) (b : Nat) : Bytes × Bytes :=
  if buf.length + Gen.ahex_writer_Write_reserve > cap then
    if buf.length > 0 then (digits b, buf ++ [Gen.ahex_writer_Write_nl])
    else (digits b, [])
  else (buf ++ digits b, [])

/-- `Close`: `if len(buf)+2 > cap { append '\n'; flush }; append '>'; flush` -/
def close (buf : Bytes) : Bytes :=
  if buf.length + Gen.ahex_writer_Close_closeReserve > cap then
    buf ++ [Gen.ahex_writer_Close_closeNl] ++ [Gen.ahex_writer_Close_gt]
  else buf ++ [Gen.ahex_writer_Close_gt]

/-- run the writer from line buffer `buf` over the input and close it -/
def run (buf : Bytes) : Bytes → Bytes
  | [] => close buf
  | b :: bs => let (buf', e) := step buf b; e ++ run buf' bs

/-- everything the underlying writer receives for input `x` -/
def encode (x : Bytes) : Bytes := run [] x

/-! ### decoder (`read.go`) -/

/-- the `switch c` digit cases: value of a hex digit -/
def hexVal (c : Nat) : Option Nat :=
  if Gen.ahex_reader_Read_d0 ≤ c ∧ c ≤ Gen.ahex_reader_Read_d9 then some (c - Gen.ahex_reader_Read_dBase)
  else if Gen.ahex_reader_Read_uA ≤ c ∧ c ≤ Gen.ahex_reader_Read_uF then
    some (c - Gen.ahex_reader_Read_uBase + Gen.ahex_reader_Read_uAdd)
  else if Gen.ahex_reader_Read_lA ≤ c ∧ c ≤ Gen.ahex_reader_Read_lF then
    some (c - Gen.ahex_reader_Read_lBase + Gen.ahex_reader_Read_lAdd)
  else none

/-- `case 0, 9, 10, 12, 13, 32` — literals 28..33 of `reader.Read` -/
def isWs (c : Nat) : Bool := ((Gen.ahex_reader_Read_lits.drop 28).take 6).contains c

/-- the reader: `high` is `some low` when `readHigh` is set.  Ends with `none` (io.EOF) at `>`,
    with `malformed` (io.ErrUnexpectedEOF / "invalid hex character", both wrapped by
    `filterContentReader`) otherwise. -/
def dec : Option Nat → Bytes → DecRes
  | _, [] => ([], some .malformed)
  | high, c :: cs =>
    match hexVal c with
    | some b =>
      match high with
      | some low => DecRes.pre [low * 2 ^ Gen.ahex_reader_Read_shift + b] (dec none cs)
      | none => dec (some b) cs
    | none =>
      if isWs c then dec high cs
      else if c == Gen.ahex_reader_Read_gt then
        match high with
        | some low => ([low * 2 ^ Gen.ahex_reader_Read_shift], none)
        | none => ([], none)
      else ([], some .malformed)

def decode (bs : Bytes) : DecRes := dec none bs

end PdfVerif.FA.AsciiHex

import PdfVerif.Model.CONCCache
/-!
# Thread programs over the cache-protocol model

A *program* fixes, for each thread, the calls it makes and what each decode function does
(nested calls, then a result).  Running a program under a schedule only ever uses
`CONC.step`, so every execution of a program is a trace of the transition system the theorems
quantify over.  The Go harness interprets the same programs on the real code.
-/
namespace PdfVerif.CONC

/-- what a decode function returns after its nested calls -/
inductive ResultSpec where
  | fresh (id : Nat)   -- a newly allocated value (identity `id`)
  | fail (code : Nat)  -- an error
  | nil                -- the nil value
  | panic
  | same (i : Nat)     -- the value returned by its `i`-th nested call (an error if that failed)
  deriving Repr

inductive Op where
  /-- `Decode` (`excl = false`) or `DecodeExclusive` on object `o` with `T = tp`; the decode
  function makes the `nested` calls (flag `true`: with a root cursor `CursorAt(x, nil)`, `false`:
  with the cursor it was given) and then returns `result` -/
  | dec (excl : Bool) (tp : Ty) (o : Obj) (nested : List (Bool × Op)) (result : ResultSpec)
  /-- `StoreOrLoadPair[A,B](x, r, a, b)` -/
  | pair (A B : Ty) (r : Ref) (a b : Val)

/-- a running decode function: calls still to make, results so far -/
structure FnCont where
  todo : List (Bool × Op)
  results : List Res
  result : ResultSpec

structure ThreadI where
  todo : List Op          -- top-level calls still to make
  inflight : List Op      -- calls started and not yet returned, innermost first
  conts : List FnCont     -- running decode functions, innermost first

structure DState where
  m : State
  th : List ThreadI
  /-- the events an outside observer sees, newest first: everything except the return of the
  `Decode` call an exclusive owner makes internally -/
  vis : List Event

def callOf (op : Op) (path : List Ref) : Act :=
  match op with
  | .dec false tp o _ _ => .callDecode o tp path
  | .dec true tp o _ _ => .callExcl o tp path
  | .pair A B r a b => .callPair r A B a b

def evalResult (c : FnCont) : Res :=
  match c.result with
  | .fresh id => .ok id
  | .fail code => .err (.fn code)
  | .nil => .ok nilVal
  | .panic => .panic
  | .same i =>
    match c.results[i]? with
    | some (.ok v) => .ok v
    | _ => .err (.fn 0)

def emptyThread : ThreadI := ⟨[], [], []⟩

def getTh (d : DState) (t : Tid) : ThreadI := (d.th[t]?).getD emptyThread

/-- the next action of thread `t` as fixed by its program; `none`: finished or dead -/
def nextAct (d : DState) (t : Tid) : Option Act :=
  let ti := getTh d t
  match d.m.thr t with
  | [] =>
    match ti.todo with
    | [] => none
    | op :: _ => some (callOf op [])
  | .decFn _ _ path :: _ =>
    match ti.conts with
    | c :: _ =>
      match c.todo with
      | (root, op) :: _ => some (callOf op (if root then [] else path))
      | [] => some (.fnRet (evalResult c))
    | [] => none
  | .exFn _ path :: _ =>
    match ti.conts with
    | c :: _ =>
      match c.todo with
      | (root, op) :: _ => some (callOf op (if root then [] else path))
      | [] => some (.fnRet (evalResult c))
    | [] => none
  | .dead :: _ => none
  | _ => some .go

def isCall : Act → Bool
  | .callDecode .. => true
  | .callExcl .. => true
  | .callPair .. => true
  | _ => false

/-- bookkeeping when the action starts a call / returns from a function -/
def beforeStep (ti : ThreadI) (a : Act) : ThreadI :=
  if isCall a then
    match ti.conts with
    | c :: cs =>
      match c.todo with
      | (_, op) :: rest => { ti with inflight := op :: ti.inflight, conts := { c with todo := rest } :: cs }
      | [] => ti
    | [] =>
      match ti.todo with
      | op :: rest => { ti with todo := rest, inflight := op :: ti.inflight }
      | [] => ti
  else
    match a with
    | .fnRet _ => { ti with conts := ti.conts.drop 1 }
    | _ => ti

def contOf (op : Op) : FnCont :=
  match op with
  | .dec _ _ _ nested result => ⟨nested, [], result⟩
  | .pair .. => ⟨[], [], .nil⟩

/-- a call of the thread returned `res` to its caller -/
def returned (ti : ThreadI) (res : Res) : ThreadI :=
  let ti := { ti with inflight := ti.inflight.drop 1 }
  match ti.conts with
  | c :: cs => { ti with conts := { c with results := c.results ++ [res] } :: cs }
  | [] => ti

def isExPub : List Frame → Bool
  | .exPub .. :: _ => true
  | _ => false

/-- bookkeeping from the event the transition produced -/
def afterStep (ti : ThreadI) (ev : Option Event) (stk : List Frame) : ThreadI :=
  match ev with
  | some (.run ..) =>
    match ti.inflight with
    | op :: _ => { ti with conts := contOf op :: ti.conts }
    | [] => ti
  | some (.dec _ _ _ res) =>
    match res with
    | .panic => ti
    | _ => if isExPub stk then ti else returned ti res
  | some (.exc _ _ _ res _) =>
    match res with
    | .panic => ti
    | _ => returned ti res
  | some (.pair _ _ _ _ _ _ (some (a, _))) => returned ti (.ok a)
  | _ => ti

def setTh (ths : List ThreadI) (t : Tid) (ti : ThreadI) : List ThreadI := ths.set t ti

/-- one scheduling step of thread `t`; `none` if `t` is finished, dead or blocked -/
def advance (cfg : Cfg) (d : DState) (t : Tid) : Option DState :=
  match nextAct d t with
  | none => none
  | some a =>
    match step cfg d.m t a with
    | none => none
    | some m' =>
      let ti := beforeStep (getTh d t) a
      let ev := if m'.hist.length > d.m.hist.length then m'.hist.head? else none
      let internal := match ev with
        | some (.dec ..) => isExPub (m'.thr t)
        | _ => false
      let vis := match ev with
        | some e => if internal then d.vis else e :: d.vis
        | none => d.vis
      some { m := m', th := setTh d.th t (afterStep ti ev (m'.thr t)), vis := vis }

def finished (d : DState) (t : Tid) : Bool :=
  (d.m.thr t).isEmpty && (getTh d t).todo.isEmpty

def initD (prog : List (List Op)) : DState :=
  { m := State.init, th := prog.map fun ops => ⟨ops, [], []⟩, vis := [] }

/-- run a schedule (thread ids); `none` if an entry is not enabled -/
def runSched (cfg : Cfg) (d : DState) : List Tid → Option DState
  | [] => some d
  | t :: ts =>
    match advance cfg d t with
    | some d' => runSched cfg d' ts
    | none => none

/-- the critical sections the model assumes, as (function, map, access, inside the lock);
compared on every run with the inventory the harness re-extracts from the Go sources
(every access to `Extractor.cache` / `Extractor.wip`, by function, with its lock state) -/
def lockInventory : List (String × String × String × Bool) :=
  [ ("cacheGet", "cache", "read", true),
    ("cacheStoreOrLoad", "cache", "read", true),
    ("cacheStoreOrLoad", "cache", "write", true),
    ("StoreOrLoadPair", "cache", "read", true),
    ("StoreOrLoadPair", "cache", "write", true),
    ("DecodeExclusive", "cache", "read", true),
    ("DecodeExclusive", "wip", "read", true),
    ("DecodeExclusive", "wip", "write", true),
    ("DecodeExclusive", "wip", "delete", true),
    ("NewExtractor", "cache", "init", false),
    ("NewExtractor", "wip", "init", false) ]


/-- the reviewed inventory of mutex-guarded package-level state (font/cmap/predefined.go,
font/mapping/mapping.go; the root package has none): (variable, mutex, function, access, lock
state).  Compared on every run with the inventory re-extracted from the Go sources
(harness/conc_a_pkg.go): `locked` = between Lock and Unlock of that mutex, `caller` = unexported
function all of whose call sites hold it. -/
def pkgInventory : List (String × String × String × String × String) :=
  [ ("cmap.predefinedCache", "predefinedMu", "(*File).IsPredefined", "read", "locked"),
    ("cmap.predefinedCache", "predefinedMu", "loadPredefinedLocked", "read", "caller"),
    ("cmap.predefinedCache", "predefinedMu", "loadPredefinedLocked", "write", "caller"),
    ("mapping.cache", "resourceMutex", "GetCIDTextMapping", "read", "locked"),
    ("mapping.cache", "resourceMutex", "GetCIDTextMapping", "write", "locked"),
    ("mapping.reverseCache", "resourceMutex", "GetTextToCIDMapping", "read", "locked"),
    ("mapping.reverseCache", "resourceMutex", "GetTextToCIDMapping", "write", "locked") ]

/-- the reviewed inventory of `sync.Pool` sites of the whole module (today: the zlib reader and
writer pools of filter.go): (pool, function, get/put, argument, number of paths through the
function which execute the site, maximal number of Puts of that pool on one path, branch
conditions under which the site is reached, Close-idempotence guard).  Compared on every run with
the inventory re-extracted from the Go sources (harness/conc_a_pool.go).  Since commit 6979937
(C18-F3 repaired) both Close-like Put sites are protected by a persisting `closed` flag: a field
of the pointer receiver, and a variable captured by the `close` closure. -/
def poolInventory : List (String × String × String × String × Nat × Nat × String × String) :=
  [ ("pdf.zlibReaderPool", "(*pooledZlibReader).Close", "put", "r.ReadCloser", 2, 1,
      "!(err!=nil)&!(r.closed)", "flag:r.closed"),
    ("pdf.zlibReaderPool", "zlibNewReader", "get", "-", 4, 0, "-", "-"),
    ("pdf.zlibWriterPool", "encodeFlateLZW$close", "put", "originalZw", 1, 1,
      "!(closed)&!(err!=nil)&!isLZW", "flag:closed"),
    ("pdf.zlibWriterPool", "encodeFlateLZW", "get", "-", 1, 0, "!(isLZW)", "-") ]

/-- the reviewed inventory of `append` calls whose first argument is a struct field or a
package-level slice in the anchored files (file, function, first argument, field/global, and
whether the result is assigned back to that very field — `back` — or used elsewhere — `temp`).
Compared on every run with the inventory re-extracted from the Go sources
(harness/conc_a_append.go).  All of them grow the owner's own slice while the owner is being built
(`NewReader`) or belong to the single-goroutine writing side (`ResourceManager`, `EmbedHelper`). -/
def appendInventory : List (String × String × String × String × String) :=
  [ ("reader.go", "NewReader", "r.Errors", "field", "back"),
    ("reader.go", "NewReader", "r.Errors", "field", "back"),
    ("resource.go", "(*EmbedHelper).Defer", "e.rm.deferred", "field", "back"),
    ("resource.go", "(*EmbedHelper).EmbedAt", "e.refs", "field", "back"),
    ("resource.go", "(*ResourceManager).StoreDeferred", "rm.deferred", "field", "back") ]

/-- the reviewed close order of the filter layers of a decoded stream (container.go): (function,
position of the outermost layer's Close, direction of the loop over the layers below, which are
stored innermost first).  Compared on every run with the fact re-extracted from the source
(harness/conc_a_close.go). -/
def closeOrder : List (String × String × String) :=
  [ ("(*sourceAwareReader).Close", "inner-first", "lower-decreasing"),
    ("DecodeStream.cleanup", "", "lower-decreasing") ]

end PdfVerif.CONC

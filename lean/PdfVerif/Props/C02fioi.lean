import PdfVerif.Props.C02fioh
/-!
# C02 (work package FIO) — members of object streams

`objstm_member_rt`: `getFromObjStm` on the content `WriteCompressed` assembles returns member `i`
as the object written (C01's round trip with the next member as continuation; `readReferenceTail`
behind an integer member comes out "not a reference").  `get_member_rt`: the same through
`Reader.get` on a file holding the object stream.  `file_rt_xrefstream_members`: for every
`WriteCompressed` of a program.
-/
namespace PdfVerif.C02fioi
open PdfVerif PdfVerif.FIO PdfVerif.C01b PdfVerif.C01L PdfVerif.C01d PdfVerif.C02fioc PdfVerif.C02fiob PdfVerif.C02fioe PdfVerif.C02fiof PdfVerif.C02fiog

theorem readInteger_len {inp r : Bytes} {b : Int} (h : readInteger inp = .ok (b, r)) : r.length ≤ inp.length := by
  unfold readInteger at h
  have h1 := skipWS_len inp
  have h2 := scanNumTok_len false false true (skipWS inp).1
  generalize skipWS inp = p at h h1 h2
  obtain ⟨i1, fl⟩ := p
  simp only at h h1 h2
  generalize scanNumTok false false true i1 = q at h h2
  obtain ⟨tok, rest⟩ := q
  simp only at h h2
  split at h
  · simp at h
  · split at h
    · simp only [Except.ok.injEq, Prod.mk.injEq] at h
      obtain ⟨_, rfl⟩ := h
      omega
    · simp at h

theorem refTail_nil (content : Bytes) (a : Int) (e : Option Nat) : readReferenceTail content a [] e = none := by
  simp [readReferenceTail, skipWS]

/-- `g R` that would end behind the next member's offset is not taken for a reference -/
theorem refTail_far (content : Bytes) (a : Int) (rest : Bytes) (e : Nat)
    (h : (skipWS rest).1.length + e ≤ content.length) :
    readReferenceTail content a rest (some e) = none := by
  unfold readReferenceTail
  split
  · rfl
  · rename_i r1 h1
    rw [h1] at h
    simp only at h
    split
    · rfl
    · rename_i b r2 hri
      have l2 := readInteger_len hri
      split
      · rfl
      · rename_i r3 h3
        have l3 := skipWS_len' h3
        split
        · rename_i r4
          simp only [List.length_cons] at l3
          have : decide (content.length - r4.length > e) = true := by
            simp; omega
          simp [this]
        · rfl

theorem foldl_min_le : ∀ (es : List Nat) (e : Nat), es.foldl min e ≤ e ∧ ∀ x ∈ es, es.foldl min e ≤ x := by
  intro es
  induction es with
  | nil => intro e; simp
  | cons y ys ih =>
    intro e
    obtain ⟨a, b⟩ := ih (min e y)
    simp only [List.foldl_cons, List.mem_cons]
    refine ⟨by omega, ?_⟩
    intro x hx
    rcases hx with rfl | hx
    · omega
    · exact b x hx

theorem end_le (l : List Nat) (x : Nat) (hx : x ∈ l) :
    ∃ e, (match l with | [] => none | e :: es => some (es.foldl min e)) = some e ∧ e ≤ x := by
  cases l with
  | nil => simp at hx
  | cons e es =>
    refine ⟨_, rfl, ?_⟩
    obtain ⟨a, b⟩ := foldl_min_le es e
    simp only [List.mem_cons] at hx
    rcases hx with rfl | hx
    · exact a
    · exact b x hx


theorem fmtAll_get (opt : FmtOpt) : ∀ (items : List (Nat × Obj)) (bs : List Bytes) (i num : Nat) (o : Obj),
    fmtAll opt items = some bs → items[i]? = some (num, o) → ∃ b, bs[i]? = some b ∧ format opt [o] = some b := by
  intro items
  induction items with
  | nil => intro bs i num o _ h; simp at h
  | cons x rest ih =>
    intro bs i num o h hi
    obtain ⟨a, o0⟩ := x
    simp only [fmtAll] at h
    split at h
    · rename_i b bs' hf hr
      simp only [Option.some.injEq] at h
      subst h
      cases i with
      | zero =>
        simp only [List.getElem?_cons_zero, Option.some.injEq, Prod.mk.injEq] at hi
        obtain ⟨_, rfl⟩ := hi
        exact ⟨b, rfl, hf⟩
      | succ i =>
        simp only [List.getElem?_cons_succ] at hi ⊢
        exact ih bs' i num o hr hi
    · simp at h

theorem osOffsets_get (bs : List Bytes) : ∀ (off i : Nat) (b : Bytes), bs[i]? = some b → ∃ o, (osOffsets bs off)[i]? = some o := by
  induction bs with
  | nil => intro off i b h; simp at h
  | cons b0 rest ih =>
    intro off i b h
    cases i with
    | zero => exact ⟨off, by simp [osOffsets]⟩
    | succ i =>
      simp only [List.getElem?_cons_succ] at h
      simpa [osOffsets] using ih (off + b0.length + 1) i b h

theorem osBody_head (b : Bytes) (rest : List Bytes) : ∃ more, osBody (b :: rest) = b ++ more := by
  cases rest with
  | nil => exact ⟨[], by simp [osBody]⟩
  | cons b' r => exact ⟨[10] ++ osBody (b' :: r), by simp [osBody]⟩

/-- member `i` in the body: what stands before it, and what follows it — nothing, or a line feed
    and the next member, which begins at the next offset -/
theorem os_layout (bs : List Bytes) : ∀ (off i o : Nat) (b : Bytes),
    (osOffsets bs off)[i]? = some o → bs[i]? = some b →
    ∃ pre tail, osBody bs = pre ++ (b ++ tail) ∧ off + pre.length = o ∧
      ((bs[i+1]? = none ∧ tail = []) ∨
       (∃ b' more, bs[i+1]? = some b' ∧ tail = 10 :: (b' ++ more) ∧
          (osOffsets bs off)[i+1]? = some (o + b.length + 1))) := by
  induction bs with
  | nil => intro off i o b h; simp [osOffsets] at h
  | cons b0 rest ih =>
    intro off i o b ho hb
    cases i with
    | zero =>
      simp only [osOffsets, List.getElem?_cons_zero, Option.some.injEq] at ho hb
      subst ho; subst hb
      cases rest with
      | nil => exact ⟨[], [], by simp [osBody], rfl, .inl ⟨rfl, rfl⟩⟩
      | cons b' rest' =>
        obtain ⟨more, hm⟩ := osBody_head b' rest'
        refine ⟨[], 10 :: (b' ++ more), ?_, rfl, .inr ⟨b', more, rfl, rfl, by simp [osOffsets]⟩⟩
        rw [osBody_cons b0 _ (by simp), hm]; simp
    | succ i =>
      simp only [osOffsets, List.getElem?_cons_succ] at ho hb
      have hne : rest ≠ [] := by intro h0; subst h0; simp at hb
      obtain ⟨pre, tail, h1, h2, h3⟩ := ih (off + b0.length + 1) i o b ho hb
      refine ⟨b0 ++ [10] ++ pre, tail, ?_, by simp; omega, ?_⟩
      · rw [osBody_cons b0 rest hne, h1]; simp
      · simpa [osOffsets] using h3

theorem find_zip (first : Nat) : ∀ (ns offs : List Nat) (i num o : Nat),
    ns[i]? = some num → offs[i]? = some o → (∀ j, j < i → ns[j]? ≠ some num) →
    ((List.zip ns offs).map (fun p => (p.1, p.2 + first))).find? (fun p => p.1 == num) = some (num, o + first) := by
  intro ns
  induction ns with
  | nil => intro offs i num o h; simp at h
  | cons n ns ih =>
    intro offs i num o hn ho hfirst
    cases offs with
    | nil => simp at ho
    | cons o0 offs =>
      cases i with
      | zero =>
        simp only [List.getElem?_cons_zero, Option.some.injEq] at hn ho
        subst hn; subst ho
        simp
      | succ i =>
        simp only [List.getElem?_cons_succ] at hn ho
        have h0 : n ≠ num := by
          have := hfirst 0 (by omega)
          simpa using this
        have : (n == num) = false := by simp [h0]
        simp only [List.zip_cons_cons, List.map_cons, List.find?_cons, this]
        exact ih offs i num o hn ho (fun j hj => by have := hfirst (j + 1) (by omega); simpa using this)

theorem mem_zip_map (first : Nat) : ∀ (ns offs : List Nat) (i num o : Nat),
    ns[i]? = some num → offs[i]? = some o →
    (num, o + first) ∈ (List.zip ns offs).map (fun p => (p.1, p.2 + first)) := by
  intro ns offs i num o hn ho
  have : (List.zip ns offs)[i]? = some (num, o) := by simp [List.getElem?_zip_eq_some, hn, ho]
  exact List.mem_map.2 ⟨(num, o), List.mem_of_getElem? this, rfl⟩


theorem member_read (opt : FmtOpt) (o : Obj) (hg : good o = true) (hd : depthOk o) (hr : isRefObj o = false)
    (b k : Bytes) (hf : format opt [o] = some b)
    (hk : k = [] ∨ ∃ c t, k = 10 :: c :: t ∧ tokStart c = true) :
    ∃ k', readObject (scanFuel (b ++ k)) 0 (b ++ k) = .ok (rd o.canon, k') ∧ (k' = k ∨ k' = (skipWS k).1) := by
  have hgc := good_canon o hg
  obtain ⟨ns', hf'⟩ := (format_single opt o b).mp hf
  have hdc : 0 + depthOf o.canon ≤ Gen.scanner_maxScannerNestDepth := by
    have := depth_canon o; unfold depthOk at hd; omega
  have hc : Cont ns' k := by
    rcases hk with rfl | ⟨c, t, rfl, hc⟩
    · trivial
    · exact .inr ⟨.inr rfl, c, t, rfl, hc⟩
  obtain ⟨k', h1, h2, _⟩ := readsBack_all opt o.canon hgc (by rw [isRefObj_canon]; exact hr) 0 hdc b ns' hf' k hc
    (scanFuel (b ++ k)) (by simp [scanFuel])
  exact ⟨k', h1, h2⟩

theorem format_head (opt : FmtOpt) (o : Obj) (hg : good o = true) (b : Bytes) (hf : format opt [o] = some b) :
    ∃ c t, b = c :: t ∧ tokStart c = true := by
  have hgc := good_canon o hg
  obtain ⟨ns', hf'⟩ := (format_single opt o b).mp hf
  obtain ⟨tok, c, t, _, htok, hstart, hbs⟩ := fmtObj_shape opt false o.canon b ns' hgc hf'
  rcases hbs with ⟨h, _⟩ | ⟨h, _⟩
  · exact ⟨c, t, by rw [h, htok], objStart_tokStart hstart⟩
  · cases h


/-- **objstm_member_rt.**  Reading a member out of an object stream.  For every non-empty list of
members within C01's limits, none of them a bare reference (the Writer refuses those), and the
content, `/N` and `/First` that `WriteCompressed` assembles: `getObjStm` followed by
`getFromObjStm` returns for member `i` — addressed by its number, which no earlier member has —
the object written, up to C01's comparison form.  The member's text is read with the next
member's text (after a line feed) or the end of the content as continuation; behind an INTEGER
member `readReferenceTail` looks at the next member's text, and whatever it finds there
(`7␊12 0 R…` included) ends behind the next member's offset, so the member stays an integer. -/
theorem objstm_member_rt (opt : FmtOpt) (items : List (Nat × Obj)) (bs : List Bytes) (content : Bytes) (n first : Nat)
    (hf : fmtAll opt items = some bs) (hc : objStmContent opt items = some (content, n, first))
    (hnum : ∀ x ∈ items, x.1 ≤ 4294967295) (hoff : ∀ o ∈ osOffsets bs 0, o ≤ 9223372036854775807)
    (hN : n ≤ 10000) (dict : List (Bytes × Obj))
    (hdN : dictGet dict kNkey = some (.int n)) (hdF : dictGet dict kFirstKey = some (.int first))
    (hgood : ∀ x ∈ items, good x.2 = true ∧ depthOk x.2 ∧ isRefObj x.2 = false)
    (i num : Nat) (o : Obj) (hi : items[i]? = some (num, o))
    (hfst : ∀ j, j < i → (items.map (·.1))[j]? ≠ some num) :
    ∃ idx headEnd r, getObjStm dict content = .ok (idx, headEnd) ∧
      getFromObjStm idx headEnd content num = .ok (some r) ∧ nrm r = nrm o := by
  have hne : items ≠ [] := by intro h0; subst h0; simp at hi
  obtain ⟨hget, _, _⟩ := objstm_rt opt items bs content n first hne hf hc hnum hoff hN dict hdN hdF
  have hlay := objStmParts_layout opt items bs [] [] hf
  simp only [objStmContent, hlay, Option.map_some, List.nil_append, List.length_nil, Option.some.injEq,
    Prod.mk.injEq] at hc
  obtain ⟨hcontent, _, hfirst⟩ := hc
  obtain ⟨b, hb, hfb⟩ := fmtAll_get opt items bs i num o hf hi
  obtain ⟨oi, hoi⟩ := osOffsets_get bs 0 i b hb
  obtain ⟨pre, tail, hbody, hpre, htail⟩ := os_layout bs 0 i oi b hoi hb
  obtain ⟨hg, hd, hr⟩ := hgood (num, o) (List.mem_of_getElem? hi)
  simp only [Nat.zero_add] at hpre
  have hcont : content = (osHead (items.map (·.1)) bs 0 ++ pre) ++ (b ++ tail) := by
    rw [← hcontent, hbody]; simp
  have hdrop : content.drop (oi + first) = b ++ tail := by
    rw [hcont]
    exact List.drop_left' (by simp [hfirst, hpre]; omega)
  have hlen : content.length = first + oi + b.length + tail.length := by
    rw [hcont]; simp [hfirst, hpre]; omega
  refine ⟨_, _, rd o.canon, hget, ?_, nrm_rd_canon o hg⟩
  unfold getFromObjStm
  rw [find_zip first (items.map (·.1)) (osOffsets bs 0) i num oi (by simp [hi]) hoi hfst]
  have c1 : ¬ (oi + first < first - 1) := by omega
  have c2 : ¬ (content.length < oi + first) := by omega
  simp only [c1, c2, ↓reduceIte, hdrop]
  rcases htail with ⟨_, rfl⟩ | ⟨b', more, hb', rfl, hnext⟩
  · obtain ⟨k', h1, h2⟩ := member_read opt o hg hd hr b [] hfb (.inl rfl)
    have hk' : k' = [] := by rcases h2 with h | h <;> simp [h, skipWS]
    subst hk'
    rw [h1]
    generalize rd o.canon = v
    cases v <;> simp [refTail_nil]
  · -- the next member
    have hlen' : bs.length = items.length := fmtAll_length opt items bs hf
    have hi1 : i + 1 < items.length := by
      have := (List.getElem?_eq_some_iff.1 hb').1; omega
    obtain ⟨⟨num', o'⟩, hi'⟩ : ∃ x, items[i+1]? = some x := ⟨items[i+1], by simp [hi1]⟩
    obtain ⟨b'', hb'', hfb'⟩ := fmtAll_get opt items bs (i+1) num' o' hf hi'
    rw [hb'] at hb''
    cases hb''
    obtain ⟨c, t, hct, htok⟩ := format_head opt o' (hgood _ (List.mem_of_getElem? hi')).1 b' hfb'
    obtain ⟨k', h1, h2⟩ := member_read opt o hg hd hr b (10 :: (b' ++ more)) hfb
      (.inr ⟨c, t ++ more, by simp [hct], htok⟩)
    rw [h1]
    have hx : oi + b.length + 1 + first ∈
        (List.filter (fun p => decide (oi + first < p.2))
          ((List.zip (items.map (·.1)) (osOffsets bs 0)).map (fun p => (p.1, p.2 + first)))).map (·.2) := by
      refine List.mem_map.2 ⟨(num', oi + b.length + 1 + first), ?_, rfl⟩
      refine List.mem_filter.2 ⟨mem_zip_map first _ _ (i+1) num' _ (by simp [hi']) hnext, by simp; omega⟩
    have hkl : (skipWS k').1.length ≤ (b' ++ more).length := by
      have e1 : skipWS (10 :: (b' ++ more)) = skipWS (b' ++ more) := skipWS_lf _
      rcases h2 with h | h
      · rw [h, e1]; exact skipWS_len _
      · have := skipWS_len k'
        have := skipWS_len (b' ++ more)
        rw [h, e1] at *
        omega
    generalize rd o.canon = v
    cases v
    case int a =>
      simp only [gt_iff_lt]
      generalize List.map (fun x => x.snd) (List.filter (fun p => decide (oi + first < p.snd))
        (List.map (fun p => (p.fst, p.snd + first)) ((List.map (fun x => x.fst) items).zip (osOffsets bs 0)))) = L at hx
      cases L with
      | nil => simp at hx
      | cons e es =>
        have hle : es.foldl min e ≤ oi + b.length + 1 + first := by
          obtain ⟨a1, a2⟩ := foldl_min_le es e
          simp only [List.mem_cons] at hx
          rcases hx with h | h
          · omega
          · exact a2 _ h
        simp only []
        rw [refTail_far content a k' _ (by simp at hlen hkl; omega)]
    all_goals simp


/-- the dictionary `WriteCompressed` gives to an object stream -/
def osDict (cnt first : Nat) : List (Bytes × Obj) :=
  [(kType, .name nObjStm), (kN, .int cnt), (kFirst, .int first), (kFilter, .name nFlate)]

theorem osDict_good (cnt first : Nat) (hc : cnt ≤ 10000) (hf : first ≤ 9223372036854775807) :
    good (.dict (sdKv0 (osDict cnt first))) = true ∧ depthOf (.dict (sdKv0 (osDict cnt first))) ≤ Gen.scanner_maxScannerNestDepth := by
  have e : sdKv0 (osDict cnt first) =
      [(kType, .name nObjStm), (kN, .int cnt), (kFirst, .int first), (kFilter, .name nFlate), (kLength, .int 0)] := rfl
  rw [e]
  constructor
  · have h1 : good (.int (cnt : Int)) = true := by simp [good]; omega
    have h2 : good (.int (first : Int)) = true := by simp [good]; omega
    have k1 : goodName kType = true := by decide +kernel
    have k2 : goodName kN = true := by decide +kernel
    have k3 : goodName kFirst = true := by decide +kernel
    have k4 : goodName kFilter = true := by decide +kernel
    have k5 : goodName kLength = true := by decide +kernel
    have v1 : good (.name nObjStm) = true := by decide +kernel
    have v2 : good (.name nFlate) = true := by decide +kernel
    have v3 : good (.int 0) = true := by decide +kernel
    have nd : (keysOf [(kType, Obj.name nObjStm), (kN, .int cnt), (kFirst, .int first), (kFilter, .name nFlate), (kLength, .int 0)]).Nodup := by
      show [kType, kN, kFirst, kFilter, kLength].Nodup
      decide +kernel
    simp only [good, goodKV, k1, k2, k3, k4, k5, Bool.and_true, Bool.true_and, Bool.and_eq_true, decide_eq_true_eq]
    have g1 : goodName nObjStm = true := by decide +kernel
    have g2 : goodName nFlate = true := by decide +kernel
    refine ⟨⟨⟨g1, by omega, by omega, g2, by omega, by omega⟩, nd⟩, ?_⟩
    simp [Gen.scanner_maxDictLen]
  · simp only [depthOf, depthKV]; decide +kernel

/-- **get_member_rt.**  `Reader.get` on a member of an object stream.  The file holds, at the
offset its entry gives, the object stream `sRef` as `WriteCompressed` writes it (dictionary
`osDict`, `/Length` in any of the writer's forms, data `raw`), zlib is trusted (`inflate raw` = the
content the writer assembled from `items`), and the entry of `num` names `sRef`: then
`Reader.get` returns member `i` — the object written, up to C01's comparison form. -/
theorem get_member_rt (file : Bytes) (m : XMap) (opt : FmtOpt) (sRef cnt first : Nat) (raw content : Bytes)
    (pos : Int) (dictBytes value : Bytes) (off : Nat) (doc : List (Nat × Nat × Obj))
    (hm : m.get sRef = some { inStream := 0, pos := pos, gen := 0 }) (hpos : 0 ≤ pos)
    (hfmt : fmtDictLen opt false (osDict cnt first) value = some (dictBytes, off))
    (hlt : LenText doc value raw.length)
    (hat : At file pos.toNat (objHeader sRef 0 ++ dictBytes ++ kStream ++ raw ++ kEndstream))
    (hsref : sRef < Gen.fio_maxXRefSize) (hs0 : sRef ≠ 0)
    (hsize : raw.length ≤ 9223372036854775807) (hfs : file.length < 9223372036854775808)
    (inflate : Bytes → Option Bytes) (getInt : Obj → Except Err Int)
    (hgi : ∀ i, getInt (.int i) = .ok i)
    (hgr : ∀ r len, (r, 0, Obj.int len) ∈ doc → getInt (.ref r 0) = .ok len)
    (fo : FmtOpt) (items : List (Nat × Obj)) (bs : List Bytes)
    (hf : fmtAll fo items = some bs) (hc : objStmContent fo items = some (content, cnt, first))
    (hinf : inflate raw = some content)
    (hnum : ∀ x ∈ items, x.1 ≤ 4294967295) (hoff : ∀ o ∈ osOffsets bs 0, o ≤ 9223372036854775807)
    (hN : cnt ≤ 10000) (hfirst : first ≤ 9223372036854775807)
    (hgood : ∀ x ∈ items, good x.2 = true ∧ depthOk x.2 ∧ isRefObj x.2 = false)
    (i num : Nat) (o : Obj) (hi : items[i]? = some (num, o))
    (hfst : ∀ j, j < i → (items.map (·.1))[j]? ≠ some num)
    (p : Int) (hp : 0 ≤ p) (hmn : m.get num = some { inStream := sRef, pos := p, gen := 0 }) :
    ∃ r, readerGet file m 0 inflate getInt num 0 = .ok (some (.plain r)) ∧ nrm r = nrm o := by
  obtain ⟨hg, hd⟩ := osDict_good cnt first hN hfirst
  obtain ⟨start, hget, hbody⟩ := get_stream_rt file m opt sRef 0 (osDict cnt first) raw pos dictBytes value off doc
    hm hpos hfmt hlt hat hg hd hsref (by simp [Gen.fio_maxGeneration]) hsize hfs inflate getInt hgi hgr
  have hrd : rdKV (sdBefore (osDict cnt first)) ++ rdKV (sdAfter (osDict cnt first)) =
      [(kType, .name nObjStm), (kFilter, .name nFlate), (kFirst, .int first), (kN, .int cnt)] := rfl
  rw [hrd] at hget
  -- the container, as `Reader.get` reads it
  have hu : entryUsable (some { inStream := 0, pos := pos, gen := 0 }) 0 = true := by
    simp [entryUsable, isFree]; omega
  unfold readerGet at hget
  simp only [hm, hu, Bool.not_true, Bool.false_eq_true, ↓reduceIte, bne_self_eq_false, Nat.add_zero] at hget
  -- the member
  obtain ⟨idx, headEnd, r, hos, hfrom, hnrm⟩ := objstm_member_rt fo items bs content cnt first hf hc hnum hoff hN
    [(kType, .name nObjStm), (kFilter, .name nFlate), (kFirst, .int first), (kN, .int cnt)] rfl rfl hgood i num o hi hfst
  refine ⟨r, ?_, hnrm⟩
  unfold readerGet
  have hu2 : entryUsable (some { inStream := sRef, pos := p, gen := 0 }) 0 = true := by
    simp [entryUsable, isFree]; omega
  have hne : (sRef != 0) = true := by simp [hs0]
  simp only [hmn, hu2, hm, hu, hne, Bool.not_true, Bool.false_eq_true, ↓reduceIte, bne_self_eq_false, Nat.add_zero]
  split at hget
  · simp at hget
  · rename_i ob n' g' rest hrio
    split at hget
    · simp at hget
    · rename_i hng
      simp only [Except.ok.injEq, Option.some.injEq] at hget
      subst hget
      rw [hrio]
      simp only [hng, Bool.false_eq_true, ↓reduceIte, hbody]
      have hdec : decodeSimple inflate [(kType, .name nObjStm), (kFilter, .name nFlate), (kFirst, .int first), (kN, .int cnt)] raw
          = .ok content := by
        have e1 : dictGet [(kType, Obj.name nObjStm), (kFilter, .name nFlate), (kFirst, .int first), (kN, .int cnt)] kFilterKey
            = some (.name nFlate) := rfl
        have e2 : dictGet [(kType, Obj.name nObjStm), (kFilter, .name nFlate), (kFirst, .int first), (kN, .int cnt)] kDecodeParmsKey
            = none := rfl
        have e3 : (nFlate == nFlateDecode) = true := by decide +kernel
        simp [decodeSimple, e1, e2, e3, hinf]
      simp [hdec, hos, hfrom]

/-! ## the writer keeps its record of completed stream objects -/

def SMono (s s' : WState) : Prop := ∀ x, x ∈ s.sdoc → x ∈ s'.sdoc
theorem SMono.of_eq {s s' : WState} (h : s'.sdoc = s.sdoc) : SMono s s' := fun x hx => by rw [h]; exact hx
theorem SMono.trans {a b c : WState} (h1 : SMono a b) (h2 : SMono b c) : SMono a c := fun x hx => h2 x (h1 x hx)

theorem alloc_sm {s s' : WState} {r : Nat} (h : alloc s = some (s', r)) : s'.sdoc = s.sdoc := by
  unfold alloc at h
  split at h
  · simp at h
  · simp only [Option.some.injEq, Prod.mk.injEq] at h
    obtain ⟨rfl, _⟩ := h
    rfl

theorem putPlain_sm {s s' : WState} {num gen : Nat} {o : Obj} (h : putPlain s num gen o = .ok s') : s'.sdoc = s.sdoc := by
  unfold putPlain at h
  split at h
  · simp at h
  · split at h
    · simp at h
    · simp only [Except.ok.injEq] at h
      subst h
      rfl

theorem openStream_sm {s s' : WState} {num gen : Nat} {d : List (Bytes × Obj)} {ul : Option Int}
    (h : openStream s num gen d ul = .ok s') :
    s'.sdoc = s.sdoc ∧ s'.sdata = [] ∧ ∃ st, s'.stm = some st ∧ st.num = num ∧ st.gen = gen ∧ st.dict = d := by
  unfold openStream at h
  split at h
  · simp at h
  · split at h
    · simp at h
    · simp only [Except.ok.injEq] at h
      subst h
      exact ⟨rfl, rfl, _, rfl, rfl, rfl, rfl⟩

theorem streamWrite_sm {s s' : WState} {p : Bytes} {st : OpenStm} (hs : s.stm = some st) (h : streamWrite s p = .ok s') :
    s'.sdoc = s.sdoc ∧ s'.sdata = s.sdata ++ p ∧ ∃ st', s'.stm = some st' ∧ st'.num = st.num ∧ st'.gen = st.gen ∧ st'.dict = st.dict := by
  unfold streamWrite at h
  rw [hs] at h
  simp only at h
  split at h
  · simp only [Except.ok.injEq] at h
    subst h
    exact ⟨rfl, rfl, st, by simp [emit], rfl, rfl, rfl⟩
  · split at h
    · simp only [Except.ok.injEq] at h
      subst h
      exact ⟨rfl, rfl, _, rfl, rfl, rfl, rfl⟩
    · split at h
      · simp at h
      · rename_i s1 st1 hsw
        simp only [Except.ok.injEq] at h
        subst h
        obtain ⟨_, _, _, _, _, hsdoc, hsdata, _, _, _, hnum, hgen, hdict, _⟩ := startWriting_layout hsw
        exact ⟨by simp [emit, hsdoc], by simp [emit], st1, by simp [emit], hnum, hgen, hdict⟩


def PutSM (putS : WState → Nat → Nat → List (Bytes × Obj) → Option Int → Bytes → Except Err WState) : Prop :=
  ∀ {s s' : WState} {n g : Nat} {d : List (Bytes × Obj)} {ul : Option Int} {raw : Bytes},
    putS s n g d ul raw = .ok s' → SMono s s'

theorem replayWith_sm {putS} (hp : PutSM putS) (l : List (Nat × Nat × PutObj)) :
    ∀ {s s' : WState}, replayWith putS s l = .ok s' → SMono s s' := by
  induction l with
  | nil => intro s s' h; simp [replayWith] at h; subst h; exact SMono.of_eq rfl
  | cons x rest ih =>
    intro s s' h
    obtain ⟨num, gen, po⟩ := x
    cases po with
    | plain o =>
      simp only [replayWith] at h
      split at h
      · simp at h
      · rename_i s1 h1
        exact (SMono.of_eq (putPlain_sm h1)).trans (ih h)
    | stream d ul raw =>
      simp only [replayWith] at h
      split at h
      · simp at h
      · rename_i s1 h1
        exact (hp h1).trans (ih h)

/-- closing a stream records it: number, generation, the dictionary given to `OpenStream`, the
    bytes written -/
theorem streamCloseWith_sm {putS} (hp : PutSM putS) {s s' : WState} (h : streamCloseWith putS s = .ok s') :
    SMono s s' ∧ ∀ st, s.stm = some st → (st.num, st.gen, st.dict, s.sdata) ∈ s'.sdoc := by
  unfold streamCloseWith at h
  split at h
  · simp at h
  · rename_i st hs
    split at h
    · simp at h
    · rename_i s1 st1 len hr
      obtain ⟨_, _, hsdoc⟩ := closeLength_fields hr
      split at h
      · simp at h
      · have hm := replayWith_sm hp _ h
        constructor
        · intro x hx
          exact hm x (by simp [emit, hsdoc, hx])
        · intro st' hst'
          rw [hs] at hst'; cases hst'
          exact hm _ (by simp [emit])

theorem putStreamWith_sm {close : WState → Except Err WState}
    (hcc : ∀ {s s' : WState}, close s = .ok s' → SMono s s')
    {s s' : WState} {num gen : Nat} {d : List (Bytes × Obj)} {ul : Option Int} {raw : Bytes}
    (h : putStreamWith close s num gen d ul raw = .ok s') : SMono s s' := by
  unfold putStreamWith at h
  split at h
  · simp at h
  · rename_i s1 h1
    obtain ⟨e1, _, st, hst, _⟩ := openStream_sm h1
    split at h
    · simp at h
    · rename_i s2 h2
      obtain ⟨e2, _⟩ := streamWrite_sm hst h2
      exact ((SMono.of_eq e1).trans (SMono.of_eq e2)).trans (hcc h)

theorem noDeferredStream_sm : PutSM noDeferredStream := by
  intro s s' n g d ul raw h; simp [noDeferredStream] at h

theorem putStream0_sm : PutSM putStream0 := by
  intro s s' n g d ul raw h
  exact putStreamWith_sm (fun h => (streamCloseWith_sm noDeferredStream_sm h).1) h

theorem streamClose_sm {s s' : WState} (h : streamClose s = .ok s') :
    SMono s s' ∧ ∀ st, s.stm = some st → (st.num, st.gen, st.dict, s.sdata) ∈ s'.sdoc :=
  streamCloseWith_sm putStream0_sm h

theorem put_sm {s s' : WState} {num gen : Nat} {o : PutObj} (h : put s num gen o = .ok s') : SMono s s' := by
  unfold put at h
  split at h
  · simp only [Except.ok.injEq] at h
    subst h
    exact SMono.of_eq rfl
  · split at h
    · exact SMono.of_eq (putPlain_sm h)
    · exact putStreamWith_sm (fun h => (streamClose_sm h).1) h

theorem putAll_sm (l : List (Nat × Nat × Obj)) : ∀ {s s' : WState}, putAll s l = .ok s' → SMono s s' := by
  induction l with
  | nil => intro s s' h; simp [putAll] at h; subst h; exact SMono.of_eq rfl
  | cons x rest ih =>
    intro s s' h
    obtain ⟨num, gen, o⟩ := x
    simp only [putAll] at h
    split at h
    · simp at h
    · rename_i s1 hp
      exact (put_sm hp).trans (ih h)


/-- the entries `WriteCompressed` makes for the members: container and index; the numbers are
    pairwise different -/
theorem setEntries_get (sRef : Nat) : ∀ (items : List (Nat × Nat × Obj)) (x : XMap) (n i0 : Nat) (x' : XMap) (n' : Nat),
    setEntries sRef x n items i0 = some (x', n') →
    (∀ k e, x.get k = some e → x'.get k = some e) ∧
    (∀ j num g o, items[j]? = some (num, g, o) →
      x'.get num = some { inStream := sRef, pos := ((i0 + j : Nat) : Int), gen := 0 } ∧ x.get num = none ∧
      ∀ j', j' < j → (items.map (·.1))[j']? ≠ some num) := by
  intro items
  induction items with
  | nil =>
    intro x n i0 x' n' h
    simp only [setEntries, Option.some.injEq, Prod.mk.injEq] at h
    obtain ⟨rfl, _⟩ := h
    exact ⟨fun _ _ h => h, fun j num g o hj => by simp at hj⟩
  | cons it rest ih =>
    intro x n i0 x' n' h
    obtain ⟨num0, g0, o0⟩ := it
    simp only [setEntries] at h
    split at h
    · simp at h
    · rename_i x1 n1 hset
      obtain ⟨hnone, hx1, _, _⟩ := setXRef_ok hset
      obtain ⟨ih1, ih2⟩ := ih x1 n1 (i0 + 1) x' n' h
      have hkeep1 : ∀ k e, x.get k = some e → x1.get k = some e := by
        intro k e hk
        rw [hx1, C02fiob.get_set]
        split
        · rename_i heq; subst heq; rw [hnone] at hk; cases hk
        · exact hk
      refine ⟨fun k e hk => ih1 k e (hkeep1 k e hk), ?_⟩
      intro j num g o hj
      cases j with
      | zero =>
        simp only [List.getElem?_cons_zero, Option.some.injEq, Prod.mk.injEq] at hj
        obtain ⟨rfl, rfl, rfl⟩ := hj
        refine ⟨?_, hnone, fun j' hj' => by omega⟩
        have : x1.get num0 = some { inStream := sRef, pos := (i0 : Int), gen := 0 } := by
          rw [hx1, C02fiob.get_set]; simp
        simpa using ih1 _ _ this
      | succ j =>
        simp only [List.getElem?_cons_succ] at hj
        obtain ⟨a, b, c⟩ := ih2 j num g o hj
        have hne : num ≠ num0 := by
          intro heq; subst heq
          rw [hx1, C02fiob.get_set] at b
          simp at b
        refine ⟨by rw [a]; congr 2; omega, ?_, ?_⟩
        · rw [hx1, C02fiob.get_set] at b
          simpa [hne] using b
        · intro j' hj'
          cases j' with
          | zero => simp; exact fun h => hne h.symm
          | succ j' =>
            simp only [List.map_cons, List.getElem?_cons_succ]
            exact c j' (by omega)

theorem run_split (ops1 : List Op) (op : Op) (ops2 : List Op) : ∀ {s s' : WState} {i : Nat},
    run s (ops1 ++ op :: ops2) i = .ok s' →
    ∃ s1 s2 i2, run s ops1 i = .ok s1 ∧ step s1 op = .ok s2 ∧ run s2 ops2 i2 = .ok s' := by
  induction ops1 with
  | nil =>
    intro s s' i h
    simp only [List.nil_append, run] at h
    split at h
    · simp at h
    · rename_i s2 h2
      exact ⟨s, s2, _, rfl, h2, h⟩
  | cons o rest ih =>
    intro s s' i h
    simp only [List.cons_append, run] at h
    split at h
    · simp at h
    · rename_i sa ha
      obtain ⟨s1, s2, i2, a, b, c⟩ := ih h
      exact ⟨s1, s2, i2, by simp only [run, ha]; exact a, b, c⟩


theorem openStream_entry {s s' : WState} {num gen : Nat} {d : List (Bytes × Obj)} {ul : Option Int}
    (h : openStream s num gen d ul = .ok s') : ∃ e, s'.xref.get num = some e := by
  unfold openStream at h
  split at h
  · simp at h
  · split at h
    · simp at h
    · rename_i x n hset
      obtain ⟨_, hx, _, _⟩ := setXRef_ok hset
      simp only [Except.ok.injEq] at h
      subst h
      exact ⟨{ inStream := 0, pos := (s.pos : Int), gen := gen }, by simp only; rw [hx, C02fiob.get_set]; simp⟩

/-- one object stream, as the writer records it: the container (a fresh number) with the
    dictionary `osDict` and the bytes `raw` among the completed stream objects, and for member
    `j` the entry (container, `j`) -/
theorem writeObjStmAt_rec {s s' : WState} {items : List (Nat × Nat × Obj)} {raw : Bytes}
    (hi : Inv s) (h : writeObjStmAt s items raw = .ok s') :
    SMono s s' ∧ ∃ sRef content cnt first, 0 < sRef ∧
      objStmContent s.opts.fmtPlain (items.map fun (num, _, o) => (num, o)) = some (content, cnt, first) ∧
      (sRef, 0, osDict cnt first, raw) ∈ s'.sdoc ∧ (∃ e, s'.xref.get sRef = some e) ∧
      ∀ (j num g : Nat) (o : Obj), items[j]? = some (num, g, o) →
        s'.xref.get num = some { inStream := sRef, pos := ((j : Nat) : Int), gen := 0 } ∧
        ∀ j', j' < j → (items.map (·.1))[j']? ≠ some num := by
  unfold writeObjStmAt at h
  split at h
  · simp at h
  · rename_i s1 sRef ha
    obtain ⟨_, _, _, _, _, _, _, hr, _⟩ := alloc_inv hi ha
    have e1 := alloc_sm ha
    split at h
    · simp at h
    · rename_i x n hse
      obtain ⟨_, hent⟩ := setEntries_get sRef items _ _ 0 x n hse
      split at h
      · simp at h
      · rename_i content cnt first hoc
        simp only at h
        split at h
        · simp at h
        · rename_i s2 h2
          obtain ⟨e2, hd2, st2, hst2, hn2, hg2, hdict2⟩ := openStream_sm h2
          have m2 := openStream_mono h2
          split at h
          · simp at h
          · rename_i s3 h3
            obtain ⟨e3, hd3, st3, hst3, hn3, hg3, hdict3⟩ := streamWrite_sm hst2 h3
            have m3 := streamWrite_mono h3
            obtain ⟨m4, hrec⟩ := streamClose_sm h
            have m5 := streamClose_mono h
            refine ⟨fun y hy => m4 y (by rw [e3, e2]; simpa [e1] using hy), sRef, content, cnt, first,
              by rw [hr]; exact hi.npos, hoc, ?_, ?_, ?_⟩
            · have := hrec st3 hst3
              rw [hn3, hg3, hdict3, hn2, hg2, hdict2, hd3, hd2] at this
              simpa [osDict] using this
            · obtain ⟨e0, he0⟩ := openStream_entry h2
              exact ⟨e0, m5 _ _ (m3 _ _ he0)⟩
            · intro j num g o hj
              obtain ⟨a, _, c⟩ := hent j num g o hj
              refine ⟨m5 _ _ (m3 _ _ (m2 _ _ ?_)), c⟩
              simpa using a

theorem writeObjStm_rec {s s' : WState} {items : List (Nat × Nat × Obj)} {raw : Bytes}
    (hi : Inv s) (h : writeObjStm s items raw = .ok s') :
    SMono s s' ∧ ∃ sRef content cnt first, 0 < sRef ∧
      objStmContent s.opts.fmtPlain (items.map fun (num, _, o) => (num, o)) = some (content, cnt, first) ∧
      (sRef, 0, osDict cnt first, raw) ∈ s'.sdoc ∧ (∃ e, s'.xref.get sRef = some e) ∧
      ∀ (j num g : Nat) (o : Obj), items[j]? = some (num, g, o) →
        s'.xref.get num = some { inStream := sRef, pos := ((j : Nat) : Int), gen := 0 } ∧
        ∀ j', j' < j → (items.map (·.1))[j']? ≠ some num :=
  writeObjStmAt_rec (s := reserveNumbers s items) (reserveNumbers_inv hi items) h

theorem writeObjStms_sm (fuel : Nat) : ∀ {s s' : WState} {items : List (Nat × Nat × Obj)} {raws : List Bytes},
    Inv s → s.stm = none → writeObjStms fuel s items raws = .ok s' → SMono s s' := by
  induction fuel with
  | zero => intro s s' items raws _ _ h; simp [writeObjStms] at h
  | succ f ih =>
    intro s s' items raws hi hs h
    simp only [writeObjStms] at h
    split at h
    · split at h
      · simp at h
      · rename_i s1 h1
        obtain ⟨a, b, _⟩ := writeObjStm_inv hi hs h1
        exact (writeObjStm_rec hi h1).1.trans (ih a b h)
    · exact (writeObjStm_rec hi h).1

theorem writeCompressed_sm {s s' : WState} {items : List (Nat × Nat × Obj)} {raws : List Bytes}
    (hi : Inv s) (h : writeCompressed s items raws = .ok s') : SMono s s' := by
  unfold writeCompressed at h
  split at h
  · simp at h
  · rename_i hs
    have hs' : s.stm = none := by simpa using hs
    split at h
    · simp at h
    · split at h
      · simp only [Except.ok.injEq] at h; subst h; exact SMono.of_eq rfl
      · split at h
        · exact putAll_sm items h
        · exact writeObjStms_sm _ hi hs' h


theorem optPut_sm {s s' : WState} {o : Option Obj} {r : Option Nat} (h : optPut s o = .ok (s', r)) : SMono s s' := by
  unfold optPut at h
  split at h
  · simp only [Except.ok.injEq, Prod.mk.injEq] at h
    obtain ⟨rfl, _⟩ := h
    exact SMono.of_eq rfl
  · split at h
    · simp at h
    · rename_i s1 r1 ha
      split at h
      · simp at h
      · rename_i s2 hp
        simp only [Except.ok.injEq, Prod.mk.injEq] at h
        obtain ⟨rfl, _⟩ := h
        exact (SMono.of_eq (alloc_sm ha)).trans (put_sm hp)

theorem close_sm {s s' : WState} {cat : Obj} {info : Option Obj} {tr : List (Bytes × Obj)} {raw : Bytes}
    (h : close s cat info tr raw = .ok s') : SMono s s' := by
  unfold close at h
  split at h
  · simp at h
  · split at h
    · simp at h
    · rename_i s1 catRef h1
      split at h
      · simp at h
      · rename_i s2 infoRef h2
        have st2 := (optPut_sm h1).trans (optPut_sm h2)
        simp only at h
        split at h
        · split at h
          · simp at h
          · rename_i s3 ref ha
            split at h
            · simp at h
            · rename_i s4 h4
              obtain ⟨e4, _, st4, hst4, _⟩ := openStream_sm h4
              split at h
              · simp at h
              · rename_i s5 h5
                obtain ⟨e5, _⟩ := streamWrite_sm hst4 h5
                split at h
                · simp at h
                · rename_i s6 h6
                  simp only [Except.ok.injEq] at h
                  subst h
                  exact (((st2.trans (SMono.of_eq (alloc_sm ha))).trans (SMono.of_eq e4)).trans (SMono.of_eq e5)).trans
                    ((streamClose_sm h6).1.trans (SMono.of_eq rfl))
        · split at h
          · simp only [Except.ok.injEq] at h
            subst h
            exact st2.trans (SMono.of_eq rfl)
          · simp at h

theorem step_sm {s s' : WState} {op : Op} (hi : Inv s) (h : step s op = .ok s') : SMono s s' := by
  cases op with
  | alloc =>
    simp only [step] at h
    split at h
    · rename_i s1 r ha
      simp only [Except.ok.injEq] at h
      subst h
      exact SMono.of_eq (alloc_sm ha)
    · simp at h
  | put num gen o => exact put_sm h
  | openStream num gen dict ul => exact SMono.of_eq (openStream_sm h).1
  | write p =>
    simp only [step] at h
    cases hs : s.stm with
    | none => unfold streamWrite at h; simp [hs] at h
    | some st => exact SMono.of_eq (streamWrite_sm hs h).1
  | closeStream => exact (streamClose_sm h).1
  | writeCompressed items raw => exact writeCompressed_sm hi h
  | close cat info tr raw => exact close_sm h
  | openStreamFail num gen =>
    obtain ⟨_, _, n, _, _, rfl⟩ := openStreamFail_fields h
    exact SMono.of_eq rfl
  | rejected op => rw [rejected_fields h]; exact SMono.of_eq rfl

theorem run_sm (ops : List Op) : ∀ {s s' : WState} {i : Nat}, Inv s → run s ops i = .ok s' → SMono s s' := by
  induction ops with
  | nil => intro s s' i _ h; simp [run] at h; subst h; exact SMono.of_eq rfl
  | cons op rest ih =>
    intro s s' i hi h
    simp only [run] at h
    split at h
    · simp at h
    · rename_i s1 h1
      exact (step_sm hi h1).trans (ih (step_inv hi h1).1 h)


/-! ## members in a whole file -/

theorem fmtAll_of_parts (opt : FmtOpt) : ∀ (items : List (Nat × Obj)) (head body : Bytes) (r : Bytes × Bytes),
    objStmParts opt items head body = some r → ∃ bs, fmtAll opt items = some bs := by
  intro items
  induction items with
  | nil => intro _ _ _ _; exact ⟨[], rfl⟩
  | cons x rest ih =>
    intro head body r h
    obtain ⟨num, o⟩ := x
    cases rest with
    | nil =>
      simp only [objStmParts, Option.map_eq_some_iff] at h
      obtain ⟨b, hb, _⟩ := h
      exact ⟨[b], by simp [fmtAll, hb]⟩
    | cons y rest' =>
      simp only [objStmParts] at h
      split at h
      · simp at h
      · rename_i b hb
        obtain ⟨bs, hbs⟩ := ih _ _ _ h
        exact ⟨b :: bs, by obtain ⟨y1, y2⟩ := y; simp [fmtAll, hb] at hbs ⊢; simp [hbs]⟩

theorem osOffsets_get_inv (bs : List Bytes) : ∀ (off i o : Nat), (osOffsets bs off)[i]? = some o → ∃ b, bs[i]? = some b := by
  induction bs with
  | nil => intro off i o h; simp [osOffsets] at h
  | cons b0 rest ih =>
    intro off i o h
    cases i with
    | zero => exact ⟨b0, rfl⟩
    | succ i =>
      simp only [osOffsets, List.getElem?_cons_succ] at h
      simpa using ih _ _ _ h

theorem osOffsets_le (bs : List Bytes) (o : Nat) (h : o ∈ osOffsets bs 0) : o ≤ (osBody bs).length := by
  obtain ⟨i, hi⟩ := List.mem_iff_getElem?.1 h
  obtain ⟨b, hb⟩ := osOffsets_get_inv bs 0 i o hi
  obtain ⟨pre, tail, h1, h2, _⟩ := os_layout bs 0 i o b hi hb
  rw [h1]; simp; omega


/-- **file_rt_xrefstream_members.**  Object-stream members of a whole file, for every program the
writer model accepts (object-stream mode, unencrypted) that contains a `WriteCompressed items` and
ends in `Close`: the writer has recorded a container `sRef` (a fresh number) with the dictionary
`osDict` and the bytes `raws.head` among its completed stream objects, and — when the reader's map
agrees with the writer's table at `sRef` (`P sRef`) and on the members' compressed entries
(`hmstm`, which `xrefstream_map_agrees` provides) — `Reader.get` on the bytes of the file returns
for EVERY member the object written, up to C01's comparison form.

No hypothesis about the writer's state: the record and the entries are derived from the program
(`writeObjStm_rec`, kept by all later operations: `run_sm`, `run_mono`); that members are not
references and have generation 0 is derived from `WriteCompressed` having accepted them.
Parameters/limits: zlib (`inflate raws.head = content`, the content `objStmContent` assembles),
`getInt`, members within C01's limits (`good`, `depthOk`), at most `maxObjStmObjects` members (one
object stream; the splitting loop for more is covered by the writer-side invariants only), content
below 2^63 bytes. -/
theorem file_rt_xrefstream_members (o : WOpts) (s0 s : WState) (ops1 ops2 : List Op)
    (items : List (Nat × Nat × Obj)) (raws : List Bytes)
    (cat : Obj) (info : Option Obj) (tr : List (Bytes × Obj)) (raw : Bytes)
    (henc : o.encrypted = false) (hobj : o.objStm = true)
    (h0 : initState o = some s0)
    (h : run s0 ((ops1 ++ .writeCompressed items raws :: ops2) ++ [.close cat info tr raw]) 0 = .ok s)
    (hsize : s.out.length < 9223372036854775808)
    (hnr : s.nextRef ≤ Gen.fio_maxXRefSize)
    (m : XMap) (P : Nat → Prop)
    (hm : ∀ n e, P n → s.xref.get n = some e → e.inStream = 0 → 0 ≤ e.pos →
      m.get n = some { inStream := 0, pos := e.pos, gen := e.gen })
    (hmstm : ∀ n e, s.xref.get n = some e → e.inStream ≠ 0 → 0 ≤ e.pos →
      m.get n = some { inStream := e.inStream, pos := e.pos, gen := 0 })
    (inflate : Bytes → Option Bytes) (getInt : Obj → Except Err Int)
    (hgi : ∀ i, getInt (.int i) = .ok i)
    (hgr : ∀ r len, (r, 0, Obj.int len) ∈ s.doc → getInt (.ref r 0) = .ok len)
    (hne : items ≠ []) (hcap : items.length ≤ Gen.fio_maxObjStmObjects)
    (hgood : ∀ it ∈ items, good it.2.2 = true ∧ depthOk it.2.2)
    (content : Bytes) (cnt first : Nat)
    (hc : objStmContent o.fmtPlain (items.map fun (num, _, ob) => (num, ob)) = some (content, cnt, first))
    (hinf : inflate (raws.headD []) = some content)
    (hclen : content.length ≤ 9223372036854775807) :
    ∃ sRef, 0 < sRef ∧ (sRef, 0, osDict cnt first, raws.headD []) ∈ s.sdoc ∧
      (∀ s1, run s0 (ops1 ++ .writeCompressed items raws :: ops2) 0 = .ok s1 → ∃ e, s1.xref.get sRef = some e) ∧
      (P sRef → ∀ (j num g : Nat) (ob : Obj), items[j]? = some (num, g, ob) →
        ∃ r, readerGet s.out m 0 inflate getInt num 0 = .ok (some (.plain r)) ∧ nrm r = nrm ob) := by
  obtain ⟨hopts0, _, _, _⟩ := initState_facts o s0 h0
  have hi0 := init_inv o s0 h0
  have his := run_inv _ hi0 h
  have hoptss : s.opts = o := by rw [run_opts _ hi0 h, hopts0]
  have hlit : s.opts.litStr = false := by rw [hoptss]; simp [WOpts.litStr, henc]
  obtain ⟨_, hsdoc, _⟩ := C02fioh.writer_objects_stay o s0 s _ h0 h
  rw [List.append_assoc, List.cons_append] at h
  obtain ⟨s1, s2, i2, hr1, hstep, hr2⟩ := run_split ops1 _ _ h
  have hi1 := run_inv _ hi0 hr1
  have hopts1 : s1.opts = o := by rw [run_opts _ hi0 hr1, hopts0]
  have hi2 := (step_inv hi1 hstep).1
  -- the single object stream
  simp only [step] at hstep
  have hstep0 := hstep
  unfold writeCompressed at hstep
  split at hstep
  · simp at hstep
  · split at hstep
    · simp at hstep
    · rename_i hany
      split at hstep
      · rename_i hemp; simp at hemp; exact absurd hemp hne
      · split at hstep
        · rename_i hno; rw [hopts1, hobj] at hno; simp at hno
        · simp only [writeObjStms] at hstep
          rw [if_neg (by omega)] at hstep
          obtain ⟨_, sRef, content', cnt', first', hs0, hoc, hrec, ⟨e0, he0⟩, hent⟩ := writeObjStm_rec hi1 hstep
          rw [hopts1, hc] at hoc
          simp only [Option.some.injEq, Prod.mk.injEq] at hoc
          obtain ⟨rfl, rfl, rfl⟩ := hoc
          have hrecs := run_sm _ hi2 hr2 _ hrec
          have hmono := run_mono _ hr2
          refine ⟨sRef, hs0, hrecs, ?_, ?_⟩
          · intro sx hsx
            obtain ⟨sa, sb, ib, hra, hsb, hrb⟩ := run_split ops1 _ _ hsx
            rw [hr1] at hra
            simp only [Except.ok.injEq] at hra
            subst hra
            simp only [step] at hsb
            rw [hstep0] at hsb
            simp only [Except.ok.injEq] at hsb
            subst hsb
            exact ⟨e0, run_mono _ hrb _ _ he0⟩
          intro hP j num g ob hj
          -- the container in the file
          obtain ⟨e, dictBytes, value, off, hxe, heg, hins, hpos, hfd, hlt, hat, _⟩ := hsdoc _ hrecs
          simp only at hxe heg hfd hlt hat
          have hmn := hm sRef e hP hxe hins hpos
          rw [heg] at hmn
          rw [hlit] at hfd
          have hsref : sRef < Gen.fio_maxXRefSize := by have := his.below sRef e hxe; omega
          have hbl : (raws.headD []).length ≤ 9223372036854775807 := by
            have := hat.end_le
            simp only [List.length_append] at this
            omega
          -- the member's entry
          obtain ⟨hx2, hfst⟩ := hent j num g ob hj
          have hxs := hmono _ _ hx2
          have hmnum := hmstm num _ hxs (by simp; omega) (by simp)
          simp only at hmnum
          -- the content
          have hparts : ∃ r, objStmParts o.fmtPlain (items.map fun (num, _, ob) => (num, ob)) [] [] = some r := by
            simp only [objStmContent, Option.map_eq_some_iff] at hc
            obtain ⟨r, hr, _⟩ := hc
            exact ⟨r, hr⟩
          obtain ⟨r, hr⟩ := hparts
          obtain ⟨bs, hbs⟩ := fmtAll_of_parts o.fmtPlain _ [] [] r hr
          have hlay := objStmParts_layout o.fmtPlain _ bs [] [] hbs
          have hc' := hc
          simp only [objStmContent, hlay, Option.map_some, List.nil_append, List.length_nil, Option.some.injEq,
            Prod.mk.injEq] at hc'
          obtain ⟨hcontent, hcnt, hfirst⟩ := hc'
          have hmapfst : (items.map fun (num, _, ob) => (num, ob)).map (·.1) = items.map (·.1) := by
            simp [List.map_map, Function.comp_def]
          exact get_member_rt s.out m s.opts.fmt sRef cnt first (raws.headD []) content e.pos dictBytes value off s.doc
            hmn hpos hfd hlt hat hsref (by omega) hbl hsize inflate getInt hgi hgr
            o.fmtPlain (items.map fun (num, _, ob) => (num, ob)) bs hbs hc hinf
            (by
              intro x hx
              obtain ⟨⟨n1, g1, o1⟩, hmem, rfl⟩ := List.mem_map.1 hx
              obtain ⟨k, hk⟩ := List.mem_iff_getElem?.1 hmem
              have := his.below _ _ (hmono _ _ (hent k n1 g1 o1 hk).1)
              simp [Gen.fio_maxXRefSize] at hnr
              simp only
              omega)
            (by
              intro ofs hofs
              have := osOffsets_le bs ofs hofs
              have : (osBody bs).length ≤ content.length := by rw [← hcontent]; simp
              omega)
            (by rw [← hcnt]; simpa [Gen.fio_maxObjStmObjects] using hcap)
            (by
              have : content.length = first + (osBody bs).length := by rw [← hcontent, ← hfirst]; simp
              omega)
            (by
              intro x hx
              obtain ⟨⟨n1, g1, o1⟩, hmem, rfl⟩ := List.mem_map.1 hx
              obtain ⟨a, b⟩ := hgood _ hmem
              refine ⟨a, b, ?_⟩
              have hany' := hany
              simp at hany'
              have := (hany' n1 g1 o1 hmem).2
              simp only
              cases o1 <;> simp [isRefObj] at this ⊢)
            j num ob (by simp [List.getElem?_map, hj]) (by rw [hmapfst]; exact hfst)
            (j : Int) (by omega) hmnum


-- non-vacuity of `file_rt_xrefstream_members` on the file of `C02fioh`'s example (object stream 6
-- with members 4 = `7` and 5 = `/B`; integer member 4 is followed by the next member's text, the
-- case in which `readReferenceTail` has to say "not a reference"): the hypotheses hold (`inflate :=
-- some`, the content is what `objStmContent` assembles, members within the limits), the record
-- `(6, 0, osDict 2 8, content)` is among the writer's stream objects, and both members come back
example : (match initState C02fioh.exOpts with
    | some s0 => (match run s0 (C02fioh.exProg []) 0 with
      | .ok sa =>
        let x := sa.xref.filter (fun (p : Nat × XEntry) => p.1 != 8)
        let pl := xrefStreamPayload x sa.nextRef
        (match run s0 (C02fioh.exProg pl.2.2) 0 with
         | .ok s =>
           (match C02fioh.decodeXRefData some pl.1 pl.2.1 s.nextRef pl.2.2,
                  objStmContent C02fioh.exOpts.fmtPlain (C02fioh.exItems.map fun (n, _, o) => (n, o)) with
            | .ok m, some (content, cnt, first) =>
              C02fioh.exOpts.objStm && !C02fioh.exOpts.encrypted && content == C02fioh.exObjStm &&
              cnt == 2 && first == 8 &&
              C02fioh.exItems.all (fun it => good it.2.2 && decide (depthOf it.2.2 ≤ Gen.scanner_maxScannerNestDepth)) &&
              s.sdoc.any (fun r => r.1 == 6 && r.2.1 == 0 && r.2.2.2 == content &&
                r.2.2.1.map (·.1) == (osDict cnt first).map (·.1)) &&
              m.get 4 == some ⟨6, 0, 0⟩ && m.get 5 == some ⟨6, 1, 0⟩ && m.get 6 == s.xref.get 6 &&
              (match readerGet s.out m 0 some C02fioh.exGetInt 4 0 with | .ok (some (.plain (.int 7))) => true | _ => false) &&
              (match readerGet s.out m 0 some C02fioh.exGetInt 5 0 with | .ok (some (.plain (.name [66]))) => true | _ => false)
            | _, _ => false)
         | _ => false)
      | _ => false)
    | none => false) = true := by decide +kernel

end PdfVerif.C02fioi

import PdfVerif.Generated.InvROBSwallow
/-!
# C19 — inventory of discarded and dropped errors in the packages a document walk goes through

`Generated/InvROBSwallow.lean` is re-extracted from the Go sources on every check (tools/extract,
`swallow_dirs` of facts.d/12_rob_swallow.json): assignments that discard the last result of a call
(`x, _ := f()`), if statements that test `err != nil` and go on without the error
(`if err != nil { continue }`), and if statements without else that only handle `err == nil`.
`reviewed` gives every key a verdict: `fix` — read errors are swallowed, a patch exists
(/tmp/w/robust/fixes/D-C19-*.diff; the all-k walk of harness/rob_c19w.go shows the effect);
`waiver` — reviewed and accepted; `noterror` — the discarded value is no error or no I/O is behind
the call.  `swallow_reviewed` says that the two lists are equal: a NEW discarded or dropped error in
these packages breaks the build until it has a verdict here.
-/
namespace PdfVerif.C19robswl

inductive Verdict where
  | fix | waiver | noterror
  deriving DecidableEq, Repr

/-- the reviewed keys with verdict and reason -/
def reviewed : List (String × Verdict × String) := [
  ("font/cmap/file.go:Extract:discard:res.Parent, _ = Predefined(string(parentName))", .noterror,
   "noterror: predefined CMaps are built into the library; an unknown name is tolerated (the dictionary form /UseCMap is made to agree by D-C19-cmap-malformed.diff)"),
  ("font/cmap/gid2cid.go:NewGIDToCIDFromROS:discard:m, _ := mapping.GetCIDTextMapping(ros.Registry, ros.Ordering)", .noterror,
   "noterror: mapping tables built into the library"),
  ("font/cmap/tounicode.go:readToUnicode:errdrop:if err != nil { continue }", .noterror,
   "noterror: works on bytes already in memory (the stream was read by ReadAll before), no read can fail here"),
  ("font/cmap/tounicode.go:readToUnicode:errdrop:if err != nil { continue }#2", .noterror,
   "noterror: works on bytes already in memory (the stream was read by ReadAll before), no read can fail here"),
  ("font/dict/encoding.go:SimpleTextMap:discard:codec, _ := charcode.NewCodec(charcode.Simple)", .noterror,
   "noterror: the simple code space range is a constant of the library and valid"),
  ("font/dict/encoding.go:makeCodec:discard:codec, _ := charcode.NewCodec(charcode.Simple)", .noterror,
   "noterror: the simple code space range is a constant of the library and valid"),
  ("font/dict/encoding.go:makeCodec:errnil:if err == nil", .noterror,
   "noterror: charcode.NewCodec on ranges taken from an already decoded CMap"),
  ("font/dict/truetype.go:TrueType.Codec:discard:codec, _ := charcode.NewCodec(charcode.Simple)", .noterror,
   "noterror: the simple code space range is a constant of the library and valid"),
  ("font/dict/type0.go:CIDFontType0.MakeFont:discard:defaultText, _ := mapping.GetCIDTextMapping(d.ROS.Registry, d.ROS.Ordering)", .noterror,
   "noterror: mapping tables built into the library; an unknown collection gives no default text"),
  ("font/dict/type0.go:cidForText:errnil:if reverse, err := mapping.GetTextToCIDMapping(ros.Registry, ros.Ordering); err == nil", .noterror,
   "noterror: mapping tables built into the library"),
  ("font/dict/type1.go:Type1.Codec:discard:codec, _ := charcode.NewCodec(charcode.Simple)", .noterror,
   "noterror: the simple code space range is a constant of the library and valid"),
  ("font/dict/type2.go:CIDFontType2.MakeFont:discard:defaultText, _ := mapping.GetCIDTextMapping(d.ROS.Registry, d.ROS.Ordering)", .noterror,
   "noterror: mapping tables built into the library; an unknown collection gives no default text"),
  ("font/dict/type3.go:Type3.Codec:discard:codec, _ := charcode.NewCodec(charcode.Simple)", .noterror,
   "noterror: the simple code space range is a constant of the library and valid"),
  ("font/glyphdata/sfntglyphs/truetype.go:methodA:errdrop:if err != nil { return ll }", .waiver,
   "waiver: work on the font program already in memory (sfnt tables); the fallback chain A-D of the spec is intended"),
  ("font/glyphdata/sfntglyphs/truetype.go:methodB:errdrop:if err != nil { return ll }", .waiver,
   "waiver: work on the font program already in memory (sfnt tables); the fallback chain A-D of the spec is intended"),
  ("font/glyphdata/sfntglyphs/truetype.go:methodC:errdrop:if err != nil { return ll }", .waiver,
   "waiver: work on the font program already in memory (sfnt tables); the fallback chain A-D of the spec is intended"),
  ("font/glyphdata/sfntglyphs/truetype.go:methodD:errdrop:if err != nil { return ll }", .waiver,
   "waiver: work on the font program already in memory (sfnt tables); the fallback chain A-D of the spec is intended"),
  ("graphics/extract/extgstate.go:ExtGState:errnil:if err == nil", .fix,
   "fix: D-C19-extract-misc.diff — BG/BG2/UCR/UCR2 functions: a read error dropped the function silently (after the patch: waiver, read errors are returned just above)"),
  ("graphics/extract/extgstate.go:ExtGState:errnil:if err == nil#2", .fix,
   "fix: D-C19-extract-misc.diff — BG/BG2/UCR/UCR2 functions: a read error dropped the function silently (after the patch: waiver, read errors are returned just above)"),
  ("graphics/extract/extgstate.go:ExtGState:errnil:if err == nil#3", .fix,
   "fix: D-C19-extract-misc.diff — BG/BG2/UCR/UCR2 functions: a read error dropped the function silently (after the patch: waiver, read errors are returned just above)"),
  ("graphics/extract/extgstate.go:ExtGState:errnil:if err == nil#4", .fix,
   "fix: D-C19-extract-misc.diff — BG/BG2/UCR/UCR2 functions: a read error dropped the function silently (after the patch: waiver, read errors are returned just above)"),
  ("graphics/extract/extgstate.go:extractBlendMode:errdrop:if err != nil { continue }", .fix,
   "fix: D-C19-extract-misc.diff"),
  ("graphics/extract/extgstate.go:parseTransferFunction:errnil:if err == nil && len(arr) >= 4", .fix,
   "fix: D-C19-extract-misc.diff (after the patch: waiver, read errors are returned just above)"),
  ("graphics/extract/font-metrics.go:getSimpleWidths:discard:ok, _ := getSimpleWidthsErr(ww, c, fontDict, defaultWidth)", .waiver,
   "waiver: after the patch: the bool-only wrapper kept for the verif hook"),
  ("graphics/extract/font-metrics.go:getSimpleWidthsErr:errdrop:if err != nil { continue }", .waiver,
   "waiver: after the patch: read errors are returned just above, malformed width entries are skipped"),
  ("graphics/extract/font-type0.go:repairCIDType0:discard:d.CMap, _ = cmap.Predefined(\"Identity-H\")", .noterror,
   "noterror: Identity-H is built into the library (embedded file system), no file I/O of the document"),
  ("graphics/extract/font-type2.go:repairCIDType2:discard:d.CMap, _ = cmap.Predefined(\"Identity-H\")", .noterror,
   "noterror: Identity-H is built into the library (embedded file system), no file I/O of the document"),
  ("graphics/extract/font-type3.go:extractFontType3:errdrop:if err != nil { continue }", .fix,
   "fix: D-C19-extract-fonts.diff — CharProcs: read errors propagate, malformed glyph streams are skipped"),
  ("graphics/extract/form.go:Form:errdrop:if err != nil { f.Matrix = matrix.Identity }", .fix,
   "fix: D-C19-extract-misc.diff — /Subtype, /Name, /Matrix"),
  ("graphics/extract/pattern.go:extractType1:errdrop:if err != nil { pat.Matrix = matrix.Identity }", .fix,
   "fix: D-C19-extract-misc.diff — /Matrix fell back to the identity on a read error"),
  ("graphics/extract/pattern.go:extractType2:errdrop:if err != nil { pat.Matrix = matrix.Identity }", .fix,
   "fix: D-C19-extract-misc.diff — /Matrix fell back to the identity on a read error"),
  ("graphics/extract/resources.go:Resources:errdrop:if err != nil { continue }", .fix,
   "fix: D-C19-extract-resources.diff — 'continue // permissive' dropped read errors of every resource kind (fonts: text vanishes or changes with a nil error)"),
  ("graphics/extract/resources.go:Resources:errdrop:if err != nil { continue }#2", .fix,
   "fix: D-C19-extract-resources.diff — 'continue // permissive' dropped read errors of every resource kind (fonts: text vanishes or changes with a nil error)"),
  ("graphics/extract/resources.go:Resources:errdrop:if err != nil { continue }#3", .fix,
   "fix: D-C19-extract-resources.diff — 'continue // permissive' dropped read errors of every resource kind (fonts: text vanishes or changes with a nil error)"),
  ("graphics/extract/resources.go:Resources:errdrop:if err != nil { continue }#4", .fix,
   "fix: D-C19-extract-resources.diff — 'continue // permissive' dropped read errors of every resource kind (fonts: text vanishes or changes with a nil error)"),
  ("graphics/extract/resources.go:Resources:errdrop:if err != nil { continue }#5", .fix,
   "fix: D-C19-extract-resources.diff — 'continue // permissive' dropped read errors of every resource kind (fonts: text vanishes or changes with a nil error)"),
  ("graphics/extract/resources.go:Resources:errdrop:if err != nil { continue }#6", .fix,
   "fix: D-C19-extract-resources.diff — 'continue // permissive' dropped read errors of every resource kind (fonts: text vanishes or changes with a nil error)"),
  ("graphics/extract/resources.go:Resources:errdrop:if err != nil { continue }#7", .fix,
   "fix: D-C19-extract-resources.diff — 'continue // permissive' dropped read errors of every resource kind (fonts: text vanishes or changes with a nil error)"),
  ("graphics/extract/resources.go:Resources:errnil:if err == nil && colorSpaceDict != nil", .waiver,
   "waiver: after the patch: read errors are returned just above, malformed sub-dictionaries are skipped"),
  ("graphics/extract/resources.go:Resources:errnil:if err == nil && extGStateDict != nil", .waiver,
   "waiver: after the patch: read errors are returned just above, malformed sub-dictionaries are skipped"),
  ("graphics/extract/resources.go:Resources:errnil:if err == nil && fontDict != nil", .waiver,
   "waiver: after the patch: read errors are returned just above, malformed sub-dictionaries are skipped"),
  ("graphics/extract/resources.go:Resources:errnil:if err == nil && patternDict != nil", .waiver,
   "waiver: after the patch: read errors are returned just above, malformed sub-dictionaries are skipped"),
  ("graphics/extract/resources.go:Resources:errnil:if err == nil && procSetArray != nil", .waiver,
   "waiver: after the patch: read errors are returned just above, malformed sub-dictionaries are skipped"),
  ("graphics/extract/resources.go:Resources:errnil:if err == nil && propertiesDict != nil", .waiver,
   "waiver: after the patch: read errors are returned just above, malformed sub-dictionaries are skipped"),
  ("graphics/extract/resources.go:Resources:errnil:if err == nil && shadingDict != nil", .waiver,
   "waiver: after the patch: read errors are returned just above, malformed sub-dictionaries are skipped"),
  ("graphics/extract/resources.go:Resources:errnil:if err == nil && xobjectDict != nil", .waiver,
   "waiver: after the patch: read errors are returned just above, malformed sub-dictionaries are skipped"),
  ("internal/pdftree/memory.go:extractFromNode:errdrop:if err != nil { continue }", .fix,
   "fix: D-C19-pdftree.diff — extractFromNode had no error result; ExtractInMemory returned a partial map with a nil error after a read error"),
  ("internal/pdftree/memory.go:extractFromNode:errdrop:if err != nil { continue }#2", .fix,
   "fix: D-C19-pdftree.diff — extractFromNode had no error result; ExtractInMemory returned a partial map with a nil error after a read error"),
  ("internal/pdftree/streaming.go:?.Embed:errdrop:if copyErr != nil { return }", .waiver,
   "waiver: inside the copying iterator of the cross-file Embed (fix D-TRS-fromfile-embed-crossfile): the iterator stops and Embed returns copyErr after Write"),
  ("internal/pdftree/streaming.go:?.Embed:errnil:if err == nil && t != nil && t.Err != nil", .waiver,
   "waiver: after the patch: the error of Write wins, else the read error recorded by All is returned"),
  ("internal/pdftree/streaming.go:?.Lookup:errdrop:if err != nil || node == nil { return nil, ErrKeyNotFound }", .fix,
   "fix: D-C19-pdftree.diff — Lookup answered ErrKeyNotFound for a present key after a read error"),
  ("internal/pdftree/streaming.go:?.lookupInNode:errdrop:if err != nil { continue }", .fix,
   "fix: D-C19-pdftree.diff — Lookup answered ErrKeyNotFound for a present key after a read error"),
  ("internal/pdftree/streaming.go:?.lookupInNode:errdrop:if err != nil { continue }#2", .fix,
   "fix: D-C19-pdftree.diff — Lookup answered ErrKeyNotFound for a present key after a read error"),
  ("internal/pdftree/streaming.go:?.lookupInNode:errdrop:if err != nil { continue }#3", .fix,
   "fix: D-C19-pdftree.diff — Lookup answered ErrKeyNotFound for a present key after a read error"),
  ("internal/pdftree/streaming.go:?.lookupInNode:errdrop:if err != nil { continue }#4", .fix,
   "fix: D-C19-pdftree.diff — Lookup answered ErrKeyNotFound for a present key after a read error"),
  ("internal/pdftree/streaming.go:?.lookupInNode:errdrop:if err != nil { return nil, ErrKeyNotFound }", .fix,
   "fix: D-C19-pdftree.diff — Lookup answered ErrKeyNotFound for a present key after a read error"),
  ("internal/pdftree/streaming.go:?.lookupInNode:errdrop:if err != nil { return nil, ErrKeyNotFound }#2", .fix,
   "fix: D-C19-pdftree.diff — Lookup answered ErrKeyNotFound for a present key after a read error"),
  ("internal/pdftree/streaming.go:?.lookupInNode:errdrop:if err != nil || len(limitsArr) != 2 { continue }", .fix,
   "fix: D-C19-pdftree.diff — Lookup answered ErrKeyNotFound for a present key after a read error"),
  ("pagelabel/pagelabel.go:Extract:errnil:if err == nil", .fix,
   "fix: D-C19-pagelabel.diff — /S, /P, /St of a label dictionary (after the patch: waiver, read errors are returned just above)"),
  ("pagelabel/pagelabel.go:Extract:errnil:if err == nil && s != \"\"", .fix,
   "fix: D-C19-pagelabel.diff — /S, /P, /St of a label dictionary (after the patch: waiver, read errors are returned just above)"),
  ("pagelabel/pagelabel.go:Extract:errnil:if err == nil && st >= 1", .fix,
   "fix: D-C19-pagelabel.diff — /S, /P, /St of a label dictionary (after the patch: waiver, read errors are returned just above)"),
  ("pagelabel/pagelabel.go:Labels.RangeAt:discard:i, _ := slices.BinarySearchFunc(l.Ranges, pageIndex, func(lr Entry, target int) int { return lr.FirstPage - target })", .noterror,
   "noterror: the second result of slices.BinarySearchFunc is a bool"),
  ("pagetree/simple.go:GetPage:errnil:if err == nil", .waiver,
   "waiver: only the text of the 'page not found' error depends on NumPages; an error is returned in both branches"),
  ("pagetree/simple.go:GetPage:errnil:if err == nil#2", .waiver,
   "waiver: only the text of the 'page not found' error depends on NumPages; an error is returned in both branches"),
  ("pagetree/subtree.go:inheritKey:errdrop:if err != nil { return }", .noterror,
   "noterror: pdf.Format into a bytes.Buffer (writer side)"),
  ("reader/reader.go:Reader.processOperator:discard:_ = r.State.ApplyStateChanges(name, args)", .waiver,
   "waiver: state bookkeeping on operands already parsed, no I/O; malformed operators are ignored by design"),
  ("reader/reader.go:Reader.processOperator:errnil:if at, err := property.ListGet(mc.Properties, property.ExtractActualText); err == nil", .waiver,
   "waiver: /ActualText of a marked-content property list is optional; the property list was decoded with the resources (read errors surface there after D-C19-extract-resources.diff)")
]

/-- the inventory as regenerated from the sources -/
def generated : List String := Gen.rob_swallow_inventory

/-- **every discarded or dropped error of the walked packages has been reviewed** -/
theorem swallow_reviewed : generated = reviewed.map Prod.fst := by rfl

/-- number of items per verdict (a new waiver changes this statement) -/
theorem swallow_counts :
    (reviewed.length, (reviewed.filter (·.2.1 = .fix)).length, (reviewed.filter (·.2.1 = .waiver)).length,
     (reviewed.filter (·.2.1 = .noterror)).length) = (67, 30, 20, 17) := by decide +kernel

end PdfVerif.C19robswl

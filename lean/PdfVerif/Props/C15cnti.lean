import PdfVerif.Props.C15cntm
/-!
# C15 — inline images, and the final `ops_rt_deep` / `split_rt_deep`

`inline_image_rt`: an inline image written by `Operator.Format` (`BI`, the dictionary entries —
keys as escaped names, nil entries skipped —, `ID`, the data, `EI`) is read back by one `Scan`
call as the same dictionary and the same data, for

* **all key byte strings** (below the name cap), **nil entries** (absent on re-reading) and
  values of any shape built from flat operands by arrays (including **empty arrays**) and
  dictionaries up to the nesting limit `maxValueDepth` of `readValueDepth`
  (`valT`/`arrVT`/`dictVT`, mutual structural induction against the recursive reader);
* width and height within the scanner's limits;
* data of at most `maxInlineImageBytes` bytes which either comes with a `Length`/`L` entry equal
  to its length (then the data is arbitrary: `EI` inside, leading white space behind an ASCII
  filter, D-C15-9) or has no positive `Length`, a last filter which is not ASCII, and **contains
  no end-of-line byte followed by `EI` and a non-regular byte** (`hasFalseEI = false`).

`noL_cap_eq_L_cap`: the `EI` search finds data of `n` bytes iff the `Length` branch accepts
`Length = n`, namely iff `n ≤ maxInlineImageBytes` (D-C15-2: the search loop of the library before
the fix stopped at `maxInlineImageBytes − 2`; `noL_cap_old_off_by_two` is the refutation for it).

`inline_image_rt_full_false` shows on the model that the last hypothesis cannot be dropped (the
known finding D11).  The restrictions "keys are plain", "no nil entries", "no empty arrays" of
the earlier version existed only because of the defects D16–D18 (fixed in b0fd5e1, c042ca9,
9604029) and are gone.
-/
namespace PdfVerif.C15cnti
open PdfVerif PdfVerif.CNT PdfVerif.C15cnt PdfVerif.C15cnto PdfVerif.C15cntd PdfVerif.C15cntn PdfVerif.C15cntm

/-! ## `readValueDepth` on written values -/

theorem readValue_nonop (f d : Nat) (inp rest : Bytes) (t : Obj) (h : scanToken inp = .ok t rest)
    (hno : ∀ n, t ≠ .op n) : readValue (f + 1) d inp = .ok t rest := by
  rw [readValue, h]
  cases t <;> simp_all

theorem readValue_space (c : Nat) (z : Bytes) (hc : cSpace c = true) (fuel d : Nat) :
    readValue fuel d (c :: z) = readValue fuel d z := by
  cases fuel with
  | zero => simp [readValue]
  | succ f => rw [readValue, readValue, scanToken_space c z hc]

theorem readDictBody_space (c : Nat) (z : Bytes) (hc : cSpace c = true) (fuel : Nat) (term : Bytes) (vd : Nat)
    (acc : List (Bytes × Obj)) : readDictBody fuel term vd acc (c :: z) = readDictBody fuel term vd acc z := by
  cases fuel with
  | zero => simp [readDictBody]
  | succ f => rw [readDictBody, readDictBody, skipWS_space c z hc]

theorem readArr_space (c : Nat) (z : Bytes) (hc : cSpace c = true) (fuel d : Nat) (acc : List Obj) :
    readArr fuel d acc (c :: z) = readArr fuel d acc z := by
  cases fuel with
  | zero => simp [readArr]
  | succ f => rw [readArr, readArr, skipWS_space c z hc]

/-- atoms -/
theorem atomV (c : Obj) (h : FlatOk c) (ns : Bool) (bs : Bytes) (ns' : Bool) (d : Nat) (rest : Bytes) (fuel : Nat)
    (hb : fmtObj copt ns c = some (bs, ns')) (hend : ns' = true → TokEnd rest) (hfuel : fuel ≥ 1) :
    readValue fuel d (bs ++ rest) = .ok (normA c) rest := by
  match fuel, hfuel with
  | f+1, _ => exact readValue_nonop f d _ _ _ (atom_seq c h ns bs ns' hb rest hend) (normA_not_op c h)

theorem mkDict_cons (k : Bytes) (v : Obj) (data : List Obj) (acc : List (Bytes × Obj)) :
    mkDict (.name k :: v :: data) acc =
      (match v with
       | .null => mkDict data acc
       | v => mkDict data (dictInsert k v acc)) := by
  cases v <;> simp [mkDict]

theorem dictInsert_length (k : Bytes) (v : Obj) (acc : List (Bytes × Obj)) :
    (dictInsert k v acc).length ≤ acc.length + 1 := by
  induction acc with
  | nil => simp [dictInsert]
  | cons e r ih =>
    obtain ⟨k', v'⟩ := e
    simp only [dictInsert]
    split <;> simp <;> omega

theorem costO_pos (c : Obj) : 1 ≤ costO c := by
  cases c <;> simp [costO]


theorem skipWS_head_aux (l : Bytes) :
    (∀ c r, CNT.skipWS l = c :: r → cSpace c = false ∧ (c == 37) = false) ∧
    (∀ c r, skipCmt l = c :: r → cSpace c = false ∧ (c == 37) = false) := by
  induction l with
  | nil => simp [CNT.skipWS, skipCmt]
  | cons x xs ih =>
    constructor
    · intro c r h
      simp only [CNT.skipWS] at h
      split at h
      · exact ih.1 c r h
      · rename_i hsp
        split at h
        · exact ih.2 c r h
        · rename_i h37
          simp at h
          obtain ⟨h1, _⟩ := h
          subst h1
          exact ⟨by simpa using hsp, by simpa using h37⟩
    · intro c r h
      simp only [skipCmt] at h
      split at h
      · rename_i heol
        split at h
        · exact ih.1 c r h
        · rename_i hsp
          simp at h
          obtain ⟨h1, _⟩ := h
          subst h1
          refine ⟨by simpa using hsp, ?_⟩
          simp at heol
          rcases heol with e | e <;> simp [e]
      · exact ih.2 c r h

theorem skipWS_idem (l : Bytes) : CNT.skipWS (CNT.skipWS l) = CNT.skipWS l := by
  cases h : CNT.skipWS l with
  | nil => simp [CNT.skipWS]
  | cons c r =>
    obtain ⟨h1, h2⟩ := (skipWS_head_aux l).1 c r h
    exact skipWS_nonspace c r h1 h2

theorem scanToken_skipWS (l : Bytes) : scanToken (CNT.skipWS l) = scanToken l := by
  simp only [scanToken, skipWS_idem]

theorem readValue_skipWS (fuel d : Nat) (l : Bytes) : readValue fuel d (CNT.skipWS l) = readValue fuel d l := by
  cases fuel with
  | zero => simp [readValue]
  | succ f => rw [readValue, readValue, scanToken_skipWS]

theorem readValue_eof (f d : Nat) (l : Bytes) (h : CNT.skipWS l = []) : readValue (f + 1) d l = .eof := by
  rw [readValue]
  simp [scanToken, h]

mutual
theorem normD_not_op : ∀ (c : Obj), GoodO c → ∀ n, normD c ≠ .op n
  | .arr xs, _, n => by simp [normD]
  | .dict kv, _, n => by simp [normD]
  | .null, hg, n => by simpa [normD] using normA_not_op .null (by simpa [GoodO] using hg) n
  | .nilArr, hg, n => by simpa [normD] using normA_not_op .nilArr (by simpa [GoodO] using hg) n
  | .bool b, hg, n => by simpa [normD] using normA_not_op (.bool b) (by simpa [GoodO] using hg) n
  | .int i, hg, n => by simpa [normD] using normA_not_op (.int i) (by simpa [GoodO] using hg) n
  | .real t, hg, n => by simpa [normD] using normA_not_op (.real t) (by simpa [GoodO] using hg) n
  | .name m, hg, n => by simpa [normD] using normA_not_op (.name m) (by simpa [GoodO] using hg) n
  | .str s, hg, n => by simpa [normD] using normA_not_op (.str s) (by simpa [GoodO] using hg) n
  | .op o, hg, _ => by exact absurd hg (by simp [GoodO, FlatOk])
  | .ref a b, hg, _ => by exact absurd hg (by simp [GoodO, FlatOk])
end

mutual
/-- **`readValueDepth` reads back any good value** written by `pdf.Format` within the depth
limit `maxValueDepth`. -/
theorem valT : ∀ (c : Obj) (ns : Bool) (bs : Bytes) (ns' : Bool) (d : Nat) (rest : Bytes) (fuel : Nat),
    GoodO c → fmtObj copt ns c = some (bs, ns') → (ns' = true → TokEnd rest) →
    d + depthO c ≤ Gen.content_maxValueDepth → fuel ≥ costO c →
    readValue fuel d (bs ++ rest) = .ok (normD c) rest
  | .arr xs, ns, bs, ns', d, rest, fuel, hg, hb, _, hdepth, hfuel => by
    unfold GoodO at hg
    simp only [fmtObj, copt, Bool.false_eq_true, if_false] at hb
    cases hbody : fmtSeq { pretty := false, content := true } false xs with
    | none => simp [hbody] at hb
    | some body =>
      simp [hbody] at hb
      obtain ⟨hb1, _⟩ := hb
      subst hb1
      simp only [depthO, costO] at hdepth hfuel
      match fuel, hfuel with
      | f+1, hf =>
        have hel := arrVT xs false (d + 1) [] body rest f hg.1 hbody (by simpa using hg.2) (by omega) (by omega)
        have e : (91 :: (body ++ [93])) ++ rest = 91 :: (body ++ 93 :: rest) := by simp
        have hd : ¬ (Gen.content_maxValueDepth ≤ d) := by omega
        rw [e, readValue, tok_open_arr]
        simp [hd, hel, normD]
  | .dict kv, ns, bs, ns', d, rest, fuel, hg, hb, _, hdepth, hfuel => by
    unfold GoodO at hg
    simp only [fmtObj, copt, Bool.false_eq_true, if_false] at hb
    cases hbody : fmtDictPlain { pretty := false, content := true } kv with
    | none => simp [hbody] at hb
    | some body =>
      simp [hbody, lastIsGtOp_good kv hg.1] at hb
      obtain ⟨hb1, _⟩ := hb
      subst hb1
      simp only [depthO, costO] at hdepth hfuel
      match fuel, hfuel with
      | f+1, hf =>
        have hel := dictVT kv (d + 1) [] body rest f hg.1 hbody (by simpa using hg.2) (by omega) (by omega)
        have e : (60 :: 60 :: (body ++ [62, 62])) ++ rest = 60 :: 60 :: (body ++ 62 :: 62 :: rest) := by simp
        have hd : ¬ (Gen.content_maxValueDepth ≤ d) := by omega
        rw [e, readValue, tok_open_dict]
        simp [hd, hel, normD]
  | .null, ns, bs, ns', d, rest, fuel, hg, hb, hend, _, hfuel => by
    simpa [normD] using atomV .null (by simpa [GoodO] using hg) ns bs ns' d rest fuel hb hend (by simpa [costO] using hfuel)
  | .nilArr, ns, bs, ns', d, rest, fuel, hg, hb, hend, _, hfuel => by
    simpa [normD] using atomV .nilArr (by simpa [GoodO] using hg) ns bs ns' d rest fuel hb hend (by simpa [costO] using hfuel)
  | .bool b, ns, bs, ns', d, rest, fuel, hg, hb, hend, _, hfuel => by
    simpa [normD] using atomV (.bool b) (by simpa [GoodO] using hg) ns bs ns' d rest fuel hb hend (by simpa [costO] using hfuel)
  | .int i, ns, bs, ns', d, rest, fuel, hg, hb, hend, _, hfuel => by
    simpa [normD] using atomV (.int i) (by simpa [GoodO] using hg) ns bs ns' d rest fuel hb hend (by simpa [costO] using hfuel)
  | .real t, ns, bs, ns', d, rest, fuel, hg, hb, hend, _, hfuel => by
    simpa [normD] using atomV (.real t) (by simpa [GoodO] using hg) ns bs ns' d rest fuel hb hend (by simpa [costO] using hfuel)
  | .name n, ns, bs, ns', d, rest, fuel, hg, hb, hend, _, hfuel => by
    simpa [normD] using atomV (.name n) (by simpa [GoodO] using hg) ns bs ns' d rest fuel hb hend (by simpa [costO] using hfuel)
  | .str s, ns, bs, ns', d, rest, fuel, hg, hb, hend, _, hfuel => by
    simpa [normD] using atomV (.str s) (by simpa [GoodO] using hg) ns bs ns' d rest fuel hb hend (by simpa [costO] using hfuel)
  | .op o, _, _, _, _, _, _, hg, _, _, _, _ => by exact absurd hg (by simp [GoodO, FlatOk])
  | .ref a b, _, _, _, _, _, _, hg, _, _, _, _ => by exact absurd hg (by simp [GoodO, FlatOk])
/-- the array loop of `readValueDepth` -/
theorem arrVT : ∀ (xs : List Obj) (ns : Bool) (d : Nat) (acc : List Obj) (body rest : Bytes) (fuel : Nat),
    GoodL xs → fmtSeq copt ns xs = some body → acc.length + xs.length ≤ Gen.content_maxArrayLen →
    d + depthL xs ≤ Gen.content_maxValueDepth → fuel ≥ costL xs + 1 →
    readArr fuel d acc (body ++ 93 :: rest) = .ok (.arr (acc ++ normDL xs)) rest
  | [], ns, d, acc, body, rest, fuel, _, hb, _, _, hfuel => by
    simp [fmtSeq] at hb
    subst hb
    match fuel, hfuel with
    | f+1, _ =>
      have h1 : cSpace 93 = false := by decide +kernel
      rw [readArr]
      simp [skipWS_nonspace 93 rest h1 (by decide), normDL]
  | x :: xs, ns, d, acc, body, rest, fuel, hg, hb, hcap, hdepth, hfuel => by
    have h93 : cReg 93 = false := by decide +kernel
    simp only [GoodL] at hg
    simp only [fmtSeq] at hb
    cases hx : fmtObj copt ns x with
    | none => simp [hx] at hb
    | some p =>
      obtain ⟨a, ns1⟩ := p
      cases hy : fmtSeq copt ns1 xs with
      | none => simp [hx, hy] at hb
      | some b =>
        simp [hx, hy] at hb
        subst hb
        have hend : ns1 = true → TokEnd (b ++ 93 :: rest) := by
          intro hns
          subst hns
          match xs, hy, hg.2 with
          | [], hy, _ => simp [fmtSeq] at hy; subst hy; exact h93
          | y :: ys, hy, hgy =>
            simp only [fmtSeq] at hy
            cases hy1 : fmtObj copt true y with
            | none => simp [hy1] at hy
            | some q =>
              obtain ⟨c, ns2⟩ := q
              cases hy2 : fmtSeq copt ns2 ys with
              | none => simp [hy1, hy2] at hy
              | some c2 =>
                simp [hy1, hy2] at hy
                subst hy
                have := obj_head y hgy.1 c ns2 hy1
                simpa using tokEnd_of_head c (c2 ++ 93 :: rest) this
        have hd := depth_le_cons_l x xs
        have hpos := costO_pos x
        simp only [costL] at hfuel
        match fuel, hfuel with
        | f+1, hf =>
          have hx' := valT x ns a ns1 d (b ++ 93 :: rest) f hg.1 hx hend (by omega) (by omega)
          have hxs := arrVT xs ns1 d (acc ++ [normD x]) b rest f hg.2 hy (by simp at hcap ⊢; omega) (by omega) (by omega)
          -- the first byte of the element is not `]`, nor white space (or it is the separator)
          have e : (a ++ b) ++ 93 :: rest = a ++ (b ++ 93 :: rest) := by simp
          rw [e, readArr]
          match f, hf, hx', hxs with
          | g+1, hf, hx', hxs =>
            cases hs : CNT.skipWS (a ++ (b ++ 93 :: rest)) with
            | nil =>
              rw [readValue_eof g d _ hs] at hx'
              simp at hx'
            | cons c r =>
              have hrv : readValue (g + 1) d (c :: r) = .ok (normD x) (b ++ 93 :: rest) := by
                rw [← hs, readValue_skipWS]; exact hx'
              have hc93 : (c == 93) = false := by
                by_cases h : c = 93
                · subst h
                  rw [readValue, tok_close_arr] at hrv
                  simp at hrv
                  exact absurd hrv.1.symm (normD_not_op x hg.1 [93])
                · simpa using h
              have hcap' : ¬ (Gen.content_maxArrayLen ≤ acc.length) := by simp at hcap; omega
              simp only [hc93, Bool.false_eq_true, if_false, ge_iff_le, hcap', hrv, hxs]
              simp [normDL]
/-- `readDictBody` with terminator `>>` -/
theorem dictVT : ∀ (kv : List (Bytes × Obj)) (vd : Nat) (acc : List (Bytes × Obj)) (body rest : Bytes) (fuel : Nat),
    GoodKV kv → fmtDictPlain copt kv = some body → 2 * acc.length + (dataKV kv).length ≤ 2 * Gen.content_maxDictLen →
    vd + depthKV kv ≤ Gen.content_maxValueDepth → fuel ≥ costKV kv + 1 →
    readDictBody fuel [62, 62] vd acc (body ++ 62 :: 62 :: rest) = .ok (mkDict (dataKV kv) acc) rest
  | [], vd, acc, body, rest, fuel, _, hb, _, _, hfuel => by
    simp [fmtDictPlain] at hb
    subst hb
    match fuel, hfuel with
    | f+1, _ =>
      have h1 : cSpace 62 = false := by decide +kernel
      rw [readDictBody]
      simp [skipWS_nonspace 62 _ h1 (by decide), isPrefixOf, dataKV, mkDict]
  | (k, v) :: kv, vd, acc, body, rest, fuel, hg, hb, hcap, hdepth, hfuel => by
    have h62 : cReg 62 = false := by decide +kernel
    have h47 : cReg 47 = false := by decide +kernel
    have hs47 : cSpace 47 = false := by decide +kernel
    simp only [GoodKV] at hg
    obtain ⟨hk1, hk2, hgv, hgr⟩ := hg
    by_cases hnull : v = .null
    · subst hnull
      rw [fmtDictPlain_cons_null] at hb
      simpa [dataKV, costKV] using dictVT kv vd acc body rest fuel hgr hb (by simpa [dataKV] using hcap)
        (by simp [depthKV] at hdepth; omega) (by simpa [costKV] using hfuel)
    · have hcost : costKV ((k, v) :: kv) = 1 + costO v + costKV kv := by
        cases v <;> first | rfl | exact absurd rfl hnull
      have hdat : dataKV ((k, v) :: kv) = .name k :: normD v :: dataKV kv := by
        cases v <;> first | rfl | exact absurd rfl hnull
      have hdep : depthO v ≤ depthKV ((k, v) :: kv) ∧ depthKV kv ≤ depthKV ((k, v) :: kv) := by
        simp [depthKV]; omega
      have hpos := costO_pos v
      rw [fmtDictPlain_cons copt k v kv hnull] at hb
      cases hy : fmtDictPlain copt kv with
      | none => simp [hy] at hb
      | some b =>
        cases hx : fmtObj copt true v with
        | none => simp [hy, hx] at hb
        | some p =>
          obtain ⟨a, ns1⟩ := p
          simp [hy, hx] at hb
          subst hb
          have hend : TokEnd (b ++ 62 :: 62 :: rest) := by
            rcases dictBody_head kv b hy with hb0 | ⟨tl, hb1⟩
            · subst hb0; exact h62
            · subst hb1; exact h47
          have hkeyend : TokEnd (a ++ (b ++ 62 :: 62 :: rest)) :=
            tokEnd_of_head a _ (obj_head v hgv a ns1 hx)
          rw [hcost] at hfuel
          rw [hdat] at hcap ⊢
          match fuel, hfuel with
          | 0, hf => exact absurd hf (by omega)
          | f+1, hf =>
            match f, hf with
            | 0, hf => exact absurd hf (by omega)
            | g+1, hf =>
              have htk := readValue_nonop g vd _ _ _ (name_rt k hk1 hk2 (a ++ (b ++ 62 :: 62 :: rest)) hkeyend)
                (by intro n; simp)
              have hv := valT v true a ns1 vd (b ++ 62 :: 62 :: rest) (g + 1) hgv hx (fun _ => hend) (by omega) (by omega)
              have e : (fmtName k ++ (a ++ b)) ++ 62 :: 62 :: rest = 47 :: (fmtNameBody k ++ (a ++ (b ++ 62 :: 62 :: rest))) := by
                simp [fmtName]
              have e' : 47 :: (fmtNameBody k ++ (a ++ (b ++ 62 :: 62 :: rest))) = fmtName k ++ (a ++ (b ++ 62 :: 62 :: rest)) := by
                simp [fmtName]
              rw [e, readDictBody]
              simp only [skipWS_nonspace 47 _ hs47 (by decide)]
              have hpre : isPrefixOf [62, 62] (47 :: (fmtNameBody k ++ (a ++ (b ++ 62 :: 62 :: rest)))) = false := by
                simp [isPrefixOf]
              simp only [hpre, Bool.false_eq_true, if_false]
              rw [e', htk]
              simp only [hv]
              rw [mkDict_cons]
              have hlen := dictInsert_length k (normD v) acc
              have hcapacc : ¬ (Gen.content_maxDictLen ≤ acc.length) := by simp at hcap; omega
              cases hnv : normD v with
              | null =>
                simp only []
                exact dictVT kv vd acc b rest (g + 1) hgr hy (by simp at hcap ⊢; omega) (by omega) (by omega)
              | _ =>
                simp only [ge_iff_le, hcapacc, decide_false, Bool.and_false, Bool.false_eq_true, if_false]
                rw [← hnv]
                exact dictVT kv vd (dictInsert k (normD v) acc) b rest (g + 1) hgr hy
                  (by simp at hcap ⊢; omega) (by omega) (by omega)
end

/-! ## the image dictionary -/

/-- values of an inline image dictionary: nil (an absent entry), or a value whose canonical form
is good and within the nesting limit `maxValueDepth` of `readValueDepth` -/
def ValD (v : Obj) : Prop :=
  v = .null ∨ (GoodO v.canon ∧ depthO v.canon ≤ Gen.content_maxValueDepth)

/-- key/value sequence which the scanner sees -/
def dataI : List (Bytes × Obj) → List Obj
  | [] => []
  | (k, v) :: r =>
    match v with
    | .null => dataI r
    | v => .name k :: normD v.canon :: dataI r

def costI : List (Bytes × Obj) → Nat
  | [] => 0
  | (_, v) :: r =>
    match v with
    | .null => costI r
    | v => 1 + costO v.canon + costI r

theorem fmtImageEntries_cons_null (k : Bytes) (kv : List (Bytes × Obj)) :
    fmtImageEntries ((k, .null) :: kv) = fmtImageEntries kv := by
  simp only [fmtImageEntries]

theorem fmtImageEntries_cons (k : Bytes) (v : Obj) (kv : List (Bytes × Obj)) (hv : v ≠ .null) :
    fmtImageEntries ((k, v) :: kv) = joinEntry k (fmtArg v) (fmtImageEntries kv) := by
  cases v with
  | null => exact absurd rfl hv
  | _ => simp only [fmtImageEntries]

theorem cReg_73 : cReg 73 = true := by decide +kernel

/-- **The image dictionary is read back entry by entry**, up to and including `ID`:
any key bytes (written escaped), nil entries (skipped), nested values. -/
theorem readDict_entries (kv : List (Bytes × Obj)) : ∀ (acc : List (Bytes × Obj)) (eb rest : Bytes) (fuel : Nat),
    (∀ e ∈ kv, AllBytes e.1 ∧ e.1.length ≤ Gen.content_maxNameBytes ∧ ValD e.2) → fmtImageEntries kv = some eb →
    2 * acc.length + (dataI kv).length ≤ 2 * Gen.content_maxDictLen → fuel ≥ costI kv + 1 →
    readDictBody fuel kwID 0 acc (eb ++ 73 :: 68 :: rest) = .ok (mkDict (dataI kv) acc) rest := by
  have hs47 : cSpace 47 = false := by decide +kernel
  induction kv with
  | nil =>
    intro acc eb rest fuel _ heb _ hfuel
    simp [fmtImageEntries] at heb
    subst heb
    match fuel, hfuel with
    | f+1, _ =>
      obtain ⟨k1, k2, _⟩ := reg_byte_any 73 cReg_73
      rw [readDictBody]
      simp [skipWS_nonspace 73 _ k1 k2, kwID, isPrefixOf, dataI, mkDict]
  | cons e kv ih =>
    intro acc eb rest fuel hok heb hcap hfuel
    obtain ⟨k, v⟩ := e
    obtain ⟨hk1, hk2, hv⟩ := hok (k, v) (by simp)
    have hok' := fun e he => hok e (List.mem_cons_of_mem _ he)
    by_cases hnull : v = .null
    · subst hnull
      rw [fmtImageEntries_cons_null] at heb
      simpa [dataI, costI] using ih acc eb rest fuel hok' heb (by simpa [dataI] using hcap) (by simpa [costI] using hfuel)
    · have hvg : GoodO v.canon ∧ depthO v.canon ≤ Gen.content_maxValueDepth := by
        rcases hv with h | h
        · exact absurd h hnull
        · exact h
      have hcost : costI ((k, v) :: kv) = 1 + costO v.canon + costI kv := by
        cases v <;> first | rfl | exact absurd rfl hnull
      have hdat : dataI ((k, v) :: kv) = .name k :: normD v.canon :: dataI kv := by
        cases v <;> first | rfl | exact absurd rfl hnull
      have hpos := costO_pos v.canon
      rw [fmtImageEntries_cons k v kv hnull] at heb
      cases hx : fmtArg v with
      | none => simp [hx, joinEntry] at heb
      | some x =>
        cases hy : fmtImageEntries kv with
        | none => simp [hx, hy, joinEntry] at heb
        | some y =>
          simp [hx, hy, joinEntry] at heb
          subst heb
          obtain ⟨ns', hx'⟩ := fmtArg_canon v x hx
          rw [hcost] at hfuel
          rw [hdat] at hcap ⊢
          match fuel, hfuel with
          | 0, hf => exact absurd hf (by omega)
          | f+1, hf =>
            match f, hf with
            | 0, hf => exact absurd hf (by omega)
            | g+1, hf =>
              have htk := readValue_nonop g 0 _ _ _
                (name_rt k hk1 hk2 (32 :: (x ++ 10 :: (y ++ 73 :: 68 :: rest))) (tokEnd_32 _)) (by intro n; simp)
              have hval : readValue (g + 1) 0 (32 :: (x ++ 10 :: (y ++ 73 :: 68 :: rest))) =
                  .ok (normD v.canon) (10 :: (y ++ 73 :: 68 :: rest)) := by
                rw [readValue_space 32 _ cSpace_32]
                exact valT v.canon false x ns' 0 _ (g + 1) hvg.1 hx' (fun _ => tokEnd_10 _) (by omega) (by omega)
              have e : (fmtName k ++ 32 :: (x ++ 10 :: y)) ++ 73 :: 68 :: rest =
                  47 :: (fmtNameBody k ++ 32 :: (x ++ 10 :: (y ++ 73 :: 68 :: rest))) := by simp [fmtName]
              have e' : 47 :: (fmtNameBody k ++ 32 :: (x ++ 10 :: (y ++ 73 :: 68 :: rest))) =
                  fmtName k ++ 32 :: (x ++ 10 :: (y ++ 73 :: 68 :: rest)) := by simp [fmtName]
              rw [e, readDictBody]
              simp only [skipWS_nonspace 47 _ hs47 (by decide)]
              have hpre : isPrefixOf kwID (47 :: (fmtNameBody k ++ 32 :: (x ++ 10 :: (y ++ 73 :: 68 :: rest)))) = false := by
                simp [kwID, isPrefixOf]
              simp only [hpre, Bool.false_eq_true, if_false]
              rw [e', htk]
              simp only [hval]
              rw [mkDict_cons]
              have hlen := dictInsert_length k (normD v.canon) acc
              have hcapacc : ¬ (Gen.content_maxDictLen ≤ acc.length) := by simp at hcap; omega
              cases hnv : normD v.canon with
              | null =>
                simp only []
                rw [readDictBody_space 10 _ cSpace_10]
                exact ih acc y rest (g + 1) hok' hy (by simp at hcap ⊢; omega) (by omega)
              | _ =>
                simp only [ge_iff_le, hcapacc, decide_false, Bool.and_false, Bool.false_eq_true, if_false]
                rw [← hnv, readDictBody_space 10 _ cSpace_10]
                exact ih (dictInsert k (normD v.canon) acc) y rest (g + 1) hok' hy (by simp at hcap ⊢; omega) (by omega)

/-! ## the data -/

/-- `EOL E I non-regular` occurs in `prev :: data ++ trailer` starting inside `data`
    (`prev` = the byte before `data`; the scanner starts with `prev = 0`) -/
def hasFalseEI : (prev : Nat) → Bytes → (trailer : Bytes) → Bool
  | _, [], _ => false
  | prev, b :: r, tr => ((prev == 13 || prev == 10) && checkEI (b :: r ++ tr)) || hasFalseEI b r tr

/-- the bytes `Operator.Format` writes after the data -/
def trailer : Bytes := [10, 69, 73, 10]

theorem checkEI_trailer (b : Nat) (r rest : Bytes) :
    checkEI (b :: r ++ trailer ++ rest) = checkEI (b :: r ++ trailer) := by
  match r with
  | [] => simp [trailer, checkEI]
  | [c] => simp [trailer, checkEI]
  | c :: d :: r' => simp [checkEI]

/-- **The search loop** finds exactly the real terminator when the data has no false one and is
at most `maxInlineImageBytes` long. -/
theorem iiLoop_data (data : Bytes) : ∀ (n prev : Nat) (rest : Bytes),
    hasFalseEI prev data trailer = false → n + data.length ≤ Gen.content_maxInlineImageBytes →
    iiLoop n prev (data ++ trailer ++ rest) = .found (data ++ [10]) (69 :: 73 :: 10 :: rest) := by
  induction data with
  | nil =>
    intro n prev rest _ hlen
    have h1 : ¬ (n > Gen.content_maxInlineImageBytes) := by simp at hlen; omega
    simp [trailer, iiLoop, h1, checkEI, cReg_10, IIRes.cons]
  | cons b r ih =>
    intro n prev rest hno hlen
    have h1 : ¬ (n > Gen.content_maxInlineImageBytes) := by simp at hlen; omega
    simp only [hasFalseEI, Bool.or_eq_false_iff] at hno
    obtain ⟨hhere, hrest⟩ := hno
    have hck : ((prev == 13 || prev == 10) && checkEI (b :: (r ++ trailer ++ rest))) = false := by
      have := checkEI_trailer b r rest
      simp only [List.cons_append] at this hhere
      rw [this]
      exact hhere
    have ih' := ih (n + 1) b rest hrest (by simp at hlen ⊢; omega)
    simp only [List.cons_append, List.append_assoc] at ih' hck ⊢
    rw [iiLoop]
    simp only [h1, hck, if_false, Bool.false_eq_true, ih', IIRes.cons]

/-- longer data is not found: the loop gives up (the scanner reports a parse error) -/
theorem iiLoop_capped (data : Bytes) : ∀ (n prev : Nat) (rest : Bytes),
    hasFalseEI prev data trailer = false → n + data.length > Gen.content_maxInlineImageBytes →
    ∃ r, iiLoop n prev (data ++ trailer ++ rest) = .capped r := by
  induction data with
  | nil =>
    intro n prev rest _ hlen
    have h1 : n > Gen.content_maxInlineImageBytes := by simpa using hlen
    exact ⟨10 :: 69 :: 73 :: 10 :: rest, by simp [trailer, iiLoop, h1, checkEI]⟩
  | cons b r ih =>
    intro n prev rest hno hlen
    simp only [hasFalseEI, Bool.or_eq_false_iff] at hno
    obtain ⟨hhere, hrest⟩ := hno
    have hck : ((prev == 13 || prev == 10) && checkEI (b :: (r ++ trailer ++ rest))) = false := by
      have := checkEI_trailer b r rest
      simp only [List.cons_append] at this hhere
      rw [this]
      exact hhere
    simp only [List.cons_append, List.append_assoc] at hck ⊢
    rw [iiLoop]
    simp only [hck, Bool.false_eq_true, if_false]
    by_cases h1 : n > Gen.content_maxInlineImageBytes
    · exact ⟨b :: (r ++ (trailer ++ rest)), by simp only [h1, if_true]⟩
    · obtain ⟨r', hr'⟩ := ih (n + 1) b rest hrest (by simp at hlen ⊢; omega)
      simp only [List.append_assoc] at hr'
      exact ⟨r', by simp only [h1, if_false, hr', IIRes.cons]⟩

/-- **The two caps agree.**  Written data (without a false `EI`) of `n` bytes is found by the
`EI` search iff the `Length` branch of `imageData` accepts `Length = n` (its test is
`length > maxInlineImageBytes → parse error`): both read back up to `maxInlineImageBytes` bytes. -/
theorem noL_cap_eq_L_cap (data rest : Bytes) (hclean : hasFalseEI 0 data trailer = false) :
    (∃ d r, iiLoop 0 0 (data ++ trailer ++ rest) = .found d r) ↔
      ¬ ((data.length : Int) > (Gen.content_maxInlineImageBytes : Nat)) := by
  constructor
  · intro ⟨d, r, h⟩ hgt
    obtain ⟨r', hr'⟩ := iiLoop_capped data 0 0 rest hclean (by omega)
    rw [hr'] at h
    cases h
  · intro hle
    exact ⟨_, _, iiLoop_data data 0 0 rest hclean (by omega)⟩

/-- the search loop of `readInlineImage` as it was before D-C15-2
    (`for len(imageData) < maxInlineImageBytes { if EI … break; read }`, then
    `if len(imageData) >= maxInlineImageBytes → parse error`) -/
def iiLoopOld : (n : Nat) → (prev : Nat) → Bytes → IIRes
  | n, prev, [] =>
    if n ≥ Gen.content_maxInlineImageBytes then .capped []
    else if (prev == 13 || prev == 10) && checkEI [] then .found [] []
    else .eof
  | n, prev, b :: r =>
    if n ≥ Gen.content_maxInlineImageBytes then .capped (b :: r)
    else if (prev == 13 || prev == 10) && checkEI (b :: r) then .found [] (b :: r)
    else (iiLoopOld (n + 1) b r).cons b

/-- the old loop gives up on data of `maxInlineImageBytes − 1` or more bytes -/
theorem iiLoopOld_capped (data : Bytes) : ∀ (n prev : Nat) (rest : Bytes),
    hasFalseEI prev data trailer = false → n + data.length + 1 ≥ Gen.content_maxInlineImageBytes →
    ∃ r, iiLoopOld n prev (data ++ trailer ++ rest) = .capped r := by
  induction data with
  | nil =>
    intro n prev rest _ hlen
    by_cases h1 : n ≥ Gen.content_maxInlineImageBytes
    · exact ⟨10 :: 69 :: 73 :: 10 :: rest, by simp [trailer, iiLoopOld, h1]⟩
    · have h2 : n + 1 ≥ Gen.content_maxInlineImageBytes := by simpa using hlen
      exact ⟨69 :: 73 :: 10 :: rest, by simp [trailer, iiLoopOld, h1, h2, checkEI, IIRes.cons]⟩
  | cons b r ih =>
    intro n prev rest hno hlen
    simp only [hasFalseEI, Bool.or_eq_false_iff] at hno
    obtain ⟨hhere, hrest⟩ := hno
    have hck : ((prev == 13 || prev == 10) && checkEI (b :: (r ++ trailer ++ rest))) = false := by
      have := checkEI_trailer b r rest
      simp only [List.cons_append] at this hhere
      rw [this]
      exact hhere
    simp only [List.cons_append, List.append_assoc] at hck ⊢
    rw [iiLoopOld]
    by_cases h1 : n ≥ Gen.content_maxInlineImageBytes
    · exact ⟨b :: (r ++ (trailer ++ rest)), by simp only [h1, if_true]⟩
    · obtain ⟨r', hr'⟩ := ih (n + 1) b rest hrest (by simp at hlen ⊢; omega)
      simp only [List.append_assoc] at hr'
      exact ⟨r', by simp only [h1, hck, Bool.false_eq_true, if_false, hr', IIRes.cons]⟩

theorem checkEI_120 (r : Bytes) : checkEI (120 :: r) = false := by
  cases r <;> simp [checkEI]

theorem clean_replicate (k prev : Nat) : hasFalseEI prev (List.replicate k 120) trailer = false := by
  induction k generalizing prev with
  | zero => rfl
  | succ k ih =>
    rw [List.replicate_succ, hasFalseEI, List.cons_append, checkEI_120, ih]
    simp

/-- **`noL_cap_eq_L_cap` fails for the loop before the fix**: there is written data without a
false `EI` (`maxInlineImageBytes − 1` bytes `x`) which the `Length` branch accepts and the old
search does not find. -/
theorem noL_cap_old_off_by_two :
    ∃ data, hasFalseEI 0 data trailer = false ∧
      ¬ ((data.length : Int) > (Gen.content_maxInlineImageBytes : Nat)) ∧
      ∀ rest, ¬ ∃ d r, iiLoopOld 0 0 (data ++ trailer ++ rest) = .found d r := by
  refine ⟨List.replicate (Gen.content_maxInlineImageBytes - 1) 120, clean_replicate _ 0, ?_, ?_⟩
  · rw [List.length_replicate]
    generalize Gen.content_maxInlineImageBytes = c
    omega
  · intro rest ⟨d, r, h⟩
    obtain ⟨r', hr'⟩ := iiLoopOld_capped (List.replicate (Gen.content_maxInlineImageBytes - 1) 120) 0 0 rest
      (clean_replicate _ 0) (by
        rw [List.length_replicate]
        generalize Gen.content_maxInlineImageBytes = c
        omega)
    rw [hr'] at h
    cases h

/-! ## the whole operator -/

theorem mem_of_mem_sortKV (e : Bytes × Obj) (l : List (Bytes × Obj)) (h : e ∈ sortKV l) : e ∈ l := mem_sortKV e l h

theorem length_insertKey (k : Bytes × Obj) (l : List (Bytes × Obj)) : (insertKey k l).length = l.length + 1 := by
  induction l with
  | nil => simp [insertKey]
  | cons x xs ih => simp only [insertKey]; split <;> simp [ih]

theorem length_sortKV (l : List (Bytes × Obj)) : (sortKV l).length = l.length := by
  induction l with
  | nil => simp [sortKV]
  | cons x xs ih => simp [sortKV, length_insertKey, ih]

theorem dataI_length (l : List (Bytes × Obj)) : (dataI l).length ≤ 2 * l.length := by
  induction l with
  | nil => simp [dataI]
  | cons e r ih =>
    obtain ⟨k, v⟩ := e
    cases v <;> simp [dataI] <;> omega

theorem costI_le (kv : List (Bytes × Obj)) : ∀ eb, (∀ e ∈ kv, ValD e.2) → fmtImageEntries kv = some eb →
    costI kv ≤ eb.length := by
  induction kv with
  | nil => intro eb _ _; simp [costI]
  | cons e kv ih =>
    intro eb hok heb
    obtain ⟨k, v⟩ := e
    have hok' := fun e he => hok e (List.mem_cons_of_mem _ he)
    by_cases hnull : v = .null
    · subst hnull
      rw [fmtImageEntries_cons_null] at heb
      simpa [costI] using ih eb hok' heb
    · have hvg : GoodO v.canon := by
        rcases hok (k, v) (by simp) with h | h
        · exact absurd h hnull
        · exact h.1
      have hcost : costI ((k, v) :: kv) = 1 + costO v.canon + costI kv := by
        cases v <;> first | rfl | exact absurd rfl hnull
      rw [fmtImageEntries_cons k v kv hnull] at heb
      cases hx : fmtArg v with
      | none => simp [hx, joinEntry] at heb
      | some x =>
        cases hy : fmtImageEntries kv with
        | none => simp [hx, hy, joinEntry] at heb
        | some y =>
          simp [hx, hy, joinEntry] at heb
          subst heb
          obtain ⟨ns', hx'⟩ := fmtArg_canon v x hx
          have h1 := lenO v.canon false x ns' hvg hx'
          have h2 := ih y hok' hy
          rw [hcost]
          simp [fmtName]
          omega

/-- the dictionary of an inline image as the scanner returns it: entries in `slices.Sort` order,
nil entries (and entries whose value is written as `null`) absent, values in canonical form -/
def imgDict (kv : List (Bytes × Obj)) : List (Bytes × Obj) := mkDict (dataI (sortKV kv)) []

/-- hypotheses on an inline image under which it is read back unchanged -/
structure ImageOk (kv : List (Bytes × Obj)) (data : Bytes) : Prop where
  entries : ∀ e ∈ kv, AllBytes e.1 ∧ e.1.length ≤ Gen.content_maxNameBytes ∧ ValD e.2
  count : kv.length ≤ Gen.content_maxDictLen
  width : 0 < iiInt (imgDict kv) nmW nmWidth ∧ iiInt (imgDict kv) nmW nmWidth ≤ Gen.content_maxInlineImageDim
  height : 0 < iiInt (imgDict kv) nmH nmHeight ∧ iiInt (imgDict kv) nmH nmHeight ≤ Gen.content_maxInlineImageDim
  pixels : iiInt (imgDict kv) nmW nmWidth * iiInt (imgDict kv) nmH nmHeight ≤ Gen.content_maxInlineImagePixels
  dataLen : data.length ≤ Gen.content_maxInlineImageBytes
  framing :
    (iiInt (imgDict kv) nmL nmLength ≤ 0 ∧ isASCIIFilter (iiFilter (imgDict kv)) = false ∧
      hasFalseEI 0 data trailer = false) ∨
    (iiInt (imgDict kv) nmL nmLength = data.length ∧ 0 < data.length)

/-- **`inline_image_rt`.**  An inline image satisfying `ImageOk` — any keys, nil entries, nested
values; data of up to `maxInlineImageBytes` bytes, either with its `Length` or without
`EOL "EI" non-regular` — written by `Operator.Format` is read back by one `Scan` call as the same
dictionary and the same data, whatever follows. -/
theorem inline_image_rt (kv : List (Bytes × Obj)) (data : Bytes) (h : ImageOk kv data) (bs : Bytes)
    (hb : fmtOp Gen.content_OpInlineImage [.dict kv, .str data] = some bs) :
    OpStep bs (Gen.content_OpInlineImage, [.dict (imgDict kv), .str data]) := by
  simp only [fmtOp, show (Gen.content_OpInlineImage == Gen.content_OpRawContent) = false from by decide,
    Bool.false_eq_true, if_false, beq_self_eq_true, if_true] at hb
  cases heb : fmtImageEntries (sortKV kv) with
  | none => simp [heb] at hb
  | some eb =>
    simp [heb] at hb
    subst hb
    refine ⟨bytesBI ++ (eb ++ (bytesID ++ (data ++ [10, 69, 73]))), by simp [bytesEI], ?_⟩
    intro rest
    have hBI : scanToken (66 :: 73 :: 10 :: (eb ++ (bytesID ++ (data ++ trailer ++ rest)))) =
        .ok (.op [66, 73]) (10 :: (eb ++ (bytesID ++ (data ++ trailer ++ rest)))) := by
      have := scanToken_regular [66, 73] (by simp) (by decide +kernel) (by decide +kernel)
        (10 :: (eb ++ (bytesID ++ (data ++ trailer ++ rest)))) (tokEnd_10 _)
      rw [show classify [66, 73] = .op [66, 73] from by rfl] at this
      simpa using this
    have hstep : step [] [] (.op [66, 73]) = .image := by
      simp [step, deliver, Gen.content_opBeginInlineImage, Gen.content_maxOperatorArgs]
    have hent : ∀ e ∈ sortKV kv, AllBytes e.1 ∧ e.1.length ≤ Gen.content_maxNameBytes ∧ ValD e.2 :=
      fun e he => h.entries e (mem_sortKV e kv he)
    have hcost := costI_le (sortKV kv) eb (fun e he => (hent e he).2.2) heb
    have hdl := dataI_length (sortKV kv)
    have hsl := length_sortKV kv
    have hdict := readDict_entries (sortKV kv) [] eb (10 :: (data ++ trailer ++ rest))
      (2 * (10 :: (eb ++ (bytesID ++ (data ++ trailer ++ rest)))).length + 2)
      hent heb (by have := h.count; simp; omega) (by simp; omega)
    have hdict' : readDictBody (2 * (10 :: (eb ++ (bytesID ++ (data ++ trailer ++ rest)))).length + 2) kwID 0 []
        (10 :: (eb ++ (bytesID ++ (data ++ trailer ++ rest)))) = .ok (imgDict kv) (10 :: (data ++ trailer ++ rest)) := by
      rw [readDictBody_space 10 _ cSpace_10]
      simpa [bytesID, imgDict] using hdict
    have hw := h.width
    have hh := h.height
    have hp := h.pixels
    have hII : readInlineImage (10 :: (eb ++ (bytesID ++ (data ++ trailer ++ rest)))) =
        .ok (Gen.content_OpInlineImage, [.dict (imgDict kv), .str data]) (10 :: rest) := by
      unfold readInlineImage
      rw [hdict']
      have c1 : ¬ (iiInt (imgDict kv) nmW nmWidth ≤ 0) := by omega
      have c2 : ¬ (iiInt (imgDict kv) nmH nmHeight ≤ 0) := by omega
      have c3 : ¬ (iiInt (imgDict kv) nmW nmWidth > ↑Gen.content_maxInlineImageDim) := by omega
      have c4 : ¬ (iiInt (imgDict kv) nmH nmHeight > ↑Gen.content_maxInlineImageDim) := by omega
      have c5 : ¬ (iiInt (imgDict kv) nmW nmWidth * iiInt (imgDict kv) nmH nmHeight > ↑Gen.content_maxInlineImagePixels) := by omega
      simp only [c1, c2, c3, c4, c5, decide_false, Bool.or_self, Bool.false_eq_true, if_false]
      rcases h.framing with ⟨hnl, hna, hclean⟩ | ⟨hl, hpos⟩
      · -- the EI search
        have hloop := iiLoop_data data 0 0 rest hclean (by have := h.dataLen; omega)
        have c6 : ¬ (iiInt (imgDict kv) nmL nmLength > 0) := by omega
        have hsk : skipsWS (imgDict kv) = false := by simp [skipsWS, hna]
        simp only [c6, hsk, decide_false, Bool.false_eq_true, if_false, cSpace_10, if_true,
          Bool.false_and, hloop, afterID, imageData]
        simp [iiFinish, cReg_10]
      · -- the Length key
        have c6 : iiInt (imgDict kv) nmL nmLength > 0 := by omega
        have c7 : ¬ (iiInt (imgDict kv) nmL nmLength > ↑Gen.content_maxInlineImageBytes) := by
          have := h.dataLen; omega
        have hsk : skipsWS (imgDict kv) = false := by
          have : ¬ (iiInt (imgDict kv) nmL nmLength ≤ 0) := by omega
          simp [skipsWS, this]
        have hn : (iiInt (imgDict kv) nmL nmLength).toNat = data.length := by omega
        have e1 : (data ++ trailer ++ rest).take data.length = data := by simp
        have e2 : (data ++ trailer ++ rest).drop data.length = 10 :: 69 :: 73 :: 10 :: rest := by
          simp [trailer]
        have e3 : ¬ ((data ++ trailer ++ rest).length < data.length) := by simp
        have h69 : cSpace 69 = false := by decide +kernel
        simp only [c6, c7, hsk, hn, e1, e2, e3, decide_false, decide_true, Bool.false_eq_true, if_false, cSpace_10,
          if_true, Bool.false_and, afterID, imageData, skipWS_space 10 _ cSpace_10,
          skipWS_nonspace 69 _ h69 (by decide)]
        simp [iiFinish, cReg_10]
    have e0 : bytesBI ++ (eb ++ (bytesID ++ (data ++ [10, 69, 73]))) ++ 10 :: rest =
        66 :: 73 :: 10 :: (eb ++ (bytesID ++ (data ++ trailer ++ rest))) := by
      simp [bytesBI, trailer]
    rw [e0]
    have h66 : cSpace 66 = false := by decide +kernel
    simp only [scanOne, skipSp, h66, Bool.false_eq_true, if_false, show ((66:Nat) == 37) = false from by decide]
    rw [scanLoop, hBI]
    simp only [hstep, hII]

/-! ## D11: the hypothesis on the data cannot be dropped -/

/-- The full statement — *every* inline image with valid width and height whose data fits the
limit is read back unchanged. -/
def inline_image_rt_full : Prop :=
  ∀ (kv : List (Bytes × Obj)) (data : Bytes) (bs : Bytes),
    (∀ e ∈ kv, AllBytes e.1 ∧ e.1.length ≤ Gen.content_maxNameBytes ∧ ValD e.2) →
    iiInt (imgDict kv) nmW nmWidth = 2 → iiInt (imgDict kv) nmH nmHeight = 3 → kv.length = 2 → data.length ≤ 8 →
    fmtOp Gen.content_OpInlineImage [.dict kv, .str data] = some bs →
    scan bs = some [(Gen.content_OpInlineImage, [.dict (imgDict kv), .str data])]

/-- the witness of D11: `/H 3 /W 2`, data `a LF E I SP b` -/
def d11_kv : List (Bytes × Obj) := [([72], .int 3), ([87], .int 2)]
def d11_data : Bytes := [97, 10, 69, 73, 32, 98]

/-- what the scanner makes of the written witness: data `a`, then the operators `b` and `EI` -/
def d11_scan : Bool :=
  match fmtOp Gen.content_OpInlineImage [.dict d11_kv, .str d11_data] with
  | some bs =>
    (match scan bs with
     | some [(n1, [.dict _, .str d]), (n2, []), (n3, [])] =>
       n1 == Gen.content_OpInlineImage && d == [97] && n2 == [98] && n3 == [69, 73]
     | _ => false)
  | none => false

theorem d11_witness : d11_scan = true := by decide +kernel

theorem d11_hasFalseEI : hasFalseEI 0 d11_data trailer = true := by decide +kernel

theorem goodO_int (i : Int) (hlo : -9223372036854775808 ≤ i) (hhi : i ≤ 9223372036854775807) : GoodO (.int i) := by
  simpa [GoodO] using flatOk_int i hlo hhi

theorem valD_int (i : Int) (hlo : -9223372036854775808 ≤ i) (hhi : i ≤ 9223372036854775807) : ValD (.int i) :=
  .inr ⟨by simpa [Obj.canon] using goodO_int i hlo hhi, by simp [Obj.canon, depthO]⟩

theorem d11_count : (match fmtOp Gen.content_OpInlineImage [.dict d11_kv, .str d11_data] with
    | some bs => (scan bs).map List.length
    | none => none) = some 3 := by decide +kernel

/-- **D11 on the model: the full statement is false.**  The witness satisfies every hypothesis
of `inline_image_rt` except `noFalseEI`, and is read back as three operators. -/
theorem inline_image_rt_full_false : ¬ inline_image_rt_full := by
  intro hfull
  cases hb : fmtOp Gen.content_OpInlineImage [.dict d11_kv, .str d11_data] with
  | none =>
    have := d11_count
    simp [hb] at this
  | some bs =>
    have h := hfull d11_kv d11_data bs
      (by
        intro e he
        simp [d11_kv] at he
        rcases he with rfl | rfl
        · exact ⟨by decide, by decide +kernel, valD_int 3 (by decide) (by decide)⟩
        · exact ⟨by decide, by decide +kernel, valD_int 2 (by decide) (by decide)⟩)
      (by decide +kernel) (by decide +kernel) (by decide) (by decide) hb
    have := d11_count
    simp [hb, h] at this

/-! ## `ops_rt` and `split_rt`: all operators -/

/-- all operators covered: arbitrarily nested operands, comments, inline images -/
def OpOkD (op : Bytes × List Obj) : Prop :=
  OpD op ∨ (op.1 = Gen.content_OpRawContent ∧ ∃ s, op.2 = [.str s] ∧ CommentOk s) ∨
    (op.1 = Gen.content_OpInlineImage ∧ ∃ kv data, op.2 = [.dict kv, .str data] ∧ ImageOk kv data)

/-- the operator as the scanner returns it -/
def normOpD (op : Bytes × List Obj) : Bytes × List Obj :=
  if op.1 == Gen.content_OpRawContent then op
  else if op.1 == Gen.content_OpInlineImage then
    (match op.2 with
     | [.dict kv, .str data] => (op.1, [.dict (imgDict kv), .str data])
     | _ => op)
  else (op.1, op.2.map fun a => normD a.canon)

theorem opOkD_step (op : Bytes × List Obj) (h : OpOkD op) (b : Bytes) (hb : fmtOp op.1 op.2 = some b) :
    OpStep b (normOpD op) := by
  obtain ⟨n, args⟩ := op
  rcases h with h | ⟨hn, s, ha, hc⟩ | ⟨hn, kv, data, ha, hok⟩
  · obtain ⟨p1, p2⟩ := opName_not_pseudo n h.name
    have := opD_step (n, args) h b hb
    simpa [normOpD, p1, p2] using this
  · simp at hn ha
    subst hn ha
    simp [fmtOp] at hb
    subst hb
    simpa [normOpD] using comment_opstep s hc
  · simp at hn ha
    subst hn ha
    have := inline_image_rt kv data hok b hb
    simpa [normOpD, show (Gen.content_OpInlineImage == Gen.content_OpRawContent) = false from by decide] using this

/-- **`ops_rt`, full strength.**  For every sequence of
* operators with admissible names and fewer than `maxOperatorArgs` operands, the operands being
  null, booleans, 64-bit integers, reals, names, strings and arrays and dictionaries of these
  nested to any depth up to `maxContentNestDepth` (sizes within the scanner's caps),
* comments, and
* inline images (`ImageOk`: any keys, nil entries, nested values; data without a false `EI`),

scanning what the content writer wrote returns exactly the sequence — operands in canonical form
(`normD`: dictionaries in written order without null entries, reals as their written token). -/
theorem ops_rt_deep (ops : List (Bytes × List Obj)) (hall : ∀ op ∈ ops, OpOkD op) (bs : Bytes)
    (hb : fmtOps ops = some bs) : scan bs = some (ops.map normOpD) :=
  scan_ops OpOkD normOpD opOkD_step ops bs hall hb

/-- **`split_rt`, full strength**: the same sequence split at operator boundaries into any number
of content streams (joined by newlines as `page.SegmentsReader` does) reads as the unsplit stream. -/
theorem split_rt_deep (segs : List (List (Bytes × List Obj))) (hall : ∀ seg ∈ segs, ∀ op ∈ seg, OpOkD op)
    (bss : List Bytes) (hb : segs.mapM fmtOps = some bss) (whole : Bytes) (hw : fmtOps segs.flatten = some whole) :
    scan (joinSegments bss) = scan whole ∧ scan whole = some (segs.flatten.map normOpD) := by
  have h2 := ops_rt_deep segs.flatten (by
    intro op hop
    simp at hop
    obtain ⟨seg, hs, ho⟩ := hop
    exact hall seg hs op ho) whole hw
  exact ⟨by rw [h2]; exact scan_join OpOkD normOpD opOkD_step segs bss hall hb, h2⟩

end PdfVerif.C15cnti

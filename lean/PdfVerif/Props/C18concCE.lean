import PdfVerif.Lemmas.CONCNoDead
/-!
# C18 — counterexample traces (the theorems of C18conc* are not vacuous)

* `prefix_*`: the model of `cacheStoreOrLoad` **before** commit 231d3ca (`fixed := false`)
  violates `cache_monotone` and `agreement` on a three-transition race over a chain `r1 → r2`
  (defect D12); the same trace on the repaired model keeps the published value.
* `nil_result_returned_as_nil`: since commit e69b1c0 (C18-F1 repaired) a nil result is handed to
  the waiter and to every later call as nil; nothing panics.
* `pair_on_chain_*`: `StoreOrLoadPair` on the head of a reference chain breaks agreement (C18-F2);
  this is why `agreement` carries the hypothesis `PairOnDirect`.
* `exclusive_self_deadlock`: `DecodeExclusive` re-entered for its own key blocks for ever (the
  documented restriction of `DecodeExclusive`); this is why `decode_never_blocks` is about
  `Decode`.
All are closed computations checked by the kernel (`decide`).
-/
namespace PdfVerif.C18concCE
open PdfVerif PdfVerif.CONC

/-- file: object 1 is a reference to object 2, everything else is direct -/
def chainGet (r : Ref) : GetRes := if r = 1 then .ref 2 else .direct

def oldCfg : Cfg := ⟨chainGet, false⟩
def newCfg : Cfg := ⟨chainGet, true⟩

/-- A (thread 0) follows r1 → r2, misses both and is parked in `Get(r2)`; B (thread 1) decodes
r2, publishes value 5 and returns it. -/
def d12a : List Label :=
  [(0, .callDecode (.ref 1) 0 []), (0, .go),
   (1, .callDecode (.ref 2) 0 []), (1, .go), (1, .fnRet (.ok 5))]

/-- A's decode function returns value 7; `cacheStoreOrLoad([r1, r2], 7)`; B decodes r2 again. -/
def d12b : List Label :=
  [(0, .go), (0, .fnRet (.ok 7)), (1, .callDecode (.ref 2) 0 [])]

def cacheAt (s : Option State) (k : Key) : Option (Option Val) := s.map (·.cache k)

/-- before the fix: B's published entry for r2 is overwritten (5 becomes 7) -/
theorem prefix_cache_not_monotone :
    cacheAt (run oldCfg State.init d12a) (2, 0) = some (some 5) ∧
    cacheAt (run oldCfg State.init (d12a ++ d12b)) (2, 0) = some (some 7) := by
  constructor <;> decide

/-- before the fix: two `Decode(r2)` of thread 1 return different values -/
theorem prefix_agreement_fails :
    (run oldCfg State.init (d12a ++ d12b)).map (fun s => s.hist.filter fun e =>
      match e with
      | .dec 1 (.ref 2) 0 _ => true
      | _ => false)
    = some [.dec 1 (.ref 2) 0 (.ok 7), .dec 1 (.ref 2) 0 (.ok 5)] := by
  decide

/-- after the fix, the same race: A adopts 5 for the whole chain, everybody sees 5 -/
theorem fixed_same_trace :
    cacheAt (run newCfg State.init (d12a ++ d12b)) (2, 0) = some (some 5) ∧
    cacheAt (run newCfg State.init (d12a ++ d12b)) (1, 0) = some (some 5) ∧
    (run newCfg State.init (d12a ++ d12b)).map (fun s => s.hist.take 2)
      = some [.dec 1 (.ref 2) 0 (.ok 5), .dec 0 (.ref 1) 0 (.ok 5)] := by
  refine ⟨by decide, by decide, by decide⟩

/-! ## C18-F1 (repaired by commit e69b1c0): a nil result is shared like any other value -/

def flat0 : Cfg := ⟨fun _ => .direct, true⟩

/-- thread 0 decodes `r1` exclusively and its function returns the nil value; thread 1 arrives
while the pending is open and waits -/
def nilA : List Label :=
  [(0, .callExcl (.ref 1) 2 []), (1, .callExcl (.ref 1) 2 []), (0, .go), (0, .go),
   (0, .fnRet (.ok nilVal)), (0, .go), (0, .go), (0, .go), (1, .go)]

/-- Before the fix the waiter and every later `DecodeExclusive` / `StoreOrLoadPair` of the
reference panicked on `v.(T)`.  Now the owner, the waiter, a later exclusive decode, a later
`Decode` and a later `StoreOrLoadPair` all return the nil value, and no thread dies. -/
theorem nil_result_returned_as_nil :
    (run flat0 State.init
        (nilA ++ [(0, .callExcl (.ref 1) 2 []), (1, .callDecode (.ref 1) 2 []), (2, .callPair 1 2 3 8 9)])).map
        (fun s => (s.hist, s.thr 0, s.thr 1, s.thr 2))
      = some ([.pair 2 1 2 3 8 9 (some (nilVal, 9)), .dec 1 (.ref 1) 2 (.ok nilVal),
               .exc 0 (.ref 1) 2 (.ok nilVal) none, .exc 1 (.ref 1) 2 (.ok nilVal) (some 0),
               .exc 0 (.ref 1) 2 (.ok nilVal) (some 0), .dec 0 (.ref 1) 2 (.ok nilVal),
               .run 0 2 [1] [1] (some 0)], [], [], []) := by
  decide

/-- in general (all traces, all values — nil or not, any types): if no decode function panics, no
thread ever dies; the protocol's own conversions (`r, _ := v.(T)` on the cache-hit, waiter and
pair paths) cannot panic. -/
theorem protocol_never_panics (cfg : Cfg) (ls : List Label) (s : State)
    (hl : ∀ l ∈ ls, l.2 ≠ .fnRet .panic) (h : run cfg State.init ls = some s) (t : Tid) :
    ∀ f ∈ s.thr t, f ≠ .dead :=
  run_inv cfg (fun l => l.2 ≠ .fnRet .panic) (fun s => ∀ t, NoDead (s.thr t))
    (fun _ _ _ _ hg hi hs => noDead_step hg hi hs) ls State.init s hl
    (by intro t f hf; simp [State.init] at hf) h t

/-! ## C18-F2: StoreOrLoadPair on the head of a reference chain -/

def d15 : List Label :=
  [(0, .callDecode (.ref 2) 0 []), (0, .go), (0, .fnRet (.ok 5)),   -- r2 ↦ 5
   (0, .callDecode (.ref 1) 0 []), (0, .go),                         -- Decode(r1) = 5 via r2; r1 stays uncached
   (0, .callPair 1 0 1 8 9),                                         -- publishes (r1,0) ↦ 8
   (0, .callDecode (.ref 1) 0 [])]                                   -- Decode(r1) = 8

theorem pair_on_chain_breaks_agreement :
    (run newCfg State.init d15).map (fun s => s.hist.filter fun e =>
      match e with
      | .dec 0 (.ref 1) 0 _ => true
      | _ => false)
    = some [.dec 0 (.ref 1) 0 (.ok 8), .dec 0 (.ref 1) 0 (.ok 5)] := by
  decide

/-! ## the documented restriction of DecodeExclusive -/

def flatCfg : Cfg := ⟨fun _ => .direct, true⟩

/-- a decode function running under `DecodeExclusive(r1)` calls `DecodeExclusive(r1)` again -/
def selfDeadlock : List Label :=
  [(0, .callExcl (.ref 1) 0 []), (0, .go), (0, .go), (0, .callExcl (.ref 1) 0 [1])]

theorem exclusive_self_deadlock :
    ∃ s, run flatCfg State.init selfDeadlock = some s ∧ s.thr 0 ≠ [] ∧
      ∀ a, step flatCfg s 0 a = none := by
  refine ⟨_, rfl, by decide, ?_⟩
  intro a
  cases a <;> rfl

end PdfVerif.C18concCE

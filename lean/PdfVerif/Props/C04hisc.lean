import PdfVerif.Model.Scan
import PdfVerif.Spec.HISGrammar
/-!
# C04 (part 3) — the lexical layer of `parse_any_rendering`

Every conforming spelling (Spec/HISGrammar.lean, written from ISO 32000-2 §7.2–7.3) of white
space, names, literal strings, hexadecimal strings and numbers is read by the scanner model
(`Model/Scan.lean`, tied to scanner.go by the C01 and HIS correspondence runs) as the value it
denotes, and the scanner stops exactly behind it.
-/
namespace PdfVerif.C04hisc
open PdfVerif
open PdfVerif.Spec.Grammar (isWhite isDelim isRegularCh isEolCh isOctCh isDigitCh hexDigit? WsR NameR StrR HexR IntR RealTok
  notHead notOctHead decVal)

/-! ## the character classes of the standard are the table of scanner.go -/

theorem class_agree : ∀ c, c < 256 →
    isSpace c = isWhite c ∧ isRegular c = isRegularCh c := by decide +kernel

theorem hex_agree : ∀ c, c < 256 → hexVal c = hexDigit? c := by decide +kernel

theorem white_lt (c : Nat) (h : isWhite c = true) : c < 256 := by
  simp [isWhite] at h; omega

theorem hexDigit_lt (c d : Nat) (h : hexDigit? c = some d) : c < 256 ∧ d < 16 := by
  unfold hexDigit? at h
  split at h
  · simp at h; omega
  · split at h
    · simp at h; omega
    · split at h
      · simp at h; omega
      · cases h

/-! ## white space and comments -/

/-- the byte after white space: end of input, or a byte that is neither white space nor `%` -/
def StopsWs : Bytes → Prop
  | [] => True
  | c :: _ => c < 256 ∧ isWhite c = false ∧ c ≠ 37

theorem skipComment_body (body : Bytes) (hb : ∀ b ∈ body, isEolCh b = false) (eol : Nat)
    (he : isEolCh eol = true) (x : Bytes) : skipComment (body ++ eol :: x) = skipWS x := by
  induction body with
  | nil =>
    simp only [List.nil_append, skipComment]
    simp [isEolCh] at he
    rcases he with rfl | rfl <;> simp
  | cons b bs ih =>
    have hb0 := hb b (by simp)
    simp [isEolCh] at hb0
    simp only [List.cons_append, skipComment]
    have : (b == 13 || b == 10) = false := by simp [hb0.1, hb0.2]
    simp only [this, Bool.false_eq_true, if_false]
    exact ih (fun b' hb' => hb b' (by simp [hb']))

/-- **White space.**  Any sequence of white-space characters and comments is skipped entirely,
whatever follows it. -/
theorem ws_any_spelling (w : Bytes) (hw : WsR w) (rest : Bytes) (hr : StopsWs rest) :
    skipWS (w ++ rest) = (rest, rest.isEmpty) := by
  induction hw with
  | nil =>
    cases rest with
    | nil => simp [skipWS]
    | cons c cs =>
      obtain ⟨hc, hw, hp⟩ := hr
      have := (class_agree c hc).1
      simp [skipWS, hp, this, hw]
  | white c w hc _ ih =>
    have hlt := white_lt c hc
    have hsp := (class_agree c hlt).1
    have hne : (c == 37) = false := by
      simp [isWhite] at hc
      have : c ≠ 37 := by omega
      simpa using this
    simp only [List.cons_append, skipWS, hne, Bool.false_eq_true, if_false, hsp, hc, if_true]
    exact ih
  | comment body eol w hb he _ ih =>
    simp only [List.cons_append, skipWS, beq_self_eq_true, if_true, List.append_assoc]
    rw [skipComment_body body hb eol he]
    exact ih

example : WsR [32, 37, 97, 40, 13, 10, 0] :=
  .white 32 _ (by decide) (.comment [97, 40] 13 _ (by decide) (by decide) (.white 10 _ (by decide) (.white 0 _ (by decide) .nil)))

/-! ## names -/

/-- what may follow a name: end of input or a byte that is not regular -/
def NameEnd : Bytes → Prop
  | [] => True
  | d :: _ => d < 256 ∧ isRegularCh d = false

theorem nameBody_any (v s : Bytes) (h : NameR v s) (rest : Bytes) (hrest : NameEnd rest) :
    ∀ fuel len, fuel ≥ s.length + 1 → len + v.length ≤ Gen.scanner_maxNameBytes →
      readNameBody fuel len (s ++ rest) = .ok (v, rest) := by
  induction h with
  | nil =>
    intro fuel len hf _
    cases fuel with
    | zero => simp at hf
    | succ f =>
      cases rest with
      | nil => simp [readNameBody]
      | cons d ds =>
        obtain ⟨hd, hreg⟩ := hrest
        have hr := (class_agree d hd).2
        have hne : (d != 35) = true := by
          cases hd35 : d == 35 with
          | false => simp [bne, hd35]
          | true => have : d = 35 := by simpa using hd35
                    subst this; simp [isRegularCh, isWhite, isDelim] at hreg
        simp [readNameBody, hne, hr, hreg]
  | plain c v s hc hreg h35 _ ih =>
    intro fuel len hf hl
    cases fuel with
    | zero => simp at hf
    | succ f =>
      have hlen : ¬ (len ≥ Gen.scanner_maxNameBytes) := by simp at hl; omega
      have hr := (class_agree c hc).2
      have hne : (c == 35) = false := by simpa using h35
      have := ih f (len + 1) (by simp at hf; omega) (by simp at hl ⊢; omega)
      simp [readNameBody, hne, hr, hreg, this, hlen]
  | esc c h l v s hc hh hl2 _ ih =>
    intro fuel len hf hl
    cases fuel with
    | zero => simp at hf
    | succ f =>
      have hlen : ¬ (len ≥ Gen.scanner_maxNameBytes) := by simp at hl; omega
      have h1 := hex_agree h (hexDigit_lt h _ hh).1
      have h2 := hex_agree l (hexDigit_lt l _ hl2).1
      have := ih f (len + 1) (by simp at hf; omega) (by simp at hl ⊢; omega)
      have hv : c / 16 * 16 + c % 16 = c := by omega
      simp [readNameBody, h1, h2, hh, hl2, this, hlen, hv]

/-- **Names.**  Every conforming spelling of a name — any mixture of `#xx` escapes (upper or
lower case, also for characters that need none) and plain regular characters — of up to
`maxNameBytes` bytes, followed by the end of the input or a non-regular byte, is read as that
name, and the scanner stops behind it. -/
theorem name_any_spelling (v s : Bytes) (h : NameR v s) (hlen : v.length ≤ Gen.scanner_maxNameBytes)
    (rest : Bytes) (hrest : NameEnd rest) :
    readName (47 :: s ++ rest) = .ok (v, rest) := by
  simp only [readName, List.cons_append]
  apply nameBody_any v s h rest hrest
  · simp
  · omega

-- non-vacuity: "A#20b" spelled "#41#20b", followed by a solidus
example : NameR [65, 32, 98] [35, 52, 49, 35, 50, 48, 98] :=
  .esc 65 52 49 _ _ (by decide) (by decide) (by decide)
    (.esc 32 50 48 _ _ (by decide) (by decide) (by decide) (.plain 98 _ _ (by decide) (by decide) (by decide) .nil))

/-! ## literal strings -/

theorem isOct_eq (c : Nat) : isOct c = isOctCh c := rfl

theorem octTail_stop (s rest : Bytes) (h : notOctHead s) (o k : Nat) :
    readOctTail o k (s ++ 41 :: rest) = (o, s ++ 41 :: rest) := by
  cases k with
  | zero => simp [readOctTail]
  | succ k =>
    cases s with
    | nil => simp [readOctTail, isOct]
    | cons d ds =>
      have : isOct d = false := by rw [isOct_eq]; exact h
      simp [readOctTail, this]

theorem ign_false (ign : Bool) (c : Nat) (s : Bytes) (h : ign = true → notHead 10 (c :: s)) :
    (ign && c == 10) = false := by
  cases ign with
  | false => rfl
  | true => have := h rfl; simp [notHead] at this; simp [this]

/-- every conforming spelling `s` of a string body, read at parenthesis depth `l` with any
    amount of fuel above its length and in either state of `ignoreLF` (when set, `s` must not
    start with LF), followed by the closing parenthesis -/
theorem strBody_any (l : Nat) (v s : Bytes) (h : StrR l v s) (rest : Bytes) :
    1 ≤ l → ∀ fuel ign len, fuel ≥ s.length + 1 → (ign = true → notHead 10 s) →
      len + v.length ≤ Gen.scanner_maxStringBytes →
      readStringBody fuel l ign len (s ++ 41 :: rest) = .ok (v, rest) := by
  induction h with
  | done =>
    intro _ fuel ign len hf _ hl
    cases fuel with
    | zero => simp at hf
    | succ f =>
      have hcap : ¬ (len > Gen.scanner_maxStringBytes) := by simp at hl; omega
      simp [readStringBody, hcap]
  | plain l c v s hc h40 h41 h92 h13 _ ih =>
    intro hl1 fuel ign len hf hi hl
    cases fuel with
    | zero => simp at hf
    | succ f =>
      have hcap : ¬ (len > Gen.scanner_maxStringBytes) := by simp at hl; omega
      have hig := ign_false ign c s hi
      have := ih hl1 f false (len + 1) (by simp at hf; omega) (fun h => by cases h) (by simp at hl ⊢; omega)
      simp [readStringBody, hcap, hig, h40, h41, h92, h13, this]
  | rawCR l v s hn _ ih =>
    intro hl1 fuel ign len hf _ hl
    cases fuel with
    | zero => simp at hf
    | succ f =>
      have hcap : ¬ (len > Gen.scanner_maxStringBytes) := by simp at hl; omega
      have := ih hl1 f true (len + 1) (by simp at hf; omega) (fun _ => hn) (by simp at hl ⊢; omega)
      simp [readStringBody, hcap, this]
  | rawCRLF l v s _ ih =>
    intro hl1 fuel ign len hf _ hl
    cases fuel with
    | zero => simp at hf
    | succ f =>
      cases f with
      | zero => simp at hf
      | succ f' =>
        have hcap : ¬ (len > Gen.scanner_maxStringBytes) := by simp at hl; omega
        have hcap' : ¬ (len + 1 > Gen.scanner_maxStringBytes) := by simp at hl; omega
        have := ih hl1 f' false (len + 1) (by simp at hf; omega) (fun h => by cases h) (by simp at hl ⊢; omega)
        simp [readStringBody, hcap, hcap', this]
  | popen l v s _ ih =>
    intro hl1 fuel ign len hf _ hl
    cases fuel with
    | zero => simp at hf
    | succ f =>
      have hcap : ¬ (len > Gen.scanner_maxStringBytes) := by simp at hl; omega
      have := ih (by omega) f false (len + 1) (by simp at hf; omega) (fun h => by cases h) (by simp at hl ⊢; omega)
      simp [readStringBody, hcap, this]
  | pclose l v s hl0 _ ih =>
    intro _ fuel ign len hf _ hl
    cases fuel with
    | zero => simp at hf
    | succ f =>
      have hcap : ¬ (len > Gen.scanner_maxStringBytes) := by simp at hl; omega
      have := ih hl0 f false (len + 1) (by simp at hf; omega) (fun h => by cases h) (by simp at hl ⊢; omega)
      have hne : ¬ (l = 0) := by omega
      simp [readStringBody, hcap, this, hne]
  | escN l v s _ ih =>
    intro hl1 fuel ign len hf _ hl
    cases fuel with
    | zero => simp at hf
    | succ f =>
      have hcap : ¬ (len > Gen.scanner_maxStringBytes) := by simp at hl; omega
      have := ih hl1 f false (len + 1) (by simp at hf; omega) (fun h => by cases h) (by simp at hl ⊢; omega)
      simp [readStringBody, hcap, this]
  | escR l v s _ ih =>
    intro hl1 fuel ign len hf _ hl
    cases fuel with
    | zero => simp at hf
    | succ f =>
      have hcap : ¬ (len > Gen.scanner_maxStringBytes) := by simp at hl; omega
      have := ih hl1 f false (len + 1) (by simp at hf; omega) (fun h => by cases h) (by simp at hl ⊢; omega)
      simp [readStringBody, hcap, this]
  | escT l v s _ ih =>
    intro hl1 fuel ign len hf _ hl
    cases fuel with
    | zero => simp at hf
    | succ f =>
      have hcap : ¬ (len > Gen.scanner_maxStringBytes) := by simp at hl; omega
      have := ih hl1 f false (len + 1) (by simp at hf; omega) (fun h => by cases h) (by simp at hl ⊢; omega)
      simp [readStringBody, hcap, this]
  | escB l v s _ ih =>
    intro hl1 fuel ign len hf _ hl
    cases fuel with
    | zero => simp at hf
    | succ f =>
      have hcap : ¬ (len > Gen.scanner_maxStringBytes) := by simp at hl; omega
      have := ih hl1 f false (len + 1) (by simp at hf; omega) (fun h => by cases h) (by simp at hl ⊢; omega)
      simp [readStringBody, hcap, this]
  | escF l v s _ ih =>
    intro hl1 fuel ign len hf _ hl
    cases fuel with
    | zero => simp at hf
    | succ f =>
      have hcap : ¬ (len > Gen.scanner_maxStringBytes) := by simp at hl; omega
      have := ih hl1 f false (len + 1) (by simp at hf; omega) (fun h => by cases h) (by simp at hl ⊢; omega)
      simp [readStringBody, hcap, this]
  | escSelf l e v s he hn hr ht hb hff h10 h13 hoct _ ih =>
    intro hl1 fuel ign len hf _ hl
    cases fuel with
    | zero => simp at hf
    | succ f =>
      have hcap : ¬ (len > Gen.scanner_maxStringBytes) := by simp at hl; omega
      have := ih hl1 f false (len + 1) (by simp at hf; omega) (fun h => by cases h) (by simp at hl ⊢; omega)
      have ho : isOct e = false := by rw [isOct_eq]; exact hoct
      simp [readStringBody, hcap, this, hn, hr, ht, hb, hff, h10, h13, ho]
  | oct3 l d1 d2 d3 v s h1 h2 h3 _ ih =>
    intro hl1 fuel ign len hf _ hl
    cases fuel with
    | zero => simp at hf
    | succ f =>
      have hcap : ¬ (len > Gen.scanner_maxStringBytes) := by simp at hl; omega
      have := ih hl1 f false (len + 1) (by simp at hf; omega) (fun h => by cases h) (by simp at hl ⊢; omega)
      have e1 : ∀ k, k ≥ 56 → (48 + d1 == k) = false := by intro k hk; simp; omega
      have e2 : (48 + d1 == 10) = false ∧ (48 + d1 == 13) = false := by constructor <;> (simp; omega)
      have o1 : isOct (48 + d1) = true := by simp [isOct]; omega
      have o2 : isOct (48 + d2) = true := by simp [isOct]; omega
      have o3 : isOct (48 + d3) = true := by simp [isOct]; omega
      have hv : ((d1 * 8 + d2) % 256 * 8 + d3) % 256 = (d1 * 64 + d2 * 8 + d3) % 256 := by omega
      simp [readStringBody, hcap, e1, e2, o1, o2, o3, readOctTail, this, hv]
  | oct2 l d1 d2 v s h1 h2 hno _ ih =>
    intro hl1 fuel ign len hf _ hl
    cases fuel with
    | zero => simp at hf
    | succ f =>
      have hcap : ¬ (len > Gen.scanner_maxStringBytes) := by simp at hl; omega
      have := ih hl1 f false (len + 1) (by simp at hf; omega) (fun h => by cases h) (by simp at hl ⊢; omega)
      have e1 : ∀ k, k ≥ 56 → (48 + d1 == k) = false := by intro k hk; simp; omega
      have e2 : (48 + d1 == 10) = false ∧ (48 + d1 == 13) = false := by constructor <;> (simp; omega)
      have o1 : isOct (48 + d1) = true := by simp [isOct]; omega
      have o2 : isOct (48 + d2) = true := by simp [isOct]; omega
      have hv : (d1 * 8 + d2) % 256 = d1 * 8 + d2 := by omega
      have ht := octTail_stop s rest hno (d1 * 8 + d2) 1
      simp only [List.cons_append] at ht ⊢
      simp [readStringBody, hcap, e1, e2, o1, o2, readOctTail, ht, this, hv]
  | oct1 l d1 v s h1 hno _ ih =>
    intro hl1 fuel ign len hf _ hl
    cases fuel with
    | zero => simp at hf
    | succ f =>
      have hcap : ¬ (len > Gen.scanner_maxStringBytes) := by simp at hl; omega
      have := ih hl1 f false (len + 1) (by simp at hf; omega) (fun h => by cases h) (by simp at hl ⊢; omega)
      have e1 : ∀ k, k ≥ 56 → (48 + d1 == k) = false := by intro k hk; simp; omega
      have e2 : (48 + d1 == 10) = false ∧ (48 + d1 == 13) = false := by constructor <;> (simp; omega)
      have o1 : isOct (48 + d1) = true := by simp [isOct]; omega
      have ht := octTail_stop s rest hno d1 2
      simp only [List.cons_append] at ht ⊢
      simp [readStringBody, hcap, e1, e2, o1, ht, this]
  | contLF l v s _ ih =>
    intro hl1 fuel ign len hf _ hl
    cases fuel with
    | zero => simp at hf
    | succ f =>
      have hcap : ¬ (len > Gen.scanner_maxStringBytes) := by omega
      have := ih hl1 f false len (by simp at hf; omega) (fun h => by cases h) hl
      simp [readStringBody, hcap, this]
  | contCRLF l v s _ ih =>
    intro hl1 fuel ign len hf _ hl
    cases fuel with
    | zero => simp at hf
    | succ f =>
      cases f with
      | zero => simp at hf
      | succ f' =>
        have hcap : ¬ (len > Gen.scanner_maxStringBytes) := by omega
        have := ih hl1 f' false len (by simp at hf; omega) (fun h => by cases h) hl
        simp [readStringBody, hcap, this]
  | contCR l v s hn _ ih =>
    intro hl1 fuel ign len hf _ hl
    cases fuel with
    | zero => simp at hf
    | succ f =>
      have hcap : ¬ (len > Gen.scanner_maxStringBytes) := by omega
      have := ih hl1 f true len (by simp at hf; omega) (fun _ => hn) hl
      simp [readStringBody, hcap, this]

/-- **Literal strings.**  Every conforming spelling of a string between parentheses — raw
bytes, raw end-of-line markers (CR, CR LF and LF all read as LF), balanced unescaped
parentheses, the escapes of Table 3, a backslash before any other character, octal escapes
of one, two or three digits, line continuations — is read as the string it denotes; the
scanner stops behind the closing parenthesis. -/
theorem string_any_spelling (v s : Bytes) (h : StrR 1 v s) (hlen : v.length ≤ Gen.scanner_maxStringBytes)
    (rest : Bytes) : readString (s ++ 41 :: rest) = .ok (v, rest) := by
  unfold readString
  apply strBody_any 1 v s h rest (by omega)
  · simp
  · intro h; cases h
  · omega

-- non-vacuity: (a\
-- b(c)\053\7) with a line continuation, a balanced pair, a 3-digit and a 1-digit octal escape
example : StrR 1 [97, 98, 40, 99, 41, 43, 7] [97, 92, 10, 98, 40, 99, 41, 92, 48, 53, 51, 92, 55] :=
  .plain 1 97 _ _ (by decide) (by decide) (by decide) (by decide) (by decide)
    (.contLF 1 _ _ (.plain 1 98 _ _ (by decide) (by decide) (by decide) (by decide) (by decide)
      (.popen 1 _ _ (.plain 2 99 _ _ (by decide) (by decide) (by decide) (by decide) (by decide)
        (.pclose 1 _ _ (by decide) (.oct3 1 0 5 3 _ _ (by decide) (by decide) (by decide)
          (.oct1 1 7 _ _ (by decide) (by simp [notOctHead]) .done)))))))

/-! ## hexadecimal strings -/

theorem white_not_hex (c : Nat) (h : isWhite c = true) : (c == 62) = false ∧ hexVal c = none := by
  simp [isWhite] at h
  rcases h with ((((rfl | rfl) | rfl) | rfl) | rfl) | rfl <;> decide

theorem hexdigit_not_gt (c d : Nat) (h : hexDigit? c = some d) : (c == 62) = false := by
  have := hexDigit_lt c d h
  unfold hexDigit? at h
  split at h
  · simp; omega
  · split at h
    · simp; omega
    · split at h
      · simp; omega
      · cases h

theorem hexBody_any (p : Option Nat) (v s : Bytes) (h : HexR p v s) (rest : Bytes) :
    ∀ len, len + v.length ≤ Gen.scanner_maxStringBytes →
      readHexBody p len (s ++ 62 :: rest) = .ok (v, rest) := by
  induction h with
  | doneEven => intro len _; simp [readHexBody]
  | doneOdd h =>
    intro len hl
    have hcap : ¬ (len ≥ Gen.scanner_maxStringBytes) := by simp at hl; omega
    simp [readHexBody, hcap]
  | white p c v s hc _ ih =>
    intro len hl
    obtain ⟨h1, h2⟩ := white_not_hex c hc
    simp only [List.cons_append, readHexBody, h1, Bool.false_eq_true, if_false, h2]
    exact ih len hl
  | hi c d v s hd _ ih =>
    intro len hl
    have h1 := hexdigit_not_gt c d hd
    have h2 : hexVal c = some d := by rw [hex_agree c (hexDigit_lt c d hd).1]; exact hd
    simp only [List.cons_append, readHexBody, h1, Bool.false_eq_true, if_false, h2]
    exact ih len hl
  | lo c d h v s hd _ ih =>
    intro len hl
    have h1 := hexdigit_not_gt c d hd
    have h2 : hexVal c = some d := by rw [hex_agree c (hexDigit_lt c d hd).1]; exact hd
    have hcap : ¬ (len ≥ Gen.scanner_maxStringBytes) := by simp at hl; omega
    have := ih (len + 1) (by simp at hl ⊢; omega)
    simp [readHexBody, h1, h2, hcap, this]

/-- **Hexadecimal strings.**  Every conforming spelling between `<` and `>` — digits of
either case, white space anywhere, an odd number of digits (the missing last digit is 0) —
is read as the string it denotes. -/
theorem hex_any_spelling (v s : Bytes) (h : HexR none v s) (hlen : v.length ≤ Gen.scanner_maxStringBytes)
    (rest : Bytes) : readHexString (s ++ 62 :: rest) = .ok (v, rest) := by
  unfold readHexString
  exact hexBody_any none v s h rest 0 (by omega)

-- non-vacuity: <4 1\n7> is "Ap"
example : HexR none [65, 112] [52, 32, 49, 10, 55] :=
  .hi 52 4 _ _ (by decide) (.white _ 32 _ _ (by decide) (.lo 49 1 4 _ _ (by decide)
    (.white _ 10 _ _ (by decide) (.hi 55 7 _ _ (by decide) (.doneOdd 7)))))

/-! ## numbers -/

/-- what may follow a number: end of input or a byte that is neither a digit nor a period -/
def NumEnd : Bytes → Prop
  | [] => True
  | d :: _ => isDigitCh d = false ∧ d ≠ 46

theorem isDigit_eq (c : Nat) : isDigit c = isDigitCh c := rfl

theorem digitsVal_eq (ds : Bytes) : ∀ acc, digitsVal ds acc = decVal ds acc := by
  induction ds with
  | nil => intro acc; rfl
  | cons d ds ih => intro acc; simp [digitsVal, decVal, ih]

/-- digits are consumed up to the first byte that cannot continue the number -/
theorem scanDigits (allowDot hasDot : Bool) (ds : Bytes) (hd : ∀ d ∈ ds, isDigitCh d = true)
    (rest : Bytes) (hr : NumEnd rest) (hdot : allowDot = true → hasDot = false → NumEnd rest) :
    scanNumTok allowDot hasDot false (ds ++ rest) = (ds, rest) := by
  induction ds with
  | nil =>
    cases rest with
    | nil => simp [scanNumTok]
    | cons c cs =>
      obtain ⟨h1, h2⟩ := hr
      have : isDigit c = false := by rw [isDigit_eq]; exact h1
      have h46 : (c == 46) = false := by simpa using h2
      simp [scanNumTok, this, h46]
  | cons d ds ih =>
    have hdd : isDigit d = true := by rw [isDigit_eq]; exact hd d (by simp)
    have h46 : (d == 46) = false := by
      have := hd d (by simp); simp [isDigitCh] at this; simp; omega
    simp only [List.cons_append, scanNumTok, h46, Bool.and_false, Bool.false_eq_true, if_false,
      Bool.false_and, hdd, if_true]
    rw [ih (fun x hx => hd x (by simp [hx]))]

theorem digits_no_dot (ds : Bytes) (hd : ∀ d ∈ ds, isDigitCh d = true) : ds.contains 46 = false := by
  simp only [List.contains_eq_mem, decide_eq_false_iff_not]
  intro hmem
  have := hd 46 hmem
  simp [isDigitCh] at this

theorem signed_no_dot (sg : Nat) (hs : sg ≠ 46) (ds : Bytes) (hd : ∀ d ∈ ds, isDigitCh d = true) :
    (sg :: ds).contains 46 = false := by
  have := digits_no_dot ds hd
  simp only [List.contains_eq_mem, decide_eq_false_iff_not, List.mem_cons, not_or] at this ⊢
  exact ⟨fun h => hs h.symm, this⟩

theorem digits_all (ds : Bytes) (hd : ∀ d ∈ ds, isDigitCh d = true) : ds.all isDigit = true := by
  simp only [List.all_eq_true]
  intro x hx; rw [isDigit_eq]; exact hd x hx

/-- **Integers.**  Every conforming spelling of an integer that fits `int64` — optional sign,
any number of leading zeros — is read as that integer. -/
theorem int_any_spelling (i : Int) (s : Bytes) (h : IntR i s)
    (hrange : -9223372036854775808 ≤ i ∧ i ≤ 9223372036854775807)
    (hlen : s.length ≤ Gen.scanner_maxNameBytes) (rest : Bytes) (hr : NumEnd rest) :
    readNumber (s ++ rest) = .ok (.int i, rest) := by
  cases h with
  | unsigned _ hne hd =>
    cases s with
    | nil => exact absurd rfl hne
    | cons d ds' =>
      have hdd : isDigit d = true := by rw [isDigit_eq]; exact hd d (by simp)
      have hd' := hd d (by simp); simp [isDigitCh] at hd'
      have h46 : (d == 46) = false := by simp; omega
      have h43 : (d == 43) = false := by simp; omega
      have h45 : (d == 45) = false := by simp; omega
      have hscan : scanNumTok true false true ((d :: ds') ++ rest) = (d :: ds', rest) := by
        simp only [List.cons_append, scanNumTok, h46, h43, h45, Bool.and_false, Bool.or_false,
          Bool.false_eq_true, if_false, hdd, if_true, Bool.and_self]
        rw [scanDigits true false ds' (fun x hx => hd x (by simp [hx])) rest hr (fun _ _ => hr)]
      have hnd := digits_no_dot (d :: ds') hd
      have hall := digits_all (d :: ds') hd
      have hlen' : ¬ ((d :: ds').length > Gen.scanner_maxNameBytes) := by omega
      have hpi : parseInt64 (d :: ds') = some (decVal (d :: ds') 0 : Int) := by
        have n45 : ¬ d = 45 := by omega
        have n43 : ¬ d = 43 := by omega
        have h1 : ¬ ((decVal (d :: ds') 0 : Int) < -9223372036854775808) := by omega
        have h2 : ¬ ((decVal (d :: ds') 0 : Int) > 9223372036854775807) := by omega
        unfold parseInt64
        split
        rename_i neg ds heq
        have : neg = false ∧ ds = d :: ds' := by
          split at heq <;> simp_all
        obtain ⟨rfl, rfl⟩ := this
        simp only [List.isEmpty_cons, Bool.false_or, hall, Bool.not_true, Bool.false_eq_true, if_false, digitsVal_eq]
        simp [h1, h2]
      unfold readNumber
      simp only [hscan, hlen', if_false, hnd, Bool.false_eq_true, hpi]
  | plus ds hne hd =>
    have hscan : scanNumTok true false true ((43 :: ds) ++ rest) = (43 :: ds, rest) := by
      have := scanDigits true false ds hd rest hr (fun _ _ => hr)
      simp [scanNumTok, this]
    have hnd : (43 :: ds).contains 46 = false := signed_no_dot 43 (by decide) ds hd
    have hall := digits_all ds hd
    have hlen' : ¬ ((43 :: ds).length > Gen.scanner_maxNameBytes) := by omega
    have hne' : ds.isEmpty = false := by cases ds; exact absurd rfl hne; rfl
    have hpi : parseInt64 (43 :: ds) = some (decVal ds 0 : Int) := by
      unfold parseInt64
      simp only [hne', hall, Bool.false_or, Bool.not_true, Bool.false_eq_true, if_false, digitsVal_eq]
      have h1 : ¬ ((decVal ds 0 : Int) < -9223372036854775808) := by omega
      have h2 : ¬ ((decVal ds 0 : Int) > 9223372036854775807) := by omega
      simp [h1, h2]
    unfold readNumber
    simp only [hscan, hlen', if_false, hnd, Bool.false_eq_true, hpi]
  | minus ds hne hd =>
    have hscan : scanNumTok true false true ((45 :: ds) ++ rest) = (45 :: ds, rest) := by
      have := scanDigits true false ds hd rest hr (fun _ _ => hr)
      simp [scanNumTok, this]
    have hnd : (45 :: ds).contains 46 = false := signed_no_dot 45 (by decide) ds hd
    have hall := digits_all ds hd
    have hlen' : ¬ ((45 :: ds).length > Gen.scanner_maxNameBytes) := by omega
    have hne' : ds.isEmpty = false := by cases ds; exact absurd rfl hne; rfl
    have hpi : parseInt64 (45 :: ds) = some (-(decVal ds 0 : Int)) := by
      unfold parseInt64
      simp only [hne', hall, Bool.false_or, Bool.not_true, Bool.false_eq_true, if_false, digitsVal_eq, if_true]
      have h1 : ¬ (-(decVal ds 0 : Int) < -9223372036854775808) := by omega
      have h2 : ¬ (-(decVal ds 0 : Int) > 9223372036854775807) := by omega
      simp [h1, h2]
    unfold readNumber
    simp only [hscan, hlen', if_false, hnd, Bool.false_eq_true, hpi]

-- non-vacuity: "+007" is the integer 7
example : IntR 7 [43, 48, 48, 55] := .plus [48, 48, 55] (by decide) (by decide)

theorem scanIntPart (ip fp : Bytes) (hi : ∀ d ∈ ip, isDigitCh d = true) (hf : ∀ d ∈ fp, isDigitCh d = true)
    (rest : Bytes) (hr : NumEnd rest) :
    scanNumTok true false false (ip ++ 46 :: (fp ++ rest)) = (ip ++ 46 :: fp, rest) := by
  induction ip with
  | nil =>
    have := scanDigits true true fp hf rest hr (fun _ h => by cases h)
    simp [scanNumTok, this]
  | cons d ds ih =>
    have hdd : isDigit d = true := by rw [isDigit_eq]; exact hi d (by simp)
    have h46 : (d == 46) = false := by
      have := hi d (by simp); simp [isDigitCh] at this; simp; omega
    simp only [List.cons_append, scanNumTok, h46, Bool.and_false, Bool.false_eq_true, if_false,
      Bool.false_and, hdd, if_true]
    rw [ih (fun x hx => hi x (by simp [hx]))]

/-- **Real tokens.**  Every conforming spelling of a real number — optional sign, digits with
one period in any position — is taken as one token (the value of the token is `strconv`'s). -/
theorem real_token (t : Bytes) (h : RealTok t) (hlen : t.length ≤ Gen.scanner_maxNameBytes)
    (rest : Bytes) (hr : NumEnd rest) : readNumber (t ++ rest) = .ok (.real t, rest) := by
  cases h with
  | mk sign ip fp hs hi hf hne =>
    have hbody := scanIntPart ip fp hi hf rest hr
    have hscan : scanNumTok true false true ((sign ++ ip ++ 46 :: fp) ++ rest) = (sign ++ ip ++ 46 :: fp, rest) := by
      rcases hs with rfl | rfl | rfl
      · simp only [List.nil_append, List.append_assoc, List.cons_append]
        cases ip with
        | nil =>
          have := scanDigits true true fp hf rest hr (fun _ h => by cases h)
          simp [scanNumTok, this]
        | cons d ds =>
          have hdd : isDigit d = true := by rw [isDigit_eq]; exact hi d (by simp)
          have hd' := hi d (by simp); simp [isDigitCh] at hd'
          have h46 : (d == 46) = false := by simp; omega
          have h43 : (d == 43) = false := by simp; omega
          have h45 : (d == 45) = false := by simp; omega
          have := scanIntPart ds fp (fun x hx => hi x (by simp [hx])) hf rest hr
          simp only [List.cons_append, scanNumTok, h46, h43, h45, Bool.and_false, Bool.or_false,
            Bool.false_eq_true, if_false, hdd, if_true, this]
      · simp only [List.append_assoc, List.cons_append, List.nil_append] at hbody ⊢
        simp [scanNumTok, hbody]
      · simp only [List.append_assoc, List.cons_append, List.nil_append] at hbody ⊢
        simp [scanNumTok, hbody]
    have hdot : (sign ++ ip ++ 46 :: fp).contains 46 = true := by simp
    have hany : (sign ++ ip ++ 46 :: fp).any isDigit = true := by
      simp only [List.any_append, List.any_cons, Bool.or_eq_true]
      cases ip with
      | cons d ds => left; right; simp [isDigit_eq, hi d (by simp)]
      | nil =>
        cases fp with
        | nil => simp at hne
        | cons d ds => right; right; simp [isDigit_eq, hf d (by simp)]
    have hlen' : ¬ ((sign ++ ip ++ 46 :: fp).length > Gen.scanner_maxNameBytes) := by omega
    unfold readNumber
    simp only [hscan, hlen', if_false, hdot, if_true, hany]

-- non-vacuity: "-.5" and "+12." are real tokens
example : RealTok [45, 46, 53] := .mk [45] [] [53] (by simp) (by simp) (by decide) (by simp)
example : RealTok [43, 49, 50, 46] := .mk [43] [49, 50] [] (by simp) (by decide) (by simp) (by simp)

end PdfVerif.C04hisc

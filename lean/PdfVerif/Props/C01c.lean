import PdfVerif.Lemmas.C01Arr
/-!
# C01 (part c) — flat sequences: `needSep` threading and the `a b R` look-ahead

For every list of scalar objects (null, nil array, booleans, int64 integers, real tokens, names,
strings, references) and both values of `OptPretty`: the array `[` ++ `Format(opt, objs…)` ++ `]`
is read back element by element.  In particular no two tokens ever merge (`adjacent_sep`) and
two integers are never followed by something parsed as `R` unless a reference was written.
-/
namespace PdfVerif.C01c
open PdfVerif PdfVerif.C01b PdfVerif.C01L

/-- scalar objects and references -/
def isFlat (o : Obj) : Bool := isScalar o || isRefObj o

theorem canon_flat (o : Obj) (h : isFlat o = true) : o.canon = o := by
  cases o <;> simp_all [isFlat, isScalar, isRefObj, Obj.canon]

theorem canonList_flat (xs : List Obj) (h : ∀ x ∈ xs, isFlat x = true) : canonList xs = xs := by
  induction xs with
  | nil => rfl
  | cons x xs ih =>
    simp only [canonList]
    rw [canon_flat x (h x (by simp)), ih (fun y hy => h y (by simp [hy]))]

theorem depth_flat (o : Obj) (h : isFlat o = true) : depthOf o = 0 := by
  cases o <;> simp_all [isFlat, isScalar, isRefObj, depthOf]

theorem depthList_flat (xs : List Obj) (h : ∀ x ∈ xs, isFlat x = true) : depthList xs = 0 := by
  induction xs with
  | nil => rfl
  | cons x xs ih =>
    simp [depthList, depth_flat x (h x (by simp)), ih (fun y hy => h y (by simp [hy]))]

theorem readsBack_flat (opt : FmtOpt) (o : Obj) (h : isFlat o = true) : ReadsBack opt o := by
  cases hs : isScalar o
  · intro _ hr
    simp [isFlat, hs] at h
    simp [h] at hr
  · exact readsBack_scalar opt o hs

theorem arrReads_flat (opt : FmtOpt) (xs : List Obj) (h : ∀ x ∈ xs, isFlat x = true) : ArrReads opt xs := by
  induction xs with
  | nil => exact arrReads_nil opt
  | cons x xs ih =>
    exact arrReads_cons opt x xs (readsBack_flat opt x (h x (by simp))) (ih (fun y hy => h y (by simp [hy])))

/-- the scanner's nesting limit leaves room for one array -/
theorem nest_room : 1 ≤ Gen.scanner_maxScannerNestDepth := by decide

/-- **Flat sequences.**  For every list `xs` of scalar objects and references within the size
limits, both with and without `OptPretty`, at any nesting depth below the limit and followed by
anything: the array `[` ++ `Format(opt, xs…)` ++ `]` is read back as the array of the values
`rd x` (the value itself; a nil array as null; a real as its written token), and the scanner
stops right after the closing bracket.  The length hypothesis is the documented cap alone,
`xs.length ≤ maxArrayLen`: a trailing reference may occupy one transient extra element (it is read
as two integers before `R` collapses them), the cap is enforced at the closing bracket. -/
theorem flat_seq_rt (opt : FmtOpt) (xs : List Obj) (hflat : ∀ x ∈ xs, isFlat x = true)
    (hg : goodList xs = true) (hlen : xs.length ≤ Gen.scanner_maxArrayLen)
    (body : Bytes) (hf : format opt xs = some body) (rest : Bytes)
    (d : Nat) (hd : d < Gen.scanner_maxScannerNestDepth)
    (fuel : Nat) (hfuel : fuel ≥ 3 * (91 :: (body ++ 93 :: rest)).length + 3) :
    readObject fuel d (91 :: (body ++ 93 :: rest)) = .ok (.arr (rdList xs), rest) := by
  have hB := arrReads_flat opt xs hflat
  have hgood : good (.arr xs) = true := by simp [good, hg, hlen]
  unfold format at hf
  rw [canonList_flat xs hflat] at hf
  exact arr_read opt xs hB hgood d (by simp [depthOf, depthList_flat xs hflat]; omega) body hf rest fuel hfuel

/-- the same through `parseObject` (a fresh scanner at nesting depth 0) -/
theorem flat_array_rt (opt : FmtOpt) (xs : List Obj) (hflat : ∀ x ∈ xs, isFlat x = true)
    (hg : goodList xs = true) (hlen : xs.length ≤ Gen.scanner_maxArrayLen)
    (body : Bytes) (hf : format opt xs = some body) (rest : Bytes) :
    parseObject (91 :: (body ++ 93 :: rest)) = .ok (.arr (rdList xs), rest) := by
  unfold parseObject scanFuel
  exact flat_seq_rt opt xs hflat hg hlen body hf rest 0 (by have := nest_room; omega) _ (by omega)

/-- **Adjacent tokens never merge** (`adjacent_sep`): any two flat objects written one after the
other by one `Format` call are read back as exactly those two values, in order — for either
value of `OptPretty`. -/
theorem adjacent_sep (opt : FmtOpt) (a b : Obj) (ha : isFlat a = true) (hb : isFlat b = true)
    (hga : good a = true) (hgb : good b = true)
    (body : Bytes) (hf : format opt [a, b] = some body) (rest : Bytes) :
    parseObject (91 :: (body ++ 93 :: rest)) = .ok (.arr [rd a, rd b], rest) := by
  have h2 : 2 ≤ Gen.scanner_maxArrayLen := by decide
  have := flat_array_rt opt [a, b] (by simp [ha, hb]) (by simp [goodList, hga, hgb])
    (by simpa using h2) body hf rest
  simpa [rdList] using this

/-- formatting a flat list never fails (so the theorems above are not vacuous) -/
theorem format_flat_some (opt : FmtOpt) (xs : List Obj) (hflat : ∀ x ∈ xs, isFlat x = true)
    (hg : goodList xs = true) : ∃ body, format opt xs = some body := by
  unfold format
  rw [canonList_flat xs hflat]
  have one : ∀ x ns, isFlat x = true → good x = true → ∃ p, fmtObj opt ns x = some p := by
    intro x ns hx hgx
    cases x with
    | bool b => cases b <;> simp [fmtObj]
    | arr _ => simp [isFlat, isScalar, isRefObj] at hx
    | dict _ => simp [isFlat, isScalar, isRefObj] at hx
    | op _ => simp [good] at hgx
    | _ => simp [fmtObj]
  have plain : ∀ xs ns, (∀ x ∈ xs, isFlat x = true) → goodList xs = true → ∃ body, fmtSeq opt ns xs = some body := by
    intro xs
    induction xs with
    | nil => intro ns _ _; exact ⟨[], rfl⟩
    | cons x xs ih =>
      intro ns hfl hgl
      simp [goodList] at hgl
      obtain ⟨⟨a, ns1⟩, h1⟩ := one x ns (hfl x (by simp)) hgl.1
      obtain ⟨b, h2⟩ := ih ns1 (fun y hy => hfl y (by simp [hy])) hgl.2
      exact ⟨a ++ b, (fmtSeq_cons_inv opt ns x xs _).mpr ⟨a, ns1, b, h1, h2, rfl⟩⟩
  have pretty : ∀ xs first, (∀ x ∈ xs, isFlat x = true) → goodList xs = true →
      ∃ body, fmtSeqPretty opt first xs = some body := by
    intro xs
    induction xs with
    | nil => intro first _ _; exact ⟨[], rfl⟩
    | cons x xs ih =>
      intro first hfl hgl
      simp [goodList] at hgl
      obtain ⟨⟨a, ns1⟩, h1⟩ := one x false (hfl x (by simp)) hgl.1
      obtain ⟨b, h2⟩ := ih false (fun y hy => hfl y (by simp [hy])) hgl.2
      exact ⟨_, (fmtSeqPretty_cons_inv opt first x xs _).mpr ⟨a, ns1, b, h1, h2, rfl⟩⟩
  cases opt.pretty
  · simpa using plain xs false hflat hg
  · simpa using pretty xs true hflat hg


/-- **Reference inside an array** (`ref_rt`, array context): for every object number below
`maxXRefSize` (2^24) and generation up to `maxGeneration` (2^16-1), `[n g R]` is read back as the
one-element array holding that reference — two integers followed by `R` with `integersSeen ≥ 2`. -/
theorem ref_rt_array (opt : FmtOpt) (n g : Nat) (hn : n < Gen.xref_maxXRefSize)
    (hgen : g ≤ Gen.xref_maxGeneration) (rest : Bytes) :
    ∃ body, format opt [.ref n g] = some body ∧
      parseObject (91 :: (body ++ 93 :: rest)) = .ok (.arr [.ref n g], rest) := by
  have hfl : ∀ x ∈ [Obj.ref n g], isFlat x = true := by simp [isFlat, isRefObj]
  have hg : goodList [Obj.ref n g] = true := by simp [goodList, good, hn, hgen]
  obtain ⟨body, hb⟩ := format_flat_some opt _ hfl hg
  have h2 : 1 ≤ Gen.scanner_maxArrayLen := by decide
  exact ⟨body, hb, by simpa [rdList, rd] using flat_array_rt opt _ hfl hg (by simpa using h2) body hb rest⟩

/-! non-vacuity: a list with every kind of scalar, the `1 2 /R` and `1 2 3 R`-like neighbours -/
def sample : List Obj :=
  [.int 1, .int 2, .name [82], .int 3, .ref 4 5, .real [49], .int (-6), .str [40, 13], .null,
   .bool true, .nilArr, .name [], .name [65, 32], .int 7, .ref 16777215 65535]

example : (∀ x ∈ sample, isFlat x = true) ∧ goodList sample = true := by decide +kernel

example : (match format ⟨false, false⟩ sample with
    | some body => (match parseObject (91 :: (body ++ 93 :: [32])) with
      | .ok (.arr ys, r) => ys.length == 15 && r == [32] | _ => false)
    | none => false) = true := by decide +kernel

end PdfVerif.C01c

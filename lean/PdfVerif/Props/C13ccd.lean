import PdfVerif.Props.C13ccc
/-!
# C13 (part 4) — `All` and lookup agree; `All` after `SetMapping` / `NewToUnicodeFile`

`File.All` / `ToUnicodeFile.All` (before the `Decode` filter, with the budget not exhausted)
yield exactly the pairs that some entry covers by the rule the lookup functions apply; for files
built by `SetMapping` / `NewToUnicodeFile` these are exactly the entries of the map.
-/
namespace PdfVerif.C13ccd
open PdfVerif PdfVerif.CC PdfVerif.C13cc PdfVerif.C13ccb PdfVerif.C13ccc

/-! ## `All` yields exactly what the entries cover -/

/-- number of codes of a range (0 for an invalid one) -/
def rangeCount (first last : Bytes) : Nat := if rangeIsValid first last then boxCount first last else 0

/-- membership in the enumeration of one range, when the budget does not cut it short -/
theorem mem_codesInRange (first last : Bytes) (n : Nat) (hn : rangeCount first last ≤ n) (hn2 : n ≤ maxInt32)
    (i : Nat) (c : Bytes) :
    (i, c) ∈ codesInRange first last n ↔ rangeIsValid first last = true ∧ rangeIndex first last c = some i := by
  by_cases hv : rangeIsValid first last = true
  · simp only [rangeCount, hv, if_true] at hn
    constructor
    · intro h
      obtain ⟨j, hj⟩ := List.mem_iff_getElem?.mp h
      have := rangeIndex_enum first last n j (i, c) hj
      simp only at this
      have hjlt : j < (codesInRange first last n).length := (List.getElem?_eq_some_iff.mp hj).1
      rw [codesInRange_length first last n hv] at hjlt
      refine ⟨hv, ?_⟩
      rw [this.1]
      exact this.2.2 (by omega)
    · rintro ⟨_, h⟩
      obtain ⟨hbv, hne⟩ := boxValid_of_rangeIsValid first last hv
      have hcne : c ≠ [] := by
        intro h0; subst h0
        unfold rangeIndex at h
        split at h
        · cases h
        · rename_i hc
          simp at hc
          exact hne hc.1
      obtain ⟨h1, h2, _⟩ := (rangeIndex_iff first last c hcne i).mp h
      have hlt := mixedIndex_lt first last c h1
      have := codesInRange_complete first last c n hv h1 (by omega)
      rw [h2] at this
      exact List.mem_of_getElem? this
  · have hv' : rangeIsValid first last = false := by simpa using hv
    simp [codesInRange, hv']

theorem codesInRange_len_count (first last : Bytes) (n : Nat) (hn : rangeCount first last ≤ n) :
    (codesInRange first last n).length = rangeCount first last := by
  by_cases hv : rangeIsValid first last = true
  · simp only [rangeCount, hv, if_true] at hn ⊢
    rw [codesInRange_length first last n hv]; omega
  · have hv' : rangeIsValid first last = false := by simpa using hv
    simp [codesInRange, rangeCount, hv']

/-- total number of items the ranges of a file ask for -/
def rangesDemand : List CRange → Nat
  | [] => 0
  | r :: rest => rangeCount r.first r.last + rangesDemand rest

theorem allItemsRanges_spec : ∀ (ranges : List CRange) (budget : Nat), rangesDemand ranges ≤ budget → budget ≤ maxInt32 →
    (allItemsRanges ranges budget).2 = budget - rangesDemand ranges ∧
    ∀ bytes v, (bytes, v) ∈ (allItemsRanges ranges budget).1 ↔
      ∃ r ∈ ranges, ∃ i, rangeIsValid r.first r.last = true ∧ rangeIndex r.first r.last bytes = some i ∧
        v = u32 (r.value + i) := by
  intro ranges
  induction ranges with
  | nil => intro budget _ _; simp [allItemsRanges, rangesDemand]
  | cons r rest ih =>
    intro budget hb hb2
    simp only [rangesDemand] at hb
    simp only [allItemsRanges, List.length_map]
    have hlen := codesInRange_len_count r.first r.last budget (by omega)
    rw [hlen]
    obtain ⟨i1, i2⟩ := ih (budget - rangeCount r.first r.last) (by omega) (by omega)
    refine ⟨by rw [i1]; simp only [rangesDemand]; omega, ?_⟩
    intro bytes v
    simp only [List.mem_append, List.mem_map, i2, List.mem_cons, exists_eq_or_imp]
    constructor
    · rintro (⟨p, hp, he⟩ | h)
      · obtain ⟨pi, pc⟩ := p
        simp only [Prod.mk.injEq] at he
        obtain ⟨rfl, rfl⟩ := he
        have := (mem_codesInRange r.first r.last budget (by omega) hb2 pi pc).mp hp
        exact .inl ⟨pi, this.1, this.2, rfl⟩
      · exact .inr h
    · rintro (⟨i, h1, h2, rfl⟩ | h)
      · exact .inl ⟨(i, bytes), (mem_codesInRange r.first r.last budget (by omega) hb2 i bytes).mpr ⟨h1, h2⟩, rfl⟩
      · exact .inr h

theorem allItemsSingles_spec : ∀ (singles : List Single) (budget : Nat), singles.length ≤ budget →
    (allItemsSingles singles budget).2 = budget - singles.length ∧
    ∀ bytes v, (bytes, v) ∈ (allItemsSingles singles budget).1 ↔ ∃ s ∈ singles, s.code = bytes ∧ s.value = v := by
  intro singles
  induction singles with
  | nil => intro budget _; simp [allItemsSingles]
  | cons s rest ih =>
    intro budget hb
    simp only [List.length_cons] at hb
    cases budget with
    | zero => omega
    | succ budget =>
      simp only [allItemsSingles]
      obtain ⟨i1, i2⟩ := ih budget (by omega)
      refine ⟨by rw [i1]; simp only [List.length_cons]; omega, ?_⟩
      intro bytes v
      simp only [List.mem_cons, Prod.mk.injEq, i2, exists_eq_or_imp]
      constructor
      · rintro (⟨rfl, rfl⟩ | h); exact .inl ⟨rfl, rfl⟩; exact .inr h
      · rintro (⟨rfl, rfl⟩ | h); exact .inl ⟨rfl, rfl⟩; exact .inr h

/-- **Enumeration and lookup agree.**  When the budget is not exhausted, `File.All` (before the
`Decode` filter) yields exactly the pairs `(code bytes, value)` that some entry of the file
covers by the rule `LookupCID` applies to that entry. -/
theorem allItems_covers (f : CMapFile) (budget : Nat) (hb : rangesDemand f.ranges + f.singles.length ≤ budget)
    (hb2 : budget ≤ maxInt32) (bytes : Bytes) (v : Nat) :
    (bytes, v) ∈ allItemsFiles [f] budget ↔
      (∃ r ∈ f.ranges, ∃ i, rangeIsValid r.first r.last = true ∧ rangeIndex r.first r.last bytes = some i ∧
          v = u32 (r.value + i)) ∨
      (∃ s ∈ f.singles, s.code = bytes ∧ s.value = v) := by
  simp only [allItemsFiles, List.append_nil, List.mem_append]
  obtain ⟨a1, a2⟩ := allItemsRanges_spec f.ranges budget (by omega) hb2
  obtain ⟨_, b2⟩ := allItemsSingles_spec f.singles (allItemsRanges f.ranges budget).2 (by rw [a1]; omega)
  rw [a2, b2]


theorem rangeIsValid_of_boxValid (f l : Bytes) (h : BoxValid f l) (hne : f ≠ []) : rangeIsValid f l = true := by
  have hgen : ∀ (f l : Bytes), BoxValid f l → f.length = l.length ∧ leAll f l = true := by
    intro f
    induction f with
    | nil => intro l h; cases l <;> simp_all [BoxValid, leAll]
    | cons a f ih =>
      intro l h
      cases l with
      | nil => simp [BoxValid] at h
      | cons b l =>
        simp only [BoxValid] at h
        have := ih l h.2
        simp only [List.length_cons, leAll, this.2, Bool.and_true, Bool.not_eq_true', decide_eq_false_iff_not,
          Nat.not_lt]
        exact ⟨by omega, h.1⟩
  obtain ⟨h1, h2⟩ := hgen f l h
  unfold rangeIsValid
  have h3 : f.length ≠ 0 := fun h0 => hne (List.length_eq_zero_iff.mp h0)
  simp [h1, h2]
  intro h0; subst h0; simp at h1; exact hne h1

theorem rangeIsValid_of_rangeIndex (f l c : Bytes) (i : Nat) (hc : c ≠ []) (h : rangeIndex f l c = some i) :
    rangeIsValid f l = true := by
  obtain ⟨h1, _, _⟩ := (rangeIndex_iff f l c hc i).mp h
  have hl := inBox_len f l c h1
  apply rangeIsValid_of_boxValid f l (inBox_valid f l c h1)
  intro h0; subst h0; simp at hl; exact hc (List.length_eq_zero_iff.mp hl.1.symm)

/-- **`all_setMapping`** (before the `Decode` filter).  The file built by `SetMapping` (without
parent) enumerates exactly the byte strings of the mapped codes, each with its mapped CID —
provided the enumeration budget (`MaxCMapMappings`) is not exhausted. -/
theorem all_setMapping_bytes (f f' : CMapFile) (codec : Codec) (data : List (Nat × Nat))
    (h : setMapping f [] codec data = .ok f')
    (hcid : ∀ p ∈ data, p.2 < 4294967296)
    (hbytes : ∀ p ∈ data, ∀ bs, codec.appendCode p.1 = .ok bs → AllBytes bs)
    (budget : Nat) (hb : rangesDemand f'.ranges + f'.singles.length ≤ budget) (hb2 : budget ≤ maxInt32)
    (bytes : Bytes) (v : Nat) :
    (bytes, v) ∈ allItemsFiles [f'] budget ↔ ∃ p ∈ data, codec.appendCode p.1 = .ok bytes ∧ p.2 = v := by
  rw [allItems_covers f' budget hb hb2]
  unfold setMapping at h
  split at h
  · cases h
  · split at h
    · cases h
    · rename_i es hes
      injection h with h
      obtain ⟨i1, i2⟩ := cidEntries_spec codec data es hes
      have hok : EntriesOK es := by
        intro e he
        obtain ⟨p, hp, h1, h2⟩ := i1 e he
        have := hbytes p hp _ h1
        exact ⟨this e.x (by simp), by rw [h2]; exact hcid p hp⟩
      have hs : f'.singles = lefts (outOf es) := by rw [← h]; rfl
      have hr : f'.ranges = rights (outOf es) := by rw [← h]; rfl
      constructor
      · rintro (⟨r, hr', i, _, hi, rfl⟩ | ⟨s, hs', h1, h2⟩)
        · rw [hr, mem_rights] at hr'
          obtain ⟨e, he, e1, e2⟩ := out_sound es hok _ hr' bytes _ ⟨i, hi, rfl⟩
          obtain ⟨p, hp, p1, p2⟩ := i1 e he
          exact ⟨p, hp, by rw [p1, e1], by rw [← p2, e2]⟩
        · rw [hs, mem_lefts] at hs'
          obtain ⟨e, he, e1, e2⟩ := out_sound es hok _ hs' bytes v ⟨h1, h2⟩
          obtain ⟨p, hp, p1, p2⟩ := i1 e he
          exact ⟨p, hp, by rw [p1, e1], by rw [← p2, e2]⟩
      · rintro ⟨p, hp, h1, rfl⟩
        obtain ⟨e, he, e1, e2⟩ := i2 p hp
        have hbe : bytes = e.key ++ [e.x] := by rw [h1] at e1; injection e1
        obtain ⟨item, hi, hc⟩ := out_complete es hok e he
        rw [← hbe, e2] at hc
        cases item with
        | inl s => exact .inr ⟨s, by rw [hs, mem_lefts]; exact hi, hc.1, hc.2⟩
        | inr r =>
          obtain ⟨i, hi', hv⟩ := hc
          exact .inl ⟨r, by rw [hr, mem_rights]; exact hi, i,
            rangeIsValid_of_rangeIndex _ _ bytes i (by rw [hbe]; simp) hi', hi', hv⟩


/-! ## the same for ToUnicode files -/

def tuRangesDemand : List TURange → Nat
  | [] => 0
  | r :: rest => (if r.values.isEmpty then 0 else rangeCount r.first r.last) + tuRangesDemand rest

theorem tuItemsRanges_spec : ∀ (ranges : List TURange) (budget : Nat), tuRangesDemand ranges ≤ budget → budget ≤ maxInt32 →
    (tuItemsRanges ranges budget).2 = budget - tuRangesDemand ranges ∧
    ∀ bytes v, (bytes, v) ∈ (tuItemsRanges ranges budget).1 ↔
      ∃ r ∈ ranges, ∃ i, rangeIsValid r.first r.last = true ∧ rangeIndex r.first r.last bytes = some i ∧
        valueAt r.values i = some v := by
  intro ranges
  induction ranges with
  | nil => intro budget _ _; simp [tuItemsRanges, tuRangesDemand]
  | cons r rest ih =>
    intro budget hb hb2
    simp only [tuRangesDemand] at hb
    cases hv : r.values with
    | nil =>
      simp only [hv, List.isEmpty_nil, if_true, Nat.zero_add] at hb
      obtain ⟨i1, i2⟩ := ih budget hb hb2
      simp only [tuItemsRanges, hv]
      refine ⟨by rw [i1]; simp [tuRangesDemand, hv], ?_⟩
      intro bytes v
      rw [i2]
      simp only [List.mem_cons, exists_eq_or_imp, hv, valueAt]
      simp
    | cons v0 vs =>
      simp only [hv, List.isEmpty_cons, Bool.false_eq_true, if_false] at hb
      simp only [tuItemsRanges, hv, List.length_map]
      have hlen := codesInRange_len_count r.first r.last budget (by omega)
      rw [hlen]
      obtain ⟨i1, i2⟩ := ih (budget - rangeCount r.first r.last) (by omega) (by omega)
      refine ⟨by rw [i1]; simp [tuRangesDemand, hv]; omega, ?_⟩
      intro bytes v
      simp only [List.mem_append, List.mem_map, i2, List.mem_cons, exists_eq_or_imp, hv]
      constructor
      · rintro (⟨p, hp, he⟩ | h)
        · obtain ⟨pi, pc⟩ := p
          simp only [Prod.mk.injEq] at he
          obtain ⟨rfl, rfl⟩ := he
          have := (mem_codesInRange r.first r.last budget (by omega) hb2 pi pc).mp hp
          refine .inl ⟨pi, this.1, this.2, ?_⟩
          simp only [valueAt]
          cases (v0 :: vs)[pi]? <;> rfl
        · exact .inr h
      · rintro (⟨i, h1, h2, h3⟩ | h)
        · refine .inl ⟨(i, bytes), (mem_codesInRange r.first r.last budget (by omega) hb2 i bytes).mpr ⟨h1, h2⟩, ?_⟩
          simp only [valueAt] at h3
          simp only [Prod.mk.injEq, true_and]
          cases hh : (v0 :: vs)[i]? with
          | none => rw [hh] at h3; simpa using h3
          | some w => rw [hh] at h3; simpa using h3
        · exact .inr h

theorem tuItemsSingles_spec : ∀ (singles : List TUSingle) (budget : Nat), singles.length ≤ budget →
    (tuItemsSingles singles budget).2 = budget - singles.length ∧
    ∀ bytes v, (bytes, v) ∈ (tuItemsSingles singles budget).1 ↔ ∃ s ∈ singles, s.code = bytes ∧ s.value = v := by
  intro singles
  induction singles with
  | nil => intro budget _; simp [tuItemsSingles]
  | cons s rest ih =>
    intro budget hb
    simp only [List.length_cons] at hb
    cases budget with
    | zero => omega
    | succ budget =>
      simp only [tuItemsSingles]
      obtain ⟨i1, i2⟩ := ih budget (by omega)
      refine ⟨by rw [i1]; simp only [List.length_cons]; omega, ?_⟩
      intro bytes v
      simp only [List.mem_cons, Prod.mk.injEq, i2, exists_eq_or_imp]
      constructor
      · rintro (⟨rfl, rfl⟩ | h); exact .inl ⟨rfl, rfl⟩; exact .inr h
      · rintro (⟨rfl, rfl⟩ | h); exact .inl ⟨rfl, rfl⟩; exact .inr h

/-- `ToUnicodeFile.All` (before the `Decode` filter) yields exactly the pairs that some entry
covers by the rule `Lookup` applies to it -/
theorem tuItems_covers (f : TUFile) (budget : Nat) (hb : tuRangesDemand f.ranges + f.singles.length ≤ budget)
    (hb2 : budget ≤ maxInt32) (bytes : Bytes) (v : Text) :
    (bytes, v) ∈ tuItemsFiles [f] budget ↔
      (∃ r ∈ f.ranges, ∃ i, rangeIsValid r.first r.last = true ∧ rangeIndex r.first r.last bytes = some i ∧
          valueAt r.values i = some v) ∨
      (∃ s ∈ f.singles, s.code = bytes ∧ s.value = v) := by
  simp only [tuItemsFiles, List.append_nil, List.mem_append]
  obtain ⟨a1, a2⟩ := tuItemsRanges_spec f.ranges budget (by omega) hb2
  obtain ⟨_, b2⟩ := tuItemsSingles_spec f.singles (tuItemsRanges f.ranges budget).2 (by rw [a1]; omega)
  rw [a2, b2]

/-- **`tounicode_all`** (before the `Decode` filter).  The file built by `NewToUnicodeFile`
enumerates exactly the byte strings of the mapped codes, each with its mapped text. -/
theorem tounicode_all_bytes (csr : CSR) (data : List (Nat × Text)) (f : TUFile) (codec : Codec)
    (hc : newCodec csr = .ok codec) (h : newToUnicodeFile csr data = .ok f)
    (budget : Nat) (hb : tuRangesDemand f.ranges + f.singles.length ≤ budget) (hb2 : budget ≤ maxInt32)
    (bytes : Bytes) (v : Text) :
    (bytes, v) ∈ tuItemsFiles [f] budget ↔ ∃ p ∈ data, codec.appendCode p.1 = .ok bytes ∧ p.2 = v := by
  rw [tuItems_covers f budget hb hb2]
  unfold newToUnicodeFile at h
  rw [hc] at h
  simp only at h
  split at h
  · cases h
  · rename_i es hes
    injection h with h
    obtain ⟨i1, i2⟩ := tuEntries_spec codec data es hes
    have hok : ∀ e ∈ es, e.x < 256 := by
      intro e he
      obtain ⟨p, hp, h1, _⟩ := i1 e he
      obtain ⟨bs, _, h2, _, _, h3, _⟩ := C12ccd.append_then_decode csr codec hc p.1
      rw [h1] at h2; injection h2 with h2
      exact h3 e.x (by rw [← h2]; simp)
    have hs : f.singles = lefts (tuOutOf es) := by rw [← h]; rfl
    have hr : f.ranges = rights (tuOutOf es) := by rw [← h]; rfl
    constructor
    · rintro (⟨r, hr', i, _, hi, hv⟩ | ⟨s, hs', h1, h2⟩)
      · rw [hr, mem_rights] at hr'
        obtain ⟨e, he, e1, e2⟩ := tu_out_sound es hok _ hr' bytes v ⟨i, hi, hv⟩
        obtain ⟨p, hp, p1, p2⟩ := i1 e he
        exact ⟨p, hp, by rw [p1, e1], by rw [← p2, e2]⟩
      · rw [hs, mem_lefts] at hs'
        obtain ⟨e, he, e1, e2⟩ := tu_out_sound es hok _ hs' bytes v ⟨h1, h2⟩
        obtain ⟨p, hp, p1, p2⟩ := i1 e he
        exact ⟨p, hp, by rw [p1, e1], by rw [← p2, e2]⟩
    · rintro ⟨p, hp, h1, rfl⟩
      obtain ⟨e, he, e1, e2⟩ := i2 p hp
      have hbe : bytes = e.key ++ [e.x] := by rw [h1] at e1; injection e1
      obtain ⟨item, hi, hcv⟩ := tu_out_complete es hok e he
      rw [← hbe, e2] at hcv
      cases item with
      | inl s => exact .inr ⟨s, by rw [hs, mem_lefts]; exact hi, hcv.1, hcv.2⟩
      | inr r =>
        obtain ⟨i, hi', hv⟩ := hcv
        exact .inl ⟨r, by rw [hr, mem_rights]; exact hi, i,
          rangeIsValid_of_rangeIndex _ _ bytes i (by rw [hbe]; simp) hi', hi', hv⟩

end PdfVerif.C13ccd

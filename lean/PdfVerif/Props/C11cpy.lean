import PdfVerif.Spec.CPYIso
/-!
C11 — Copier reproduces the source object graph: theorems over `Model/CPYCopier.lean`.
-/
namespace PdfVerif.C11cpy
open PdfVerif PdfVerif.CPY

/-! ### association lists -/

theorem assoc_append {α : Type} (r : Ref) (a b : List (Ref × α)) :
    assoc r (a ++ b) = match assoc r a with | some v => some v | none => assoc r b := by
  induction a with
  | nil => simp [assoc]
  | cons p a ih =>
    obtain ⟨k, v⟩ := p
    simp only [List.cons_append, assoc]
    split <;> simp_all

theorem assoc_none_iff {α : Type} (r : Ref) (l : List (Ref × α)) :
    assoc r l = none ↔ r ∉ l.map Prod.fst := by
  induction l with
  | nil => simp [assoc]
  | cons p l ih =>
    obtain ⟨k, v⟩ := p
    simp only [assoc, List.map_cons, List.mem_cons, not_or]
    split
    · next h => simp [h]
    · next h => simp [ih, Ne.symm h]

theorem assoc_some_mem {α : Type} (r : Ref) (l : List (Ref × α)) (v : α) :
    assoc r l = some v → (r, v) ∈ l := by
  induction l with
  | nil => simp [assoc]
  | cons p l ih =>
    obtain ⟨k, w⟩ := p
    simp only [assoc]
    split
    · next h => intro hv; simp_all
    · next h => intro hv; exact List.mem_cons_of_mem _ (ih hv)

theorem assoc_of_mem_nodup {α : Type} (r : Ref) (v : α) (l : List (Ref × α))
    (hn : (l.map Prod.fst).Nodup) (hm : (r, v) ∈ l) : assoc r l = some v := by
  induction l with
  | nil => simp at hm
  | cons p l ih =>
    obtain ⟨k, w⟩ := p
    simp only [List.map_cons, List.nodup_cons] at hn
    simp only [assoc]
    rcases List.mem_cons.mp hm with h | h
    · cases h; simp
    · have : k ≠ r := by
        intro e; subst e
        exact hn.1 (List.mem_map.mpr ⟨(k, v), h, rfl⟩)
      simp [this, ih hn.2 h]

/-- `tr'` agrees with `tr` wherever `tr` is defined -/
def Extends (tr tr' : List (Ref × Ref)) : Prop := ∀ k t, assoc k tr = some t → assoc k tr' = some t

theorem Extends.refl (tr : List (Ref × Ref)) : Extends tr tr := fun _ _ h => h
theorem Extends.trans {a b c : List (Ref × Ref)} (h1 : Extends a b) (h2 : Extends b c) : Extends a c :=
  fun k t h => h2 k t (h1 k t h)

theorem extends_append (N tr : List (Ref × Ref)) (hf : ∀ k ∈ N.map Prod.fst, assoc k tr = none) :
    Extends tr (N ++ tr) := by
  intro k t h
  rw [assoc_append]
  have : assoc k N = none := by
    rw [assoc_none_iff]
    intro hk
    rw [hf k hk] at h; cases h
  simp [this, h]

/-! ### images are stable under extension of the translation -/

mutual
theorem mapObj_stable {tr tr' : List (Ref × Ref)} (h : Extends tr tr') :
    ∀ (o o' : Obj), mapObj tr o = some o' → mapObj tr' o = some o'
  | .ref n g, o' => by
    simp only [mapObj]
    split
    · next t ht => intro e; rw [h _ _ ht]; exact e
    · intro e; cases e
  | .arr xs, o' => by
    simp only [mapObj]
    split
    · next ys hys => intro e; rw [mapList_stable h xs ys hys]; exact e
    · intro e; cases e
  | .dict kv, o' => by
    simp only [mapObj]
    split
    · next kv' hkv => intro e; rw [mapKV_stable h kv kv' hkv]; exact e
    · intro e; cases e
  | .null, _ => by simp [mapObj]
  | .nilArr, _ => by simp [mapObj]
  | .bool _, _ => by simp [mapObj]
  | .int _, _ => by simp [mapObj]
  | .real _, _ => by simp [mapObj]
  | .name _, _ => by simp [mapObj]
  | .str _, _ => by simp [mapObj]
  | .op _, _ => by simp [mapObj]
theorem mapList_stable {tr tr' : List (Ref × Ref)} (h : Extends tr tr') :
    ∀ (xs ys : List Obj), mapList tr xs = some ys → mapList tr' xs = some ys
  | [], ys => by simp [mapList]
  | x :: xs, ys => by
    simp only [mapList]
    split
    · next y ys' hy hys => intro e; rw [mapObj_stable h x y hy, mapList_stable h xs ys' hys]; exact e
    · intro e; cases e
theorem mapKV_stable {tr tr' : List (Ref × Ref)} (h : Extends tr tr') :
    ∀ (kv kv' : KV), mapKV tr kv = some kv' → mapKV tr' kv = some kv'
  | [], kv' => by simp [mapKV]
  | (k, v) :: rest, kv' => by
    simp only [mapKV]
    split
    · next v' rest' hv hr => intro e; rw [mapObj_stable h v v' hv, mapKV_stable h rest rest' hr]; exact e
    · intro e; cases e
end

theorem mapVal_stable {tr tr' : List (Ref × Ref)} (h : Extends tr tr') (v v' : Val) :
    mapVal tr v = some v' → mapVal tr' v = some v' := by
  cases v with
  | obj o =>
    simp only [mapVal]
    split
    · next o' ho => intro e; rw [mapObj_stable h o o' ho]; exact e
    · intro e; cases e
  | stream d data enc =>
    simp only [mapVal]
    split
    · next d' hd => intro e; rw [mapKV_stable h d d' hd]; exact e
    · intro e; cases e

theorem Image_stable {tr tr' : List (Ref × Ref)} (h : Extends tr tr') (G : Graph) (src : Ref) (v : Val) :
    Image tr G src v → Image tr' G src v := by
  rintro ⟨sv, sp, h1, h2, h3⟩
  exact ⟨sv, sp, h1, h2, mapVal_stable h sp v h3⟩

/-! ### the effect of one call on the copier state -/

def refOf (n : Nat) : Ref := (n, 0)

/-- What a successful call does to the state: `N` are the new entries of `trans` (newest first),
    `P` the objects written.  The new source references were not translated before and are
    pairwise distinct; their targets are exactly the object numbers allocated by the call, in
    order; the objects written are exactly these targets, each once; and each object written is
    the image (under the final translation) of the source object it was allocated for. -/
def Eff (G : Graph) (s s' : St) : Prop :=
  ∃ (N : List (Ref × Ref)) (P : List (Ref × Val)),
    s'.trans = N ++ s.trans ∧ s'.puts = s.puts ++ P ∧ s'.next = s.next + N.length ∧
    (∀ k ∈ N.map Prod.fst, assoc k s.trans = none) ∧ (N.map Prod.fst).Nodup ∧
    N.map Prod.snd = ((List.range' s.next N.length).map refOf).reverse ∧
    (P.map Prod.fst).Perm (N.map Prod.snd) ∧
    (∀ p ∈ P, ∃ src, (src, p.1) ∈ N ∧ Image s'.trans G src p.2)

theorem Eff.refl (G : Graph) (s : St) : Eff G s s :=
  ⟨[], [], by simp, by simp, by simp, by simp, by simp, by simp, by simp, by simp⟩

theorem Eff.extends {G : Graph} {s s' : St} (h : Eff G s s') : Extends s.trans s'.trans := by
  obtain ⟨N, P, h1, _, _, h4, _⟩ := h
  rw [h1]; exact extends_append N s.trans h4

theorem Eff.next_le {G : Graph} {s s' : St} (h : Eff G s s') : s.next ≤ s'.next := by
  obtain ⟨N, P, _, _, h3, _⟩ := h
  omega

theorem Eff.trans {G : Graph} {s1 s2 s3 : St} (h12 : Eff G s1 s2) (h23 : Eff G s2 s3) : Eff G s1 s3 := by
  have hext := h23.extends
  obtain ⟨N1, P1, a1, b1, c1, d1, e1, f1, g1, i1⟩ := h12
  obtain ⟨N2, P2, a2, b2, c2, d2, e2, f2, g2, i2⟩ := h23
  refine ⟨N2 ++ N1, P1 ++ P2, ?_, ?_, ?_, ?_, ?_, ?_, ?_, ?_⟩
  · rw [a2, a1, List.append_assoc]
  · rw [b2, b1, List.append_assoc]
  · rw [c2, c1, List.length_append]; omega
  · intro k hk
    simp only [List.map_append, List.mem_append] at hk
    rcases hk with hk | hk
    · have := d2 k hk
      rw [a1, assoc_append] at this
      split at this <;> simp_all
    · exact d1 k hk
  · rw [List.map_append, List.nodup_append]
    refine ⟨e2, e1, ?_⟩
    intro a ha b hb hab
    subst hab
    have := d2 a ha
    rw [a1, assoc_append] at this
    have hn : assoc a N1 = none := by
      split at this <;> simp_all
    exact (assoc_none_iff a N1).mp hn hb
  · rw [List.map_append, f2, f1, c1, List.length_append, Nat.add_comm N2.length N1.length,
      ← List.range'_append_1, List.map_append, List.reverse_append]
  · rw [List.map_append, List.map_append]
    exact (List.Perm.append g1 g2).trans List.perm_append_comm
  · intro p hp
    rcases List.mem_append.mp hp with hp | hp
    · obtain ⟨src, hm, him⟩ := i1 p hp
      exact ⟨src, List.mem_append_right _ hm, Image_stable hext G src p.2 him⟩
    · obtain ⟨src, hm, him⟩ := i2 p hp
      exact ⟨src, List.mem_append_left _ hm, him⟩

/-! ### `SortedKeys` looks only at the keys -/

def onVal (f : Obj → Obj) (p : Bytes × Obj) : Bytes × Obj := (p.1, f p.2)

theorem insertKey_map (f : Obj → Obj) (k : Bytes × Obj) (l : KV) :
    insertKey (onVal f k) (l.map (onVal f)) = (insertKey k l).map (onVal f) := by
  induction l with
  | nil => simp [insertKey]
  | cons x xs ih =>
    simp only [List.map_cons, insertKey, onVal]
    split
    · simp [onVal]
    · simp only [List.map_cons, onVal, List.cons.injEq, true_and]
      exact ih

theorem sortKV_map (f : Obj → Obj) (l : KV) : sortKV (l.map (onVal f)) = (sortKV l).map (onVal f) := by
  induction l with
  | nil => simp [sortKV]
  | cons x xs ih => simp only [List.map_cons, sortKV, ih, insertKey_map]

theorem sortedEntries_map (f : Obj → Obj) (l : KV) :
    sortedEntries (l.map (onVal f)) = (sortedEntries l).map (onVal f) := by
  simp only [sortedEntries, List.filter_map, List.map_append, ← sortKV_map]
  rfl

theorem orderedKV_eq_map (l : KV) : orderedKV l = l.map (onVal ordered) := by
  induction l with
  | nil => simp [orderedKV]
  | cons x xs ih => obtain ⟨k, v⟩ := x; simp [orderedKV, ih, onVal]

theorem orderedKV_sortedEntries (kv : KV) :
    orderedKV (sortedEntries kv) = sortedEntries (orderedKV kv) := by
  rw [orderedKV_eq_map, orderedKV_eq_map, sortedEntries_map]


theorem alloc_ok {s s1 : St} {n : Ref} (h : alloc s = .ok (n, s1)) :
    n = refOf s.next ∧ s1 = { s with next := s.next + 1 } := by
  unfold alloc at h
  split at h
  · cases h
  · cases h; exact ⟨rfl, rfl⟩

theorem put_ok {s s' : St} {r : Ref} {v : Val} (h : put s r v = .ok s') :
    s' = { s with puts := s.puts ++ [(r, v)], next := if s.next ≤ r.1 then r.1 + 1 else s.next } := by
  unfold put at h
  split at h
  · cases h
  · cases h; rfl

/-- the new-reference branch of `CopyReference` -/
theorem Eff_copyRef_new {G : Graph} {s s3 : St} {r : Ref} {v' : Val}
    (hnew : assoc r s.trans = none)
    (h23 : Eff G { trans := (r, refOf s.next) :: s.trans, next := s.next + 1, puts := s.puts } s3)
    (him : Image s3.trans G r v') :
    Eff G s { trans := s3.trans, next := s3.next, puts := s3.puts ++ [(refOf s.next, v')] } := by
  obtain ⟨N, P, a, b, c, d, e, f, g, i⟩ := h23
  simp only at a b c d
  refine ⟨N ++ [(r, refOf s.next)], P ++ [(refOf s.next, v')], ?_, ?_, ?_, ?_, ?_, ?_, ?_, ?_⟩
  · simp [a]
  · simp [b]
  · simp [c]; omega
  · intro k hk
    simp only [List.map_append, List.mem_append, List.map_cons, List.map_nil, List.mem_singleton] at hk
    rcases hk with hk | hk
    · have := d k hk
      simp only [assoc] at this
      split at this <;> simp_all
    · subst hk; exact hnew
  · rw [List.map_append, List.nodup_append]
    refine ⟨e, by simp, ?_⟩
    intro a' ha b' hb hab
    simp only [List.map_cons, List.map_nil, List.mem_singleton] at hb
    subst hab; subst hb
    have := d a' ha
    simp [assoc] at this
  · simp only [List.map_append, List.map_cons, List.map_nil, List.length_append, List.length_cons,
      List.length_nil]
    rw [f, Nat.add_comm N.length (0+1), ← List.range'_append_1]
    simp
  · simp only [List.map_append, List.map_cons, List.map_nil]
    exact List.Perm.append g (List.Perm.refl _)
  · intro p hp
    rcases List.mem_append.mp hp with hp | hp
    · obtain ⟨src, hm, hi⟩ := i p hp
      exact ⟨src, List.mem_append_left _ hm, hi⟩
    · simp only [List.mem_singleton] at hp
      subst hp
      exact ⟨r, by simp, him⟩


/-! ### the main induction: what every successful call does -/

def PObj (G : Graph) (f : Nat) : Prop := ∀ s o o' s', copyObj f G s o = .ok (o', s') →
  Eff G s s' ∧ mapObj s'.trans (ordered o) = some o'
def PList (G : Graph) (f : Nat) : Prop := ∀ s xs ys s', copyList f G s xs = .ok (ys, s') →
  Eff G s s' ∧ mapList s'.trans (orderedList xs) = some ys
def PKV (G : Graph) (f : Nat) : Prop := ∀ s L L' s', copyKV f G s L = .ok (L', s') →
  Eff G s s' ∧ mapKV s'.trans (orderedKV L) = some L'
def PRef (G : Graph) (f : Nat) : Prop := ∀ s r t s', copyRef f G s r = .ok (t, s') →
  Eff G s s' ∧ assoc r s'.trans = some t
def PInl (G : Graph) (f : Nat) : Prop := ∀ s src res key res' s',
  inlineKey f G s src res key = .ok (res', s') →
  Eff G s s' ∧ ∀ R, mapKV s.trans R = some res →
    ∃ R', specSet G src key R = some R' ∧ mapKV s'.trans R' = some res'
def PSD (G : Graph) (f : Nat) : Prop := ∀ s src res s', copyStreamDict f G s src = .ok (res, s') →
  Eff G s s' ∧ ∃ D, specDict G src = some D ∧ mapKV s'.trans D = some res
def PVal (G : Graph) (f : Nat) : Prop := ∀ s v v' s', copyVal f G s v = .ok (v', s') →
  Eff G s s' ∧ ∃ sp, specVal G v = some sp ∧ mapVal s'.trans sp = some v'

theorem step_obj (G : Graph) (f : Nat) (hL : PList G f) (hK : PKV G f) (hR : PRef G f) : PObj G (f+1) := by
  intro s o o' s' h
  cases o with
  | dict kv =>
    simp only [copyObj] at h
    split at h
    · cases h
    · next kv' s1 hk =>
      cases h
      obtain ⟨e, m⟩ := hK _ _ _ _ hk
      refine ⟨e, ?_⟩
      simp only [ordered, mapObj, ← orderedKV_sortedEntries, m]
  | arr xs =>
    simp only [copyObj] at h
    split at h
    · cases h
    · next ys s1 hk =>
      cases h
      obtain ⟨e, m⟩ := hL _ _ _ _ hk
      refine ⟨e, ?_⟩
      simp only [ordered, mapObj, m]
  | ref n g =>
    simp only [copyObj] at h
    split at h
    · cases h
    · next t s1 hk =>
      cases h
      obtain ⟨e, m⟩ := hR _ _ _ _ hk
      refine ⟨e, ?_⟩
      simp only [ordered, mapObj, m]
  | _ =>
    simp only [copyObj] at h
    cases h
    exact ⟨Eff.refl G _, by simp [ordered, mapObj]⟩


theorem step_list (G : Graph) (f : Nat) (hO : PObj G f) (hL : PList G f) : PList G (f+1) := by
  intro s xs ys s' h
  cases xs with
  | nil =>
    simp only [copyList] at h
    cases h
    exact ⟨Eff.refl G _, by simp [orderedList, mapList]⟩
  | cons x xs =>
    simp only [copyList] at h
    split at h
    · cases h
    · next y s1 hy =>
      split at h
      · cases h
      · next ys' s2 hys =>
        cases h
        obtain ⟨e1, m1⟩ := hO _ _ _ _ hy
        obtain ⟨e2, m2⟩ := hL _ _ _ _ hys
        refine ⟨e1.trans e2, ?_⟩
        simp only [orderedList, mapList, mapObj_stable e2.extends _ _ m1, m2]

theorem step_kv (G : Graph) (f : Nat) (hO : PObj G f) (hK : PKV G f) : PKV G (f+1) := by
  intro s L L' s' h
  cases L with
  | nil =>
    simp only [copyKV] at h
    cases h
    exact ⟨Eff.refl G _, by simp [orderedKV, mapKV]⟩
  | cons p rest =>
    obtain ⟨k, v⟩ := p
    by_cases hv : v = .null
    · subst hv
      simp only [copyKV] at h
      split at h
      · cases h
      · next rest' s1 hr =>
        cases h
        obtain ⟨e, m⟩ := hK _ _ _ _ hr
        refine ⟨e, ?_⟩
        simp only [orderedKV, ordered, mapKV, mapObj, m]
    · have key : ∀ (v' : Obj) (s1 : St) (rest' : KV) (s2 : St), copyObj f G s v = .ok (v', s1) →
          copyKV f G s1 rest = .ok (rest', s2) →
          Eff G s s2 ∧ mapKV s2.trans (orderedKV ((k, v) :: rest)) = some ((k, v') :: rest') := by
        intro v' s1 rest' s2 hv' hr
        obtain ⟨e1, m1⟩ := hO _ _ _ _ hv'
        obtain ⟨e2, m2⟩ := hK _ _ _ _ hr
        refine ⟨e1.trans e2, ?_⟩
        simp only [orderedKV, mapKV, mapObj_stable e2.extends _ _ m1, m2]
      cases v <;> first
        | exact absurd rfl hv
        | (simp only [copyKV] at h
           split at h
           · cases h
           · next v' s1 hv' =>
             split at h
             · cases h
             · next rest' s2 hr =>
               cases h
               exact key _ _ _ _ hv' hr)


theorem mapKV_kvSet {tr : List (Ref × Ref)} {v w : Obj} (k : Bytes) (hv : mapObj tr v = some w) :
    ∀ (R res : KV), mapKV tr R = some res → mapKV tr (kvSet k v R) = some (kvSet k w res)
  | [], res => by
    simp only [mapKV, kvSet]
    intro e; cases e
    simp [hv, kvSet]
  | (k', v') :: rest, res => by
    simp only [mapKV]
    split
    · next w' rest' h1 h2 =>
      intro e; cases e
      simp only [kvSet]
      split
      · simp [mapKV, hv, h2]
      · simp [mapKV, h1, mapKV_kvSet k hv rest rest' h2]
    · intro e; cases e

theorem step_inl (G : Graph) (f : Nat) (hO : PObj G f) : PInl G (f+1) := by
  intro s src res key res' s' h
  simp only [inlineKey] at h
  split at h
  · next hk =>
    cases h
    refine ⟨Eff.refl G _, fun R hR => ⟨R, ?_, hR⟩⟩
    simp [specSet, hk]
  · next val hk =>
    split at h
    · cases h
    · cases h
    · next inl hi =>
      split at h
      · cases h
      · next repl s1 hc =>
        cases h
        obtain ⟨e, m⟩ := hO _ _ _ _ hc
        refine ⟨e, fun R hR => ⟨kvSet key (ordered inl) R, ?_, ?_⟩⟩
        · simp [specSet, hk, hi]
        · exact mapKV_kvSet key m R res (mapKV_stable e.extends _ _ hR)

theorem step_sd (G : Graph) (f : Nat) (hK : PKV G f) (hI : PInl G f) : PSD G (f+1) := by
  intro s src res s' h
  simp only [copyStreamDict] at h
  split at h
  · cases h
  · next res1 s1 h1 =>
    split at h
    · cases h
    · next res2 s2 h2 =>
      obtain ⟨e1, m1⟩ := hK _ _ _ _ h1
      obtain ⟨e2, m2⟩ := hI _ _ _ _ _ _ h2
      obtain ⟨e3, m3⟩ := hI _ _ _ _ _ _ h
      obtain ⟨R', r1, r2⟩ := m2 _ m1
      obtain ⟨R'', r3, r4⟩ := m3 _ r2
      refine ⟨(e1.trans e2).trans e3, R'', ?_, r4⟩
      simp [specDict, r1, r3]

theorem step_val (G : Graph) (f : Nat) (hO : PObj G f) (hS : PSD G f) : PVal G (f+1) := by
  intro s v v' s' h
  cases v with
  | obj o =>
    simp only [copyVal] at h
    split at h
    · cases h
    · next o' s1 ho =>
      cases h
      obtain ⟨e, m⟩ := hO _ _ _ _ ho
      exact ⟨e, .obj (ordered o), rfl, by simp [mapVal, m]⟩
  | stream dict data enc =>
    simp only [copyVal] at h
    split at h
    · cases h
    · next dict' s1 hd =>
      obtain ⟨e, D, d1, d2⟩ := hS _ _ _ _ hd
      split at h
      · cases h
      · cases h
      · cases h
        exact ⟨e, .stream D data false, by simp [specVal, d1], by simp [mapVal, d2]⟩

theorem step_ref (G : Graph) (f : Nat) (hV : PVal G f) : PRef G (f+1) := by
  intro s r t s' h
  simp only [copyRef] at h
  split at h
  · next t' ht =>
    cases h
    exact ⟨Eff.refl G _, ht⟩
  · next hnone =>
    split at h
    · cases h
    · next n s1 ha =>
      obtain ⟨hn, hs1⟩ := alloc_ok ha
      subst hn; subst hs1
      simp only at h
      split at h
      · cases h
      · next v hres =>
        split at h
        · cases h
        · next v' s3 hc =>
          split at h
          · cases h
          · next s4 hp =>
            cases h
            obtain ⟨e, sp, p1, p2⟩ := hV _ _ _ _ hc
            have hs4 := put_ok hp
            have hlt : ¬ (s3.next ≤ (refOf s.next).1) := by
              have := e.next_le
              simp only [refOf] at this ⊢
              omega
            rw [if_neg hlt] at hs4
            subst hs4
            have him : Image s3.trans G r v' := ⟨v, sp, hres, p1, p2⟩
            refine ⟨Eff_copyRef_new hnone e him, ?_⟩
            exact e.extends r _ (by simp [assoc])

theorem copy_main (G : Graph) : ∀ f : Nat,
    PObj G f ∧ PList G f ∧ PKV G f ∧ PInl G f ∧ PSD G f ∧ PVal G f ∧ PRef G f := by
  intro f
  induction f with
  | zero =>
    refine ⟨?_, ?_, ?_, ?_, ?_, ?_, ?_⟩
    · intro s o o' s' h; simp [copyObj] at h
    · intro s o o' s' h; simp [copyList] at h
    · intro s o o' s' h; simp [copyKV] at h
    · intro s a b c d e h; simp [inlineKey] at h
    · intro s o o' s' h; simp [copyStreamDict] at h
    · intro s o o' s' h; simp [copyVal] at h
    · intro s o o' s' h; simp [copyRef] at h
  | succ f ih =>
    obtain ⟨hO, hL, hK, hI, hS, hV, hR⟩ := ih
    exact ⟨step_obj G f hL hK hR, step_list G f hO hL, step_kv G f hO hK, step_inl G f hO,
      step_sd G f hK hI, step_val G f hO hS, step_ref G f hV⟩


/-! ### the property theorems -/

theorem copyRef_effect {G : Graph} {f : Nat} {s s' : St} {r t : Ref}
    (h : copyRef f G s r = .ok (t, s')) : Eff G s s' ∧ assoc r s'.trans = some t :=
  (copy_main G f).2.2.2.2.2.2 s r t s' h

theorem refOf_injective : Function.Injective refOf := by
  intro a b h; simpa [refOf] using h

theorem range_refs_nodup (a n : Nat) : ((List.range' a n).map refOf).Nodup := by
  have h : (List.range' a n).Nodup := List.nodup_range' (step := 1) (by omega)
  exact List.Pairwise.map refOf (fun x y hxy hf => hxy (refOf_injective hf)) h

/-- **copied_once.**  A successful `CopyReference` extends `trans` by new source references only
(`trans` stays a function, nothing is overwritten), maps them one-to-one onto the object numbers
it allocates, and hands to `Writer.Put` exactly these object numbers, each exactly once — for
every source graph, cyclic or not. -/
theorem copied_once {G : Graph} {f : Nat} {s s' : St} {r t : Ref}
    (h : copyRef f G s r = .ok (t, s')) :
    ∃ (N : List (Ref × Ref)) (P : List (Ref × Val)),
      s'.trans = N ++ s.trans ∧ s'.puts = s.puts ++ P ∧
      (∀ k ∈ N.map Prod.fst, assoc k s.trans = none) ∧ (N.map Prod.fst).Nodup ∧
      (N.map Prod.snd).Nodup ∧
      (N.map Prod.snd).Perm ((List.range' s.next (s'.next - s.next)).map refOf) ∧
      (P.map Prod.fst).Perm ((List.range' s.next (s'.next - s.next)).map refOf) ∧
      (∀ n, s.next ≤ n → n < s'.next → (P.map Prod.fst).count (refOf n) = 1) := by
  obtain ⟨N, P, a, b, c, d, e, f', g, _⟩ := (copyRef_effect h).1
  have hl : s'.next - s.next = N.length := by omega
  have hperm : (N.map Prod.snd).Perm ((List.range' s.next N.length).map refOf) := by
    rw [f']; exact List.reverse_perm _
  refine ⟨N, P, a, b, d, e, ?_, ?_, ?_, ?_⟩
  · exact (List.Perm.nodup_iff hperm).mpr (range_refs_nodup _ _)
  · rw [hl]; exact hperm
  · rw [hl]; exact g.trans hperm
  · intro n h1 h2
    have hp := g.trans hperm
    rw [hp.count_eq]
    rw [(range_refs_nodup _ _).count, if_pos]
    exact List.mem_map.mpr ⟨n, List.mem_range'_1.mpr (by omega), rfl⟩


/-- **copy_idempotent.**  After a successful `CopyReference(r) = t`, every later
`CopyReference(r)` returns `t` again and changes nothing (no allocation, no Put), whatever fuel. -/
theorem copy_idempotent {G : Graph} {f : Nat} {s s' : St} {r t : Ref}
    (h : copyRef f G s r = .ok (t, s')) (f' : Nat) :
    copyRef (f' + 1) G s' r = .ok (t, s') := by
  have := (copyRef_effect h).2
  simp [copyRef, this]

/-- the same for every source reference the copier has met so far -/
theorem copy_known {G : Graph} {s : St} {r t : Ref} (h : assoc r s.trans = some t) (f : Nat) :
    copyRef (f + 1) G s r = .ok (t, s) := by
  simp [copyRef, h]

/-- ... and later copies of other objects never change the answer: `trans` only grows -/
theorem copy_stable {G : Graph} {f : Nat} {s s' : St} {r t a ta : Ref}
    (ha : assoc a s.trans = some ta) (h : copyRef f G s r = .ok (t, s')) (f' : Nat) :
    copyRef (f' + 1) G s' a = .ok (ta, s') :=
  copy_known ((copyRef_effect h).1.extends a ta ha) f'

/-- **dangling_is_null.**  A reference that resolves to nothing (never written, free, wrong
generation, malformed object, pure reference cycle, chain deeper than `MaxExtractDepth`) is
copied as a reference to a new object holding null. -/
theorem dangling_is_null {G : Graph} {s : St} {r : Ref} (f : Nat)
    (hnull : resolveOrNull G r = .ok (.obj .null))
    (hnew : assoc r s.trans = none)
    (hroom : s.next < Gen.cpy_maxXRefSize)
    (hfree : s.puts.any (fun p => p.1.1 == s.next) = false) :
    copyRef (f + 3) G s r = .ok (refOf s.next,
      { trans := (r, refOf s.next) :: s.trans, next := s.next + 1,
        puts := s.puts ++ [(refOf s.next, .obj .null)] }) := by
  have h1 : ¬ (s.next ≥ Gen.cpy_maxXRefSize) := by omega
  simp [copyRef, hnew, alloc, h1, hnull, copyVal, copyObj, put, hfree, refOf]

theorem depth_eq : Gen.cpy_MaxExtractDepth = (Gen.cpy_MaxExtractDepth - 2) + 1 + 1 := by decide

theorem resolveOrNull_missing {G : Graph} {r : Ref} (h : assoc r G = none) :
    resolveOrNull G r = .ok (.obj .null) := by
  rw [resolveOrNull, resolve, depth_eq]
  simp [resolveLoop, CPY.get, h]

theorem resolveOrNull_bad {G : Graph} {r : Ref} {e : Entry} (h : assoc r G = some e)
    (hb : e.node = .bad) : resolveOrNull G r = .ok (.obj .null) := by
  rw [resolveOrNull, resolve, depth_eq]
  simp [resolveLoop, CPY.get, h, hb]

/-- a reference that points to itself -/
theorem resolveOrNull_selfloop {G : Graph} {r : Ref} {e : Entry} (h : assoc r G = some e)
    (hb : e.node = .val (.obj (.ref r.1 r.2))) (hs : e.inStm = false) :
    resolveOrNull G r = .ok (.obj .null) := by
  rw [resolveOrNull, resolve, depth_eq]
  simp [resolveLoop, CPY.get, h, hb, hs]


mutual
theorem mapObj_refs {tr : List (Ref × Ref)} :
    ∀ (o o' : Obj), mapObj tr o = some o' → ∀ b ∈ orefs o, ∃ t, assoc b tr = some t
  | .ref n g, o' => by
    simp only [mapObj, orefs, List.mem_singleton]
    split
    · next t ht => intro _ b hb; subst hb; exact ⟨t, ht⟩
    · intro e; cases e
  | .arr xs, o' => by
    simp only [mapObj, orefs]
    split
    · next ys hys => intro _; exact mapList_refs xs ys hys
    · intro e; cases e
  | .dict kv, o' => by
    simp only [mapObj, orefs]
    split
    · next kv' hkv => intro _; exact mapKV_refs kv kv' hkv
    · intro e; cases e
  | .null, _ => by simp [orefs]
  | .nilArr, _ => by simp [orefs]
  | .bool _, _ => by simp [orefs]
  | .int _, _ => by simp [orefs]
  | .real _, _ => by simp [orefs]
  | .name _, _ => by simp [orefs]
  | .str _, _ => by simp [orefs]
  | .op _, _ => by simp [orefs]
theorem mapList_refs {tr : List (Ref × Ref)} :
    ∀ (xs ys : List Obj), mapList tr xs = some ys → ∀ b ∈ lrefs xs, ∃ t, assoc b tr = some t
  | [], ys => by simp [lrefs]
  | x :: xs, ys => by
    simp only [mapList, lrefs, List.mem_append]
    split
    · next y ys' hy hys =>
      intro _ b hb
      rcases hb with hb | hb
      · exact mapObj_refs x y hy b hb
      · exact mapList_refs xs ys' hys b hb
    · intro e; cases e
theorem mapKV_refs {tr : List (Ref × Ref)} :
    ∀ (kv kv' : KV), mapKV tr kv = some kv' → ∀ b ∈ kvrefs kv, ∃ t, assoc b tr = some t
  | [], kv' => by simp [kvrefs]
  | (k, v) :: rest, kv' => by
    simp only [mapKV, kvrefs, List.mem_append]
    split
    · next v' rest' hv hr =>
      intro _ b hb
      rcases hb with hb | hb
      · exact mapObj_refs v v' hv b hb
      · exact mapKV_refs rest rest' hr b hb
    · intro e; cases e
end

theorem mapVal_refs {tr : List (Ref × Ref)} {sp v : Val} (h : mapVal tr sp = some v) :
    ∀ b ∈ valRefs sp, ∃ t, assoc b tr = some t := by
  cases sp with
  | obj o =>
    simp only [mapVal] at h
    split at h
    · next o' ho => exact mapObj_refs o o' ho
    · cases h
  | stream d data enc =>
    simp only [mapVal] at h
    split at h
    · next d' hd => exact mapKV_refs d d' hd
    · cases h

theorem snd_nodup_inj (N : List (Ref × Ref)) (hvn : (N.map Prod.snd).Nodup) {a b t : Ref}
    (h1 : (a, t) ∈ N) (h2 : (b, t) ∈ N) : a = b := by
  induction N with
  | nil => simp at h1
  | cons q N ih =>
    simp only [List.map_cons, List.nodup_cons] at hvn
    rcases List.mem_cons.mp h1 with e1 | e1 <;> rcases List.mem_cons.mp h2 with e2 | e2
    · rw [← e1] at e2; exact ((Prod.mk.inj e2).1).symm
    · exfalso; apply hvn.1; rw [← e1]; exact List.mem_map.mpr ⟨_, e2, rfl⟩
    · exfalso; apply hvn.1; rw [← e2]; exact List.mem_map.mpr ⟨_, e1, rfl⟩
    · exact ih hvn.2 e1 e2

/-- The copier state is consistent: the objects written have distinct numbers below `next`,
    and every translated source reference (except the redirected ones `Rd`) has its object
    written, which is the image of the source object under the current translation. -/
def Consistent (G : Graph) (Rd : List Ref) (s : St) : Prop :=
  (s.puts.map Prod.fst).Nodup ∧ (∀ k ∈ s.puts.map Prod.fst, k.1 < s.next) ∧
  ∀ src t, (src, t) ∈ s.trans → src ∉ Rd →
    ∃ v, assoc t s.puts = some v ∧ Image s.trans G src v

def St.init (n0 : Nat) : St := { trans := [], next := n0, puts := [] }

theorem init_consistent (G : Graph) (n0 : Nat) : Consistent G [] (St.init n0) := by
  simp [Consistent, St.init]

theorem Eff.consistent {G : Graph} {Rd : List Ref} {s s' : St} (hc : Consistent G Rd s)
    (h : Eff G s s') : Consistent G Rd s' := by
  obtain ⟨c1, c2, c3⟩ := hc
  have hext := h.extends
  obtain ⟨N, P, a, b, c, d, e, f, g, i⟩ := h
  have hperm : (P.map Prod.fst).Perm ((List.range' s.next N.length).map refOf) :=
    g.trans (by rw [f]; exact List.reverse_perm _)
  have hPnodup : (P.map Prod.fst).Nodup := (List.Perm.nodup_iff hperm).mpr (range_refs_nodup _ _)
  have hPmem : ∀ k ∈ P.map Prod.fst, s.next ≤ k.1 ∧ k.1 < s'.next := by
    intro k hk
    obtain ⟨n, hn, rfl⟩ := List.mem_map.mp (hperm.mem_iff.mp hk)
    have := List.mem_range'_1.mp hn
    simp only [refOf]; omega
  refine ⟨?_, ?_, ?_⟩
  · rw [b, List.map_append, List.nodup_append]
    refine ⟨c1, hPnodup, ?_⟩
    intro x hx y hy hxy
    subst hxy
    have := c2 x hx
    have := hPmem x hy
    omega
  · intro k hk
    rw [b, List.map_append, List.mem_append] at hk
    rcases hk with hk | hk
    · have := c2 k hk; omega
    · exact (hPmem k hk).2
  · intro src t hm hr
    rw [a, List.mem_append] at hm
    rcases hm with hm | hm
    · -- a new entry: its object is among the objects written by this call
      have ht : t ∈ P.map Prod.fst := by
        apply g.mem_iff.mpr
        exact List.mem_map.mpr ⟨(src, t), hm, rfl⟩
      obtain ⟨p, hp, hpt⟩ := List.mem_map.mp ht
      obtain ⟨src', hm', him⟩ := i p hp
      have hsrc : src' = src := by
        -- the targets of the new entries are pairwise distinct
        have hvn : (N.map Prod.snd).Nodup := by
          rw [f]; exact ((List.reverse_perm _).nodup_iff).mpr (range_refs_nodup _ _)
        rw [hpt] at hm'
        exact snd_nodup_inj N hvn hm' hm
      subst hsrc
      refine ⟨p.2, ?_, him⟩
      rw [b, assoc_append]
      have hnone : assoc t s.puts = none := by
        rw [assoc_none_iff]
        intro hin
        have := c2 t hin
        have := hPmem t ht
        omega
      rw [hnone]
      apply assoc_of_mem_nodup _ _ _ hPnodup
      rw [← hpt]; exact hp
    · obtain ⟨v, hv, him⟩ := c3 src t hm hr
      refine ⟨v, ?_, Image_stable hext G src v him⟩
      rw [b, assoc_append, hv]

/-- **copy_iso.**  From a consistent copier state (in particular a new `Copier`), after a
successful `CopyReference(r)`: every source reference `b` reachable from `r` — through arrays,
dictionaries, stream dictionaries, chains of references and around cycles — has a translation
`t'`, the object `t'` has been written, and it is the image under the final translation of what
`b` resolves to (chain shortened; dictionaries in key order; /Filter and /DecodeParms inlined;
stream bytes unchanged). -/
theorem copy_iso {G : Graph} {f : Nat} {s s' : St} {r t : Ref}
    (hc : Consistent G [] s) (h : copyRef f G s r = .ok (t, s')) :
    ∀ b, Reach G r b →
      ∃ t' v, assoc b s'.trans = some t' ∧ assoc t' s'.puts = some v ∧ Image s'.trans G b v := by
  obtain ⟨e, hr⟩ := copyRef_effect h
  have hc' := e.consistent hc
  intro b hb
  induction hb with
  | root =>
    obtain ⟨v, hv, him⟩ := hc'.2.2 r t (assoc_some_mem _ _ _ hr) (by simp)
    exact ⟨t, v, hr, hv, him⟩
  | @step a b _ hmem ih =>
    obtain ⟨ta, va, _, _, sv, sp, h1, h2, h3⟩ := ih
    have hb : b ∈ valRefs sp := by
      simpa [specRefs, h1, h2] using hmem
    obtain ⟨tb, htb⟩ := mapVal_refs h3 b hb
    obtain ⟨v, hv, him⟩ := hc'.2.2 b tb (assoc_some_mem _ _ _ htb) (by simp)
    exact ⟨tb, v, htb, hv, him⟩


/-- **stream_bytes_preserved.**  Whatever the crypt recipe (`cryptNone`, `cryptDefault`,
`cryptIdentity`), the image of a source stream is a stream with the same (decrypted) bytes. -/
theorem stream_bytes_preserved {tr : List (Ref × Ref)} {G : Graph} {b : Ref} {v : Val}
    {dict : KV} {data : Bytes} {enc : Bool}
    (hres : resolveOrNull G b = .ok (.stream dict data enc)) (him : Image tr G b v) :
    ∃ d', v = .stream d' data false := by
  obtain ⟨sv, sp, h1, h2, h3⟩ := him
  rw [hres] at h1
  cases h1
  simp only [specVal] at h2
  split at h2
  · next D hD =>
    cases h2
    simp only [mapVal] at h3
    split at h3
    · next d' hd => cases h3; exact ⟨d', rfl⟩
    · cases h3
  · cases h2

/-! ### what the image preserves -/

theorem mapList_length {tr : List (Ref × Ref)} :
    ∀ (xs ys : List Obj), mapList tr xs = some ys → ys.length = xs.length
  | [], ys => by simp [mapList]
  | x :: xs, ys => by
    simp only [mapList]
    split
    · next y ys' hy hys => intro e; cases e; simp [mapList_length xs ys' hys]
    · intro e; cases e

theorem orderedList_length : ∀ xs : List Obj, (orderedList xs).length = xs.length
  | [] => rfl
  | x :: xs => by simp [orderedList, orderedList_length xs]

/-- array lengths (in particular empty arrays) are preserved -/
theorem image_arr {tr : List (Ref × Ref)} {xs : List Obj} {o' : Obj}
    (h : mapObj tr (ordered (.arr xs)) = some o') : ∃ ys, o' = .arr ys ∧ ys.length = xs.length := by
  simp only [ordered, mapObj] at h
  split at h
  · next ys hys => cases h; exact ⟨ys, rfl, by rw [mapList_length _ _ hys, orderedList_length]⟩
  · cases h

theorem mapKV_keys {tr : List (Ref × Ref)} :
    ∀ (kv kv' : KV), mapKV tr kv = some kv' → kv'.map Prod.fst = kv.map Prod.fst
  | [], kv' => by simp [mapKV]
  | (k, v) :: rest, kv' => by
    simp only [mapKV]
    split
    · next v' rest' hv hr => intro e; cases e; simp [mapKV_keys rest rest' hr]
    · intro e; cases e

theorem insertKey_perm (k : Bytes × Obj) (l : KV) : (insertKey k l).Perm (k :: l) := by
  induction l with
  | nil => simp [insertKey]
  | cons x xs ih =>
    simp only [insertKey]
    split
    · exact List.Perm.refl _
    · exact (List.Perm.cons x ih).trans (List.Perm.swap k x xs)

theorem sortKV_perm (l : KV) : (sortKV l).Perm l := by
  induction l with
  | nil => simp [sortKV]
  | cons x xs ih => exact (insertKey_perm x (sortKV xs)).trans (List.Perm.cons x ih)

theorem keyType_ne_keySubtype : keyType ≠ keySubtype := by decide

/-- `Dict.SortedKeys` lists every entry exactly once -/
theorem sortedEntries_perm (l : KV) : (sortedEntries l).Perm l := by
  unfold sortedEntries
  induction l with
  | nil => simp [sortKV]
  | cons x xs ih =>
    by_cases h1 : x.1 = keyType
    · have h2 : x.1 ≠ keySubtype := by rw [h1]; exact keyType_ne_keySubtype
      simp only [List.filter_cons, h1, beq_self_eq_true, ↓reduceIte, bne_self_eq_false, Bool.false_and,
        Bool.false_eq_true]
      have : (keyType == keySubtype) = false := by decide
      simp only [this, Bool.false_eq_true, ↓reduceIte, List.cons_append]
      simpa [h1] using List.Perm.cons x ih
    · by_cases h2 : x.1 = keySubtype
      · simp only [List.filter_cons, h2, beq_self_eq_true, ↓reduceIte, bne_self_eq_false, Bool.and_false,
          Bool.false_eq_true]
        have : (keySubtype == keyType) = false := by decide
        simp only [this, Bool.false_eq_true, ↓reduceIte]
        refine (List.Perm.trans ?_ (List.Perm.cons x ih))
        simp only [List.append_assoc]
        exact List.perm_middle
      · have e1 : (x.1 == keyType) = false := by simpa using h1
        have e2 : (x.1 == keySubtype) = false := by simpa using h2
        simp only [List.filter_cons, e1, e2, Bool.false_eq_true, ↓reduceIte, bne, Bool.not_false, Bool.and_self,
          sortKV]
        refine (List.Perm.trans ?_ (List.Perm.cons x ih))
        refine (List.Perm.append_left _ (insertKey_perm x _)).trans ?_
        exact List.perm_middle


/-- dictionary keys are preserved (the copy lists them in `SortedKeys` order), so are empty
dictionaries -/
theorem image_dict {tr : List (Ref × Ref)} {kv : KV} {o' : Obj}
    (h : mapObj tr (ordered (.dict kv)) = some o') :
    ∃ kv', o' = .dict kv' ∧ (kv'.map Prod.fst).Perm (kv.map Prod.fst) := by
  simp only [ordered, mapObj] at h
  split at h
  · next kv' hkv =>
    cases h
    refine ⟨kv', rfl, ?_⟩
    rw [mapKV_keys _ _ hkv]
    refine ((sortedEntries_perm _).map Prod.fst).trans ?_
    rw [orderedKV_eq_map, List.map_map]
    exact List.Perm.of_eq (List.map_congr_left (fun p _ => rfl))
  · cases h

/-- scalars (null, booleans, numbers, names, strings) are copied unchanged -/
theorem image_scalar {tr : List (Ref × Ref)} {o o' : Obj}
    (hs : match o with | .arr _ | .dict _ | .ref _ _ => False | _ => True)
    (h : mapObj tr (ordered o) = some o') : o' = o := by
  cases o <;> simp_all [ordered, mapObj]

/-- a null entry of a dictionary stays a null entry -/
theorem mapKV_null {tr : List (Ref × Ref)} (k : Bytes) :
    ∀ (kv kv' : KV), mapKV tr kv = some kv' → (k, Obj.null) ∈ kv → (k, Obj.null) ∈ kv'
  | [], kv' => by simp
  | (k', v) :: rest, kv' => by
    simp only [mapKV]
    split
    · next v' rest' hv hr =>
      intro e hm; cases e
      rcases List.mem_cons.mp hm with h | h
      · cases h
        simp only [mapObj] at hv
        cases hv; exact List.mem_cons_self
      · exact List.mem_cons_of_mem _ (mapKV_null k rest rest' hr h)
    · intro e; cases e

/-- a reference is copied as the reference `trans` assigns to it -/
theorem image_ref {tr : List (Ref × Ref)} {n g : Nat} {o' : Obj}
    (h : mapObj tr (ordered (.ref n g)) = some o') :
    ∃ t, assoc (n, g) tr = some t ∧ o' = .ref t.1 t.2 := by
  simp only [ordered, mapObj] at h
  split at h
  · next t ht => cases h; exact ⟨t, ht, rfl⟩
  · cases h


/-! ### written object numbers stay below `next` -/

/-- the numbers of the objects written are below `next` (true for a new Writer, kept by every
    call; it is what makes `Writer.Put` accept the freshly allocated number) -/
def PB (s : St) : Prop := ∀ k ∈ s.puts.map Prod.fst, k.1 < s.next

/-- ok, or the object-number overflow of `Writer.Alloc` -/
def Fine {α : Type} (x : Except CErr α) : Prop := (∃ a, x = .ok a) ∨ x = .error .overflow

theorem Eff.new_keys {G : Graph} {s s' : St} (h : Eff G s s') :
    ∃ P : List (Ref × Val), s'.puts = s.puts ++ P ∧
      ∀ k ∈ P.map Prod.fst, ∃ m, k = refOf m ∧ s.next ≤ m ∧ m < s'.next := by
  obtain ⟨N, P, a, b, c, d, e, f, g, i⟩ := h
  refine ⟨P, b, ?_⟩
  intro k hk
  have hperm : (P.map Prod.fst).Perm ((List.range' s.next N.length).map refOf) :=
    g.trans (by rw [f]; exact List.reverse_perm _)
  obtain ⟨m, hm, rfl⟩ := List.mem_map.mp (hperm.mem_iff.mp hk)
  have := List.mem_range'_1.mp hm
  exact ⟨m, rfl, by omega, by omega⟩

theorem Eff.pb {G : Graph} {s s' : St} (hp : PB s) (h : Eff G s s') : PB s' := by
  obtain ⟨P, hb, hk⟩ := h.new_keys
  have hn := h.next_le
  intro k hkm
  rw [hb, List.map_append, List.mem_append] at hkm
  rcases hkm with e | e
  · have := hp k e; omega
  · obtain ⟨m, rfl, _, h2⟩ := hk k e
    simpa [refOf] using h2

end PdfVerif.C11cpy

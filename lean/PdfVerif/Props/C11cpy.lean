import PdfVerif.Spec.CPYIso
/-!
C11 — Copier reproduces the source object graph: theorems over `Model/CPYCopier.lean`.
-/
namespace PdfVerif.C11cpy
open PdfVerif PdfVerif.CPY

/-! ### association lists -/

theorem assoc_append {α : Type} (r : Ref) (a b : List (Ref × α)) :
    assoc r (a ++ b) = match assoc r a with | some v => some v | none => assoc r b := by
  induction a with
  | nil => simp [assoc]
  | cons p a ih =>
    obtain ⟨k, v⟩ := p
    simp only [List.cons_append, assoc]
    split <;> simp_all

theorem assoc_none_iff {α : Type} (r : Ref) (l : List (Ref × α)) :
    assoc r l = none ↔ r ∉ l.map Prod.fst := by
  induction l with
  | nil => simp [assoc]
  | cons p l ih =>
    obtain ⟨k, v⟩ := p
    simp only [assoc, List.map_cons, List.mem_cons, not_or]
    split
    · next h => simp [h]
    · next h => simp [ih, Ne.symm h]

theorem assoc_some_mem {α : Type} (r : Ref) (l : List (Ref × α)) (v : α) :
    assoc r l = some v → (r, v) ∈ l := by
  induction l with
  | nil => simp [assoc]
  | cons p l ih =>
    obtain ⟨k, w⟩ := p
    simp only [assoc]
    split
    · next h => intro hv; simp_all
    · next h => intro hv; exact List.mem_cons_of_mem _ (ih hv)

theorem assoc_of_mem_nodup {α : Type} (r : Ref) (v : α) (l : List (Ref × α))
    (hn : (l.map Prod.fst).Nodup) (hm : (r, v) ∈ l) : assoc r l = some v := by
  induction l with
  | nil => simp at hm
  | cons p l ih =>
    obtain ⟨k, w⟩ := p
    simp only [List.map_cons, List.nodup_cons] at hn
    simp only [assoc]
    rcases List.mem_cons.mp hm with h | h
    · cases h; simp
    · have : k ≠ r := by
        intro e; subst e
        exact hn.1 (List.mem_map.mpr ⟨(k, v), h, rfl⟩)
      simp [this, ih hn.2 h]

/-- `tr'` agrees with `tr` wherever `tr` is defined -/
def Extends (tr tr' : List (Ref × Ref)) : Prop := ∀ k t, assoc k tr = some t → assoc k tr' = some t

theorem Extends.refl (tr : List (Ref × Ref)) : Extends tr tr := fun _ _ h => h
theorem Extends.trans {a b c : List (Ref × Ref)} (h1 : Extends a b) (h2 : Extends b c) : Extends a c :=
  fun k t h => h2 k t (h1 k t h)

theorem extends_append (N tr : List (Ref × Ref)) (hf : ∀ k ∈ N.map Prod.fst, assoc k tr = none) :
    Extends tr (N ++ tr) := by
  intro k t h
  rw [assoc_append]
  have : assoc k N = none := by
    rw [assoc_none_iff]
    intro hk
    rw [hf k hk] at h; cases h
  simp [this, h]

/-! ### images are stable under extension of the translation -/

mutual
theorem mapObj_stable {tr tr' : List (Ref × Ref)} (h : Extends tr tr') :
    ∀ (o o' : Obj), mapObj tr o = some o' → mapObj tr' o = some o'
  | .ref n g, o' => by
    simp only [mapObj]
    split
    · next t ht => intro e; rw [h _ _ ht]; exact e
    · intro e; cases e
  | .arr xs, o' => by
    simp only [mapObj]
    split
    · next ys hys => intro e; rw [mapList_stable h xs ys hys]; exact e
    · intro e; cases e
  | .dict kv, o' => by
    simp only [mapObj]
    split
    · next kv' hkv => intro e; rw [mapKV_stable h kv kv' hkv]; exact e
    · intro e; cases e
  | .null, _ => by simp [mapObj]
  | .nilArr, _ => by simp [mapObj]
  | .bool _, _ => by simp [mapObj]
  | .int _, _ => by simp [mapObj]
  | .real _, _ => by simp [mapObj]
  | .name _, _ => by simp [mapObj]
  | .str _, _ => by simp [mapObj]
  | .op _, _ => by simp [mapObj]
theorem mapList_stable {tr tr' : List (Ref × Ref)} (h : Extends tr tr') :
    ∀ (xs ys : List Obj), mapList tr xs = some ys → mapList tr' xs = some ys
  | [], ys => by simp [mapList]
  | x :: xs, ys => by
    simp only [mapList]
    split
    · next y ys' hy hys => intro e; rw [mapObj_stable h x y hy, mapList_stable h xs ys' hys]; exact e
    · intro e; cases e
theorem mapKV_stable {tr tr' : List (Ref × Ref)} (h : Extends tr tr') :
    ∀ (kv kv' : KV), mapKV tr kv = some kv' → mapKV tr' kv = some kv'
  | [], kv' => by simp [mapKV]
  | (k, v) :: rest, kv' => by
    simp only [mapKV]
    split
    · next v' rest' hv hr => intro e; rw [mapObj_stable h v v' hv, mapKV_stable h rest rest' hr]; exact e
    · intro e; cases e
end

theorem mapVal_stable {tr tr' : List (Ref × Ref)} (h : Extends tr tr') (v v' : Val) :
    mapVal tr v = some v' → mapVal tr' v = some v' := by
  cases v with
  | obj o =>
    simp only [mapVal]
    split
    · next o' ho => intro e; rw [mapObj_stable h o o' ho]; exact e
    · intro e; cases e
  | stream d data enc =>
    simp only [mapVal]
    split
    · next d' hd => intro e; rw [mapKV_stable h d d' hd]; exact e
    · intro e; cases e

theorem Image_stable {tr tr' : List (Ref × Ref)} (h : Extends tr tr') (G : Graph) (src : Ref) (v : Val) :
    Image tr G src v → Image tr' G src v := by
  rintro ⟨sv, sp, h1, h2, h3⟩
  exact ⟨sv, sp, h1, h2, mapVal_stable h sp v h3⟩

/-! ### the chain walk at the head of `CopyReference` -/

/-- `a` is an indirect object whose value is a reference, and following such references leads
    from `a` to `b` -/
inductive Leads (G : Graph) : Ref → Ref → Prop where
  | one {a b : Ref} : CPY.get G a true = .ok (.obj (.ref b.1 b.2)) → Leads G a b
  | more {a c b : Ref} : CPY.get G a true = .ok (.obj (.ref c.1 c.2)) → Leads G c b → Leads G a b

theorem Leads.trans {G : Graph} {a b c : Ref} (h1 : Leads G a b) (h2 : Leads G b c) : Leads G a c := by
  induction h1 with
  | one h => exact .more h h2
  | more h _ ih => exact .more h (ih h2)

theorem Leads.snoc {G : Graph} {a b c : Ref} (h1 : Leads G a b)
    (h2 : CPY.get G b true = .ok (.obj (.ref c.1 c.2))) : Leads G a c := h1.trans (.one h2)

def IsRef : Val → Prop
  | .obj (.ref _ _) => True
  | _ => False

/-- what the walk knows about the links met so far -/
structure WInv (G : Graph) (tr : List (Ref × Ref)) (r0 : Ref) (chain : List Ref) (cur : Ref) : Prop where
  r0_mem : r0 ∈ chain
  cur_mem : cur ∈ chain
  nodup : chain.Nodup
  fresh : ∀ k ∈ chain, assoc k tr = none
  leads : ∀ k ∈ chain, k = cur ∨ Leads G k cur
  next : ∀ k ∈ chain, k ≠ cur → ∃ x ∈ chain, CPY.get G k true = .ok (.obj (.ref x.1 x.2))

/-- what the walk guarantees about its result -/
def WOut (G : Graph) (tr : List (Ref × Ref)) (r0 : Ref) : Walk → Prop
  | .fails e => e ≠ .fuel ∧ e ≠ .malformed
  | .dead => True
  | .known t c => c.Nodup ∧ (∀ k ∈ c, assoc k tr = none) ∧ r0 ∈ c ∧
      ∃ x, assoc x tr = some t ∧ (∀ k ∈ c, Leads G k x) ∧
        ∀ k ∈ c, ∃ y, CPY.get G k true = .ok (.obj (.ref y.1 y.2)) ∧ (y ∈ c ∨ y = x)
  | .ends v c => c.Nodup ∧ (∀ k ∈ c, assoc k tr = none) ∧ r0 ∈ c ∧
      ∃ e ∈ c, CPY.get G e true = .ok v ∧ ¬ IsRef v ∧ (∀ k ∈ c, k = e ∨ Leads G k e) ∧
        ∀ k ∈ c, k ≠ e → ∃ y ∈ c, CPY.get G k true = .ok (.obj (.ref y.1 y.2))

theorem get_err_cases {G : Graph} {r : Ref} {cs : Bool} {e : CErr} (h : CPY.get G r cs = .error e) :
    e = .malformed ∨ e = .read := by
  unfold CPY.get at h
  split at h
  · cases h
  · split at h
    · cases h; exact Or.inl rfl
    · cases h; exact Or.inr rfl
    · split at h <;> cases h
      exact Or.inl rfl

theorem walk_out (G : Graph) (tr : List (Ref × Ref)) (r0 : Ref) :
    ∀ (d : Nat) (chain : List Ref) (cur : Ref), WInv G tr r0 chain cur →
      WOut G tr r0 (walkChain G tr d chain cur) := by
  intro d
  induction d with
  | zero =>
    intro chain cur inv
    unfold walkChain
    split
    · trivial
    · next e hne he =>
      rcases get_err_cases he with h | h
      · exact absurd h (by intro h'; exact hne (by rw [h'] ))
      · subst h; exact ⟨by simp, by simp⟩
    · next n g hg =>
      split
      · next t ht =>
        refine ⟨inv.nodup, inv.fresh, inv.r0_mem, (n, g), ht, ?_, ?_⟩
        · intro k hk
          rcases inv.leads k hk with e | e
          · subst e; exact .one hg
          · exact e.snoc hg
        · intro k hk
          by_cases hkc : k = cur
          · subst hkc; exact ⟨(n, g), hg, Or.inr rfl⟩
          · obtain ⟨x, hx, hgx⟩ := inv.next k hk hkc
            exact ⟨x, hgx, Or.inl hx⟩
      · split <;> trivial
    · next v hne hg =>
      refine ⟨inv.nodup, inv.fresh, inv.r0_mem, cur, inv.cur_mem, hg, ?_, inv.leads, inv.next⟩
      intro hr
      cases v with
      | stream _ _ _ => exact hr
      | obj o => cases o <;> first | exact hr | exact hne _ _ rfl
  | succ d ih =>
    intro chain cur inv
    unfold walkChain
    split
    · trivial
    · next e hne he =>
      rcases get_err_cases he with h | h
      · exact absurd h (by intro h'; exact hne (by rw [h'] ))
      · subst h; exact ⟨by simp, by simp⟩
    · next n g hg =>
      split
      · next t ht =>
        refine ⟨inv.nodup, inv.fresh, inv.r0_mem, (n, g), ht, ?_, ?_⟩
        · intro k hk
          rcases inv.leads k hk with e | e
          · subst e; exact .one hg
          · exact e.snoc hg
        · intro k hk
          by_cases hkc : k = cur
          · subst hkc; exact ⟨(n, g), hg, Or.inr rfl⟩
          · obtain ⟨x, hx, hgx⟩ := inv.next k hk hkc
            exact ⟨x, hgx, Or.inl hx⟩
      · next hnone =>
        split
        · trivial
        · next hnc =>
          apply ih
          have hnm : (n, g) ∉ chain := by simpa using hnc
          refine ⟨?_, ?_, ?_, ?_, ?_, ?_⟩
          · exact List.mem_append_left _ inv.r0_mem
          · simp
          · rw [List.nodup_append]
            refine ⟨inv.nodup, by simp, ?_⟩
            intro a ha b hb hab
            simp only [List.mem_singleton] at hb
            subst hab; subst hb; exact hnm ha
          · intro k hk
            rcases List.mem_append.mp hk with h | h
            · exact inv.fresh k h
            · simp only [List.mem_singleton] at h; subst h; exact hnone
          · intro k hk
            rcases List.mem_append.mp hk with h | h
            · right
              rcases inv.leads k h with e | e
              · subst e; exact .one hg
              · exact e.snoc hg
            · simp only [List.mem_singleton] at h; exact Or.inl h
          · intro k hk hne'
            rcases List.mem_append.mp hk with h | h
            · by_cases hkc : k = cur
              · subst hkc; exact ⟨(n, g), by simp, hg⟩
              · obtain ⟨x, hx, hgx⟩ := inv.next k h hkc
                exact ⟨x, List.mem_append_left _ hx, hgx⟩
            · simp only [List.mem_singleton] at h; exact absurd h hne'
    · next v hne hg =>
      refine ⟨inv.nodup, inv.fresh, inv.r0_mem, cur, inv.cur_mem, hg, ?_, inv.leads, inv.next⟩
      intro hr
      cases v with
      | stream _ _ _ => exact hr
      | obj o => cases o <;> first | exact hr | exact hne _ _ rfl

/-- the walk sees what `Resolve` sees, as long as it meets no translated link -/
def WRes (G : Graph) (d : Nat) (path : List Ref) (cur : Ref) : Walk → Prop
  | .ends v _ => resolveLoop G true (d+1) path cur = .ok v
  | .dead => resolveLoop G true (d+1) path cur = .error .malformed
  | .fails e => resolveLoop G true (d+1) path cur = .error e
  | .known _ _ => True

theorem walk_resolve (G : Graph) (tr : List (Ref × Ref)) :
    ∀ (d : Nat) (path : List Ref) (cur : Ref) (chain : List Ref),
      (∀ x, x ∈ chain ↔ x ∈ cur :: path) → cur ∉ path →
      WRes G d path cur (walkChain G tr d chain cur) := by
  intro d
  induction d with
  | zero =>
    intro path cur chain hmem hcur
    have hc : path.contains cur = false := by simpa using hcur
    unfold walkChain
    split
    · next he => simp [WRes, resolveLoop, hcur, he]
    · next e hne he => simp [WRes, resolveLoop, hcur, he]
    · next n g hg =>
      split
      · trivial
      · split <;> simp [WRes, resolveLoop, hcur, hg]
    · next v hne hg =>
      simp only [WRes, resolveLoop, hc, Bool.false_eq_true, ↓reduceIte, hg]
      first
        | done
        | (cases v with
           | stream _ _ _ => rfl
           | obj o => cases o <;> first | rfl | exact absurd rfl (hne _ _))
  | succ d ih =>
    intro path cur chain hmem hcur
    have hc : path.contains cur = false := by simpa using hcur
    unfold walkChain
    split
    · next he => simp [WRes, resolveLoop, hcur, he]
    · next e hne he => simp [WRes, resolveLoop, hcur, he]
    · next n g hg =>
      split
      · trivial
      · split
        · next hcon =>
          have : (cur :: path).contains (n, g) = true := by
            have := (hmem (n, g)).mp (by simpa using hcon)
            simpa using this
          simp only [WRes, resolveLoop, hc, Bool.false_eq_true, ↓reduceIte, hg]
          simp only [this, ↓reduceIte]
        · next hcon =>
          have hnm : (n, g) ∉ cur :: path := by
            intro h; exact hcon (by simpa using (hmem (n, g)).mpr h)
          have := ih (cur :: path) (n, g) (chain ++ [(n, g)])
            (by intro x
                rw [List.mem_append, List.mem_singleton, List.mem_cons]
                constructor
                · rintro (h | h)
                  · exact Or.inr ((hmem x).mp h)
                  · exact Or.inl h
                · rintro (h | h)
                  · exact Or.inr h
                  · exact Or.inl ((hmem x).mpr h))
            hnm
          show WRes G (d + 1) path cur (walkChain G tr d (chain ++ [(n, g)]) (n, g))
          cases hw : walkChain G tr d (chain ++ [(n, g)]) (n, g) with
          | known t c => trivial
          | ends v c =>
            rw [hw] at this
            simp only [WRes] at this ⊢
            rw [resolveLoop]
            simp only [hc, Bool.false_eq_true, ↓reduceIte, hg]
            exact this
          | dead =>
            rw [hw] at this
            simp only [WRes] at this ⊢
            rw [resolveLoop]
            simp only [hc, Bool.false_eq_true, ↓reduceIte, hg]
            exact this
          | fails e =>
            rw [hw] at this
            simp only [WRes] at this ⊢
            rw [resolveLoop]
            simp only [hc, Bool.false_eq_true, ↓reduceIte, hg]
            exact this
    · next v hne hg =>
      simp only [WRes, resolveLoop, hc, Bool.false_eq_true, ↓reduceIte, hg]
      first
        | done
        | (cases v with
           | stream _ _ _ => rfl
           | obj o => cases o <;> first | rfl | exact absurd rfl (hne _ _))

theorem depth_succ : Gen.cpy_MaxExtractDepth - 1 + 1 = Gen.cpy_MaxExtractDepth := by decide

theorem resolveOrNull_of_loop (G : Graph) (r : Ref) :
    resolveOrNull G r =
      match resolveLoop G true Gen.cpy_MaxExtractDepth [] r with
      | .error .malformed => .ok (.obj .null)
      | x => x := by
  unfold resolveOrNull resolve
  cases h : resolveLoop G true Gen.cpy_MaxExtractDepth [] (r.1, r.2) with
  | error e => cases e <;> simp_all
  | ok v => simp_all

/-- What `CopyReference(r)` learns from its walk.  `ends v c`: either the chain of references
    starting at `r` ends at an object with value `v` (`c` are all its links), or it does not end
    properly (malformed link, reference loop, more than `MaxExtractDepth` links: `Resolve` fails
    with a malformed-file error) and then `v` is null and `c = [r]`. -/
def WOutF (G : Graph) (tr : List (Ref × Ref)) (r : Ref) : Walk → Prop
  | .fails e => e ≠ .fuel ∧ e ≠ .malformed ∧ resolveLoop G true Gen.cpy_MaxExtractDepth [] r = .error e
  | .dead => False
  | .known t c => WOut G tr r (.known t c)
  | .ends v c => resolveOrNull G r = .ok v ∧ c.Nodup ∧ (∀ k ∈ c, assoc k tr = none) ∧ r ∈ c ∧
      ((c = [r] ∧ v = .obj .null ∧ resolveLoop G true Gen.cpy_MaxExtractDepth [] r = .error .malformed) ∨
       (resolveLoop G true Gen.cpy_MaxExtractDepth [] r = .ok v ∧
        ∃ e ∈ c, CPY.get G e true = .ok v ∧ ¬ IsRef v ∧ (∀ k ∈ c, k = e ∨ Leads G k e) ∧
          ∀ k ∈ c, k ≠ e → ∃ y ∈ c, CPY.get G k true = .ok (.obj (.ref y.1 y.2))))

theorem walkFrom_out {G : Graph} {tr : List (Ref × Ref)} {r : Ref} (hr : assoc r tr = none) :
    WOutF G tr r (walkFrom G tr r) := by
  have h1 := walk_out G tr r (Gen.cpy_MaxExtractDepth - 1) [r] r
    ⟨by simp, by simp, by simp, by simpa using hr, by simp, by simp⟩
  have h2 := walk_resolve G tr (Gen.cpy_MaxExtractDepth - 1) [] r [r] (by simp) (by simp)
  unfold walkFrom
  cases hw : walkChain G tr (Gen.cpy_MaxExtractDepth - 1) [r] r with
  | known t c => rw [hw] at h1; exact h1
  | fails e =>
    rw [hw] at h1 h2
    simp only [WRes, depth_succ] at h2
    exact ⟨h1.1, h1.2, h2⟩
  | dead =>
    rw [hw] at h2
    simp only [WRes, depth_succ] at h2
    refine ⟨?_, by simp, by simpa using hr, by simp, Or.inl ⟨rfl, rfl, h2⟩⟩
    rw [resolveOrNull_of_loop, h2]
  | ends v c =>
    rw [hw] at h1 h2
    simp only [WRes, depth_succ] at h2
    obtain ⟨w1, w2, w3, w4⟩ := h1
    refine ⟨?_, w1, w2, w3, Or.inr ⟨h2, w4⟩⟩
    rw [resolveOrNull_of_loop, h2]

/-- if the walk of `CopyReference(r)` reaches the end of the chain, its value is what `Resolve`
    gives (null for malformed links, loops and over-deep chains) -/
theorem walkFrom_ends {G : Graph} {tr : List (Ref × Ref)} {r : Ref} {v : Val} {c : List Ref}
    (hr : assoc r tr = none) (h : walkFrom G tr r = .ends v c) : resolveOrNull G r = .ok v := by
  have := walkFrom_out (G := G) hr
  rw [h] at this
  exact this.1

/-- if the walk fails, `Resolve` fails the same way -/
theorem walkFrom_fails {G : Graph} {tr : List (Ref × Ref)} {r : Ref} {e : CErr}
    (hr : assoc r tr = none) (h : walkFrom G tr r = .fails e) :
    resolveLoop G true Gen.cpy_MaxExtractDepth [] r = .error e := by
  have := walkFrom_out (G := G) hr
  rw [h] at this
  exact this.2.2

theorem walkFrom_not_dead {G : Graph} {tr : List (Ref × Ref)} {r : Ref} : walkFrom G tr r ≠ .dead := by
  unfold walkFrom
  split <;> simp_all

/-! ### the effect of one call on the copier state -/

def refOf (n : Nat) : Ref := (n, 0)

/-- What a successful call does to the state: `N` are the new entries of `trans` (newest first),
    `P` the objects written, `a` the number of object numbers allocated.  The new source references
    were not translated before and are pairwise distinct; each is translated to a number allocated
    by the call or (a link of a chain of references which ends at an object copied earlier) to a
    target that was in `trans` already; the objects written are exactly the allocated numbers,
    each once; and each object written is the image (under the final translation) of a source
    object it was allocated for. -/
def Eff (G : Graph) (s s' : St) : Prop :=
  ∃ (N : List (Ref × Ref)) (P : List (Ref × Val)) (a : Nat),
    s'.trans = N ++ s.trans ∧ s'.puts = s.puts ++ P ∧ s'.next = s.next + a ∧
    (∀ k ∈ N.map Prod.fst, assoc k s.trans = none) ∧ (N.map Prod.fst).Nodup ∧
    (∀ p ∈ N, p.2 ∈ s.trans.map Prod.snd ∨ ∃ m, p.2 = refOf m ∧ s.next ≤ m ∧ m < s.next + a) ∧
    (P.map Prod.fst).Perm ((List.range' s.next a).map refOf) ∧
    (∀ p ∈ P, ∃ src, (src, p.1) ∈ N ∧ Image s'.trans G src p.2) ∧
    s'.tgtV = s.tgtV

theorem Eff.refl (G : Graph) (s : St) : Eff G s s :=
  ⟨[], [], 0, by simp, by simp, by simp, by simp, by simp, by simp, by simp, by simp, rfl⟩

theorem Eff.tgtV {G : Graph} {s s' : St} (h : Eff G s s') : s'.tgtV = s.tgtV := by
  obtain ⟨_, _, _, _, _, _, _, _, _, _, _, h⟩ := h
  exact h

theorem Eff.extends {G : Graph} {s s' : St} (h : Eff G s s') : Extends s.trans s'.trans := by
  obtain ⟨N, P, a, h1, _, _, h4, _⟩ := h
  rw [h1]; exact extends_append N s.trans h4

theorem Eff.next_le {G : Graph} {s s' : St} (h : Eff G s s') : s.next ≤ s'.next := by
  obtain ⟨N, P, a, _, _, h3, _⟩ := h
  omega

theorem Eff.trans {G : Graph} {s1 s2 s3 : St} (h12 : Eff G s1 s2) (h23 : Eff G s2 s3) : Eff G s1 s3 := by
  have hext := h23.extends
  obtain ⟨N1, P1, n1, a1, b1, c1, d1, e1, f1, g1, i1, j1⟩ := h12
  obtain ⟨N2, P2, n2, a2, b2, c2, d2, e2, f2, g2, i2, j2⟩ := h23
  refine ⟨N2 ++ N1, P1 ++ P2, n1 + n2, ?_, ?_, ?_, ?_, ?_, ?_, ?_, ?_, j2.trans j1⟩
  · rw [a2, a1, List.append_assoc]
  · rw [b2, b1, List.append_assoc]
  · rw [c2, c1]; omega
  · intro k hk
    simp only [List.map_append, List.mem_append] at hk
    rcases hk with hk | hk
    · have := d2 k hk
      rw [a1, assoc_append] at this
      split at this <;> simp_all
    · exact d1 k hk
  · rw [List.map_append, List.nodup_append]
    refine ⟨e2, e1, ?_⟩
    intro a ha b hb hab
    subst hab
    have := d2 a ha
    rw [a1, assoc_append] at this
    have hn : assoc a N1 = none := by
      split at this <;> simp_all
    exact (assoc_none_iff a N1).mp hn hb
  · intro p hp
    rcases List.mem_append.mp hp with hp | hp
    · rcases f2 p hp with h | ⟨m, hm, h1, h2⟩
      · rw [a1, List.map_append, List.mem_append] at h
        rcases h with h | h
        · obtain ⟨q, hq, hqe⟩ := List.mem_map.mp h
          rcases f1 q hq with h' | ⟨m, hm, h1, h2⟩
          · exact Or.inl (hqe ▸ h')
          · exact Or.inr ⟨m, hqe ▸ hm, h1, by omega⟩
        · exact Or.inl h
      · exact Or.inr ⟨m, hm, by omega, by omega⟩
    · rcases f1 p hp with h | ⟨m, hm, h1, h2⟩
      · exact Or.inl h
      · exact Or.inr ⟨m, hm, h1, by omega⟩
  · rw [List.map_append, ← List.range'_append_1, List.map_append, ← c1]
    exact List.Perm.append g1 g2
  · intro p hp
    rcases List.mem_append.mp hp with hp | hp
    · obtain ⟨src, hm, him⟩ := i1 p hp
      exact ⟨src, List.mem_append_right _ hm, Image_stable hext G src p.2 him⟩
    · obtain ⟨src, hm, him⟩ := i2 p hp
      exact ⟨src, List.mem_append_left _ hm, him⟩

/-! ### `SortedKeys` looks only at the keys -/

def onVal (f : Obj → Obj) (p : Bytes × Obj) : Bytes × Obj := (p.1, f p.2)

theorem insertKey_map (f : Obj → Obj) (k : Bytes × Obj) (l : KV) :
    insertKey (onVal f k) (l.map (onVal f)) = (insertKey k l).map (onVal f) := by
  induction l with
  | nil => simp [insertKey]
  | cons x xs ih =>
    simp only [List.map_cons, insertKey, onVal]
    split
    · simp [onVal]
    · simp only [List.map_cons, onVal, List.cons.injEq, true_and]
      exact ih

theorem sortKV_map (f : Obj → Obj) (l : KV) : sortKV (l.map (onVal f)) = (sortKV l).map (onVal f) := by
  induction l with
  | nil => simp [sortKV]
  | cons x xs ih => simp only [List.map_cons, sortKV, ih, insertKey_map]

theorem sortedEntries_map (f : Obj → Obj) (l : KV) :
    sortedEntries (l.map (onVal f)) = (sortedEntries l).map (onVal f) := by
  simp only [sortedEntries, List.filter_map, List.map_append, ← sortKV_map]
  rfl

theorem orderedKV_eq_map (l : KV) : orderedKV l = l.map (onVal ordered) := by
  induction l with
  | nil => simp [orderedKV]
  | cons x xs ih => obtain ⟨k, v⟩ := x; simp [orderedKV, ih, onVal]

theorem orderedKV_sortedEntries (kv : KV) :
    orderedKV (sortedEntries kv) = sortedEntries (orderedKV kv) := by
  rw [orderedKV_eq_map, orderedKV_eq_map, sortedEntries_map]


theorem alloc_ok {s s1 : St} {n : Ref} (h : alloc s = .ok (n, s1)) :
    n = refOf s.next ∧ s1 = { s with next := s.next + 1 } := by
  unfold alloc at h
  split at h
  · cases h
  · cases h; exact ⟨rfl, rfl⟩

theorem put_ok {s s' : St} {r : Ref} {v : Val} (h : put s r v = .ok s') :
    s' = { s with puts := s.puts ++ [(r, v)], next := if s.next ≤ r.1 then r.1 + 1 else s.next } := by
  unfold put at h
  split at h
  · cases h
  · split at h
    · cases h
    · cases h; rfl

theorem put_tgtV {s s' : St} {r : Ref} {v : Val} (h : put s r v = .ok s') : s'.tgtV = s.tgtV := by
  rw [put_ok h]

theorem alloc_tgtV {s s1 : St} {n : Ref} (h : alloc s = .ok (n, s1)) : s1.tgtV = s.tgtV := by
  rw [(alloc_ok h).2]



theorem mem_enter_keys {chain : List Ref} {t : Ref} {k : Ref} :
    k ∈ (chain.map fun k => (k, t)).map Prod.fst ↔ k ∈ chain := by
  simp [List.map_map, Function.comp_def]

theorem assoc_enter_none {chain : List Ref} {t k : Ref} {tr : List (Ref × Ref)}
    (h : assoc k (enter chain t tr) = none) : k ∉ chain ∧ assoc k tr = none := by
  unfold enter at h
  rw [assoc_append] at h
  split at h
  · cases h
  · next hn => exact ⟨fun hk => (assoc_none_iff k _).mp hn (mem_enter_keys.mpr hk), h⟩

/-- the branch of `CopyReference` which allocates: the chain ended (or resolves to null) -/
theorem Eff_copyRef_new {G : Graph} {s s3 : St} {r : Ref} {chain : List Ref} {v' : Val}
    (hnd : chain.Nodup) (hfresh : ∀ k ∈ chain, assoc k s.trans = none) (hr : r ∈ chain)
    (h23 : Eff G { trans := enter chain (refOf s.next) s.trans, next := s.next + 1, puts := s.puts,
                   tgtV := s.tgtV } s3)
    (him : Image s3.trans G r v') :
    Eff G s { trans := s3.trans, next := s3.next, puts := s3.puts ++ [(refOf s.next, v')],
              tgtV := s3.tgtV } := by
  obtain ⟨N, P, a, ha, hb, hc, hd, he, hf, hg, hi, hj⟩ := h23
  simp only at ha hb hc hd hf hg hj
  refine ⟨N ++ chain.map (fun k => (k, refOf s.next)), P ++ [(refOf s.next, v')], a + 1,
    ?_, ?_, ?_, ?_, ?_, ?_, ?_, ?_, hj⟩
  · simp [ha, enter]
  · simp [hb]
  · simp only [hc]; omega
  · intro k hk
    rw [List.map_append, List.mem_append] at hk
    rcases hk with hk | hk
    · exact (assoc_enter_none (hd k hk)).2
    · exact hfresh k (mem_enter_keys.mp hk)
  · rw [List.map_append, List.nodup_append]
    refine ⟨he, ?_, ?_⟩
    · simpa [List.map_map, Function.comp_def] using hnd
    · intro x hx y hy hxy
      subst hxy
      exact (assoc_enter_none (hd x hx)).1 (mem_enter_keys.mp hy)
  · intro p hp
    rcases List.mem_append.mp hp with hp | hp
    · rcases hf p hp with h | ⟨m, hm, h1, h2⟩
      · unfold enter at h
        rw [List.map_append, List.mem_append] at h
        rcases h with h | h
        · right
          refine ⟨s.next, ?_, Nat.le_refl _, by omega⟩
          obtain ⟨q, hq, hqe⟩ := List.mem_map.mp h
          obtain ⟨k, _, rfl⟩ := List.mem_map.mp hq
          exact hqe.symm
        · exact Or.inl h
      · exact Or.inr ⟨m, hm, by omega, by omega⟩
    · obtain ⟨k, _, rfl⟩ := List.mem_map.mp hp
      exact Or.inr ⟨s.next, rfl, Nat.le_refl _, by omega⟩
  · rw [List.map_append, Nat.add_comm a 1, ← List.range'_append_1, List.map_append]
    simp only [List.map_cons, List.map_nil, List.range'_one]
    exact (List.Perm.append hg (List.Perm.refl _)).trans List.perm_append_comm
  · intro p hp
    rcases List.mem_append.mp hp with hp | hp
    · obtain ⟨src, hm, hi'⟩ := hi p hp
      exact ⟨src, List.mem_append_left _ hm, hi'⟩
    · simp only [List.mem_singleton] at hp
      subst hp
      exact ⟨r, List.mem_append_right _ (List.mem_map.mpr ⟨r, hr, rfl⟩), him⟩

/-- the branch of `CopyReference` which finds a link of the chain translated already -/
theorem Eff_copyRef_known {G : Graph} {s : St} {chain : List Ref} {t x : Ref}
    (hnd : chain.Nodup) (hfresh : ∀ k ∈ chain, assoc k s.trans = none)
    (hx : assoc x s.trans = some t) :
    Eff G s { s with trans := enter chain t s.trans } := by
  refine ⟨chain.map (fun k => (k, t)), [], 0, rfl, by simp, by simp, ?_, ?_, ?_, by simp, by simp, rfl⟩
  · intro k hk; exact hfresh k (mem_enter_keys.mp hk)
  · simpa [List.map_map, Function.comp_def] using hnd
  · intro p hp
    obtain ⟨k, _, rfl⟩ := List.mem_map.mp hp
    exact Or.inl (List.mem_map.mpr ⟨(x, t), assoc_some_mem _ _ _ hx, rfl⟩)

theorem assoc_enter_mem {chain : List Ref} {t r : Ref} {tr : List (Ref × Ref)} (h : r ∈ chain) :
    assoc r (enter chain t tr) = some t := by
  unfold enter
  rw [assoc_append]
  have : assoc r (chain.map fun k => (k, t)) = some t := by
    induction chain with
    | nil => simp at h
    | cons a l ih =>
      simp only [List.map_cons, assoc]
      split
      · rfl
      · next hne =>
        rcases List.mem_cons.mp h with e | e
        · exact absurd e.symm hne
        · exact ih e
  rw [this]

/-! ### the main induction: what every successful call does -/

def PObj (G : Graph) (f : Nat) : Prop := ∀ s o o' s', copyObj f G s o = .ok (o', s') →
  Eff G s s' ∧ mapObj s'.trans (ordered o) = some o'
def PList (G : Graph) (f : Nat) : Prop := ∀ s xs ys s', copyList f G s xs = .ok (ys, s') →
  Eff G s s' ∧ mapList s'.trans (orderedList xs) = some ys
def PKV (G : Graph) (f : Nat) : Prop := ∀ s L L' s', copyKV f G s L = .ok (L', s') →
  Eff G s s' ∧ mapKV s'.trans (orderedKV L) = some L'
def PRef (G : Graph) (f : Nat) : Prop := ∀ s r t s', copyRef f G s r = .ok (t, s') →
  Eff G s s' ∧ assoc r s'.trans = some t
def PInl (G : Graph) (f : Nat) : Prop := ∀ s src res key res' s',
  inlineKey f G s src res key = .ok (res', s') →
  Eff G s s' ∧ ∀ R, mapKV s.trans R = some res →
    ∃ R', specSet G src key R = some R' ∧ mapKV s'.trans R' = some res'
def PSD (G : Graph) (f : Nat) : Prop := ∀ s src res s', copyStreamDict f G s src = .ok (res, s') →
  Eff G s s' ∧ ∃ D, specDict G src = some D ∧ mapKV s'.trans D = some res
def PVal (G : Graph) (f : Nat) : Prop := ∀ s v v' s', copyVal f G s v = .ok (v', s') →
  Eff G s s' ∧ ∃ sp, specVal G v = some sp ∧ mapVal s'.trans sp = some v'

theorem step_obj (G : Graph) (f : Nat) (hL : PList G f) (hK : PKV G f) (hR : PRef G f) : PObj G (f+1) := by
  intro s o o' s' h
  cases o with
  | dict kv =>
    simp only [copyObj] at h
    split at h
    · cases h
    · next kv' s1 hk =>
      cases h
      obtain ⟨e, m⟩ := hK _ _ _ _ hk
      refine ⟨e, ?_⟩
      simp only [ordered, mapObj, ← orderedKV_sortedEntries, m]
  | arr xs =>
    simp only [copyObj] at h
    split at h
    · cases h
    · next ys s1 hk =>
      cases h
      obtain ⟨e, m⟩ := hL _ _ _ _ hk
      refine ⟨e, ?_⟩
      simp only [ordered, mapObj, m]
  | ref n g =>
    simp only [copyObj] at h
    split at h
    · cases h
    · next t s1 hk =>
      cases h
      obtain ⟨e, m⟩ := hR _ _ _ _ hk
      refine ⟨e, ?_⟩
      simp only [ordered, mapObj, m]
  | _ =>
    simp only [copyObj] at h
    cases h
    exact ⟨Eff.refl G _, by simp [ordered, mapObj]⟩


theorem step_list (G : Graph) (f : Nat) (hO : PObj G f) (hL : PList G f) : PList G (f+1) := by
  intro s xs ys s' h
  cases xs with
  | nil =>
    simp only [copyList] at h
    cases h
    exact ⟨Eff.refl G _, by simp [orderedList, mapList]⟩
  | cons x xs =>
    simp only [copyList] at h
    split at h
    · cases h
    · next y s1 hy =>
      split at h
      · cases h
      · next ys' s2 hys =>
        cases h
        obtain ⟨e1, m1⟩ := hO _ _ _ _ hy
        obtain ⟨e2, m2⟩ := hL _ _ _ _ hys
        refine ⟨e1.trans e2, ?_⟩
        simp only [orderedList, mapList, mapObj_stable e2.extends _ _ m1, m2]

theorem step_kv (G : Graph) (f : Nat) (hO : PObj G f) (hK : PKV G f) : PKV G (f+1) := by
  intro s L L' s' h
  cases L with
  | nil =>
    simp only [copyKV] at h
    cases h
    exact ⟨Eff.refl G _, by simp [orderedKV, mapKV]⟩
  | cons p rest =>
    obtain ⟨k, v⟩ := p
    by_cases hv : v = .null
    · subst hv
      simp only [copyKV] at h
      split at h
      · cases h
      · next rest' s1 hr =>
        cases h
        obtain ⟨e, m⟩ := hK _ _ _ _ hr
        refine ⟨e, ?_⟩
        simp only [orderedKV, ordered, mapKV, mapObj, m]
    · have key : ∀ (v' : Obj) (s1 : St) (rest' : KV) (s2 : St), copyObj f G s v = .ok (v', s1) →
          copyKV f G s1 rest = .ok (rest', s2) →
          Eff G s s2 ∧ mapKV s2.trans (orderedKV ((k, v) :: rest)) = some ((k, v') :: rest') := by
        intro v' s1 rest' s2 hv' hr
        obtain ⟨e1, m1⟩ := hO _ _ _ _ hv'
        obtain ⟨e2, m2⟩ := hK _ _ _ _ hr
        refine ⟨e1.trans e2, ?_⟩
        simp only [orderedKV, mapKV, mapObj_stable e2.extends _ _ m1, m2]
      cases v <;> first
        | exact absurd rfl hv
        | (simp only [copyKV] at h
           split at h
           · cases h
           · next v' s1 hv' =>
             split at h
             · cases h
             · next rest' s2 hr =>
               cases h
               exact key _ _ _ _ hv' hr)


theorem mapKV_kvSet {tr : List (Ref × Ref)} {v w : Obj} (k : Bytes) (hv : mapObj tr v = some w) :
    ∀ (R res : KV), mapKV tr R = some res → mapKV tr (kvSet k v R) = some (kvSet k w res)
  | [], res => by
    simp only [mapKV, kvSet]
    intro e; cases e
    simp [hv, kvSet]
  | (k', v') :: rest, res => by
    simp only [mapKV]
    split
    · next w' rest' h1 h2 =>
      intro e; cases e
      simp only [kvSet]
      split
      · simp [mapKV, hv, h2]
      · simp [mapKV, h1, mapKV_kvSet k hv rest rest' h2]
    · intro e; cases e

theorem step_inl (G : Graph) (f : Nat) (hO : PObj G f) : PInl G (f+1) := by
  intro s src res key res' s' h
  simp only [inlineKey] at h
  split at h
  · next hk =>
    cases h
    refine ⟨Eff.refl G _, fun R hR => ⟨R, ?_, hR⟩⟩
    simp [specSet, hk]
  · next val hk =>
    split at h
    · cases h
    · cases h
    · next inl hi =>
      split at h
      · cases h
      · next repl s1 hc =>
        cases h
        obtain ⟨e, m⟩ := hO _ _ _ _ hc
        refine ⟨e, fun R hR => ⟨kvSet key (ordered inl) R, ?_, ?_⟩⟩
        · simp [specSet, hk, hi]
        · exact mapKV_kvSet key m R res (mapKV_stable e.extends _ _ hR)

theorem step_sd (G : Graph) (f : Nat) (hK : PKV G f) (hI : PInl G f) : PSD G (f+1) := by
  intro s src res s' h
  simp only [copyStreamDict] at h
  split at h
  · cases h
  · next res1 s1 h1 =>
    split at h
    · cases h
    · next res2 s2 h2 =>
      obtain ⟨e1, m1⟩ := hK _ _ _ _ h1
      obtain ⟨e2, m2⟩ := hI _ _ _ _ _ _ h2
      obtain ⟨e3, m3⟩ := hI _ _ _ _ _ _ h
      obtain ⟨R', r1, r2⟩ := m2 _ m1
      obtain ⟨R'', r3, r4⟩ := m3 _ r2
      refine ⟨(e1.trans e2).trans e3, R'', ?_, r4⟩
      simp [specDict, r1, r3]

theorem step_val (G : Graph) (f : Nat) (hO : PObj G f) (hS : PSD G f) : PVal G (f+1) := by
  intro s v v' s' h
  cases v with
  | obj o =>
    simp only [copyVal] at h
    split at h
    · cases h
    · next o' s1 ho =>
      cases h
      obtain ⟨e, m⟩ := hO _ _ _ _ ho
      exact ⟨e, .obj (ordered o), rfl, by simp [mapVal, m]⟩
  | stream dict data enc =>
    simp only [copyVal] at h
    split at h
    · cases h
    · next dict' s1 hd =>
      obtain ⟨e, D, d1, d2⟩ := hS _ _ _ _ hd
      split at h
      · cases h
      · cases h
      · cases h
        exact ⟨e, .stream D data false, by simp [specVal, d1], by simp [mapVal, d2]⟩

theorem step_ref (G : Graph) (f : Nat) (hV : PVal G f) : PRef G (f+1) := by
  intro s r t s' h
  simp only [copyRef] at h
  split at h
  · next t' ht =>
    cases h
    exact ⟨Eff.refl G _, ht⟩
  · next hnone =>
    have hw := walkFrom_out (G := G) hnone
    split at h
    · cases h
    · cases h
    · next t' chain hwk =>
      cases h
      rw [hwk] at hw
      obtain ⟨w1, w2, w3, x, hx, _, _⟩ := hw
      exact ⟨Eff_copyRef_known w1 w2 hx, assoc_enter_mem w3⟩
    · next v chain hwk =>
      rw [hwk] at hw
      obtain ⟨hres, w1, w2, w3, _⟩ := hw
      split at h
      · cases h
      · next n s1 ha =>
        obtain ⟨hn, hs1⟩ := alloc_ok ha
        subst hn; subst hs1
        simp only at h
        split at h
        · cases h
        · next v' s3 hc =>
          split at h
          · cases h
          · next s4 hp =>
            cases h
            obtain ⟨e, sp, p1, p2⟩ := hV _ _ _ _ hc
            have hs4 := put_ok hp
            have hlt : ¬ (s3.next ≤ (refOf s.next).1) := by
              have := e.next_le
              simp only [refOf] at this ⊢
              omega
            rw [if_neg hlt] at hs4
            subst hs4
            have him : Image s3.trans G r v' := ⟨v, sp, hres, p1, p2⟩
            refine ⟨Eff_copyRef_new w1 w2 w3 e him, ?_⟩
            exact e.extends r _ (assoc_enter_mem w3)

theorem copy_main (G : Graph) : ∀ f : Nat,
    PObj G f ∧ PList G f ∧ PKV G f ∧ PInl G f ∧ PSD G f ∧ PVal G f ∧ PRef G f := by
  intro f
  induction f with
  | zero =>
    refine ⟨?_, ?_, ?_, ?_, ?_, ?_, ?_⟩
    · intro s o o' s' h; simp [copyObj] at h
    · intro s o o' s' h; simp [copyList] at h
    · intro s o o' s' h; simp [copyKV] at h
    · intro s a b c d e h; simp [inlineKey] at h
    · intro s o o' s' h; simp [copyStreamDict] at h
    · intro s o o' s' h; simp [copyVal] at h
    · intro s o o' s' h; simp [copyRef] at h
  | succ f ih =>
    obtain ⟨hO, hL, hK, hI, hS, hV, hR⟩ := ih
    exact ⟨step_obj G f hL hK hR, step_list G f hO hL, step_kv G f hO hK, step_inl G f hO,
      step_sd G f hK hI, step_val G f hO hS, step_ref G f hV⟩




/-! ### aliases: every new translation is covered by an object written, or leads to an older one -/

/-- Resolution does not depend on the link at which it starts.  This holds for every graph whose
    chains of references end (or loop) within `MaxExtractDepth` links; a longer chain resolves to
    null from its first links and to its value from the later ones. -/
def LinkInv (G : Graph) : Prop :=
  ∀ a n g, CPY.get G a true = .ok (.obj (.ref n g)) → resolveOrNull G a = resolveOrNull G (n, g)

theorem LinkInv.leads {G : Graph} (hL : LinkInv G) {a b : Ref} (h : Leads G a b) :
    resolveOrNull G a = resolveOrNull G b := by
  induction h with
  | one h => exact hL _ _ _ h
  | more h _ ih => rw [hL _ _ _ h]; exact ih

theorem Image_of_leads {G : Graph} (hL : LinkInv G) {tr : List (Ref × Ref)} {k x : Ref} {v : Val}
    (h : Leads G k x) (hi : Image tr G x v) : Image tr G k v := by
  obtain ⟨sv, sp, h1, h2, h3⟩ := hi
  exact ⟨sv, sp, by rw [hL.leads h]; exact h1, h2, h3⟩

/-- every source reference translated during the call is covered: its target object has been
    written and is its image, or it is an alias (it leads to a reference that was translated
    before the call, to the same target) -/
def AliasOK (G : Graph) (s s' : St) : Prop :=
  ∀ k t, (k, t) ∈ s'.trans → assoc k s.trans = none →
    (∃ v, (t, v) ∈ s'.puts ∧ Image s'.trans G k v) ∨ (∃ x, assoc x s.trans = some t ∧ Leads G k x)

theorem AliasOK.refl (G : Graph) (s : St) : AliasOK G s s := by
  intro k t hm hn
  exact absurd (List.mem_map.mpr ⟨(k, t), hm, rfl⟩) ((assoc_none_iff k s.trans).mp hn)

theorem AliasOK.trans {G : Graph} (hL : LinkInv G) {s1 s2 s3 : St} (e12 : Eff G s1 s2) (e23 : Eff G s2 s3)
    (a12 : AliasOK G s1 s2) (a23 : AliasOK G s2 s3) : AliasOK G s1 s3 := by
  have hext := e23.extends
  obtain ⟨N2, P2, n2, ha2, hb2, _, hd2, _⟩ := e23
  have hputs : ∀ p, p ∈ s2.puts → p ∈ s3.puts := fun p hp => by rw [hb2]; exact List.mem_append_left _ hp
  -- the coverage of an entry of s2 carries over to s3
  have carry : ∀ k t, (k, t) ∈ s2.trans → assoc k s1.trans = none →
      (∃ v, (t, v) ∈ s3.puts ∧ Image s3.trans G k v) ∨ (∃ x, assoc x s1.trans = some t ∧ Leads G k x) := by
    intro k t hm hn
    rcases a12 k t hm hn with ⟨v, hv, hi⟩ | h
    · exact Or.inl ⟨v, hputs _ hv, Image_stable hext G k v hi⟩
    · exact Or.inr h
  intro k t hm hn
  cases h2 : assoc k s2.trans with
  | some t2 =>
    -- k was translated by the first call; the second call did not touch it
    have hm2 : (k, t) ∈ s2.trans := by
      rw [ha2, List.mem_append] at hm
      rcases hm with h | h
      · have := hd2 k (List.mem_map.mpr ⟨(k, t), h, rfl⟩)
        rw [h2] at this; cases this
      · exact h
    exact carry k t hm2 hn
  | none =>
    rcases a23 k t hm h2 with h | ⟨x, hx, hl⟩
    · exact Or.inl h
    · cases h1 : assoc x s1.trans with
      | some t' =>
        have := e12.extends x t' h1
        rw [hx] at this; cases this
        exact Or.inr ⟨x, h1, hl⟩
      | none =>
        rcases carry x t (assoc_some_mem _ _ _ hx) h1 with ⟨v, hv, hi⟩ | ⟨x', hx', hl'⟩
        · exact Or.inl ⟨v, hv, Image_of_leads hL hl hi⟩
        · exact Or.inr ⟨x', hx', hl.trans hl'⟩

def AlObj (G : Graph) (f : Nat) : Prop := ∀ s o o' s', copyObj f G s o = .ok (o', s') → AliasOK G s s'
def AlList (G : Graph) (f : Nat) : Prop := ∀ s xs ys s', copyList f G s xs = .ok (ys, s') → AliasOK G s s'
def AlKV (G : Graph) (f : Nat) : Prop := ∀ s L L' s', copyKV f G s L = .ok (L', s') → AliasOK G s s'
def AlInl (G : Graph) (f : Nat) : Prop := ∀ s src res key res' s',
  inlineKey f G s src res key = .ok (res', s') → AliasOK G s s'
def AlSD (G : Graph) (f : Nat) : Prop := ∀ s src res s', copyStreamDict f G s src = .ok (res, s') → AliasOK G s s'
def AlVal (G : Graph) (f : Nat) : Prop := ∀ s v v' s', copyVal f G s v = .ok (v', s') → AliasOK G s s'
def AlRef (G : Graph) (f : Nat) : Prop := ∀ s r t s', copyRef f G s r = .ok (t, s') → AliasOK G s s'

section
variable (G : Graph) (hL : LinkInv G)
include hL

theorem alstep_obj (f : Nat) (hLi : AlList G f) (hK : AlKV G f) (hR : AlRef G f) : AlObj G (f+1) := by
  intro s o o' s' h
  cases o with
  | dict kv =>
    simp only [copyObj] at h
    split at h
    · cases h
    · next kv' s1 hk => cases h; exact hK _ _ _ _ hk
  | arr xs =>
    simp only [copyObj] at h
    split at h
    · cases h
    · next ys s1 hk => cases h; exact hLi _ _ _ _ hk
  | ref n g =>
    simp only [copyObj] at h
    split at h
    · cases h
    · next t s1 hk => cases h; exact hR _ _ _ _ hk
  | _ => simp only [copyObj] at h; cases h; exact AliasOK.refl G _

theorem alstep_list (f : Nat) (hO : AlObj G f) (hLi : AlList G f) : AlList G (f+1) := by
  intro s xs ys s' h
  cases xs with
  | nil => simp only [copyList] at h; cases h; exact AliasOK.refl G _
  | cons x xs =>
    simp only [copyList] at h
    split at h
    · cases h
    · next y s1 hy =>
      split at h
      · cases h
      · next ys' s2 hys =>
        cases h
        exact AliasOK.trans hL ((copy_main G f).1 _ _ _ _ hy).1 ((copy_main G f).2.1 _ _ _ _ hys).1
          (hO _ _ _ _ hy) (hLi _ _ _ _ hys)

theorem alstep_kv (f : Nat) (hO : AlObj G f) (hK : AlKV G f) : AlKV G (f+1) := by
  intro s L L' s' h
  cases L with
  | nil => simp only [copyKV] at h; cases h; exact AliasOK.refl G _
  | cons p rest =>
    obtain ⟨k, v⟩ := p
    by_cases hv : v = .null
    · subst hv
      simp only [copyKV] at h
      split at h
      · cases h
      · next rest' s1 hr => cases h; exact hK _ _ _ _ hr
    · have key : ∀ (v' : Obj) (s1 : St) (rest' : KV) (s2 : St), copyObj f G s v = .ok (v', s1) →
          copyKV f G s1 rest = .ok (rest', s2) → AliasOK G s s2 := by
        intro v' s1 rest' s2 hv' hr
        exact AliasOK.trans hL ((copy_main G f).1 _ _ _ _ hv').1 ((copy_main G f).2.2.1 _ _ _ _ hr).1
          (hO _ _ _ _ hv') (hK _ _ _ _ hr)
      cases v <;> first
        | exact absurd rfl hv
        | (simp only [copyKV] at h
           split at h
           · cases h
           · next v' s1 hv' =>
             split at h
             · cases h
             · next rest' s2 hr =>
               cases h
               exact key _ _ _ _ hv' hr)

theorem alstep_inl (f : Nat) (hO : AlObj G f) : AlInl G (f+1) := by
  intro s src res key res' s' h
  simp only [inlineKey] at h
  split at h
  · cases h; exact AliasOK.refl G _
  · split at h
    · cases h
    · cases h
    · next inl hi =>
      split at h
      · cases h
      · next repl s1 hc => cases h; exact hO _ _ _ _ hc

theorem alstep_sd (f : Nat) (hK : AlKV G f) (hI : AlInl G f) : AlSD G (f+1) := by
  intro s src res s' h
  simp only [copyStreamDict] at h
  split at h
  · cases h
  · next res1 s1 h1 =>
    split at h
    · cases h
    · next res2 s2 h2 =>
      have e1 := ((copy_main G f).2.2.1 _ _ _ _ h1).1
      have e2 := ((copy_main G f).2.2.2.1 _ _ _ _ _ _ h2).1
      have e3 := ((copy_main G f).2.2.2.1 _ _ _ _ _ _ h).1
      exact AliasOK.trans hL (e1.trans e2) e3
        (AliasOK.trans hL e1 e2 (hK _ _ _ _ h1) (hI _ _ _ _ _ _ h2)) (hI _ _ _ _ _ _ h)

theorem alstep_val (f : Nat) (hO : AlObj G f) (hS : AlSD G f) : AlVal G (f+1) := by
  intro s v v' s' h
  cases v with
  | obj o =>
    simp only [copyVal] at h
    split at h
    · cases h
    · next o' s1 ho => cases h; exact hO _ _ _ _ ho
  | stream dict data enc =>
    simp only [copyVal] at h
    split at h
    · cases h
    · next dict' s1 hd =>
      have := hS _ _ _ _ hd
      split at h
      · cases h
      · cases h
      · cases h; exact this


omit hL in
theorem mem_enter {chain : List Ref} {t : Ref} {tr : List (Ref × Ref)} {k t' : Ref}
    (h : (k, t') ∈ enter chain t tr) : (k ∈ chain ∧ t' = t) ∨ (k, t') ∈ tr := by
  unfold enter at h
  rcases List.mem_append.mp h with h | h
  · obtain ⟨x, hx, he⟩ := List.mem_map.mp h
    cases he; exact Or.inl ⟨hx, rfl⟩
  · exact Or.inr h

/-- all links of a chain that ended resolve to what its first reference resolves to -/
theorem chain_resolve {tr : List (Ref × Ref)} {r : Ref} {v : Val} {c : List Ref}
    (hw : WOutF G tr r (.ends v c)) : ∀ k ∈ c, resolveOrNull G k = .ok v := by
  obtain ⟨hres, _, _, hr, hcase⟩ := hw
  intro k hk
  rcases hcase with ⟨hc, _⟩ | ⟨_, e, _, _, _, hle, _⟩
  · rw [hc] at hk; simp only [List.mem_singleton] at hk; subst hk; exact hres
  · have hre : resolveOrNull G r = resolveOrNull G e := by
      rcases hle r hr with h | h
      · rw [h]
      · exact hL.leads h
    rcases hle k hk with h | h
    · rw [h, ← hre]; exact hres
    · rw [hL.leads h, ← hre]; exact hres

theorem alstep_ref (f : Nat) (hV : AlVal G f) : AlRef G (f+1) := by
  intro s r t s' h
  simp only [copyRef] at h
  split at h
  · cases h; exact AliasOK.refl G _
  · next hnone =>
    have hw := walkFrom_out (G := G) hnone
    split at h
    · cases h
    · cases h
    · next t' chain hwk =>
      cases h
      rw [hwk] at hw
      obtain ⟨_, _, _, x, hx, hlead, _⟩ := hw
      intro k t'' hm hn
      rcases mem_enter hm with ⟨hk, ht⟩ | hm'
      · subst ht; exact Or.inr ⟨x, hx, hlead k hk⟩
      · exact absurd (List.mem_map.mpr ⟨(k, t''), hm', rfl⟩) ((assoc_none_iff k s.trans).mp hn)
    · next v chain hwk =>
      rw [hwk] at hw
      have hall := chain_resolve G hL hw
      obtain ⟨hres, w1, w2, w3, _⟩ := hw
      split at h
      · cases h
      · next n s1 ha =>
        obtain ⟨hn, hs1⟩ := alloc_ok ha
        subst hn; subst hs1
        simp only at h
        split at h
        · cases h
        · next v' s3 hc =>
          split at h
          · cases h
          · next s4 hp =>
            cases h
            obtain ⟨e, sp, p1, p2⟩ := (copy_main G f).2.2.2.2.2.1 _ _ _ _ hc
            have a23 := hV _ _ _ _ hc
            have hs4 := put_ok hp
            have hlt : ¬ (s3.next ≤ (refOf s.next).1) := by
              have := e.next_le
              simp only [refOf] at this ⊢
              omega
            rw [if_neg hlt] at hs4
            subst hs4
            -- the object written for the chain is the image of each of its links
            have himg : ∀ k ∈ chain, Image s3.trans G k v' := fun k hk => ⟨v, sp, hall k hk, p1, p2⟩
            have hput : (refOf s.next, v') ∈ s3.puts ++ [(refOf s.next, v')] := by simp
            intro k t' hm hn
            simp only at hm
            by_cases hkc : k ∈ chain
            · -- a link of the chain: its target is the new object
              have h2 : assoc k (enter chain (refOf s.next) s.trans) = some (refOf s.next) := assoc_enter_mem hkc
              have h3 := e.extends k _ h2
              have : t' = refOf s.next := by
                obtain ⟨N, P, a, ha', _, _, hd, _⟩ := e
                simp only at ha' hd
                rw [ha', List.mem_append] at hm
                rcases hm with hm | hm
                · have := hd k (List.mem_map.mpr ⟨(k, t'), hm, rfl⟩)
                  rw [h2] at this; cases this
                · rcases mem_enter hm with ⟨_, ht⟩ | hm'
                  · exact ht
                  · exact absurd (List.mem_map.mpr ⟨(k, t'), hm', rfl⟩) ((assoc_none_iff k s.trans).mp hn)
              subst this
              exact Or.inl ⟨v', hput, himg k hkc⟩
            · have hn2 : assoc k (enter chain (refOf s.next) s.trans) = none := by
                unfold enter; rw [assoc_append]
                have : assoc k (chain.map fun k => (k, refOf s.next)) = none := by
                  rw [assoc_none_iff]; exact fun h => hkc (mem_enter_keys.mp h)
                rw [this]; exact hn
              rcases a23 k t' hm hn2 with ⟨w, hw', hi⟩ | ⟨x, hx, hl⟩
              · exact Or.inl ⟨w, List.mem_append_left _ hw', hi⟩
              · -- an alias of something known when the value was copied
                unfold enter at hx
                rw [assoc_append] at hx
                split at hx
                · next t0 h0 =>
                  cases hx
                  obtain ⟨q, hq, hqe⟩ := List.mem_map.mp (assoc_some_mem _ _ _ h0)
                  cases hqe
                  exact Or.inl ⟨v', hput, Image_of_leads hL hl (himg x hq)⟩
                · exact Or.inr ⟨x, hx, hl⟩

/-- under `LinkInv`, every successful call covers the translations it makes -/
theorem alias_main : ∀ f : Nat,
    AlObj G f ∧ AlList G f ∧ AlKV G f ∧ AlInl G f ∧ AlSD G f ∧ AlVal G f ∧ AlRef G f := by
  intro f
  induction f with
  | zero =>
    refine ⟨?_, ?_, ?_, ?_, ?_, ?_, ?_⟩
    · intro s o o' s' h; simp [copyObj] at h
    · intro s o o' s' h; simp [copyList] at h
    · intro s o o' s' h; simp [copyKV] at h
    · intro s a b c d e h; simp [inlineKey] at h
    · intro s o o' s' h; simp [copyStreamDict] at h
    · intro s o o' s' h; simp [copyVal] at h
    · intro s o o' s' h; simp [copyRef] at h
  | succ f ih =>
    obtain ⟨hO, hLi, hK, hI, hS, hV, hR⟩ := ih
    exact ⟨alstep_obj G hL f hLi hK hR, alstep_list G hL f hO hLi, alstep_kv G hL f hO hK,
      alstep_inl G hL f hO, alstep_sd G hL f hK hI, alstep_val G hL f hO hS, alstep_ref G hL f hV⟩

end
/-! ### the property theorems -/

theorem copyRef_effect {G : Graph} {f : Nat} {s s' : St} {r t : Ref}
    (h : copyRef f G s r = .ok (t, s')) : Eff G s s' ∧ assoc r s'.trans = some t :=
  (copy_main G f).2.2.2.2.2.2 s r t s' h

theorem refOf_injective : Function.Injective refOf := by
  intro a b h; simpa [refOf] using h

theorem range_refs_nodup (a n : Nat) : ((List.range' a n).map refOf).Nodup := by
  have h : (List.range' a n).Nodup := List.nodup_range' (step := 1) (by omega)
  exact List.Pairwise.map refOf (fun x y hxy hf => hxy (refOf_injective hf)) h


/-- **copied_once.**  A successful `CopyReference` extends `trans` by new source references only
(`trans` stays a function, nothing is overwritten).  Each of them is translated to an object
number allocated by the call, or - a link of a chain of references that leads to an object
translated earlier - to a target that was in `trans` before.  Exactly the allocated numbers are
handed to `Writer.Put`, each exactly once, and each of them is the translation of a new source
reference — for every source graph, cyclic or not. -/
theorem copied_once {G : Graph} {f : Nat} {s s' : St} {r t : Ref}
    (h : copyRef f G s r = .ok (t, s')) :
    ∃ (N : List (Ref × Ref)) (P : List (Ref × Val)),
      s'.trans = N ++ s.trans ∧ s'.puts = s.puts ++ P ∧
      (∀ k ∈ N.map Prod.fst, assoc k s.trans = none) ∧ (N.map Prod.fst).Nodup ∧
      (∀ p ∈ N, p.2 ∈ s.trans.map Prod.snd ∨ ∃ m, p.2 = refOf m ∧ s.next ≤ m ∧ m < s'.next) ∧
      (P.map Prod.fst).Perm ((List.range' s.next (s'.next - s.next)).map refOf) ∧
      (∀ n, s.next ≤ n → n < s'.next → (P.map Prod.fst).count (refOf n) = 1) ∧
      (∀ n, s.next ≤ n → n < s'.next → ∃ k, (k, refOf n) ∈ N) := by
  obtain ⟨N, P, a, ha, hb, hc, hd, he, hf, hg, hi, _⟩ := (copyRef_effect h).1
  have hl : s'.next - s.next = a := by omega
  refine ⟨N, P, ha, hb, hd, he, ?_, ?_, ?_, ?_⟩
  · intro p hp
    rcases hf p hp with h | ⟨m, hm, h1, h2⟩
    · exact Or.inl h
    · exact Or.inr ⟨m, hm, h1, by omega⟩
  · rw [hl]; exact hg
  · intro n h1 h2
    rw [hg.count_eq, (range_refs_nodup _ _).count, if_pos]
    exact List.mem_map.mpr ⟨n, List.mem_range'_1.mpr (by omega), rfl⟩
  · intro n h1 h2
    have hmem : refOf n ∈ P.map Prod.fst :=
      hg.mem_iff.mpr (List.mem_map.mpr ⟨n, List.mem_range'_1.mpr (by omega), rfl⟩)
    obtain ⟨p, hp, hpe⟩ := List.mem_map.mp hmem
    obtain ⟨src, hm, _⟩ := hi p hp
    exact ⟨src, hpe ▸ hm⟩

theorem copy_idempotent {G : Graph} {f : Nat} {s s' : St} {r t : Ref}
    (h : copyRef f G s r = .ok (t, s')) (f' : Nat) :
    copyRef (f' + 1) G s' r = .ok (t, s') := by
  have := (copyRef_effect h).2
  simp [copyRef, this]

/-- the same for every source reference the copier has met so far -/
theorem copy_known {G : Graph} {s : St} {r t : Ref} (h : assoc r s.trans = some t) (f : Nat) :
    copyRef (f + 1) G s r = .ok (t, s) := by
  simp [copyRef, h]

/-- ... and later copies of other objects never change the answer: `trans` only grows -/
theorem copy_stable {G : Graph} {f : Nat} {s s' : St} {r t a ta : Ref}
    (ha : assoc a s.trans = some ta) (h : copyRef f G s r = .ok (t, s')) (f' : Nat) :
    copyRef (f' + 1) G s' a = .ok (ta, s') :=
  copy_known ((copyRef_effect h).1.extends a ta ha) f'

/-- **dangling_is_null.**  A reference that resolves to nothing - here: an object that is not
defined (never written, free, wrong generation); malformed objects, pure reference cycles and
chains deeper than `MaxExtractDepth` are treated alike, see `walkChain` - is copied as a
reference to a new object holding null. -/
theorem dangling_is_null {G : Graph} {s : St} {r : Ref} (f : Nat)
    (hmiss : assoc r G = none)
    (hnew : assoc r s.trans = none)
    (hroom : s.next < Gen.cpy_maxXRefSize)
    (hfree : s.puts.any (fun p => p.1.1 == s.next) = false) :
    copyRef (f + 3) G s r = .ok (refOf s.next,
      { trans := (r, refOf s.next) :: s.trans, next := s.next + 1,
        puts := s.puts ++ [(refOf s.next, .obj .null)], tgtV := s.tgtV }) := by
  have h1 : ¬ (s.next ≥ Gen.cpy_maxXRefSize) := by omega
  have hw : walkFrom G s.trans r = .ends (.obj .null) [r] := by
    unfold walkFrom walkChain
    simp [CPY.get, hmiss]
  simp [copyRef, hnew, hw, alloc, h1, copyVal, copyObj, put, putRefusal, hfree, refOf, enter]

theorem depth_eq : Gen.cpy_MaxExtractDepth = (Gen.cpy_MaxExtractDepth - 2) + 1 + 1 := by decide

theorem resolveOrNull_missing {G : Graph} {r : Ref} (h : assoc r G = none) :
    resolveOrNull G r = .ok (.obj .null) := by
  rw [resolveOrNull, resolve, depth_eq]
  simp [resolveLoop, CPY.get, h]

theorem resolveOrNull_bad {G : Graph} {r : Ref} {e : Entry} (h : assoc r G = some e)
    (hb : e.node = .bad) : resolveOrNull G r = .ok (.obj .null) := by
  rw [resolveOrNull, resolve, depth_eq]
  simp [resolveLoop, CPY.get, h, hb]

/-- a reference that points to itself -/
theorem resolveOrNull_selfloop {G : Graph} {r : Ref} {e : Entry} (h : assoc r G = some e)
    (hb : e.node = .val (.obj (.ref r.1 r.2))) (hs : e.inStm = false) :
    resolveOrNull G r = .ok (.obj .null) := by
  rw [resolveOrNull, resolve, depth_eq]
  simp [resolveLoop, CPY.get, h, hb, hs]


mutual
theorem mapObj_refs {tr : List (Ref × Ref)} :
    ∀ (o o' : Obj), mapObj tr o = some o' → ∀ b ∈ orefs o, ∃ t, assoc b tr = some t
  | .ref n g, o' => by
    simp only [mapObj, orefs, List.mem_singleton]
    split
    · next t ht => intro _ b hb; subst hb; exact ⟨t, ht⟩
    · intro e; cases e
  | .arr xs, o' => by
    simp only [mapObj, orefs]
    split
    · next ys hys => intro _; exact mapList_refs xs ys hys
    · intro e; cases e
  | .dict kv, o' => by
    simp only [mapObj, orefs]
    split
    · next kv' hkv => intro _; exact mapKV_refs kv kv' hkv
    · intro e; cases e
  | .null, _ => by simp [orefs]
  | .nilArr, _ => by simp [orefs]
  | .bool _, _ => by simp [orefs]
  | .int _, _ => by simp [orefs]
  | .real _, _ => by simp [orefs]
  | .name _, _ => by simp [orefs]
  | .str _, _ => by simp [orefs]
  | .op _, _ => by simp [orefs]
theorem mapList_refs {tr : List (Ref × Ref)} :
    ∀ (xs ys : List Obj), mapList tr xs = some ys → ∀ b ∈ lrefs xs, ∃ t, assoc b tr = some t
  | [], ys => by simp [lrefs]
  | x :: xs, ys => by
    simp only [mapList, lrefs, List.mem_append]
    split
    · next y ys' hy hys =>
      intro _ b hb
      rcases hb with hb | hb
      · exact mapObj_refs x y hy b hb
      · exact mapList_refs xs ys' hys b hb
    · intro e; cases e
theorem mapKV_refs {tr : List (Ref × Ref)} :
    ∀ (kv kv' : KV), mapKV tr kv = some kv' → ∀ b ∈ kvrefs kv, ∃ t, assoc b tr = some t
  | [], kv' => by simp [kvrefs]
  | (k, v) :: rest, kv' => by
    simp only [mapKV, kvrefs, List.mem_append]
    split
    · next v' rest' hv hr =>
      intro _ b hb
      rcases hb with hb | hb
      · exact mapObj_refs v v' hv b hb
      · exact mapKV_refs rest rest' hr b hb
    · intro e; cases e
end

theorem mapVal_refs {tr : List (Ref × Ref)} {sp v : Val} (h : mapVal tr sp = some v) :
    ∀ b ∈ valRefs sp, ∃ t, assoc b tr = some t := by
  cases sp with
  | obj o =>
    simp only [mapVal] at h
    split at h
    · next o' ho => exact mapObj_refs o o' ho
    · cases h
  | stream d data enc =>
    simp only [mapVal] at h
    split at h
    · next d' hd => exact mapKV_refs d d' hd
    · cases h


/-- a source reference is exempt from the consistency claim if the caller redirected it, or if
    it is an alias (a chain of references) of a redirected reference -/
def Exempt (G : Graph) (Rd : List Ref) (src : Ref) : Prop := src ∈ Rd ∨ ∃ x ∈ Rd, Leads G src x

theorem not_exempt_nil (G : Graph) (src : Ref) : ¬ Exempt G [] src := by
  rintro (h | ⟨x, h, _⟩) <;> simp at h

/-- The copier state is consistent: the objects written have distinct numbers below `next`,
    and every translated source reference (except the redirected ones `Rd` and their aliases) has
    its object written, which is the image of the source object under the current translation. -/
def Consistent (G : Graph) (Rd : List Ref) (s : St) : Prop :=
  (s.puts.map Prod.fst).Nodup ∧ (∀ k ∈ s.puts.map Prod.fst, k.1 < s.next) ∧
  ∀ src t, (src, t) ∈ s.trans → ¬ Exempt G Rd src →
    ∃ v, assoc t s.puts = some v ∧ Image s.trans G src v

/-- the state of a new `Copier` on a target whose next free number is `n0`; `tv` is /V of the
    target's encryption dictionary (0: not encrypted) -/
def St.init (n0 : Nat) (tv : Nat := 0) : St := { trans := [], next := n0, puts := [], tgtV := tv }

theorem init_consistent (G : Graph) (n0 : Nat) (tv : Nat := 0) : Consistent G [] (St.init n0 tv) := by
  simp [Consistent, St.init]

theorem Eff.consistent' {G : Graph} (hL : LinkInv G) {Rd : List Ref} {s s' : St}
    (hc : Consistent G Rd s) (h : Eff G s s') (hal : AliasOK G s s') : Consistent G Rd s' := by
  obtain ⟨c1, c2, c3⟩ := hc
  have hext := h.extends
  obtain ⟨N, P, a, ha, hb, hcn, hd, he, hf, hg, hi, _⟩ := h
  have hPnodup : (P.map Prod.fst).Nodup := (List.Perm.nodup_iff hg).mpr (range_refs_nodup _ _)
  have hPmem : ∀ k ∈ P.map Prod.fst, s.next ≤ k.1 ∧ k.1 < s'.next := by
    intro k hk
    obtain ⟨m, hm, rfl⟩ := List.mem_map.mp (hg.mem_iff.mp hk)
    have := List.mem_range'_1.mp hm
    simp only [refOf]; omega
  refine ⟨?_, ?_, ?_⟩
  · rw [hb, List.map_append, List.nodup_append]
    refine ⟨c1, hPnodup, ?_⟩
    intro x hx y hy hxy
    subst hxy
    have := c2 x hx
    have := hPmem x hy
    omega
  · intro k hk
    rw [hb, List.map_append, List.mem_append] at hk
    rcases hk with hk | hk
    · have := c2 k hk; omega
    · exact (hPmem k hk).2
  · intro src t hm hr
    -- an entry that was there before
    have old : ∀ src, (src, t) ∈ s.trans → ¬ Exempt G Rd src → ∃ v, assoc t s'.puts = some v ∧ Image s.trans G src v := by
      intro src hm hr
      obtain ⟨v, hv, him⟩ := c3 src t hm hr
      exact ⟨v, by rw [hb, assoc_append, hv], him⟩
    cases hn : assoc src s.trans with
    | some t0 =>
      have hm' : (src, t) ∈ s.trans := by
        rw [ha, List.mem_append] at hm
        rcases hm with h | h
        · have := hd src (List.mem_map.mpr ⟨(src, t), h, rfl⟩)
          rw [hn] at this; cases this
        · exact h
      obtain ⟨v, hv, him⟩ := old src hm' hr
      exact ⟨v, hv, Image_stable hext G src v him⟩
    | none =>
      rcases hal src t hm hn with ⟨v, hv, him⟩ | ⟨x, hx, hl⟩
      · -- written during this call, or before
        refine ⟨v, ?_, him⟩
        rw [hb, List.mem_append] at hv
        rcases hv with hv | hv
        · have hnd : ((s.puts ++ P).map Prod.fst).Nodup := by
            rw [List.map_append, List.nodup_append]
            refine ⟨c1, hPnodup, ?_⟩
            intro x hx y hy hxy
            subst hxy
            have := c2 x hx
            have := hPmem x hy
            omega
          rw [hb]
          exact assoc_of_mem_nodup _ _ _ hnd (List.mem_append_left _ hv)
        · have hnd : ((s.puts ++ P).map Prod.fst).Nodup := by
            rw [List.map_append, List.nodup_append]
            refine ⟨c1, hPnodup, ?_⟩
            intro x hx y hy hxy
            subst hxy
            have := c2 x hx
            have := hPmem x hy
            omega
          rw [hb]
          exact assoc_of_mem_nodup _ _ _ hnd (List.mem_append_right _ hv)
      · -- an alias of a reference translated before: covered like that one
        have hxr : ¬ Exempt G Rd x := by
          rintro (hx' | ⟨y, hy, hly⟩)
          · exact hr (Or.inr ⟨x, hx', hl⟩)
          · exact hr (Or.inr ⟨y, hy, hl.trans hly⟩)
        obtain ⟨v, hv, him⟩ := old x (assoc_some_mem _ _ _ hx) hxr
        exact ⟨v, hv, Image_of_leads hL hl (Image_stable hext G x v him)⟩

/-- `CopyReference` keeps the state consistent -/
theorem copyRef_consistent {G : Graph} (hL : LinkInv G) {Rd : List Ref}
    {f : Nat} {s s' : St} {r t : Ref} (hc : Consistent G Rd s) (h : copyRef f G s r = .ok (t, s')) :
    Consistent G Rd s' :=
  Eff.consistent' hL hc (copyRef_effect h).1 ((alias_main G hL f).2.2.2.2.2.2 s r t s' h)

/-- **copy_iso.**  From a consistent copier state (in particular a new `Copier`), after a
successful `CopyReference(r)`: every source reference `b` reachable from `r` — through arrays,
dictionaries, stream dictionaries, chains of references and around cycles — has a translation
`t'`, the object `t'` has been written, and it is the image under the final translation of what
`b` resolves to (chain shortened; dictionaries in key order; /Filter and /DecodeParms inlined;
stream bytes unchanged).  (`LinkInv`: no chain of references longer than `MaxExtractDepth`.) -/
theorem copy_iso {G : Graph} (hL : LinkInv G) {f : Nat} {s s' : St} {r t : Ref}
    (hc : Consistent G [] s) (h : copyRef f G s r = .ok (t, s')) :
    ∀ b, Reach G r b →
      ∃ t' v, assoc b s'.trans = some t' ∧ assoc t' s'.puts = some v ∧ Image s'.trans G b v := by
  obtain ⟨e, hr⟩ := copyRef_effect h
  have hc' := copyRef_consistent hL hc h
  intro b hb
  induction hb with
  | root =>
    obtain ⟨v, hv, him⟩ := hc'.2.2 r t (assoc_some_mem _ _ _ hr) (not_exempt_nil G r)
    exact ⟨t, v, hr, hv, him⟩
  | @step a b _ hmem ih =>
    obtain ⟨ta, va, _, _, sv, sp, h1, h2, h3⟩ := ih
    have hb : b ∈ valRefs sp := by
      simpa [specRefs, h1, h2] using hmem
    obtain ⟨tb, htb⟩ := mapVal_refs h3 b hb
    obtain ⟨v, hv, him⟩ := hc'.2.2 b tb (assoc_some_mem _ _ _ htb) (not_exempt_nil G b)
    exact ⟨tb, v, htb, hv, him⟩

theorem stream_bytes_preserved {tr : List (Ref × Ref)} {G : Graph} {b : Ref} {v : Val}
    {dict : KV} {data : Bytes} {enc : Bool}
    (hres : resolveOrNull G b = .ok (.stream dict data enc)) (him : Image tr G b v) :
    ∃ d', v = .stream d' data false := by
  obtain ⟨sv, sp, h1, h2, h3⟩ := him
  rw [hres] at h1
  cases h1
  simp only [specVal] at h2
  split at h2
  · next D hD =>
    cases h2
    simp only [mapVal] at h3
    split at h3
    · next d' hd => cases h3; exact ⟨d', rfl⟩
    · cases h3
  · cases h2

/-! ### what the image preserves -/

theorem mapList_length {tr : List (Ref × Ref)} :
    ∀ (xs ys : List Obj), mapList tr xs = some ys → ys.length = xs.length
  | [], ys => by simp [mapList]
  | x :: xs, ys => by
    simp only [mapList]
    split
    · next y ys' hy hys => intro e; cases e; simp [mapList_length xs ys' hys]
    · intro e; cases e

theorem orderedList_length : ∀ xs : List Obj, (orderedList xs).length = xs.length
  | [] => rfl
  | x :: xs => by simp [orderedList, orderedList_length xs]

/-- array lengths (in particular empty arrays) are preserved -/
theorem image_arr {tr : List (Ref × Ref)} {xs : List Obj} {o' : Obj}
    (h : mapObj tr (ordered (.arr xs)) = some o') : ∃ ys, o' = .arr ys ∧ ys.length = xs.length := by
  simp only [ordered, mapObj] at h
  split at h
  · next ys hys => cases h; exact ⟨ys, rfl, by rw [mapList_length _ _ hys, orderedList_length]⟩
  · cases h

theorem mapKV_keys {tr : List (Ref × Ref)} :
    ∀ (kv kv' : KV), mapKV tr kv = some kv' → kv'.map Prod.fst = kv.map Prod.fst
  | [], kv' => by simp [mapKV]
  | (k, v) :: rest, kv' => by
    simp only [mapKV]
    split
    · next v' rest' hv hr => intro e; cases e; simp [mapKV_keys rest rest' hr]
    · intro e; cases e

theorem insertKey_perm (k : Bytes × Obj) (l : KV) : (insertKey k l).Perm (k :: l) := by
  induction l with
  | nil => simp [insertKey]
  | cons x xs ih =>
    simp only [insertKey]
    split
    · exact List.Perm.refl _
    · exact (List.Perm.cons x ih).trans (List.Perm.swap k x xs)

theorem sortKV_perm (l : KV) : (sortKV l).Perm l := by
  induction l with
  | nil => simp [sortKV]
  | cons x xs ih => exact (insertKey_perm x (sortKV xs)).trans (List.Perm.cons x ih)

theorem keyType_ne_keySubtype : keyType ≠ keySubtype := by decide

/-- `Dict.SortedKeys` lists every entry exactly once -/
theorem sortedEntries_perm (l : KV) : (sortedEntries l).Perm l := by
  unfold sortedEntries
  induction l with
  | nil => simp [sortKV]
  | cons x xs ih =>
    by_cases h1 : x.1 = keyType
    · have h2 : x.1 ≠ keySubtype := by rw [h1]; exact keyType_ne_keySubtype
      simp only [List.filter_cons, h1, beq_self_eq_true, ↓reduceIte, bne_self_eq_false, Bool.false_and,
        Bool.false_eq_true]
      have : (keyType == keySubtype) = false := by decide
      simp only [this, Bool.false_eq_true, ↓reduceIte, List.cons_append]
      simpa [h1] using List.Perm.cons x ih
    · by_cases h2 : x.1 = keySubtype
      · simp only [List.filter_cons, h2, beq_self_eq_true, ↓reduceIte, bne_self_eq_false, Bool.and_false,
          Bool.false_eq_true]
        have : (keySubtype == keyType) = false := by decide
        simp only [this, Bool.false_eq_true, ↓reduceIte]
        refine (List.Perm.trans ?_ (List.Perm.cons x ih))
        simp only [List.append_assoc]
        exact List.perm_middle
      · have e1 : (x.1 == keyType) = false := by simpa using h1
        have e2 : (x.1 == keySubtype) = false := by simpa using h2
        simp only [List.filter_cons, e1, e2, Bool.false_eq_true, ↓reduceIte, bne, Bool.not_false, Bool.and_self,
          sortKV]
        refine (List.Perm.trans ?_ (List.Perm.cons x ih))
        refine (List.Perm.append_left _ (insertKey_perm x _)).trans ?_
        exact List.perm_middle


/-- dictionary keys are preserved (the copy lists them in `SortedKeys` order), so are empty
dictionaries -/
theorem image_dict {tr : List (Ref × Ref)} {kv : KV} {o' : Obj}
    (h : mapObj tr (ordered (.dict kv)) = some o') :
    ∃ kv', o' = .dict kv' ∧ (kv'.map Prod.fst).Perm (kv.map Prod.fst) := by
  simp only [ordered, mapObj] at h
  split at h
  · next kv' hkv =>
    cases h
    refine ⟨kv', rfl, ?_⟩
    rw [mapKV_keys _ _ hkv]
    refine ((sortedEntries_perm _).map Prod.fst).trans ?_
    rw [orderedKV_eq_map, List.map_map]
    exact List.Perm.of_eq (List.map_congr_left (fun p _ => rfl))
  · cases h

/-- scalars (null, booleans, numbers, names, strings) are copied unchanged -/
theorem image_scalar {tr : List (Ref × Ref)} {o o' : Obj}
    (hs : match o with | .arr _ | .dict _ | .ref _ _ => False | _ => True)
    (h : mapObj tr (ordered o) = some o') : o' = o := by
  cases o <;> simp_all [ordered, mapObj]

/-- a null entry of a dictionary stays a null entry -/
theorem mapKV_null {tr : List (Ref × Ref)} (k : Bytes) :
    ∀ (kv kv' : KV), mapKV tr kv = some kv' → (k, Obj.null) ∈ kv → (k, Obj.null) ∈ kv'
  | [], kv' => by simp
  | (k', v) :: rest, kv' => by
    simp only [mapKV]
    split
    · next v' rest' hv hr =>
      intro e hm; cases e
      rcases List.mem_cons.mp hm with h | h
      · cases h
        simp only [mapObj] at hv
        cases hv; exact List.mem_cons_self
      · exact List.mem_cons_of_mem _ (mapKV_null k rest rest' hr h)
    · intro e; cases e

/-- a reference is copied as the reference `trans` assigns to it -/
theorem image_ref {tr : List (Ref × Ref)} {n g : Nat} {o' : Obj}
    (h : mapObj tr (ordered (.ref n g)) = some o') :
    ∃ t, assoc (n, g) tr = some t ∧ o' = .ref t.1 t.2 := by
  simp only [ordered, mapObj] at h
  split at h
  · next t ht => cases h; exact ⟨t, ht, rfl⟩
  · cases h


/-! ### written object numbers stay below `next` -/

/-- the numbers of the objects written are below `next` (true for a new Writer, kept by every
    call; it is what makes `Writer.Put` accept the freshly allocated number) -/
def PB (s : St) : Prop := ∀ k ∈ s.puts.map Prod.fst, k.1 < s.next

/-- ok, or the object-number overflow of `Writer.Alloc` -/
def Fine {α : Type} (x : Except CErr α) : Prop := (∃ a, x = .ok a) ∨ x = .error .overflow

theorem Eff.new_keys {G : Graph} {s s' : St} (h : Eff G s s') :
    ∃ P : List (Ref × Val), s'.puts = s.puts ++ P ∧
      ∀ k ∈ P.map Prod.fst, ∃ m, k = refOf m ∧ s.next ≤ m ∧ m < s'.next := by
  obtain ⟨N, P, a, _, b, c, _, _, _, g, _, _⟩ := h
  refine ⟨P, b, ?_⟩
  intro k hk
  obtain ⟨m, hm, rfl⟩ := List.mem_map.mp (g.mem_iff.mp hk)
  have := List.mem_range'_1.mp hm
  exact ⟨m, rfl, by omega, by omega⟩

theorem Eff.pb {G : Graph} {s s' : St} (hp : PB s) (h : Eff G s s') : PB s' := by
  obtain ⟨P, hb, hk⟩ := h.new_keys
  have hn := h.next_le
  intro k hkm
  rw [hb, List.map_append, List.mem_append] at hkm
  rcases hkm with e | e
  · have := hp k e; omega
  · obtain ⟨m, rfl, _, h2⟩ := hk k e
    simpa [refOf] using h2

/-- the copier state belongs to a target with /V `tv`, and its written numbers are below `next` -/
def PBT (tv : Nat) (s : St) : Prop := PB s ∧ s.tgtV = tv

theorem Eff.pbt {G : Graph} {tv : Nat} {s s' : St} (h : Eff G s s') (hp : PBT tv s) : PBT tv s' :=
  ⟨h.pb hp.1, h.tgtV.trans hp.2⟩

end PdfVerif.C11cpy

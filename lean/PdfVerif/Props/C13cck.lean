import PdfVerif.Props.C13ccj
/-!
# C13 (part 11) — notdef ranges apply to every code of their box, whatever its position

`LookupNotdefCID` tests containment byte by byte (`inBox`); unlike `rangeIndex` (used for
cidranges, where a position above `math.MaxInt32` cannot yield a CID and is reported as "not in
the range") it has **no index bound**: a notdef range with more than 2^31 codes gives its CID to
all of them.  (Seeded defect C13-s2 replaced the containment test by `rangeIndex`.)
-/
namespace PdfVerif.C13cck
open PdfVerif PdfVerif.CC PdfVerif.C13cc

theorem inBox_iff (f l c : Bytes) (h1 : f.length = c.length) (h2 : l.length = c.length) :
    inBox f l c = true ↔ InBox f l c := by
  induction f generalizing l c with
  | nil =>
    have a := List.length_eq_zero_iff.mp h1.symm
    subst a
    have b := List.length_eq_zero_iff.mp h2
    subst b
    simp [inBox, InBox]
  | cons a f ih =>
    cases l with
    | nil => cases c <;> simp at h1 h2
    | cons b l =>
      cases c with
      | nil => simp at h1
      | cons x c =>
        simp only [inBox, InBox]
        by_cases hx : x < a ∨ x > b
        · have : (decide (x < a) || decide (x > b)) = true := by simpa using hx
          simp only [this, if_true]
          constructor
          · intro h; cases h
          · intro ⟨h3, h4, _⟩; omega
        · have : (decide (x < a) || decide (x > b)) = false := by simpa using hx
          simp only [this, Bool.false_eq_true, if_false]
          rw [ih l c (by simpa using h1) (by simpa using h2)]
          constructor
          · intro h; exact ⟨by omega, by omega, h⟩
          · intro ⟨_, _, h⟩; exact h

/-- a notdef range whose box contains the code answers with its value — no condition on the
position of the code inside the range -/
theorem findNotdefRange_hit (code : Bytes) (r : CRange) (rest : List CRange) (h : InBox r.first r.last code) :
    findNotdefRange code (r :: rest) = some r.value := by
  have hl := inBox_len r.first r.last code h
  have hb := (inBox_iff r.first r.last code hl.1 hl.2).mpr h
  simp [findNotdefRange, hl.1, hl.2, hb]

theorem findNotdefRange_miss (code : Bytes) (r : CRange) (rest : List CRange) (h : ¬ InBox r.first r.last code) :
    findNotdefRange code (r :: rest) = findNotdefRange code rest := by
  simp only [findNotdefRange]
  split
  · rfl
  · rename_i hl
    simp only [bne_iff_ne, ne_eq, Bool.or_eq_true, not_or, Decidable.not_not] at hl
    have : inBox r.first r.last code = false := by
      cases hb : inBox r.first r.last code with
      | false => rfl
      | true => exact absurd ((inBox_iff _ _ _ hl.1 hl.2).mp hb) h
    simp [this]

/-- the first notdef range whose box contains the code decides -/
theorem findNotdefRange_spec (code : Bytes) : ∀ (l : List CRange),
    (∀ r ∈ l, ¬ InBox r.first r.last code) ∧ findNotdefRange code l = none ∨
    ∃ pre r post, l = pre ++ r :: post ∧ (∀ r' ∈ pre, ¬ InBox r'.first r'.last code) ∧
      InBox r.first r.last code ∧ findNotdefRange code l = some r.value := by
  intro l
  induction l with
  | nil => left; simp [findNotdefRange]
  | cons r rest ih =>
    by_cases h : InBox r.first r.last code
    · right; exact ⟨[], r, rest, rfl, by simp, h, findNotdefRange_hit code r rest h⟩
    · rw [findNotdefRange_miss code r rest h]
      rcases ih with ⟨h1, h2⟩ | ⟨pre, r', post, e, h1, h2, h3⟩
      · left; exact ⟨by intro x hx; rcases List.mem_cons.mp hx with rfl | hx; exact h; exact h1 x hx, h2⟩
      · right
        refine ⟨r :: pre, r', post, by rw [e]; rfl, ?_, h2, h3⟩
        intro x hx; rcases List.mem_cons.mp hx with rfl | hx; exact h; exact h1 x hx

/-- **`LookupNotdefCID` is independent of the position inside the range**: if no notdef single
has the code and `r` is the first notdef range of the file whose box contains it, the result is
`r.value` — for EVERY code of the box (also at mixed-radix positions above `math.MaxInt32`). -/
theorem lookupNotdef_position_independent (f : CMapFile) (parents : Chain) (code : Bytes)
    (pre : List CRange) (r : CRange) (post : List CRange)
    (hs : findSingle code f.ndSingles = none) (hr : f.ndRanges = pre ++ r :: post)
    (hpre : ∀ r' ∈ pre, ¬ InBox r'.first r'.last code) (hin : InBox r.first r.last code) :
    lookupNotdef (f :: parents) code = r.value := by
  simp only [lookupNotdef, hs, hr]
  have : findNotdefRange code (pre ++ r :: post) = some r.value := by
    clear hr
    induction pre with
    | nil => exact findNotdefRange_hit code r post hin
    | cons x pre ih =>
      rw [List.cons_append, findNotdefRange_miss code x _ (hpre x (by simp))]
      exact ih (fun r' hr' => hpre r' (by simp [hr']))
  rw [this]

/-- … whereas `rangeIndex` (cidranges) refuses positions above `math.MaxInt32` -/
theorem rangeIndex_none_beyond_cap (first last code : Bytes) (hc : code ≠ []) (hin : InBox first last code)
    (hpos : maxInt32 < mixedIndex first last code) : rangeIndex first last code = none := by
  cases h : rangeIndex first last code with
  | none => rfl
  | some i =>
    obtain ⟨_, h2, h3⟩ := (rangeIndex_iff first last code hc i).mp h
    omega

/-- the witness of the seeded defect C13-s2: code space `<00>-<1F>`, `<20000000>-<FFFFFFFF>`, notdef
range over all 4-byte codes → 7; `<A0000000>` lies at position 2^31 (> MaxInt32): `rangeIndex`
says "outside", the notdef lookup says 7 -/
example : rangeIndex [0x20, 0, 0, 0] [0xff, 0xff, 0xff, 0xff] [0xa0, 0, 0, 0] = none ∧
    lookupNotdef [⟨[], [], [], [], [⟨[0x20, 0, 0, 0], [0xff, 0xff, 0xff, 0xff], 7⟩]⟩] [0xa0, 0, 0, 0] = 7 ∧
    lookupCID [⟨[], [], [], [], [⟨[0x20, 0, 0, 0], [0xff, 0xff, 0xff, 0xff], 7⟩]⟩] [0xa0, 0, 0, 0] = 7 ∧
    lookupCID [⟨[], [], [], [], [⟨[0x20, 0, 0, 0], [0xff, 0xff, 0xff, 0xff], 7⟩]⟩] [0xff, 0xff, 0xff, 0xff] = 7 := by
  decide +kernel

end PdfVerif.C13cck

import PdfVerif.Model.HISReader
import PdfVerif.Props.C04hisb
/-!
# C04 (part 5) — all offsets are relative to the header (`header_offset`, first steps)

Junk before the header (no `%PDF-` inside it, header still within the first 1024 bytes) moves
the header offset found by `findHeaderOffset` and the position of the newest cross-reference
section found by `findXRef` by exactly its length.  (The same shift for the positions of the
objects themselves is validated by the harness — junk of 0–1019 bytes — not proved.)
-/
namespace PdfVerif.C04hise
open PdfVerif PdfVerif.HIS PdfVerif.C04hisb

/-- no occurrence of `pat` starts inside the first `n` bytes -/
def NoneBefore (pat bs : Bytes) (n : Nat) : Prop := ∀ j, j < n → isPrefixOf pat (bs.drop j) = false

theorem indexOf_skip (pat : Bytes) (_hp : pat ≠ []) : ∀ (junk f : Bytes), NoneBefore pat (junk ++ f) junk.length →
    indexOf pat (junk ++ f) = (indexOf pat f).map (· + junk.length) := by
  intro junk
  induction junk with
  | nil => intro f _; cases h : indexOf pat f <;> simp [h]
  | cons c cs ih =>
    intro f h
    have h0 := h 0 (by simp)
    simp only [List.drop_zero, List.cons_append] at h0
    have ih' := ih f (fun j hj => by have := h (j + 1) (by simp; omega); simpa using this)
    show indexOf pat (c :: (cs ++ f)) = _
    rw [indexOf, h0, ih']
    cases indexOf pat f with
    | none => simp
    | some v => simp; omega

theorem take_append_ge (a b : Bytes) (n : Nat) (h : a.length ≤ n) :
    (a ++ b).take n = a ++ b.take (n - a.length) := by
  rw [List.take_append]; simp [List.take_of_length_le h]

/-- **The header is the first `%PDF-`.**  Junk of any content before the header — as long as no
`%PDF-` starts inside it and the header still lies in the first 1024 bytes — moves the header
offset by exactly its length. -/
theorem header_offset_junk (junk f : Bytes) (i : Nat)
    (hno : NoneBefore findHeaderOffset.pdfMagicR (junk ++ f) junk.length)
    (hf : indexOf findHeaderOffset.pdfMagicR (f.take (1024 - junk.length)) = some i)
    (hj : junk.length ≤ 1024) :
    findHeaderOffset (junk ++ f) = .ok (junk.length + i) := by
  unfold findHeaderOffset
  rw [take_append_ge junk f 1024 hj]
  have hno' : NoneBefore findHeaderOffset.pdfMagicR (junk ++ f.take (1024 - junk.length)) junk.length := by
    intro j hj'
    have h1 := hno j hj'
    -- an occurrence in the truncated text would be an occurrence in the whole
    cases hocc : isPrefixOf findHeaderOffset.pdfMagicR ((junk ++ f.take (1024 - junk.length)).drop j) with
    | false => rfl
    | true =>
      have key : ∀ (kw a b : Bytes) (n : Nat), isPrefixOf kw (a ++ b.take n) = true → isPrefixOf kw (a ++ b) = true := by
        intro kw
        induction kw with
        | nil => intro a b n _; rfl
        | cons k ks ih =>
          intro a b n h
          cases a with
          | nil =>
            cases b with
            | nil => simp [isPrefixOf] at h
            | cons x xs =>
              cases n with
              | zero => simp [isPrefixOf] at h
              | succ n =>
                simp only [List.nil_append, List.take_succ_cons, isPrefixOf, Bool.and_eq_true] at h ⊢
                exact ⟨h.1, by have := ih [] xs n (by simpa using h.2); simpa using this⟩
          | cons x xs =>
            simp only [List.cons_append, isPrefixOf, Bool.and_eq_true] at h ⊢
            exact ⟨h.1, ih xs b n h.2⟩
      have hd : (junk ++ f.take (1024 - junk.length)).drop j = junk.drop j ++ f.take (1024 - junk.length) := by
        rw [List.drop_append_of_le_length (by omega)]
      have hd2 : (junk ++ f).drop j = junk.drop j ++ f := by
        rw [List.drop_append_of_le_length (by omega)]
      rw [hd] at hocc
      rw [hd2, key _ _ _ _ hocc] at h1
      cases h1
  rw [indexOf_skip _ (by simp [findHeaderOffset.pdfMagicR]) junk _ hno', hf]
  simp [Nat.add_comm]

/-! ### `startxref` is searched from the end, its value is relative to the header -/

theorem lastFrom_best (pat : Bytes) : ∀ (bs : Bytes) (i : Nat) (best : Option Nat),
    lastIndexOfFrom pat i bs best =
      match lastIndexOfFrom pat i bs none with
      | some r => some r
      | none => best := by
  intro bs
  induction bs with
  | nil => intro i best; simp [lastIndexOfFrom]
  | cons c cs ih =>
    intro i best
    simp only [lastIndexOfFrom]
    rw [ih (i + 1) (if isPrefixOf pat (c :: cs) = true then some i else best),
        ih (i + 1) (if isPrefixOf pat (c :: cs) = true then some i else none)]
    cases lastIndexOfFrom pat (i + 1) cs none with
    | some r => rfl
    | none => cases isPrefixOf pat (c :: cs) <;> simp

theorem lastFrom_shift (pat : Bytes) : ∀ (bs : Bytes) (i k : Nat),
    lastIndexOfFrom pat (i + k) bs none = (lastIndexOfFrom pat i bs none).map (· + k) := by
  intro bs
  induction bs with
  | nil => intro i k; simp [lastIndexOfFrom]
  | cons c cs ih =>
    intro i k
    simp only [lastIndexOfFrom]
    rw [lastFrom_best pat cs (i + k + 1), lastFrom_best pat cs (i + 1)]
    have : i + k + 1 = (i + 1) + k := by omega
    rw [this, ih (i + 1) k]
    cases lastIndexOfFrom pat (i + 1) cs none with
    | some r => simp
    | none => cases isPrefixOf pat (c :: cs) <;> simp

theorem lastFrom_append (pat : Bytes) : ∀ (a b : Bytes) (i : Nat) (best : Option Nat),
    ∃ best', lastIndexOfFrom pat i (a ++ b) best = lastIndexOfFrom pat (i + a.length) b best' := by
  intro a
  induction a with
  | nil => intro b i best; exact ⟨best, by simp⟩
  | cons c cs ih =>
    intro b i best
    obtain ⟨best', h⟩ := ih b (i + 1) (if isPrefixOf pat (c :: (cs ++ b)) = true then some i else best)
    refine ⟨best', ?_⟩
    simp only [List.cons_append, lastIndexOfFrom, h, List.length_cons]
    congr 1; omega

/-- if the file proper contains the pattern, junk in front only shifts its last occurrence -/
theorem lastOccurrence_junk (pat junk f : Bytes) (p : Nat) (h : lastOccurrence pat f = some p) :
    lastOccurrence pat (junk ++ f) = some (p + junk.length) := by
  unfold lastOccurrence at h ⊢
  obtain ⟨best', hb⟩ := lastFrom_append pat junk f 0 none
  rw [hb, lastFrom_best, Nat.zero_add]
  have := lastFrom_shift pat f 0 junk.length
  rw [Nat.zero_add] at this
  rw [this, h]; rfl

/-- **`startxref` is relative to the header.**  With junk before the header the position of
the newest cross-reference section moves by exactly the length of the junk: the value after
`startxref` is added to the header offset, and its range check uses the size of the file
minus the header offset. -/
theorem findXRef_junk (junk f : Bytes) (i p : Nat) (h : lastOccurrence kwStartxrefT f = some p) :
    findXRef (junk ++ f) (junk.length + i) =
      match findXRef f i with
      | .ok x => .ok (x + junk.length)
      | .error e => .error e := by
  unfold findXRef
  rw [lastOccurrence_junk _ junk f p h, h]
  simp only
  have hd : (junk ++ f).drop (p + junk.length + 9) = f.drop (p + 9) := by
    have : p + junk.length + 9 = junk.length + (p + 9) := by omega
    rw [this, List.drop_append]
    have e0 : junk.drop (junk.length + (p + 9)) = [] := List.drop_eq_nil_of_le (by omega)
    have e2 : junk.length + (p + 9) - junk.length = p + 9 := by omega
    rw [e0, e2, List.nil_append]
  rw [hd]
  cases readInt (f.drop (p + 9)) with
  | error e => cases e <;> rfl
  | ok r =>
    obtain ⟨x, rest⟩ := r
    simp only [List.length_append]
    have e1 : ((junk.length + f.length : Nat) : Int) - ((junk.length + i : Nat) : Int) = (f.length : Int) - (i : Int) := by
      omega
    rw [e1]
    split
    · rfl
    · simp only [Except.ok.injEq]; omega

-- non-vacuity: 3 bytes of junk, then a 44-byte file whose startxref says 9
example : (match findXRef ([1, 2, 3] ++ bytesOfString "%PDF-1.4\nxref\n0 0\ntrailer<<>>\nstartxref\n9\n%%EOF") 3 with
    | .ok x => x == 12 | _ => false) = true := by decide +kernel

end PdfVerif.C04hise
